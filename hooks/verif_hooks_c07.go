//go:build verif

package twig

import "bytes"

// VerifMacroTextCall builds a macro whose body is one text node holding a variable reference (the expansion that
// renderVariableString performs, reachable through the exported node constructors) and calls it with value.
func VerifMacroTextCall(e *Engine, text string, value interface{}) (string, error) {
	body := []Node{NewTextNode(text, 1)}
	macro := NewMacroNode("verifm", []string{"value"}, nil, body, 1)
	ctx := NewRenderContext(e.environment, nil, e)
	defer ctx.Release()
	var buf bytes.Buffer
	err := macro.CallMacro(&buf, ctx, value)
	return buf.String(), err
}
