//go:build verif

// Verification hooks for C02 (add-only, compiled only with -tags verif).
package twig

// VerifC02ResetGlobalCaches empties the process-wide caches (the interned-string cache and the attribute
// cache) so that a repetition of a concurrent workload meets them cold. It must be called while no
// goroutine uses the engine.
func VerifC02ResetGlobalCaches() {
	fresh := newGlobalStringCache()
	globalCache.Lock()
	globalCache.strings = fresh.strings
	globalCache.Unlock()

	attributeCache.Lock()
	attributeCache.m = make(map[attributeCacheKey]attributeCacheEntry)
	attributeCache.currSize = 0
	attributeCache.Unlock()
}
