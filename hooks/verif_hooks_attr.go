//go:build verif

// Verification hooks for C20 (add-only, compiled only with -tags verif): the attribute cache of
// render.go is process-wide and unexported; the correspondence runner needs to start every lookup
// history from an empty cache and to observe the size accounting.
package twig

// VerifAttrCacheStats returns the number of entries of the attribute cache, its size counter and its limit.
func VerifAttrCacheStats() (entries, currSize, maxSize int) {
	attributeCache.RLock()
	defer attributeCache.RUnlock()
	return len(attributeCache.m), attributeCache.currSize, attributeCache.maxSize
}

// VerifAttrCacheReset empties the attribute cache.
func VerifAttrCacheReset() {
	attributeCache.Lock()
	defer attributeCache.Unlock()
	for k := range attributeCache.m {
		delete(attributeCache.m, k)
	}
	attributeCache.currSize = 0
}
