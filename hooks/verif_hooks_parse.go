//go:build verif

// Verification hooks for the expression lexer and parser (property C08). Add-only, compiled only
// with -tags verif. They expose, as canonical text, what the real tokenizer and the real parser
// build, so that the correspondence runner can compare trees exactly and not only values.
package twig

import (
	"encoding/hex"
	"fmt"
	"sort"
	"strconv"
	"strings"
)

// VerifExprTokens runs TokenizeExpression on src and returns one "kind:hexvalue" string per token
// (kind: name | number | string | operator | punctuation | other<N>).
func VerifExprTokens(src string) []string {
	t := GetTokenizer("", 0)
	defer ReleaseTokenizer(t)
	toks := t.TokenizeExpression(src)
	out := make([]string, 0, len(toks))
	for _, tk := range toks {
		out = append(out, verifTokKind(tk.Type)+":"+hex.EncodeToString([]byte(tk.Value)))
	}
	return out
}

func verifTokKind(t int) string {
	switch t {
	case TOKEN_NAME:
		return "name"
	case TOKEN_NUMBER:
		return "number"
	case TOKEN_STRING:
		return "string"
	case TOKEN_OPERATOR:
		return "operator"
	case TOKEN_PUNCTUATION:
		return "punctuation"
	}
	return "other" + strconv.Itoa(t)
}

// VerifExprTree parses the template `{{ src }}` with the real tokenizer and parser and returns the
// canonical S-expression of the printed expression. It is an error if the template does not consist
// of exactly one print tag.
func VerifExprTree(src string) (string, error) {
	trees, err := VerifTemplateExprTrees("{{ " + src + " }}")
	if err != nil {
		return "", err
	}
	if len(trees) != 1 || !strings.HasPrefix(trees[0], "print ") {
		return "", fmt.Errorf("verif: template is not a single print tag: %v", trees)
	}
	return strings.TrimPrefix(trees[0], "print "), nil
}

// VerifTemplateExprTrees parses a template and returns, in document order, one line
// "<position> <S-expression>" for every expression the parser attached to a node:
// print, if (each condition, the first is if, the others elseif), for (sequence), set, do,
// include (template, then each variable as include-var:<name>, names sorted), extends, import, from,
// apply arguments, macro defaults (sorted by parameter name).
func VerifTemplateExprTrees(source string) (out []string, err error) {
	defer func() {
		if r := recover(); r != nil {
			err = fmt.Errorf("PANIC: %v", r)
		}
	}()
	p := &Parser{}
	root, perr := p.Parse(source)
	if perr != nil {
		return nil, perr
	}
	rn, ok := root.(*RootNode)
	if !ok {
		return nil, fmt.Errorf("verif: root is %T", root)
	}
	verifWalkNodes(rn.children, &out)
	return out, nil
}

func verifWalkNodes(nodes []Node, out *[]string) {
	for _, n := range nodes {
		verifWalkNode(n, out)
	}
}

func verifWalkNode(n Node, out *[]string) {
	add := func(pos string, e Node) { *out = append(*out, pos+" "+VerifSexp(e)) }
	switch x := n.(type) {
	case *PrintNode:
		add("print", x.expression)
	case *IfNode:
		for i, c := range x.conditions {
			if i == 0 {
				add("if", c)
			} else {
				add("elseif", c)
			}
			if i < len(x.bodies) {
				verifWalkNodes(x.bodies[i], out)
			}
		}
		verifWalkNodes(x.elseBranch, out)
	case *ForNode:
		add("for", x.sequence)
		verifWalkNodes(x.body, out)
		verifWalkNodes(x.elseBranch, out)
	case *SetNode:
		add("set", x.value)
	case *DoNode:
		add("do", x.expression)
	case *IncludeNode:
		add("include", x.template)
		names := make([]string, 0, len(x.variables))
		for k := range x.variables {
			names = append(names, k)
		}
		sort.Strings(names)
		for _, k := range names {
			add("include-var:"+k, x.variables[k])
		}
	case *ExtendsNode:
		add("extends", x.parent)
	case *ImportNode:
		add("import", x.template)
	case *FromImportNode:
		add("from", x.template)
	case *BlockNode:
		verifWalkNodes(x.body, out)
	case *MacroNode:
		names := make([]string, 0, len(x.defaults))
		for k := range x.defaults {
			names = append(names, k)
		}
		sort.Strings(names)
		for _, k := range names {
			add("macro-default:"+k, x.defaults[k])
		}
		verifWalkNodes(x.body, out)
	case *ApplyNode:
		for _, a := range x.args {
			add("apply-arg", a)
		}
		verifWalkNodes(x.body, out)
	case *RootNode:
		verifWalkNodes(x.children, out)
	}
}

// VerifSexp is the canonical S-expression of an expression node. Strings are hex encoded; the pairs
// of a hash literal are in source order.
func VerifSexp(n Node) string {
	if n == nil {
		return "(nil)"
	}
	list := func(ns []Node) string {
		var b strings.Builder
		for _, a := range ns {
			b.WriteString(" ")
			b.WriteString(VerifSexp(a))
		}
		return b.String()
	}
	switch x := n.(type) {
	case *LiteralNode:
		switch v := x.value.(type) {
		case nil:
			return "(null)"
		case bool:
			return "(bool " + strconv.FormatBool(v) + ")"
		case int:
			return "(int " + strconv.Itoa(v) + ")"
		case float64:
			return "(float " + strconv.FormatFloat(v, 'g', -1, 64) + ")"
		case string:
			return "(str " + hex.EncodeToString([]byte(v)) + ")"
		default:
			return fmt.Sprintf("(lit-other %T)", v)
		}
	case *VariableNode:
		return "(var " + x.name + ")"
	case *GetAttrNode:
		if l, ok := x.attribute.(*LiteralNode); ok {
			if s, ok := l.value.(string); ok {
				return "(attr " + VerifSexp(x.node) + " " + s + ")"
			}
		}
		return "(attrx " + VerifSexp(x.node) + " " + VerifSexp(x.attribute) + ")"
	case *GetItemNode:
		return "(item " + VerifSexp(x.node) + " " + VerifSexp(x.item) + ")"
	case *UnaryNode:
		return "(un " + strings.ReplaceAll(x.operator, " ", "_") + " " + VerifSexp(x.node) + ")"
	case *BinaryNode:
		return "(bin " + strings.ReplaceAll(x.operator, " ", "_") + " " + VerifSexp(x.left) + " " + VerifSexp(x.right) + ")"
	case *ConditionalNode:
		return "(cond " + VerifSexp(x.condition) + " " + VerifSexp(x.trueExpr) + " " + VerifSexp(x.falseExpr) + ")"
	case *ArrayNode:
		return "(arr" + list(x.items) + ")"
	case *HashNode:
		// pairs in source order (HashNode.order, kept by the parser); sorted when that record is incomplete
		pairs := make([]string, 0, len(x.items))
		if len(x.order) == len(x.items) {
			for _, k := range x.order {
				pairs = append(pairs, "("+VerifSexp(k)+" "+VerifSexp(x.items[k])+")")
			}
		} else {
			for k, v := range x.items {
				pairs = append(pairs, "("+VerifSexp(k)+" "+VerifSexp(v)+")")
			}
			sort.Strings(pairs)
		}
		if len(pairs) == 0 {
			return "(hash)"
		}
		return "(hash " + strings.Join(pairs, " ") + ")"
	case *FilterNode:
		return "(filter " + VerifSexp(x.node) + " " + x.filter + list(x.args) + ")"
	case *FunctionNode:
		if x.moduleExpr != nil {
			return "(modcall " + VerifSexp(x.moduleExpr) + " " + x.name + list(x.args) + ")"
		}
		return "(call " + x.name + list(x.args) + ")"
	case *TestNode:
		return "(test " + VerifSexp(x.node) + " " + x.test + list(x.args) + ")"
	}
	return fmt.Sprintf("(other %T)", n)
}
