//go:build verif

// Verification hooks for property C01 (object pools). Add-only, compiled only with -tags verif.
//
//	VerifPoisonPools(seed)        put junk objects on top of every sync.Pool of the package: the executable
//	                              counterpart of the adversarial reuse oracle of Model/Pool.v. Every field of a
//	                              junk object holds garbage (dirty maps with entries named like template
//	                              variables, flags set, non-empty slices, stale pointers to junk nodes), except
//	                              what the release side of the code itself guarantees about pooled objects:
//	                              fields that only Release<T> clears (verifReleaseOnlyFields) stay zero and the
//	                              bare map pools of render.go receive emptied maps.
//	VerifPoisonPoolsStrict(seed)  the same without those two exceptions (states the code cannot produce itself)
//	VerifDrainPools()             empty every pool
//	VerifPooledPointers()         drain every pool holding pointers or maps, record the addresses, put everything back
//	VerifCachedNodePointers(e)    the addresses of all node objects reachable from e.templates
//
// sync.Pool has no enumeration: a pool is drained by calling Get with New temporarily nil until nil comes
// back. That sees the private slot and the shared list of the current P, the shared lists of the other Ps
// and the victim cache, but not the private slots of other Ps: the runner sets GOMAXPROCS(1).
package twig

import (
	"bytes"
	"fmt"
	"math/rand"
	"reflect"
	"sort"
	"sync"
	"unsafe"
)

type verifPool struct {
	name string
	pool *sync.Pool
	// bare map pool of render.go: acquisition does not empty what it takes from here
	bareMap bool
}

func verifPools() []verifPool {
	return []verifPool{
		{"TextNodePool", &TextNodePool, false}, {"PrintNodePool", &PrintNodePool, false}, {"RootNodePool", &RootNodePool, false},
		{"TokenPool", &TokenPool, false}, {"IfNodePool", &IfNodePool, false}, {"ForNodePool", &ForNodePool, false},
		{"NodeSlicePool", &NodeSlicePool, false}, {"TokenSlicePool", &TokenSlicePool, false},
		{"BlockNodePool", &BlockNodePool, false}, {"ExtendsNodePool", &ExtendsNodePool, false}, {"IncludeNodePool", &IncludeNodePool, false},
		{"SetNodePool", &SetNodePool, false}, {"CommentNodePool", &CommentNodePool, false}, {"MacroNodePool", &MacroNodePool, false},
		{"ImportNodePool", &ImportNodePool, false}, {"FromImportNodePool", &FromImportNodePool, false},
		{"VerbatimNodePool", &VerbatimNodePool, false}, {"DoNodePool", &DoNodePool, false}, {"ApplyNodePool", &ApplyNodePool, false},
		{"BinaryNodePool", &BinaryNodePool, false}, {"GetAttrNodePool", &GetAttrNodePool, false}, {"GetItemNodePool", &GetItemNodePool, false},
		{"FilterNodePool", &FilterNodePool, false}, {"TestNodePool", &TestNodePool, false}, {"UnaryNodePool", &UnaryNodePool, false},
		{"ConditionalNodePool", &ConditionalNodePool, false}, {"ArrayNodePool", &ArrayNodePool, false}, {"HashNodePool", &HashNodePool, false},
		{"FunctionNodePool", &FunctionNodePool, false}, {"VariableNodePool", &VariableNodePool, false}, {"LiteralNodePool", &LiteralNodePool, false},
		{"smallArgSlicePool", &smallArgSlicePool, false}, {"mediumArgSlicePool", &mediumArgSlicePool, false}, {"largeArgSlicePool", &largeArgSlicePool, false},
		{"smallHashMapPool", &smallHashMapPool, false}, {"mediumHashMapPool", &mediumHashMapPool, false},
		{"TokenBufferPool", &TokenBufferPool, false}, {"SmallTokenBufferPool", &SmallTokenBufferPool, false},
		{"MediumTokenBufferPool", &MediumTokenBufferPool, false}, {"LargeTokenBufferPool", &LargeTokenBufferPool, false},
		{"globalBufferPool", &globalBufferPool.pool, false}, {"bytesBufferPool", &bytesBufferPool, false},
		{"stringBufferPool", &stringBufferPool, false}, {"tokenizerPool", &tokenizerPool, false},
		// the map pools come before the context pool: renderContextPool.New takes maps from them
		{"contextMapPool", &contextMapPool, true}, {"blocksMapPool", &blocksMapPool, true}, {"macrosMapPool", &macrosMapPool, true},
		{"renderContextPool", &renderContextPool, false},
	}
}

// VerifPoolNames lists the pools the hooks know, so that the runner can report them.
func VerifPoolNames() []string {
	var n []string
	for _, p := range verifPools() {
		n = append(n, p.name)
	}
	return n
}

// fields that no acquisition function assigns and only the release function clears (Gen/PoolCalls.v,
// theorem C01_pool_discipline_tables): a pooled object the code produced itself has them zero
var verifReleaseOnlyFields = map[string]map[string]bool{"FunctionNode": {"moduleExpr": true}}

var verifNodeIface = reflect.TypeOf((*Node)(nil)).Elem()

type verifJunker struct {
	r *rand.Rand
	// strict: garbage also in the fields only the release functions clear
	strict bool
	// dirtyMaps: dirty maps also in the bare map pools of render.go
	dirtyMaps bool
	n         int
}

func (j *verifJunker) str(prefix string) string {
	j.n++
	return fmt.Sprintf("%s%d", prefix, j.n)
}

// junkNode is a small tree of nodes that belongs to nobody: what a stale pointer points to.
func (j *verifJunker) junkNode(depth int) Node {
	switch j.r.Intn(4) {
	case 0:
		return &TextNode{content: j.str("JUNKTEXT"), line: 7000}
	case 1:
		return &PrintNode{expression: &LiteralNode{ExpressionNode: ExpressionNode{exprType: ExprLiteral, line: 7001}, value: j.str("JUNKLIT")}, line: 7001}
	case 2:
		if depth < 2 {
			return &BlockNode{name: "b1", body: []Node{j.junkNode(depth + 1)}, line: 7002}
		}
		return &VerbatimNode{content: j.str("JUNKVERB"), line: 7002}
	default:
		return &MacroNode{name: "m1", params: []string{"v0"}, body: []Node{&TextNode{content: j.str("JUNKMACRO"), line: 7003}}, line: 7003}
	}
}

// names that generated templates use, so that a dirty map shows up in an output
var verifVarNames = []string{"v0", "v1", "v2", "v3", "loop", "q"}
var verifBlockNames = []string{"b1", "b2", "b3"}
var verifMacroNames = []string{"m1", "m2", "m5"}

func (j *verifJunker) keyFor(t reflect.Type, i int) reflect.Value {
	if t.Kind() == reflect.String {
		return reflect.ValueOf(verifVarNames[i%len(verifVarNames)]).Convert(t)
	}
	return j.value(t, 3, "")
}

// value builds a garbage value of type t.
func (j *verifJunker) value(t reflect.Type, depth int, field string) reflect.Value {
	switch t.Kind() {
	case reflect.String:
		return reflect.ValueOf(j.str("JUNK")).Convert(t)
	case reflect.Int, reflect.Int8, reflect.Int16, reflect.Int32, reflect.Int64:
		return reflect.ValueOf(int64(7000 + j.r.Intn(100))).Convert(t)
	case reflect.Uint, reflect.Uint8, reflect.Uint16, reflect.Uint32, reflect.Uint64:
		return reflect.ValueOf(uint64(70 + j.r.Intn(100))).Convert(t)
	case reflect.Bool:
		return reflect.ValueOf(true).Convert(t)
	case reflect.Float32, reflect.Float64:
		return reflect.ValueOf(7000.5).Convert(t)
	case reflect.Interface:
		if t == verifNodeIface {
			return reflect.ValueOf(j.junkNode(depth)).Convert(t)
		}
		if t.NumMethod() == 0 {
			return reflect.ValueOf(j.str("JUNKVAL")).Convert(t)
		}
		return reflect.Zero(t)
	case reflect.Slice:
		if t.Elem().Kind() == reflect.Uint8 {
			b := append(make([]byte, 0, 64), []byte(j.str("JUNKBYTES"))...)
			return reflect.ValueOf(b).Convert(t)
		}
		s := reflect.MakeSlice(t, 2, 4)
		for i := 0; i < 2; i++ {
			s.Index(i).Set(j.value(t.Elem(), depth+1, ""))
		}
		return s
	case reflect.Map:
		m := reflect.MakeMap(t)
		names := verifVarNames
		switch field {
		case "blocks", "parentBlocks", "blockChain":
			names = verifBlockNames
		case "macros":
			names = verifMacroNames
		}
		for i := 0; i < len(names); i++ {
			var k reflect.Value
			if t.Key().Kind() == reflect.String {
				k = reflect.ValueOf(names[i]).Convert(t.Key())
			} else {
				k = j.keyFor(t.Key(), i)
			}
			m.SetMapIndex(k, j.value(t.Elem(), depth+1, ""))
		}
		return m
	case reflect.Ptr:
		if depth > 3 {
			return reflect.Zero(t)
		}
		et := t.Elem()
		switch et {
		case reflect.TypeOf(Engine{}):
			e := &Engine{templates: map[string]*Template{}, environment: j.junkEnv()}
			return reflect.ValueOf(e)
		case reflect.TypeOf(Environment{}):
			return reflect.ValueOf(j.junkEnv())
		case reflect.TypeOf(Template{}):
			return reflect.ValueOf(&Template{name: "junkdir/" + j.str("junk") + ".twig", source: "JUNKSRC", nodes: &RootNode{children: []Node{j.junkNode(1)}, line: 7004}})
		case reflect.TypeOf(bytes.Buffer{}):
			return reflect.ValueOf(bytes.NewBufferString(j.str("JUNKBUF")))
		}
		if et.PkgPath() != reflect.TypeOf(Engine{}).PkgPath() && et.Kind() == reflect.Struct {
			return reflect.New(et) // foreign struct: zero value
		}
		p := reflect.New(et)
		j.fill(p.Elem(), depth+1)
		return p
	case reflect.Struct:
		v := reflect.New(t).Elem()
		j.fill(v, depth+1)
		return v
	}
	return reflect.Zero(t) // func, chan, unsafe pointers, uintptr, arrays: left zero
}

func (j *verifJunker) junkEnv() *Environment {
	return &Environment{
		globals:   map[string]interface{}{"v1": "JUNKGLOBAL1", "v2": "JUNKGLOBAL2", "v3": "JUNKGLOBAL3"},
		filters:   map[string]FilterFunc{},
		functions: map[string]FunctionFunc{},
		tests:     map[string]TestFunc{},
		operators: map[string]OperatorFunc{},
		sandbox:   true,
	}
}

// fill writes garbage into every field of the addressable struct v.
func (j *verifJunker) fill(v reflect.Value, depth int) {
	t := v.Type()
	switch t {
	case reflect.TypeOf(bytes.Buffer{}):
		reflect.NewAt(t, unsafe.Pointer(v.UnsafeAddr())).Elem().Set(reflect.ValueOf(*bytes.NewBufferString(j.str("JUNKBUF"))))
		return
	}
	if t.PkgPath() == "sync" || t.PkgPath() == "sync/atomic" {
		return
	}
	for i := 0; i < t.NumField(); i++ {
		f := t.Field(i)
		if !j.strict && verifReleaseOnlyFields[t.Name()][f.Name] {
			continue
		}
		fv := v.Field(i)
		w := reflect.NewAt(f.Type, unsafe.Pointer(fv.UnsafeAddr())).Elem()
		if f.Type.Kind() == reflect.Struct {
			j.fill(w, depth)
			continue
		}
		// half of the pooled contexts have nil maps (what Release leaves), half of them dirty ones
		if t == reflect.TypeOf(RenderContext{}) && f.Type.Kind() == reflect.Map && j.r.Intn(2) == 0 {
			continue
		}
		w.Set(j.value(f.Type, depth, f.Name))
	}
}

// junkFor builds one garbage object of the kind the pool holds (the type its New function returns).
func (j *verifJunker) junkFor(p verifPool, proto interface{}) interface{} {
	t := reflect.TypeOf(proto)
	switch t.Kind() {
	case reflect.Ptr:
		et := t.Elem()
		switch et.Kind() {
		case reflect.Struct:
			if et == reflect.TypeOf(bytes.Buffer{}) {
				return bytes.NewBufferString(j.str("JUNKBUF"))
			}
			o := reflect.New(et)
			j.fill(o.Elem(), 0)
			return o.Interface()
		case reflect.Slice:
			o := reflect.New(et)
			o.Elem().Set(j.value(et, 0, ""))
			return o.Interface()
		}
	case reflect.Slice:
		// argument slices are pooled by capacity (2, 5, 10): same capacity as a genuine one, dirty content
		c := reflect.ValueOf(proto).Cap()
		s := reflect.MakeSlice(t, c, c)
		for i := 0; i < c; i++ {
			s.Index(i).Set(j.value(t.Elem(), 1, ""))
		}
		return s.Interface()
	case reflect.Map:
		m := j.value(t, 0, "").Interface()
		if p.bareMap && !j.dirtyMaps {
			// a map that was used and emptied, which is all the release side ever puts here
			mv := reflect.ValueOf(m)
			for _, k := range mv.MapKeys() {
				mv.SetMapIndex(k, reflect.Value{})
			}
		}
		return m
	}
	return nil
}

func verifPoison(seed int64, strict, dirtyMaps bool, perPool int) int {
	j := &verifJunker{r: rand.New(rand.NewSource(seed)), strict: strict, dirtyMaps: dirtyMaps}
	n := 0
	for _, p := range verifPools() {
		if p.pool.New == nil {
			continue
		}
		// the prototype only tells the type of the objects of this pool; it is dropped
		proto := p.pool.New()
		for i := 0; i < perPool; i++ {
			if o := j.junkFor(p, proto); o != nil {
				p.pool.Put(o)
				n++
			}
		}
	}
	return n
}

// VerifPoisonPools puts junk objects on top of every pool (see the file comment); returns how many.
func VerifPoisonPools(seed int64) int { return verifPoison(seed, false, false, 3) }

// VerifPoisonPoolsStrict also fills the fields and pools whose cleanliness the release side guarantees.
func VerifPoisonPoolsStrict(seed int64) int { return verifPoison(seed, true, true, 3) }

// VerifPoisonPoolsWith chooses the two exceptions separately: garbage in the release-only fields, dirty maps in the
// bare map pools.
func VerifPoisonPoolsWith(seed int64, releaseOnlyFields, dirtyBareMaps bool) int {
	return verifPoison(seed, releaseOnlyFields, dirtyBareMaps, 3)
}

func verifDrain(p *sync.Pool) []interface{} {
	saved := p.New
	p.New = nil
	var objs []interface{}
	for {
		o := p.Get()
		if o == nil {
			break
		}
		objs = append(objs, o)
		if len(objs) > 1<<20 {
			break
		}
	}
	p.New = saved
	return objs
}

// VerifDrainPools empties every pool and returns the number of objects dropped.
func VerifDrainPools() int {
	n := 0
	for _, p := range verifPools() {
		n += len(verifDrain(p.pool))
	}
	return n
}

func verifAddr(o interface{}) (uintptr, bool) {
	v := reflect.ValueOf(o)
	switch v.Kind() {
	case reflect.Ptr, reflect.Map, reflect.UnsafePointer:
		return v.Pointer(), true
	}
	return 0, false
}

// VerifPooledPointers drains every pool, records the address of every pointer or map it held, and puts
// everything back in the original order. Keys are pool names.
func VerifPooledPointers() map[string][]uintptr {
	res := map[string][]uintptr{}
	for _, p := range verifPools() {
		objs := verifDrain(p.pool)
		for _, o := range objs {
			if a, ok := verifAddr(o); ok {
				res[p.name] = append(res[p.name], a)
			}
		}
		// Get order was: private slot, then the shared list from its head. The first Put refills the
		// private slot, the others are pushed so that objs[1] ends up at the head again.
		if len(objs) > 0 {
			p.pool.Put(objs[0])
		}
		for i := len(objs) - 1; i >= 1; i-- {
			p.pool.Put(objs[i])
		}
	}
	return res
}

// VerifCachedNodePointers returns the addresses of all objects reachable through node pointers from the
// templates the engine holds (every pointer to a struct of this package met on the way), sorted.
func VerifCachedNodePointers(e *Engine) []uintptr {
	seen := map[uintptr]bool{}
	pkg := reflect.TypeOf(Engine{}).PkgPath()
	var walk func(v reflect.Value, depth int)
	walk = func(v reflect.Value, depth int) {
		if depth > 200 || !v.IsValid() {
			return
		}
		switch v.Kind() {
		case reflect.Interface:
			if !v.IsNil() {
				walk(v.Elem(), depth+1)
			}
		case reflect.Ptr:
			if v.IsNil() {
				return
			}
			et := v.Type().Elem()
			if et.Kind() != reflect.Struct || et.PkgPath() != pkg {
				return
			}
			switch et {
			case reflect.TypeOf(Engine{}), reflect.TypeOf(Environment{}), reflect.TypeOf(Template{}), reflect.TypeOf(RenderContext{}):
				return
			}
			a := v.Pointer()
			if seen[a] {
				return
			}
			seen[a] = true
			walk(v.Elem(), depth+1)
		case reflect.Struct:
			for i := 0; i < v.NumField(); i++ {
				walk(v.Field(i), depth+1)
			}
		case reflect.Slice, reflect.Array:
			for i := 0; i < v.Len(); i++ {
				walk(v.Index(i), depth+1)
			}
		case reflect.Map:
			it := v.MapRange()
			for it.Next() {
				walk(it.Key(), depth+1)
				walk(it.Value(), depth+1)
			}
		}
	}
	e.mu.RLock()
	for _, t := range e.templates {
		if t != nil && t.nodes != nil {
			walk(reflect.ValueOf(t.nodes), 0)
		}
	}
	e.mu.RUnlock()
	out := make([]uintptr, 0, len(seen))
	for a := range seen {
		out = append(out, a)
	}
	sort.Slice(out, func(i, k int) bool { return out[i] < out[k] })
	return out
}
