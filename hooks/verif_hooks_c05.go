//go:build verif

// Verification hooks for C05 (add-only, compiled only with -tags verif): run the block-tag layer of
// the parser and parseExpression on a GIVEN token list, so that the token-index model
// (coq/theories/Model/BlockParser.v) is compared with the code on identical inputs.
package twig

import (
	"fmt"
	"strings"
)

// VerifParseTokens runs parseOuterTemplate from index 0 on toks. It returns the shape of the nodes
// built, the final token index, the error, and the recovered panic value ("" when none).
func VerifParseTokens(toks []Token) (shape string, idx int, err error, panicked string) {
	p := &Parser{tokens: toks, line: 1}
	p.initBlockHandlers()
	defer func() {
		if r := recover(); r != nil {
			panicked = fmt.Sprint(r)
			idx = p.tokenIndex
		}
	}()
	nodes, e := p.parseOuterTemplate()
	if e != nil {
		return "", p.tokenIndex, e, ""
	}
	return verifShapeList(nodes), p.tokenIndex, nil, ""
}

// VerifExprExtent runs parseExpression at index i of toks: the index it stops at, or -1 on error,
// or -2 with the panic value when it panics.
func VerifExprExtent(toks []Token, i int) (j int, panicked string) {
	p := &Parser{tokens: toks, tokenIndex: i, line: 1}
	p.initBlockHandlers()
	defer func() {
		if r := recover(); r != nil {
			panicked = fmt.Sprint(r)
			j = -2
		}
	}()
	_, e := p.parseExpression()
	if e != nil {
		return -1, ""
	}
	return p.tokenIndex, ""
}

func verifShapeList(ns []Node) string {
	var b strings.Builder
	for i, n := range ns {
		if i > 0 {
			b.WriteByte(' ')
		}
		b.WriteString(verifShape(n))
	}
	return b.String()
}

func verifShape(n Node) string {
	switch x := n.(type) {
	case *TextNode:
		return "T"
	case *PrintNode:
		return "P"
	case *SetNode:
		return "S"
	case *DoNode:
		return "D"
	case *ExtendsNode:
		return "X"
	case *IncludeNode:
		return "I"
	case *ImportNode:
		return "M"
	case *FromImportNode:
		return "F"
	case *VerbatimNode:
		return "V"
	case *IfNode:
		var b strings.Builder
		b.WriteString("(if")
		for _, body := range x.bodies {
			b.WriteString(" [" + verifShapeList(body) + "]")
		}
		if x.elseBranch != nil {
			b.WriteString(" else[" + verifShapeList(x.elseBranch) + "]")
		}
		b.WriteString(")")
		return b.String()
	case *ForNode:
		s := "(for [" + verifShapeList(x.body) + "]"
		if x.elseBranch != nil {
			s += " else[" + verifShapeList(x.elseBranch) + "]"
		}
		return s + ")"
	case *BlockNode:
		return "(block [" + verifShapeList(x.body) + "])"
	case *MacroNode:
		return "(macro [" + verifShapeList(x.body) + "])"
	case *ApplyNode:
		return "(apply [" + verifShapeList(x.body) + "])"
	case *SpacelessNode:
		return "(spaceless [" + verifShapeList(x.body) + "])"
	}
	return fmt.Sprintf("?%T", n)
}
