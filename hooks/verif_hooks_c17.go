//go:build verif

package twig

import (
	"reflect"
	"strings"
)

// VerifC17DeadSites parses source and reports the node shapes that would reach the two error-discarding code
// paths of the renderer that no tokenised template is believed to reach:
//
//   - a VariableNode whose name contains "|" (ForNode.Render, the items|sort workaround: the filter's error is dropped),
//   - a TextNode whose content holds "{{" followed by "}}" (MacroNode.CallMacro hands such a text node to
//     renderVariableString, whose filter fallback drops the filter's error).
//
// Both lists are expected to be empty for every source: names are NAME tokens (identifier characters), and the
// scanners emit a TEXT token containing an opener only for an escaped opener, as the separate token "{{" / "{{-".
func VerifC17DeadSites(source string) (barNames []string, varTexts []string, err error) {
	parser := &Parser{}
	root, err := parser.Parse(source)
	if err != nil {
		return nil, nil, err
	}
	varT, textT := reflect.TypeOf(&VariableNode{}), reflect.TypeOf(&TextNode{})
	seen := map[uintptr]bool{}
	var walk func(v reflect.Value, depth int)
	walk = func(v reflect.Value, depth int) {
		if depth > 10000 {
			return
		}
		switch v.Kind() {
		case reflect.Interface:
			if !v.IsNil() {
				walk(v.Elem(), depth+1)
			}
		case reflect.Ptr:
			if v.IsNil() || seen[v.Pointer()] {
				return
			}
			seen[v.Pointer()] = true
			switch v.Type() {
			case varT:
				if name := v.Elem().FieldByName("name").String(); strings.Contains(name, "|") {
					barNames = append(barNames, name)
				}
			case textT:
				content := v.Elem().FieldByName("content").String()
				if i := strings.Index(content, "{{"); i >= 0 && strings.Contains(content[i:], "}}") {
					varTexts = append(varTexts, content)
				}
			}
			walk(v.Elem(), depth+1)
		case reflect.Struct:
			for i := 0; i < v.NumField(); i++ {
				walk(v.Field(i), depth+1)
			}
		case reflect.Slice, reflect.Array:
			for i := 0; i < v.Len(); i++ {
				walk(v.Index(i), depth+1)
			}
		case reflect.Map:
			it := v.MapRange()
			for it.Next() {
				walk(it.Key(), depth+1)
				walk(it.Value(), depth+1)
			}
		}
	}
	walk(reflect.ValueOf(root), 0)
	return barNames, varTexts, nil
}
