//go:build verif

// Verification hooks (add-only, compiled only with -tags verif). Helpers that need access to
// unexported parts of package twig; nothing here is reachable from a normal build.
package twig

// VerifConvertDateFormat exposes the PHP-to-Go date format conversion.
func VerifConvertDateFormat(format string) string { return convertDateFormat(format) }
