(* Prototype of the shared evaluator shape: fuel, state-passing context, invocation trace.
   Two proof patterns on it:
   (1) trace invariant  — sandbox confinement (C06): in a sandboxed context no disallowed filter is invoked;
   (2) refinement       — the imperative for-loop (shared mutable variables, loop counters written per
                          iteration, restored afterwards) equals the declarative "once per element" spec (C09).
   Design lesson recorded in DESIGN.md: recursion is on fuel only; every traversal of a list of
   sub-terms is a separate top-level function that takes the lower-fuel evaluator as an argument, so
   each gets its own lemma and no anonymous inner fix appears in a proof. *)
From Coq Require Import List Arith ZArith Lia Bool.
Import ListNotations.

Section EV.

(* ---------- syntax ---------- *)
Inductive expr :=
| Lit (z : Z) | Var (x : nat)
| Add (a b : expr)
| Filter (e : expr) (f : nat)
| Arr (es : list expr).
Inductive node :=
| Text (s : list nat)
| Print (e : expr)
| Set_ (x : nat) (e : expr)
| For (x : nat) (seq : expr) (body : list node)
| Include (t : nat) (only sandboxed : bool).

Inductive value := VNull | VInt (z : Z) | VList (xs : list value).

(* ---------- environment: user callbacks and policy are section variables ---------- *)
Variable filter_fun : nat -> value -> option value.     (* None = the callback fails *)
Variable allow : nat -> bool.                           (* security policy *)
Variable templates : nat -> option (list node).

Record ctx := { vars : list (nat * value); sandboxed : bool }.
Definition lookup (c : ctx) (x : nat) : value :=
  match find (fun p => Nat.eqb (fst p) x) (vars c) with Some p => snd p | None => VNull end.
Definition setv (c : ctx) (x : nat) (v : value) : ctx :=
  {| vars := (x, v) :: vars c; sandboxed := sandboxed c |}.

Inductive err := ESecurity | ECallback | ENotFound | EType.
Inductive outcome (A : Type) := Ok (a : A) | Err (e : err) | OutOfFuel.
Arguments Ok {A}. Arguments Err {A}. Arguments OutOfFuel {A}.

Definition trace := list nat.      (* filters actually invoked, in order *)

Definition LOOP_INDEX := 1000.
Definition LOOP_LAST := 1001.

(* ---------- the choke point: every filter application goes through here ---------- *)
Definition apply_filter (c : ctx) (f : nat) (v : value) : outcome value * trace :=
  if sandboxed c && negb (allow f) then (Err ESecurity, [])
  else match filter_fun f v with
       | Some r => (Ok r, [f])
       | None => (Err ECallback, [f])
       end.

(* list traversal, parameterised by the evaluator for one element *)
Fixpoint eval_list (ev : expr -> outcome value * trace) (es : list expr) : outcome (list value) * trace :=
  match es with
  | [] => (Ok [], [])
  | e1 :: rest =>
      match ev e1 with
      | (Ok v, t1) => match eval_list ev rest with
                      | (Ok vs, t2) => (Ok (v :: vs), t1 ++ t2)
                      | (Err x, t2) => (Err x, t1 ++ t2)
                      | (OutOfFuel, t2) => (OutOfFuel, t1 ++ t2)
                      end
      | (Err x, t1) => (Err x, t1)
      | (OutOfFuel, t1) => (OutOfFuel, t1)
      end
  end.

Fixpoint eval (fuel : nat) (c : ctx) (e : expr) {struct fuel} : outcome value * trace :=
  match fuel with 0 => (OutOfFuel, []) | S fu =>
    match e with
    | Lit z => (Ok (VInt z), [])
    | Var x => (Ok (lookup c x), [])
    | Add a b =>
        match eval fu c a with
        | (Ok (VInt x), t1) =>
            match eval fu c b with
            | (Ok (VInt y), t2) => (Ok (VInt (x + y)), t1 ++ t2)
            | (Ok _, t2) => (Err EType, t1 ++ t2)
            | (r, t2) => (r, t1 ++ t2)
            end
        | (Ok _, t1) => (Err EType, t1)
        | r => r
        end
    | Filter e' f =>
        match eval fu c e' with
        | (Ok v, t1) => let '(r, t2) := apply_filter c f v in (r, t1 ++ t2)
        | r => r
        end
    | Arr es =>
        match eval_list (eval fu c) es with
        | (Ok vs, t) => (Ok (VList vs), t)
        | (Err x, t) => (Err x, t)
        | (OutOfFuel, t) => (OutOfFuel, t)
        end
    end
  end.

Inductive chunk := CText (s : list nat) | CVal (v : value).
Definition rres := (outcome (list chunk) * ctx * trace)%type.

(* the imperative loop of renderForLoop: one SHARED context threaded through the iterations *)
Fixpoint loop_items (rend : ctx -> rres) (x : nat) (n_items : nat) (i : nat) (xs : list value) (c : ctx) : rres :=
  match xs with
  | [] => (Ok [], c, [])
  | v :: xs' =>
      let c1 := setv (setv (setv c x v) LOOP_INDEX (VInt (Z.of_nat (S i))))
                     LOOP_LAST (VInt (if Nat.eqb (S i) n_items then 1 else 0)) in
      match rend c1 with
      | (Ok o1, c2, t1) =>
          match loop_items rend x n_items (S i) xs' c2 with
          | (Ok o2, c3, t2) => (Ok (o1 ++ o2), c3, t1 ++ t2)
          | (r, c3, t2) => (r, c3, t1 ++ t2)
          end
      | r => r
      end
  end.

Definition render_node (ev : ctx -> expr -> outcome value * trace) (rend : ctx -> list node -> rres)
           (c : ctx) (n : node) : rres :=
  match n with
  | Text s => (Ok [CText s], c, [])
  | Print e => match ev c e with
               | (Ok v, t) => (Ok [CVal v], c, t)
               | (Err x, t) => (Err x, c, t)
               | (OutOfFuel, t) => (OutOfFuel, c, t)
               end
  | Set_ x e => match ev c e with
                | (Ok v, t) => (Ok [], setv c x v, t)
                | (Err x', t) => (Err x', c, t)
                | (OutOfFuel, t) => (OutOfFuel, c, t)
                end
  | For x seq body =>
      match ev c seq with
      | (Ok (VList xs), t0) =>
          let saved_index := lookup c LOOP_INDEX in
          let saved_last := lookup c LOOP_LAST in
          let '(r, c', t) := loop_items (fun c0 => rend c0 body) x (length xs) 0 xs c in
          (r, setv (setv c' LOOP_INDEX saved_index) LOOP_LAST saved_last, t0 ++ t)
      | (Ok _, t0) => (Ok [], c, t0)
      | (Err x', t0) => (Err x', c, t0)
      | (OutOfFuel, t0) => (OutOfFuel, c, t0)
      end
  | Include t only sb =>
      match templates t with
      | None => (Err ENotFound, c, [])
      | Some body =>
          let c' := {| vars := if only then [] else vars c; sandboxed := sandboxed c || sb |} in
          match rend c' body with
          | (r, _, t) => (r, c, t)                 (* the includer's context is untouched *)
          end
      end
  end.

Fixpoint render (fuel : nat) (c : ctx) (ns : list node) {struct fuel} : rres :=
  match fuel with 0 => (OutOfFuel, c, []) | S fu =>
    match ns with
    | [] => (Ok [], c, [])
    | n :: rest =>
        match render_node (eval fu) (render fu) c n with
        | (Ok o1, c1, t1) =>
            match render fu c1 rest with
            | (Ok o2, c2, t2) => (Ok (o1 ++ o2), c2, t1 ++ t2)
            | (r, c2, t2) => (r, c2, t1 ++ t2)
            end
        | r => r
        end
    end
  end.

(* =====================  (1) trace invariant: sandbox confinement  ===================== *)

Definition allowed_trace (t : trace) := Forall (fun f => allow f = true) t.

Lemma allowed_app t1 t2 : allowed_trace t1 -> allowed_trace t2 -> allowed_trace (t1 ++ t2).
Proof. intros. apply Forall_app; auto. Qed.

Lemma apply_filter_confined c f v r t :
  sandboxed c = true -> apply_filter c f v = (r, t) -> allowed_trace t.
Proof.
  unfold apply_filter. intros Hs H. rewrite Hs in H. cbn [andb] in H.
  destruct (allow f) eqn:Ea; cbn [negb] in H.
  - destruct (filter_fun f v); inversion H; subst; repeat constructor; exact Ea.
  - inversion H; subst. constructor.
Qed.

Lemma eval_list_confined (ev : expr -> outcome value * trace) :
  (forall e r t, ev e = (r, t) -> allowed_trace t) ->
  forall es r t, eval_list ev es = (r, t) -> allowed_trace t.
Proof.
  intros Hev. induction es as [|e1 rest IH]; intros r t H; cbn [eval_list] in H.
  - inversion H; subst; constructor.
  - destruct (ev e1) as [r1 t1] eqn:E1. pose proof (Hev _ _ _ E1) as H1.
    destruct r1 as [v|x|]; try (inversion H; subst; exact H1).
    destruct (eval_list ev rest) as [rg tg] eqn:Eg. pose proof (IH _ _ eq_refl) as Hg.
    destruct rg; inversion H; subst; apply allowed_app; auto.
Qed.

Lemma eval_confined : forall fuel c e r t,
  sandboxed c = true -> eval fuel c e = (r, t) -> allowed_trace t.
Proof.
  induction fuel as [|fu IH]; intros c e r t Hs H.
  - inversion H; subst. constructor.
  - destruct e as [z|x|a b|e' f|es]; cbn [eval] in H.
    + inversion H; subst; constructor.
    + inversion H; subst; constructor.
    + destruct (eval fu c a) as [ra ta] eqn:Ea. pose proof (IH _ _ _ _ Hs Ea) as Ha.
      destruct ra as [[|x|xs]|x|]; try (inversion H; subst; exact Ha).
      destruct (eval fu c b) as [rb tb] eqn:Eb. pose proof (IH _ _ _ _ Hs Eb) as Hb.
      destruct rb as [[|y|ys]|y|]; inversion H; subst; apply allowed_app; auto.
    + destruct (eval fu c e') as [re te] eqn:Ee. pose proof (IH _ _ _ _ Hs Ee) as He.
      destruct re as [v|x|]; try (inversion H; subst; exact He).
      destruct (apply_filter c f v) as [r2 t2] eqn:Ef.
      inversion H; subst. apply allowed_app; auto. eapply apply_filter_confined; eauto.
    + destruct (eval_list (eval fu c) es) as [rg tg] eqn:Eg.
      assert (Hg : allowed_trace tg).
      { eapply eval_list_confined; [|exact Eg]. intros e0 r0 t0 E0. eapply IH; eauto. }
      destruct rg; inversion H; subst; exact Hg.
Qed.

Definition conf (p : rres) : Prop := let '(_, c', t) := p in allowed_trace t /\ sandboxed c' = true.

Lemma setv_sandboxed c x v : sandboxed (setv c x v) = sandboxed c.
Proof. reflexivity. Qed.

Lemma loop_items_confined (rend : ctx -> rres) :
  (forall c, sandboxed c = true -> conf (rend c)) ->
  forall x n xs i c, sandboxed c = true -> conf (loop_items rend x n i xs c).
Proof.
  intros Hr x n. induction xs as [|v xs' IH]; intros i c Hs; cbn [loop_items].
  - cbn. split; [constructor|exact Hs].
  - match goal with |- conf (match rend ?c1 with _ => _ end) =>
      assert (Hs1 : sandboxed c1 = true) by (rewrite !setv_sandboxed; exact Hs);
      pose proof (Hr c1 Hs1) as H1; destruct (rend c1) as [[r1 c2] t1] end.
    cbn in H1. destruct H1 as [Ht1 Hc2].
    destruct r1 as [o1|e|]; try (cbn; auto; fail).
    pose proof (IH (S i) c2 Hc2) as H2.
    destruct (loop_items rend x n (S i) xs' c2) as [[r2 c3] t2]. cbn in H2. destruct H2 as [Ht2 Hc3].
    destruct r2; cbn; split; auto; apply allowed_app; auto.
Qed.

Lemma render_node_confined ev rend :
  (forall c e r t, sandboxed c = true -> ev c e = (r, t) -> allowed_trace t) ->
  (forall c ns, sandboxed c = true -> conf (rend c ns)) ->
  forall c n, sandboxed c = true -> conf (render_node ev rend c n).
Proof.
  intros Hev Hrend c n Hs. destruct n as [s|e|x e|x seq body|tn only sb]; cbn [render_node].
  - cbn. split; [constructor|exact Hs].
  - destruct (ev c e) as [re te] eqn:Ee. pose proof (Hev _ _ _ _ Hs Ee).
    destruct re; cbn; auto.
  - destruct (ev c e) as [re te] eqn:Ee. pose proof (Hev _ _ _ _ Hs Ee).
    destruct re; cbn; auto.
  - destruct (ev c seq) as [rq tq] eqn:Eq. pose proof (Hev _ _ _ _ Hs Eq) as Hq.
    destruct rq as [[|z|xs]|x'|]; try (cbn; auto; fail).
    pose proof (loop_items_confined (fun c0 => rend c0 body) (fun c0 H0 => Hrend c0 body H0) x (length xs) xs 0 c Hs) as HL.
    destruct (loop_items (fun c0 => rend c0 body) x (length xs) 0 xs c) as [[r c'] t].
    cbn in HL. destruct HL as [Ht Hc']. cbn. split; [apply allowed_app; auto|].
    rewrite ?setv_sandboxed. exact Hc'.
  - destruct (templates tn) as [body|]; [|cbn; split; [constructor|exact Hs]].
    match goal with |- conf (match rend ?c1 body with _ => _ end) =>
      assert (Hs1 : sandboxed c1 = true) by (cbn; rewrite Hs; reflexivity);
      pose proof (Hrend c1 body Hs1) as H1; destruct (rend c1 body) as [[r1 c2] t1] end.
    cbn in H1. destruct H1 as [Ht1 _]. cbn. auto.
Qed.

Theorem render_confined : forall fuel c ns, sandboxed c = true -> conf (render fuel c ns).
Proof.
  induction fuel as [|fu IH]; intros c ns Hs.
  - cbn. split; [constructor|exact Hs].
  - destruct ns as [|n rest]; cbn [render].
    + cbn. split; [constructor|exact Hs].
    + pose proof (render_node_confined (eval fu) (render fu)
                    (fun c e r t => eval_confined fu c e r t) IH c n Hs) as H1.
      destruct (render_node (eval fu) (render fu) c n) as [[r1 c1] t1].
      cbn in H1. destruct H1 as [Ht1 Hc1].
      destruct r1 as [o1|e|]; try (cbn; auto; fail).
      pose proof (IH c1 rest Hc1) as H2.
      destruct (render fu c1 rest) as [[r2 c2] t2]. cbn in H2. destruct H2 as [Ht2 Hc2].
      destruct r2; cbn; split; auto; apply allowed_app; auto.
Qed.

(* The property as stated: whatever is rendered through `include … sandboxed`, from ANY including
   context, invokes only allowed filters. *)
Corollary sandboxed_include_confined : forall fuel c t only r c' tr,
  render (S fuel) c [Include t only true] = (r, c', tr) -> allowed_trace tr.
Proof.
  intros fuel c t only r c' tr H. cbn [render render_node] in H.
  destruct (templates t) as [body|].
  - assert (Hs1 : sandboxed {| vars := if only then [] else vars c; sandboxed := sandboxed c || true |} = true)
      by (cbn; apply orb_true_r).
    pose proof (render_confined fuel _ body Hs1) as H1.
    destruct (render fuel _ body) as [[r1 c2] t1]. cbn in H1. destruct H1 as [Ht1 _].
    destruct r1.
    + destruct fuel; cbn in H; inversion H; subst; rewrite ?app_nil_r; auto.
    + inversion H; subst; auto.
    + inversion H; subst; auto.
  - inversion H; subst. constructor.
Qed.

(* =====================  (2) refinement: the loop is "once per element"  ===================== *)

(* Declarative spec of one iteration's starting context, and of the whole loop as a fold. *)
Definition iter_ctx (c : ctx) (x : nat) (n i : nat) (v : value) : ctx :=
  setv (setv (setv c x v) LOOP_INDEX (VInt (Z.of_nat (S i)))) LOOP_LAST (VInt (if Nat.eqb (S i) n then 1 else 0)).

Fixpoint spec_loop (body : ctx -> rres) (x n i : nat) (xs : list value) (c : ctx) : rres :=
  match xs with
  | [] => (Ok [], c, [])
  | v :: xs' =>
      match body (iter_ctx c x n i v) with
      | (Ok o1, c2, t1) =>
          match spec_loop body x n (S i) xs' c2 with
          | (Ok o2, c3, t2) => (Ok (o1 ++ o2), c3, t1 ++ t2)
          | (r, c3, t2) => (r, c3, t1 ++ t2)
          end
      | r => r
      end
  end.

Lemma loop_is_spec rend x n xs : forall i c, loop_items rend x n i xs c = spec_loop rend x n i xs c.
Proof. induction xs as [|v xs' IH]; intros i c; cbn [loop_items spec_loop]; [reflexivity|].
  unfold iter_ctx. destruct (rend _) as [[r1 c2] t1]. destruct r1; rewrite ?IH; reflexivity. Qed.

(* Counters seen by the body at position i of n: index = i+1, last <-> i = n-1; for a body that
   only prints the counters the whole output is determined. *)
Definition probe : list node := [Print (Var LOOP_INDEX); Print (Var LOOP_LAST)].

Lemma lookup_setv_same c x v : lookup (setv c x v) x = v.
Proof. unfold lookup, setv. cbn. rewrite Nat.eqb_refl. reflexivity. Qed.
Lemma lookup_setv_other c x y v : x <> y -> lookup (setv c x v) y = lookup c y.
Proof. intros H. unfold lookup, setv. cbn. destruct (Nat.eqb x y) eqn:E; [apply Nat.eqb_eq in E; contradiction|reflexivity]. Qed.

Lemma probe_output c : render 4 c probe =
  (Ok [CVal (lookup c LOOP_INDEX); CVal (lookup c LOOP_LAST)], c, []).
Proof. reflexivity. Qed.

Fixpoint expected (n i : nat) (k : nat) : list chunk :=      (* k remaining items starting at position i *)
  match k with
  | 0 => []
  | S k' => CVal (VInt (Z.of_nat (S i))) :: CVal (VInt (if Nat.eqb (S i) n then 1 else 0)) :: expected n (S i) k'
  end.

Theorem counters_consistent : forall x n xs i c,
  x <> LOOP_INDEX -> x <> LOOP_LAST ->
  exists c', loop_items (fun c0 => render 4 c0 probe) x n i xs c = (Ok (expected n i (length xs)), c', []).
Proof.
  intros x n xs. induction xs as [|v xs' IH]; intros i c Hx1 Hx2; cbn [loop_items length expected].
  - eexists; reflexivity.
  - rewrite probe_output.
    rewrite lookup_setv_same.
    rewrite lookup_setv_other by (unfold LOOP_LAST, LOOP_INDEX; lia).
    rewrite lookup_setv_same.
    destruct (IH (S i) (setv (setv (setv c x v) LOOP_INDEX (VInt (Z.of_nat (S i)))) LOOP_LAST
                         (VInt (if Nat.eqb (S i) n then 1 else 0))) Hx1 Hx2) as [c' Hc'].
    rewrite Hc'. eexists. reflexivity.
Qed.

(* nested loops keep their own counters: after a For node the enclosing counters are what they were *)
Theorem for_restores_counters : forall ev rend c x seq body r c' t,
  render_node ev rend c (For x seq body) = (r, c', t) ->
  lookup c' LOOP_INDEX = lookup c LOOP_INDEX /\ lookup c' LOOP_LAST = lookup c LOOP_LAST.
Proof.
  intros ev rend c x seq body r c' t H. cbn [render_node] in H.
  destruct (ev c seq) as [rq tq].
  destruct rq as [[|z|xs]|e|]; try (inversion H; subst; auto; fail).
  destruct (loop_items _ _ _ _ _ _) as [[r0 c0] t0]. inversion H; subst.
  split.
  - rewrite lookup_setv_other by (unfold LOOP_LAST, LOOP_INDEX; lia). apply lookup_setv_same.
  - apply lookup_setv_same.
Qed.

(* include non-interference (C11): the includer's context is returned unchanged *)
Theorem include_noninterference : forall ev rend c t only sb r c' tr,
  render_node ev rend c (Include t only sb) = (r, c', tr) -> c' = c.
Proof.
  intros ev rend c t only sb r c' tr H. cbn [render_node] in H.
  destruct (templates t); [|inversion H; auto].
  destruct (rend _ _) as [[r0 c0] t0]. inversion H; auto.
Qed.

End EV.

Print Assumptions render_confined.
Print Assumptions sandboxed_include_confined.
Print Assumptions counters_consistent.
Print Assumptions for_restores_counters.
Print Assumptions include_noninterference.
