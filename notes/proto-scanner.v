(* Prototype for C04 / C14: the two ways twig finds the next tag opener agree, and the text
   before the opener is returned byte-exact.  Bytes are arbitrary (list byte). *)
From Coq Require Import List Arith Lia Bool.
From Coq Require Import Strings.Byte.
Import ListNotations.

Definition bytes := list byte.
Local Arguments Byte.eqb : simpl never.
Definition LB : byte := x7b.   (* { *)
Definition PC : byte := x25.   (* % *)
Definition HS : byte := x23.   (* # *)
Definition DS : byte := x2d.   (* - *)

Inductive okind := OVarT | OVar | OBlockT | OBlock | OComment.

Definition pattern (k : okind) : bytes :=
  match k with
  | OVarT => [LB; LB; DS] | OVar => [LB; LB]
  | OBlockT => [LB; PC; DS] | OBlock => [LB; PC] | OComment => [LB; HS]
  end.
Definition kinds := [OVarT; OVar; OBlockT; OBlock; OComment].   (* order of tagPatterns in the Go code *)

Fixpoint prefixb (p s : bytes) : bool :=
  match p, s with
  | [], _ => true
  | a :: p', b :: s' => Byte.eqb a b && prefixb p' s'
  | _ :: _, [] => false
  end.

(* ---- TokenizeOptimized / FindNextTag: one left-to-right scan ---- *)
Definition opener_at (s : bytes) : option okind :=
  match s with
  | a :: b :: r =>
      if Byte.eqb a LB then
        if Byte.eqb b LB then
          match r with c :: _ => if Byte.eqb c DS then Some OVarT else Some OVar | [] => Some OVar end
        else if Byte.eqb b PC then
          match r with c :: _ => if Byte.eqb c DS then Some OBlockT else Some OBlock | [] => Some OBlock end
        else if Byte.eqb b HS then Some OComment
        else None
      else None
  | _ => None
  end.

Fixpoint scan (s : bytes) : option (nat * okind) :=      (* position of the opener, its kind *)
  match opener_at s with
  | Some k => Some (0, k)
  | None => match s with
            | [] => None
            | _ :: r => match scan r with Some (i, k) => Some (S i, k) | None => None end
            end
  end.

(* ---- TokenizeHtmlPreserving: strings.Index for each of the five patterns, nearest wins,
        earlier pattern wins a tie ---- *)
Fixpoint index_of (p s : bytes) : option nat :=
  if prefixb p s then Some 0
  else match s with
       | [] => None
       | _ :: r => match index_of p r with Some i => Some (S i) | None => None end
       end.

Definition better (best : option (nat * okind)) (k : okind) (s : bytes) : option (nat * okind) :=
  match index_of (pattern k) s with
  | Some i => match best with
              | None => Some (i, k)
              | Some (j, _) => if i <? j then Some (i, k) else best
              end
  | None => best
  end.
Definition nearest (s : bytes) : option (nat * okind) :=
  fold_left (fun best k => better best k s) kinds None.

(* ---- agreement ---- *)
Lemma eqb_true a b : Byte.eqb a b = true <-> a = b.
Proof. split; [apply Byte.byte_dec_bl | intros ->; apply Byte.byte_dec_lb; reflexivity]. Qed.

Lemma index_of_cons p c r : prefixb p (c :: r) = false ->
  index_of p (c :: r) = match index_of p r with Some i => Some (S i) | None => None end.
Proof. intros H. cbn [index_of]. rewrite H. reflexivity. Qed.

(* no pattern matches at the head exactly when opener_at is None *)
Lemma eqb_sym x y : Byte.eqb x y = Byte.eqb y x.
Proof.
  destruct (Byte.eqb x y) eqn:E1; destruct (Byte.eqb y x) eqn:E2; auto.
  - apply eqb_true in E1. subst. rewrite (proj2 (eqb_true y y) eq_refl) in E2. discriminate.
  - apply eqb_true in E2. subst. rewrite (proj2 (eqb_true x x) eq_refl) in E1. discriminate.
Qed.

Lemma opener_none s : opener_at s = None -> forall k, prefixb (pattern k) s = false.
Proof.
  intros H k. destruct s as [|a [|b r]].
  - destruct k; reflexivity.
  - destruct k; cbn [prefixb pattern]; rewrite ?andb_false_r; reflexivity.
  - cbn [opener_at] in H.
    destruct (Byte.eqb a LB) eqn:Ea.
    + destruct (Byte.eqb b LB) eqn:Eb.
      { destruct r as [|c r']; [discriminate|]. destruct (Byte.eqb c DS); discriminate. }
      destruct (Byte.eqb b PC) eqn:Ep.
      { destruct r as [|c r']; [discriminate|]. destruct (Byte.eqb c DS); discriminate. }
      destruct (Byte.eqb b HS) eqn:Eh; [discriminate|].
      destruct k; cbn [prefixb pattern];
        rewrite ?(eqb_sym LB b), ?(eqb_sym PC b), ?(eqb_sym HS b), ?Eb, ?Ep, ?Eh;
        cbn [andb]; rewrite ?andb_false_r; reflexivity.
    + destruct k; cbn [prefixb pattern]; rewrite (eqb_sym LB a), Ea; reflexivity.
Qed.

Definition shift (o : option (nat * okind)) := match o with Some (i, k) => Some (S i, k) | None => None end.

Lemma better_shift best k c r : prefixb (pattern k) (c :: r) = false ->
  better (shift best) k (c :: r) = shift (better best k r).
Proof.
  intros H. unfold better. rewrite (index_of_cons _ _ _ H).
  destruct (index_of (pattern k) r) as [i|]; [|reflexivity].
  destruct best as [[j k']|]; cbn [shift]; [|reflexivity].
  change (S i <? S j) with (i <? j). destruct (i <? j); reflexivity.
Qed.

Lemma nearest_shift c r : opener_at (c :: r) = None -> nearest (c :: r) = shift (nearest r).
Proof.
  intros H. pose proof (opener_none _ H) as Hn. unfold nearest, kinds. cbn [fold_left].
  change (@None (nat * okind)) with (shift None) at 1.
  rewrite !better_shift by apply Hn. reflexivity.
Qed.

Definition pos_or_none (best : option (nat * okind)) : Prop :=
  match best with None => True | Some (j, _) => 0 < j end.

Lemma index_of_head p s : prefixb p s = true -> index_of p s = Some 0.
Proof. intros H. destruct s; cbn [index_of]; rewrite H; reflexivity. Qed.
Lemma index_of_nohead p s : prefixb p s = false -> index_of p s = None \/ exists i, index_of p s = Some (S i).
Proof.
  intros H. destruct s as [|c r]; cbn [index_of]; rewrite H; auto.
  destruct (index_of p r) as [i|]; eauto.
Qed.

Lemma better_A best k s : prefixb (pattern k) s = false -> pos_or_none best -> pos_or_none (better best k s).
Proof.
  intros H Hb. unfold better. destruct (index_of_nohead _ _ H) as [E|[i E]]; rewrite E; auto.
  destruct best as [[j k']|]; [|cbn; lia].
  destruct (S i <? j); [cbn; lia|exact Hb].
Qed.
Lemma better_B best k s : prefixb (pattern k) s = true -> pos_or_none best -> better best k s = Some (0, k).
Proof.
  intros H Hb. unfold better. rewrite (index_of_head _ _ H).
  destruct best as [[j k']|]; auto. cbn in Hb. destruct (0 <? j) eqn:E; auto. apply Nat.ltb_ge in E. lia.
Qed.
Lemma better_C k0 k s : better (Some (0, k0)) k s = Some (0, k0).
Proof. unfold better. destruct (index_of (pattern k) s) as [i|]; auto. Qed.

Lemma eqb_refl x : Byte.eqb x x = true. Proof. apply eqb_true. reflexivity. Qed.
Lemma eqb_neq x y : Byte.eqb x y = false -> Byte.eqb y x = false. Proof. rewrite eqb_sym. auto. Qed.

(* which patterns match at the head, given the opener found there *)
Lemma opener_some s k : opener_at s = Some k ->
  prefixb (pattern k) s = true /\
  match k with
  | OVarT => True
  | OVar => prefixb (pattern OVarT) s = false
  | OBlockT => prefixb (pattern OVarT) s = false /\ prefixb (pattern OVar) s = false
  | OBlock => prefixb (pattern OVarT) s = false /\ prefixb (pattern OVar) s = false /\ prefixb (pattern OBlockT) s = false
  | OComment => prefixb (pattern OVarT) s = false /\ prefixb (pattern OVar) s = false /\
                prefixb (pattern OBlockT) s = false /\ prefixb (pattern OBlock) s = false
  end.
Proof.
  intros H. destruct s as [|a [|b r]]; try discriminate. cbn [opener_at] in H.
  destruct (Byte.eqb a LB) eqn:Ea; [|discriminate]. apply eqb_true in Ea. subst a.
  assert (LP : Byte.eqb LB PC = false) by reflexivity.
  assert (LH : Byte.eqb LB HS = false) by reflexivity.
  assert (PH : Byte.eqb PC HS = false) by reflexivity.
  destruct (Byte.eqb b LB) eqn:Eb.
  { apply eqb_true in Eb. subst b. destruct r as [|c r'].
    - inversion H; subst. cbn [prefixb pattern]. rewrite !eqb_refl. cbn. auto.
    - destruct (Byte.eqb c DS) eqn:Ec; inversion H; subst; cbn [prefixb pattern]; rewrite !eqb_refl; cbn [andb].
      + apply eqb_true in Ec. subst. rewrite eqb_refl. auto.
      + rewrite (eqb_neq _ _ Ec). auto. }
  destruct (Byte.eqb b PC) eqn:Ep.
  { apply eqb_true in Ep. subst b. destruct r as [|c r'].
    - inversion H; subst. cbn [prefixb pattern]. rewrite !eqb_refl, ?LP. cbn. auto.
    - destruct (Byte.eqb c DS) eqn:Ec; inversion H; subst; cbn [prefixb pattern]; rewrite !eqb_refl, ?LP; cbn [andb].
      + apply eqb_true in Ec. subst. rewrite eqb_refl. auto.
      + rewrite (eqb_neq _ _ Ec). auto. }
  destruct (Byte.eqb b HS) eqn:Eh; [|discriminate].
  apply eqb_true in Eh. subst b. inversion H; subst.
  cbn [prefixb pattern]. rewrite !eqb_refl, ?LH, ?PH. cbn. auto.
Qed.

Lemma nearest_at_opener s k : opener_at s = Some k -> nearest s = Some (0, k).
Proof.
  intros H. destruct (opener_some _ _ H) as [Hk Hbefore].
  unfold nearest, kinds. cbn [fold_left].
  destruct k.
  - rewrite (better_B None OVarT s Hk I). rewrite !better_C. reflexivity.
  - pose proof (better_A None OVarT s Hbefore I) as P1.
    rewrite (better_B _ OVar s Hk P1). rewrite !better_C. reflexivity.
  - destruct Hbefore as (H1 & H2).
    pose proof (better_A None OVarT s H1 I) as P1.
    pose proof (better_A _ OVar s H2 P1) as P2.
    rewrite (better_B _ OBlockT s Hk P2). rewrite !better_C. reflexivity.
  - destruct Hbefore as (H1 & H2 & H3).
    pose proof (better_A None OVarT s H1 I) as P1.
    pose proof (better_A _ OVar s H2 P1) as P2.
    pose proof (better_A _ OBlockT s H3 P2) as P3.
    rewrite (better_B _ OBlock s Hk P3). rewrite !better_C. reflexivity.
  - destruct Hbefore as (H1 & H2 & H3 & H4).
    pose proof (better_A None OVarT s H1 I) as P1.
    pose proof (better_A _ OVar s H2 P1) as P2.
    pose proof (better_A _ OBlockT s H3 P2) as P3.
    pose proof (better_A _ OBlock s H4 P3) as P4.
    rewrite (better_B _ OComment s Hk P4). reflexivity.
Qed.

Theorem nearest_eq_scan : forall s, nearest s = scan s.
Proof.
  induction s as [|c r IH].
  - reflexivity.
  - cbn [scan]. destruct (opener_at (c :: r)) as [k|] eqn:E.
    + apply nearest_at_opener. exact E.
    + rewrite nearest_shift by exact E. rewrite IH. destruct (scan r) as [[i k]|]; reflexivity.
Qed.

(* ---- the text before the first opener is returned exactly ---- *)
Definition clean (t : bytes) (next : bytes) : Prop :=      (* no opener starts inside t ++ next before |t| *)
  forall i, i < length t -> opener_at (skipn i (t ++ next)) = None.

Theorem text_exact : forall t next k, clean t next -> opener_at next = Some k ->
  scan (t ++ next) = Some (length t, k).
Proof.
  induction t as [|c t IH]; intros next k Hc Ho.
  - cbn [app length]. destruct next as [|a n]; [discriminate|]. cbn [scan]. rewrite Ho. reflexivity.
  - assert (H0 : opener_at ((c :: t) ++ next) = None) by (apply (Hc 0); cbn; lia).
    cbn [app] in *. cbn [scan]. rewrite H0.
    rewrite (IH next k); [reflexivity| |exact Ho].
    intros i Hi. apply (Hc (S i)). cbn. lia.
Qed.

Print Assumptions nearest_eq_scan.
Print Assumptions text_exact.
