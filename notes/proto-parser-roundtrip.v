(* Prototype: round trip for a precedence-climbing parser shaped like the repaired
   parseExpression / parseBinaryLevel / parseOperand.  Reduced language: numbers, variables,
   binary operators with a precedence function, conditional, parentheses. *)
From Coq Require Import List Arith ZArith Lia Bool.
Import ListNotations.

Section RT.
Variable op : Type.
Variable prec : op -> nat.
Hypothesis prec_pos : forall o, 1 <= prec o.
Definition top := 100.
Hypothesis prec_lt_top : forall o, prec o < top.

Inductive tok := TNum (z : Z) | TVar (n : nat) | TOp (o : op) | LP | RP | QM | COL.

Inductive expr :=
| Num (z : Z) | Var (n : nat)
| Bin (o : op) (l r : expr)
| Cond (c t f : expr).

Definition level (e : expr) : nat :=
  match e with Num _ | Var _ => top | Bin o _ _ => prec o | Cond _ _ _ => 0 end.

(* ---------- printer ---------- *)
Fixpoint pp_raw (e : expr) : list tok :=
  let paren p e' := if level e' <? p then LP :: pp_raw e' ++ [RP] else pp_raw e' in
  match e with
  | Num z => [TNum z]
  | Var n => [TVar n]
  | Bin o l r => paren (prec o) l ++ TOp o :: paren (S (prec o)) r
  | Cond c t f => paren 1 c ++ QM :: paren 0 t ++ COL :: paren 0 f
  end.
Definition pp_at (p : nat) (e : expr) : list tok :=
  if level e <? p then LP :: pp_raw e ++ [RP] else pp_raw e.

(* ---------- parser (fuel) ---------- *)
Fixpoint parse_expr (fuel : nat) (ts : list tok) : option (expr * list tok) :=
  match fuel with 0 => None | S f =>
    match parse_level f 1 ts with
    | Some (c, QM :: ts1) =>
        match parse_expr f ts1 with
        | Some (t, COL :: ts2) =>
            match parse_expr f ts2 with
            | Some (e, ts3) => Some (Cond c t e, ts3)
            | None => None
            end
        | _ => None
        end
    | r => r
    end
  end
with parse_level (fuel : nat) (minp : nat) (ts : list tok) : option (expr * list tok) :=
  match fuel with 0 => None | S f =>
    match parse_operand f ts with
    | Some (l, ts1) => loop f minp l ts1
    | None => None
    end
  end
with loop (fuel : nat) (minp : nat) (left : expr) (ts : list tok) : option (expr * list tok) :=
  match fuel with 0 => None | S f =>
    match ts with
    | TOp o :: ts1 =>
        if prec o <? minp then Some (left, ts)
        else match parse_level f (S (prec o)) ts1 with
             | Some (r, ts2) => loop f minp (Bin o left r) ts2
             | None => None
             end
    | _ => Some (left, ts)
    end
  end
with parse_operand (fuel : nat) (ts : list tok) : option (expr * list tok) :=
  match fuel with 0 => None | S f =>
    match ts with
    | TNum z :: r => Some (Num z, r)
    | TVar n :: r => Some (Var n, r)
    | LP :: r =>
        match parse_expr f r with
        | Some (e, RP :: r2) => Some (e, r2)
        | _ => None
        end
    | _ => None
    end
  end.

(* ---------- fuel monotonicity ---------- *)
Lemma fuel_mono :
  forall f,
    (forall ts r, parse_expr f ts = Some r -> forall f', f <= f' -> parse_expr f' ts = Some r) /\
    (forall p ts r, parse_level f p ts = Some r -> forall f', f <= f' -> parse_level f' p ts = Some r) /\
    (forall p l ts r, loop f p l ts = Some r -> forall f', f <= f' -> loop f' p l ts = Some r) /\
    (forall ts r, parse_operand f ts = Some r -> forall f', f <= f' -> parse_operand f' ts = Some r).
Proof.
  induction f as [|f IH]; [repeat split; intros; discriminate|].
  destruct IH as (IHe & IHl & IHo & IHp).
  repeat split.
  - intros ts r H f' Hle. destruct f' as [|f']; [lia|]. assert (Hf : f <= f') by lia.
    cbn [parse_expr] in *.
    destruct (parse_level f 1 ts) as [[c ts0]|] eqn:E1; [|discriminate].
    rewrite (IHl _ _ _ E1 _ Hf).
    destruct ts0 as [|[]]; try exact H.
    destruct (parse_expr f ts0) as [[t ts2]|] eqn:E2; [|discriminate].
    rewrite (IHe _ _ E2 _ Hf).
    destruct ts2 as [|[]]; try discriminate.
    destruct (parse_expr f ts2) as [[e ts3]|] eqn:E3; [|discriminate].
    rewrite (IHe _ _ E3 _ Hf). exact H.
  - intros p ts r H f' Hle. destruct f' as [|f']; [lia|]. assert (Hf : f <= f') by lia.
    cbn [parse_level] in *.
    destruct (parse_operand f ts) as [[l ts1]|] eqn:E1; [|discriminate].
    rewrite (IHp _ _ E1 _ Hf). eauto.
  - intros p l ts r H f' Hle. destruct f' as [|f']; [lia|]. assert (Hf : f <= f') by lia.
    cbn [loop] in *.
    destruct ts as [|[] ts1]; try exact H.
    destruct (prec o <? p); [exact H|].
    destruct (parse_level f (S (prec o)) ts1) as [[r0 ts2]|] eqn:E1; [|discriminate].
    rewrite (IHl _ _ _ E1 _ Hf). eauto.
  - intros ts r H f' Hle. destruct f' as [|f']; [lia|]. assert (Hf : f <= f') by lia.
    cbn [parse_operand] in *.
    destruct ts as [|[] ts1]; try exact H.
    destruct (parse_expr f ts1) as [[e ts2]|] eqn:E1; [|discriminate].
    rewrite (IHe _ _ E1 _ Hf). exact H.
Qed.

(* "eventually": holds for all large enough fuel *)
Definition ev (P : nat -> Prop) := exists n, forall f, n <= f -> P f.
Lemma ev_and P Q : ev P -> ev Q -> ev (fun f => P f /\ Q f).
Proof. intros [n Hn] [m Hm]. exists (max n m). intros f Hf. split; [apply Hn|apply Hm]; lia. Qed.

(* rest does not begin with an operator of precedence >= q *)
Definition ok_rest (q : nat) (rest : list tok) : Prop :=
  match rest with TOp o :: _ => prec o < q | _ => True end.
Definition no_cont (rest : list tok) : Prop :=
  match rest with TOp _ :: _ | QM :: _ => False | _ => True end.

Lemma ok_rest_mono q q' rest : q <= q' -> ok_rest q rest -> ok_rest q' rest.
Proof. destruct rest as [|[]]; simpl; auto; lia. Qed.

Lemma loop_stop f p e rest : ok_rest p rest -> loop (S f) p e rest = Some (e, rest).
Proof.
  intros H. cbn [loop]. destruct rest as [|[] r]; auto.
  simpl in H. destruct (prec o <? p) eqn:E; auto. apply Nat.ltb_ge in E. lia.
Qed.

(* Main mutual statement, by induction on the expression:
   (D) level e >= p -> ok_rest (S (level e)) rest ->
         eventually parse_level p (pp_raw e ++ rest) = loop p e rest   (same fuel offset handled by ev)
   (E) no_cont rest -> eventually parse_expr (pp_raw e ++ rest) = Some (e, rest)           *)

Definition stmtD (e : expr) :=
  forall p rest res, 1 <= p -> p <= level e -> ok_rest (S (level e)) rest ->
    ev (fun f => loop f p e rest = Some res) ->
    ev (fun f => parse_level f p (pp_raw e ++ rest) = Some res).
Definition stmtE (e : expr) :=
  forall rest, no_cont rest -> ev (fun f => parse_expr f (pp_raw e ++ rest) = Some (e, rest)).

Definition paren (p : nat) (e : expr) : list tok :=
  if level e <? p then LP :: pp_raw e ++ [RP] else pp_raw e.

Lemma pp_raw_bin o l r : pp_raw (Bin o l r) = paren (prec o) l ++ TOp o :: paren (S (prec o)) r.
Proof. reflexivity. Qed.
Lemma pp_raw_cond c t f : pp_raw (Cond c t f) = paren 1 c ++ QM :: pp_raw t ++ COL :: pp_raw f.
Proof. reflexivity. Qed.

Lemma paren_level e' : stmtD e' -> stmtE e' ->
  forall p q rest res, 1 <= p -> p <= q -> (q <= level e' -> ok_rest (S (level e')) rest) ->
    ev (fun f => loop f p e' rest = Some res) ->
    ev (fun f => parse_level f p (paren q e' ++ rest) = Some res).
Proof.
  intros HD HE p q rest res Hp Hpq Hok Hloop. unfold paren.
  destruct (level e' <? q) eqn:El.
  - destruct (HE (RP :: rest) I) as [n1 H1]. destruct Hloop as [n2 H2].
    exists (S (S (n1 + n2))). intros f Hf.
    destruct f as [|[|f]]; try lia.
    cbn [parse_level parse_operand app].
    rewrite <- app_assoc. cbn [app].
    rewrite (H1 f) by lia. apply H2. lia.
  - apply Nat.ltb_ge in El. apply HD; auto. lia.
Qed.

Lemma ok_rest_of_no_cont q rest : no_cont rest -> ok_rest q rest.
Proof. destruct rest as [|[]]; simpl; tauto. Qed.

Theorem roundtrip_all : forall e, stmtD e /\ stmtE e.
Proof.
  induction e as [z|n|o l [IHDl IHEl] r [IHDr IHEr]|c [IHDc IHEc] t [IHDt IHEt] f0 [IHDf IHEf]].
  - (* Num *)
    assert (HD : stmtD (Num z)).
    { intros p rest res _ _ _ [n Hn]. exists (S (S n)). intros f Hf.
      destruct f as [|[|f]]; try lia. cbn [parse_level parse_operand pp_raw app]. apply Hn. lia. }
    split; [exact HD|].
    intros rest Hnc.
    destruct (HD 1 rest (Num z, rest)) as [n Hn]; [lia|simpl; unfold top; lia|apply ok_rest_of_no_cont; exact Hnc| |].
    { exists 1. intros f Hf. destruct f; [lia|]. apply loop_stop. apply ok_rest_of_no_cont; exact Hnc. }
    exists (S n). intros f Hf. destruct f as [|f]; [lia|]. cbn [parse_expr].
    rewrite Hn by lia. destruct rest as [|[]]; simpl in Hnc; tauto.
  - (* Var *)
    assert (HD : stmtD (Var n)).
    { intros p rest res _ _ _ [k Hk]. exists (S (S k)). intros f Hf.
      destruct f as [|[|f]]; try lia. cbn [parse_level parse_operand pp_raw app]. apply Hk. lia. }
    split; [exact HD|].
    intros rest Hnc.
    destruct (HD 1 rest (Var n, rest)) as [k Hk]; [lia|simpl; unfold top; lia|apply ok_rest_of_no_cont; exact Hnc| |].
    { exists 1. intros f Hf. destruct f; [lia|]. apply loop_stop. apply ok_rest_of_no_cont; exact Hnc. }
    exists (S k). intros f Hf. destruct f as [|f]; [lia|]. cbn [parse_expr].
    rewrite Hk by lia. destruct rest as [|[]]; simpl in Hnc; tauto.
  - (* Bin *)
    assert (HD : stmtD (Bin o l r)).
    { intros p rest res Hp Hple Hok Hloop. simpl in Hple, Hok.
      rewrite pp_raw_bin, <- app_assoc. cbn [app].
      (* right operand parses to (r, rest) at level S (prec o) *)
      assert (HR : ev (fun f => parse_level f (S (prec o)) (paren (S (prec o)) r ++ rest) = Some (r, rest))).
      { apply paren_level; [exact IHDr|exact IHEr|lia|lia| |].
        - intros Hle. eapply ok_rest_mono; [|exact Hok]. lia.
        - exists 1. intros f Hf. destruct f; [lia|]. apply loop_stop. exact Hok. }
      apply paren_level; [exact IHDl|exact IHEl|exact Hp|exact Hple| |].
      - intros Hle. simpl. lia.
      - destruct HR as [n1 H1]. destruct Hloop as [n2 H2].
        exists (S (n1 + n2)). intros f Hf. destruct f as [|f]; [lia|].
        cbn [loop]. destruct (prec o <? p) eqn:E; [apply Nat.ltb_lt in E; lia|].
        rewrite H1 by lia. apply H2. lia. }
    split; [exact HD|].
    intros rest Hnc.
    destruct (HD 1 rest (Bin o l r, rest)) as [k Hk]; [lia|simpl; apply prec_pos|apply ok_rest_of_no_cont; exact Hnc| |].
    { exists 1. intros f Hf. destruct f; [lia|]. apply loop_stop. apply ok_rest_of_no_cont; exact Hnc. }
    exists (S k). intros f Hf. destruct f as [|f]; [lia|]. cbn [parse_expr].
    rewrite Hk by lia. destruct rest as [|[]]; simpl in Hnc; tauto.
  - (* Cond *)
    split.
    { intros p rest res Hp Hple. simpl in Hple. lia. }
    intros rest Hnc.
    rewrite pp_raw_cond.
    assert (HC : ev (fun f => parse_level f 1 (paren 1 c ++ QM :: pp_raw t ++ COL :: pp_raw f0 ++ rest)
                               = Some (c, QM :: pp_raw t ++ COL :: pp_raw f0 ++ rest))).
    { apply paren_level; [exact IHDc|exact IHEc|lia|lia| |].
      - intros _. exact I.
      - exists 1. intros f Hf. destruct f; [lia|]. apply loop_stop. exact I. }
    destruct HC as [n1 H1].
    destruct (IHEt (COL :: pp_raw f0 ++ rest) I) as [n2 H2].
    destruct (IHEf rest Hnc) as [n3 H3].
    exists (S (n1 + n2 + n3)). intros f Hf. destruct f as [|f]; [lia|].
    cbn [parse_expr].
    replace ((paren 1 c ++ QM :: pp_raw t ++ COL :: pp_raw f0) ++ rest)
      with (paren 1 c ++ QM :: pp_raw t ++ COL :: pp_raw f0 ++ rest)
      by (rewrite <- !app_assoc; cbn [app]; rewrite <- !app_assoc; reflexivity).
    rewrite H1 by lia. rewrite H2 by lia. rewrite H3 by lia. reflexivity.
Qed.

Corollary roundtrip : forall e, exists n, forall f, n <= f -> parse_expr f (pp_raw e) = Some (e, []).
Proof.
  intros e. destruct (roundtrip_all e) as [_ HE]. specialize (HE [] I).
  rewrite app_nil_r in HE. exact HE.
Qed.

End RT.
Print Assumptions roundtrip.
