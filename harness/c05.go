// C05: the panic / timeout monitor and the block-parser correspondence.
//
// Every case is executed in a CHILD process (this same binary re-executed with VERIF_C05_CHILD=1, a
// pool of them), under recover(), with a per-case watchdog in the parent: a panic, a timeout, a fatal
// exit of the child (stack overflow, out of memory: recover cannot catch those) or an engine that no
// longer renders a trivial template afterwards are ORACLE failures of the property, reported with the
// input. The child lowers nothing about the Go runtime except an address-space limit (so that a
// 4 GiB allocation asked for by a length prefix kills the child instead of the machine).
//
// Streams (field "stream" of a case):
//
//	tokens    a token list with the prediction of the extracted block parser model: verdict, final
//	          index, tree shape, and the trace of calls the model made to its stand-in for
//	          parseExpression. The real parseOuterTemplate runs on the SAME token list (hook
//	          VerifParseTokens); the real parseExpression is asked for its extent at every traced
//	          call (VerifExprExtent). Where all extents agree the abstraction is exact on this case
//	          and verdict, index and shape must agree, including "index out of range" on lists that
//	          do not end in EOF. On every list that ends in EOF the real parser must not panic,
//	          whatever the extents (the theorem holds for every stand-in). Every real extent is
//	          checked against the assumption bp_expr_spec.
//	source    a template source: both tokenizers forced (their streams must end in EOF), parse,
//	          render with a standard context, then the engine is used again.
//	render    a template and the standard context of odd Go value shapes.
//	compiled  bytes for DeserializeCompiledTemplate / LoadFromCompiledData.
package main

import (
	"bufio"
	"encoding/json"
	"fmt"
	"io"
	"math"
	"os"
	"os/exec"
	"path/filepath"
	"runtime"
	"runtime/debug"
	"sort"
	"strconv"
	"strings"
	"sync"
	"sync/atomic"
	"syscall"
	"time"

	"github.com/semihalev/twig"
)

func init() {
	runners["C05"] = runC05
	if os.Getenv("VERIF_C05_CHILD") == "1" {
		c05Child()
		os.Exit(0)
	}
}

// ---------------------------------------------------------------- observation returned by the child
type c05Obs struct {
	Panic    string   `json:"panic,omitempty"`    // recovered panic value of the engine call
	Class    string   `json:"class,omitempty"`    // first frame of package twig in the panic stack
	Where    string   `json:"where,omitempty"`    // which step panicked
	Unusable string   `json:"unusable,omitempty"` // the engine failed a trivial render afterwards
	NoEOF    string   `json:"noeof,omitempty"`    // a tokenizer returned a stream that does not end in EOF
	Outcome  string   `json:"outcome,omitempty"`  // value | error (and which)
	Verdict  string   `json:"verdict,omitempty"`  // tokens stream: ok | err | panic-index | panic-other
	Idx      int      `json:"idx,omitempty"`
	Shape    string   `json:"shape,omitempty"`
	Extents  []int    `json:"extents,omitempty"`
	SpecBad  string   `json:"specbad,omitempty"`
	SrcSame  bool     `json:"src_same,omitempty"`
	SrcParse string   `json:"src_parse,omitempty"`
	Notes    []string `json:"notes,omitempty"`
	Restart  bool     `json:"restart,omitempty"` // the child must be replaced (a goroutine of it is stuck)
	Millis   int64    `json:"ms,omitempty"`      // time the case took in the child, the probes afterwards included
}

// ---------------------------------------------------------------- the standard context
type c05Inner struct {
	A int
	b string
}
type c05Emb struct {
	Name   string
	hidden int
}
type c05S struct {
	c05Emb
	X int
	P *c05Inner
	Q *c05Inner
	M map[string]int
	L []string
	y int
}

func (s c05S) Hello() string        { return "hello " + s.Name }
func (s *c05S) PtrM() string        { return "ptr" }
func (s c05S) Args(a int) string    { return fmt.Sprint(a) }
func (s c05S) Two() (string, error) { return "two", nil }

type c05Err struct{}

func (*c05Err) Error() string { return "typed nil" }

type c05PS struct{ V string }

func (c05PS) Hello() string { return "promoted" }

type c05EmbNil struct {
	*c05PS
	X int
}
type c05Str string

// getters on the value, setters on the pointer: the two method sets differ, and the pointer's has
// methods with arguments that sort before the getters
type c05Mixed struct{ name string }

func (m c05Mixed) Name() string       { return "mixed " + m.name }
func (m c05Mixed) Title() string      { return "title" }
func (m *c05Mixed) Add(n int) int     { return n + 1 }
func (m *c05Mixed) Alter(s string)    { m.name = s }
func (m *c05Mixed) SetName(s string)  { m.name = s }
func (m *c05Mixed) Zap() string       { return "zap" }
func (m c05Mixed) With(a, b int) bool { return a < b }

type c05Node struct {
	Name string
	Next *c05Node
}

func c05Ctx() map[string]interface{} {
	one := 1
	pone := &one
	var nilS *c05S
	var tn error = (*c05Err)(nil)
	var ntm *time.Time
	long := make([]int, 60)
	for i := range long {
		long[i] = i
	}
	longAny := make([]interface{}, 60)
	for i := range longAny {
		longAny[i] = i
	}
	// more than 50 elements of a comparable static type, one of them not hashable at run time
	lnamed := make(c05AnyList, 60)
	var larr [60]interface{}
	lstructs := make([]c05Row, 60)
	lerrs := make([]error, 60)
	for i := range lnamed {
		lnamed[i], larr[i], lstructs[i], lerrs[i] = "t"+strconv.Itoa(i), i, c05Row{ID: i, Meta: i}, &c05Err{}
	}
	lnamed[7], larr[8], lstructs[9].Meta, lerrs[10] = []interface{}{"nested"}, map[string]int{"k": 1}, map[string]int{"k": 1}, c05SliceErr{"e"}
	st := c05S{c05Emb: c05Emb{Name: "n", hidden: 1}, X: 7, P: &c05Inner{A: 1, b: "b"}, M: map[string]int{"k": 1}, L: []string{"l"}, y: 2}
	return map[string]interface{}{
		"mis": map[int]string{1: "a", 2: "b"}, "msi": map[string]int{"a": 1, "b": 2}, "mss": map[string]string{"a": "x"},
		"ss": []string{"a", "b", "c"}, "is": []int{3, 1, 2}, "arr": [3]int{1, 2, 3}, "fs": []float64{1.5, math.NaN()},
		"nest": map[string]map[string][]int{"a": {"b": {1, 2}}}, "st": st, "pst": &st, "nilp": nilS,
		"nili": []interface{}{nil, 1, nil}, "tnil": tn, "ch": make(chan int), "fn": func() int { return 1 },
		"big": int64(math.MaxInt64), "minint": int64(math.MinInt64), "u64": uint64(math.MaxUint64),
		"nan": math.NaN(), "inf": math.Inf(1), "ninf": math.Inf(-1), "f": 3.5, "i": 5, "z": 0, "neg": -3,
		"s": "h\xc3\xa9llo", "e": "", "bad": "a\xffb", "t": true, "n": nil,
		"any": []interface{}{1, "a", 2.5, nil, true}, "m": map[string]interface{}{"a": 1, "b": []interface{}{1, 2}},
		"bytes": []byte("ab"), "mf": map[float64]string{math.NaN(): "x", 1: "y"}, "mia": map[interface{}]interface{}{"a": 1},
		"mai": map[[2]int]string{{1, 2}: "x"}, "pp": &pone, "tm": time.Unix(0, 0).UTC(), "ntm": ntm, "dur": time.Second,
		"emb": c05EmbNil{X: 1}, "long": long, "longany": longAny, "lol": [][]int{{1}, {2}}, "named": c05Str("nm"),
		"empty": []interface{}{}, "emap": map[string]interface{}{}, "a": "A1", "b": "<B&>", "c": "", "d": "d d",
		"items": []interface{}{1, 2, 3}, "x": 1, "y": 2,
		"mix": c05Mixed{name: "v"}, "pmix": &c05Mixed{name: "p"},
		// maps whose key type is a named type (a plain string or int is convertible to it, not assignable)
		"nmss": map[c05Str]string{"a": "x", "b": "y"}, "nmsa": map[c05Str]interface{}{"a": 1, "k": []int{1}},
		"lnamed": lnamed, "larr": larr, "lstructs": lstructs, "lerrs": lerrs,
		"nmis": map[c05Int]string{1: "one", 2: "two"}, "nmst": c05NamedMaps{T: map[c05Str]string{"a": "t"}, N: map[c05Int]int{0: 7}},
	}
}

type c05Int int
type c05AnyList []interface{}
type c05Row struct {
	ID   int
	Meta interface{}
}
type c05SliceErr []string

func (e c05SliceErr) Error() string { return "slice error" }

type c05NamedMaps struct {
	T map[c05Str]string
	N map[c05Int]int
}

// values that contain themselves (thorough tier): map, slice, struct pointer, pointer
func c05CyclicCtx() map[string]interface{} {
	ctx := c05Ctx()
	m := map[string]interface{}{"a": 1}
	m["self"] = m
	sl := []interface{}{1, nil}
	sl[1] = sl
	n := &c05Node{Name: "n"}
	n.Next = n
	var pp interface{}
	pp = &pp
	ctx["cycm"], ctx["cycs"], ctx["cycn"], ctx["cycp"] = m, sl, n, pp
	return ctx
}

// ---------------------------------------------------------------- child
func c05Frame(stack string) string {
	lines := strings.Split(stack, "\n")
	for _, l := range lines {
		l = strings.TrimSpace(l)
		if strings.HasPrefix(l, "github.com/semihalev/twig.") && !strings.Contains(l, ".Verif") {
			f := strings.TrimPrefix(l, "github.com/semihalev/twig.")
			if k := strings.LastIndex(f, "("); k > 0 {
				f = f[:k]
			}
			f = strings.NewReplacer("(*", "", ")", "").Replace(f)
			return f
		}
	}
	return "outside-twig"
}

// guard runs f under recover and records the first panic
func (o *c05Obs) guard(where string, f func()) {
	defer func() {
		if r := recover(); r != nil && o.Panic == "" {
			o.Panic = fmt.Sprint(r)
			if len(o.Panic) > 300 {
				o.Panic = o.Panic[:300]
			}
			o.Class = "panic:" + c05Frame(string(debug.Stack()))
			o.Where = where
		}
	}()
	f()
}

func c05Tokens(src string, large bool) (toks []twig.Token, err error) {
	tk := twig.GetTokenizer(src, 0)
	defer twig.ReleaseTokenizer(tk)
	var t []twig.Token
	if large {
		t, err = tk.TokenizeOptimized()
	} else {
		t, err = tk.TokenizeHtmlPreserving()
	}
	if err != nil {
		return nil, err
	}
	toks = append([]twig.Token(nil), t...) // the slice is the tokenizer's own buffer
	return toks, nil
}

var c05Shared *twig.Engine
var c05LoaderEngine *twig.Engine
var c05LoaderSrc map[string]string

func c05Helpers(eng *twig.Engine) {
	eng.RegisterString("inc", "[inc {{ a }}]")
	eng.RegisterString("base", "<{% block body %}base{% endblock %}|{% block other %}o{% endblock %}>")
	eng.RegisterString("macros", "{% macro m(p, q = 2) %}({{ p }},{{ q }}){% endmacro %}{% macro n() %}n{% endmacro %}")
	// nested includes and macro look-ups through several contexts: what a later, healthy render needs
	eng.RegisterString("c05mid", "({% include 'inc' with {'a': 'M'} %}{% macro z() %}z{% endmacro %}{{ _self.z() }}{% include 'inc' %})")
	// libraries whose top level fails when rendered (what an import does first)
	eng.RegisterString("c05libdiv", "{{ 100 / zero }}{% macro m() %}m{% endmacro %}")
	eng.RegisterString("c05libinc", "{% include 'c05-no-such-partial' %}{% macro m() %}m{% endmacro %}")
	eng.RegisterString("c05libfn", "{{ c05nosuchfunction() }}{% macro m() %}m{% endmacro %}")
	eng.RegisterString("c05libfilter", "{{ a|c05nosuchfilter }}{% macro m() %}m{% endmacro %}")
	eng.RegisterString("c05libidx", "{% macro m() %}m{% endmacro %}{{ arr[99].x.y }}{{ c05nosuch2() }}")
	eng.RegisterString("c05libimp", "{% import 'c05libdiv' as d %}{% macro m() %}m{% endmacro %}")
	eng.RegisterString("c05libext", "{% extends 'c05-no-such-parent' %}{% macro m() %}m{% endmacro %}")
	// a partial that reads attributes of values of every shape, for sandboxed includes under the library's default policy
	eng.EnableSandbox(twig.NewDefaultSecurityPolicy())
	eng.RegisterString("c05sb", "{{ missing.Name }}|{{ n.Name }}|{{ nilp.A }}|{{ nili.A }}|{{ st.Name }}|{{ pst.Hello }}|{{ m.k }}|{{ mis[1] }}|{% for q in missing.items %}x{% endfor %}{{ tnil.X }}|{{ any.deeper.still }}")
	eng.RegisterString("c05nest", "{% import 'macros' as mm %}<{% include 'inc' %}{% include 'c05mid' %}{{ mm.m(1) }}{% for i in [1, 2] %}{% include 'c05mid' with {'a': i} %}{% endfor %}>")
}

// c05Reuse: after every case the same engine must still register, load and render. Two steps (register and
// render a fresh template; load and render one that is already there), under a watchdog of their own: an
// engine whose lock was left held blocks for ever, which the child reports and then asks to be replaced.
func c05Reuse(o *c05Obs, eng *twig.Engine, loaded string) {
	type res struct{ msg string }
	done := make(chan res, 1)
	go func() {
		var out, out2 string
		var err error
		p := &c05Obs{}
		p.guard("reuse", func() {
			// (a struct attribute too: the process-wide attribute cache must still answer)
			if err = eng.RegisterString("c05ok", "ok {{ a }}{{ rec.X }}"); err == nil {
				out, err = eng.Render("c05ok", map[string]interface{}{"a": "A", "rec": c05Inner{A: 1}})
				if err == nil {
					out, err = eng.Render("c05ok", map[string]interface{}{"a": "A", "rec": struct{ X int }{1}})
				}
			}
			if err == nil {
				out2, err = eng.Render(loaded, map[string]interface{}{"a": "A1"})
			}
			for i := 0; i < 3 && err == nil; i++ {
				var out3 string
				out3, err = eng.Render("c05nest", map[string]interface{}{"a": "A1"})
				if err == nil && out3 != "<[inc A1]([inc M]z[inc A1])(1,2)([inc M]z[inc 1])([inc M]z[inc 2])>" {
					err = fmt.Errorf("nested includes afterwards give %q", out3)
				}
			}
		})
		switch {
		case p.Panic != "":
			done <- res{"a trivial render panics afterwards: " + p.Panic}
		case err != nil || out != "ok A1" || out2 != "[inc A1]":
			done <- res{fmt.Sprintf("trivial renders afterwards give %q and %q, %v", out, out2, err)}
		default:
			done <- res{""}
		}
	}()
	select {
	case r := <-done:
		if r.msg != "" && o.Unusable == "" {
			o.Unusable = r.msg
		}
	case <-time.After(500 * time.Millisecond):
		if o.Unusable == "" {
			o.Unusable = "a trivial register / load / render on the same engine afterwards does not return (engine left locked)"
		}
		o.Restart = true
	}
}

func c05Exec(c Case) *c05Obs {
	o := &c05Obs{}
	switch c.str("stream") {
	case "tokens":
		var toks []twig.Token
		for _, e := range c.list("toks") {
			a := e.([]interface{})
			toks = append(toks, twig.Token{Type: int(a[0].(float64)), Value: unhex(a[1].(string)), Line: int(a[2].(float64))})
		}
		shape, idx, err, pan := twig.VerifParseTokens(append([]twig.Token(nil), toks...))
		switch {
		case pan != "" && strings.Contains(pan, "index out of range"):
			o.Verdict = "panic-index"
			o.Panic = pan
		case pan != "" && strings.Contains(pan, "slice bounds out of range"):
			o.Verdict = "panic-str"
			o.Panic = pan
		case pan != "":
			o.Verdict = "panic-other"
			o.Panic = pan
		case err != nil:
			o.Verdict = "err"
		default:
			o.Verdict = "ok"
			o.Idx = idx
			o.Shape = shape
		}
		for _, e := range c.list("skips") {
			a := e.([]interface{})
			i := int(a[0].(float64))
			j, p := twig.VerifExprExtent(append([]twig.Token(nil), toks...), i)
			o.Extents = append(o.Extents, j)
			if p != "" && o.SpecBad == "" {
				o.SpecBad = fmt.Sprintf("parseExpression at %d panics: %s", i, p)
			}
			if j >= 0 && o.SpecBad == "" {
				if j <= i || j > len(toks) {
					o.SpecBad = fmt.Sprintf("parseExpression at %d stops at %d", i, j)
				} else {
					for k := i; k < j; k++ {
						switch toks[k].Type {
						case twig.TOKEN_NAME, twig.TOKEN_NUMBER, twig.TOKEN_STRING, twig.TOKEN_OPERATOR, twig.TOKEN_PUNCTUATION:
						default:
							o.SpecBad = fmt.Sprintf("parseExpression at %d consumed token %d of type %d", i, k, toks[k].Type)
						}
					}
				}
			}
		}
		if src := c.str("src"); src != "" {
			s := unhex(src)
			o.guard("tokenize", func() {
				got, err := c05Tokens(s, false)
				if err != nil || len(got) != len(toks) {
					return
				}
				for i := range got {
					if got[i].Type != toks[i].Type || got[i].Value != toks[i].Value {
						return
					}
				}
				o.SrcSame = true
			})
			if o.SrcSame {
				o.guard("parse", func() {
					p := &twig.Parser{}
					if _, err := p.Parse(s); err != nil {
						o.SrcParse = "err"
					} else {
						o.SrcParse = "ok"
					}
				})
				if o.Panic != "" && o.SrcParse == "" {
					o.SrcParse = "panic"
				}
			}
		}
	case "source":
		src := c.hexs("src")
		for _, large := range []bool{false, true} {
			name := map[bool]string{false: "TokenizeHtmlPreserving", true: "TokenizeOptimized"}[large]
			if !large && len(src) > 200000 {
				// the tokenizer for templates of at most 4096 bytes takes time quadratic in the number of tags (30 s on 800 KB
				// of them): the engine never gives it such a source, and a watchdog on it would measure the machine
				o.Notes = append(o.Notes, "TokenizeHtmlPreserving not called directly on a source of more than 200000 bytes")
				continue
			}
			o.guard(name, func() {
				toks, err := c05Tokens(src, large)
				if err == nil && (len(toks) == 0 || toks[len(toks)-1].Type != twig.TOKEN_EOF) {
					o.NoEOF = name + " returned a token stream that does not end in EOF"
				}
				if err == nil {
					// the block parser on the stream of the tokenizer that Parse would NOT choose for this length
					if _, _, _, pan := twig.VerifParseTokens(toks); pan != "" && o.Panic == "" {
						o.Panic = pan
						o.Class = "panic:parse-after-" + name
						o.Where = "parseOuterTemplate on the stream of " + name
					}
				}
			})
		}
		eng := c05Shared
		var err error
		o.guard("RegisterString", func() { err = eng.RegisterString("c05main", src) })
		if o.Panic == "" {
			if err != nil {
				o.Outcome = "parse-error"
			} else if c.str("norender") == "" {
				o.guard("Render", func() {
					_, err = eng.Render("c05main", c05Ctx())
					if err != nil {
						o.Outcome = "render-error"
					} else {
						o.Outcome = "value"
					}
				})
			} else {
				o.Outcome = "parsed"
			}
		}
		c05Reuse(o, eng, "inc")
		// the same source supplied by a loader (Engine.Load reads, parses and caches it), then the engine again
		if o.Panic == "" && o.Unusable == "" && c.str("norender") == "" {
			le := c05LoaderEngine
			c05LoaderSrc["c05main"] = src
			le.SetCache(false)
			o.guard("Render of a loader-supplied source", func() {
				_, lerr := le.Render("c05main", c05Ctx())
				switch {
				case lerr == nil && o.Outcome != "value":
					o.Notes = append(o.Notes, "loader route renders, registered route: "+o.Outcome)
				case lerr != nil && o.Outcome == "value":
					o.Notes = append(o.Notes, "loader route fails, registered route renders: "+lerr.Error())
				}
			})
			le.SetCache(true)
			c05Reuse(o, le, "inc")
		}
	case "render":
		src := c.hexs("tpl")
		eng := c05Shared
		var err error
		rctx := c05Ctx()
		if c.str("tag") == "cyclic" {
			rctx = c05CyclicCtx()
		}
		o.guard("RegisterString", func() { err = eng.RegisterString("c05main", src) })
		if o.Panic == "" {
			if err != nil {
				o.Outcome = "parse-error"
			} else {
				o.guard("Render", func() {
					var out string
					out, err = eng.Render("c05main", rctx)
					if err != nil {
						o.Outcome = "render-error"
					} else {
						o.Outcome = "value"
						if c.str("out") != "" {
							o.Shape = hx(out)
						}
					}
				})
			}
		}
		c05Reuse(o, eng, "inc")
	case "compiled":
		data := []byte(c.hexs("data"))
		eng := c05Shared
		var err error
		var ct *twig.CompiledTemplate
		o.guard("DeserializeCompiledTemplate", func() { ct, err = twig.DeserializeCompiledTemplate(data) })
		if o.Panic == "" {
			if err != nil {
				o.Outcome = "error"
			} else {
				o.Outcome = "value"
				name := ct.Name
				o.guard("LoadFromCompiledData", func() { err = eng.LoadFromCompiledData(data) })
				if o.Panic == "" && err == nil && len(ct.Source) < 1<<16 {
					o.guard("Render", func() { eng.Render(name, c05Ctx()) })
				}
			}
		}
		c05Reuse(o, eng, "inc")
	default:
		o.Notes = append(o.Notes, "unknown stream")
	}
	return o
}

func c05Child() {
	// address-space limit: a request for gigabytes kills this child (fatal error: out of memory), not the host
	lim := uint64(3) << 30
	syscall.Setrlimit(syscall.RLIMIT_AS, &syscall.Rlimit{Cur: lim, Max: lim})
	debug.SetMemoryLimit(2 << 30)
	c05Shared = twig.New()
	c05Helpers(c05Shared)
	// names the registrations do not have go to the library's own loaders: a file-system loader on an empty directory
	// with two search paths, alone and inside a chain
	if dir, derr := os.MkdirTemp("", "c05fs"); derr == nil {
		os.MkdirAll(filepath.Join(dir, "sub"), 0o755)
		os.WriteFile(filepath.Join(dir, "sub", "real.twig"), []byte("real {{ a }}"), 0o644)
		fsl := twig.NewFileSystemLoader([]string{dir, filepath.Join(dir, "sub")})
		c05Shared.RegisterLoader(fsl)
		c05Shared.RegisterLoader(twig.NewChainLoader([]twig.Loader{twig.NewArrayLoader(map[string]string{}), twig.NewFileSystemLoader([]string{dir})}))
	}
	// a second engine whose templates come from a loader; the map is the loader's own, so the source under
	// test is swapped in place
	c05LoaderSrc = map[string]string{
		"inc":     "[inc {{ a }}]",
		"base":    "<{% block body %}base{% endblock %}|{% block other %}o{% endblock %}>",
		"macros":  "{% macro m(p, q = 2) %}({{ p }},{{ q }}){% endmacro %}{% macro n() %}n{% endmacro %}",
		"broken":  "{% if %}",
		"c05mid":  "({% include 'inc' with {'a': 'M'} %}{% macro z() %}z{% endmacro %}{{ _self.z() }}{% include 'inc' %})",
		"c05nest": "{% import 'macros' as mm %}<{% include 'inc' %}{% include 'c05mid' %}{{ mm.m(1) }}{% for i in [1, 2] %}{% include 'c05mid' with {'a': i} %}{% endfor %}>",
	}
	c05LoaderEngine = twig.New()
	c05LoaderEngine.RegisterLoader(twig.NewArrayLoader(c05LoaderSrc))
	in := bufio.NewReaderSize(os.Stdin, 1<<20)
	// replies travel on a private copy of stdout: the engine itself prints to os.Stdout on some error paths
	fd, err := syscall.Dup(1)
	if err != nil {
		fmt.Fprintln(os.Stderr, "child: dup:", err)
		os.Exit(4)
	}
	out := bufio.NewWriter(os.NewFile(uintptr(fd), "replies"))
	if null, err := os.OpenFile(os.DevNull, os.O_WRONLY, 0); err == nil {
		os.Stdout = null
	}
	for {
		line, err := in.ReadBytes('\n')
		if len(line) > 1 {
			var c Case
			if e := json.Unmarshal(line, &c); e != nil {
				fmt.Fprintln(os.Stderr, "child: bad case:", e)
				os.Exit(4)
			}
			// a case may ask for a smaller stack: unbounded recursion then shows at sizes that fit the memory limit
			if mb := c.num("maxstack_mb"); mb > 0 {
				debug.SetMaxStack(mb << 20)
			} else {
				debug.SetMaxStack(1000000000)
			}
			t0 := time.Now()
			o := c05Exec(c)
			o.Millis = time.Since(t0).Milliseconds()
			b, _ := json.Marshal(o)
			out.Write(b)
			out.WriteByte('\n')
			out.Flush()
		}
		if err != nil {
			return
		}
	}
}

// ---------------------------------------------------------------- parent: the pool
type c05Worker struct {
	cmd    *exec.Cmd
	stdin  io.WriteCloser
	stdout *bufio.Reader
	stderr *c05Tail
}

type c05Tail struct {
	mu  sync.Mutex
	buf []byte
}

func (t *c05Tail) Write(p []byte) (int, error) {
	t.mu.Lock()
	defer t.mu.Unlock()
	t.buf = append(t.buf, p...)
	if len(t.buf) > 1<<16 {
		// keep the head (the fatal error line and the first frames) and the tail
		t.buf = append(t.buf[:1<<14], t.buf[len(t.buf)-(1<<14):]...)
	}
	return len(p), nil
}
func (t *c05Tail) String() string { t.mu.Lock(); defer t.mu.Unlock(); return string(t.buf) }

func c05Start() (*c05Worker, error) {
	cmd := exec.Command(os.Args[0], "C05", "-", "-")
	cmd.Env = append(os.Environ(), "VERIF_C05_CHILD=1", "GOTRACEBACK=all")
	in, err := cmd.StdinPipe()
	if err != nil {
		return nil, err
	}
	out, err := cmd.StdoutPipe()
	if err != nil {
		return nil, err
	}
	tail := &c05Tail{}
	cmd.Stderr = tail
	if err := cmd.Start(); err != nil {
		return nil, err
	}
	return &c05Worker{cmd: cmd, stdin: in, stdout: bufio.NewReaderSize(out, 1<<20), stderr: tail}, nil
}

func (w *c05Worker) kill() {
	w.stdin.Close()
	w.cmd.Process.Kill()
	w.cmd.Wait()
}

var c05Timeouts int32

const c05MaxTimeouts = 120

type c05Done struct {
	c      Case
	obs    *c05Obs
	fail   string // timeout | fatal
	detail string
}

// c05BusyFrame: in a SIGQUIT dump, the first frame of package twig of a goroutine that is running or runnable
func c05BusyFrame(dump string) string {
	for _, blk := range strings.Split(dump, "\n\n") {
		head := blk
		if k := strings.Index(blk, "\n"); k > 0 {
			head = blk[:k]
		}
		if strings.HasPrefix(head, "goroutine ") && (strings.Contains(head, "[running") || strings.Contains(head, "[runnable")) {
			if f := c05Frame(blk); f != "outside-twig" {
				return f
			}
		}
	}
	return "unknown"
}

func c05FatalClass(stderr string) string {
	switch {
	case strings.Contains(stderr, "stack overflow"):
		// the function that recurses: the most frequent twig frame
		cnt := map[string]int{}
		for _, l := range strings.Split(stderr, "\n") {
			l = strings.TrimSpace(l)
			if strings.HasPrefix(l, "github.com/semihalev/twig.") {
				f := strings.TrimPrefix(l, "github.com/semihalev/twig.")
				if k := strings.LastIndex(f, "("); k > 0 {
					f = f[:k]
				}
				cnt[strings.NewReplacer("(*", "", ")", "").Replace(f)]++
			}
		}
		best, bn := "unknown", 0
		for f, n := range cnt {
			if n > bn || (n == bn && f < best) {
				best, bn = f, n
			}
		}
		return "fatal:stack-overflow:" + best
	case strings.Contains(stderr, "out of memory") || strings.Contains(stderr, "cannot allocate"):
		return "fatal:out-of-memory:" + strings.TrimPrefix(c05Frame(stderr), "panic:")
	case strings.Contains(stderr, "concurrent map"):
		return "fatal:concurrent-map"
	}
	return "fatal:exit"
}

func c05Pool(cases []Case, handle func(d c05Done)) {
	nw := runtime.NumCPU()
	if nw > 8 {
		nw = 8
	}
	if nw < 2 {
		nw = 2
	}
	jobs := make(chan Case, 64)
	results := make(chan c05Done, 64)
	var wg sync.WaitGroup
	for k := 0; k < nw; k++ {
		wg.Add(1)
		go func() {
			defer wg.Done()
			var w *c05Worker
			defer func() {
				if w != nil {
					w.kill()
				}
			}()
			for c := range jobs {
				if atomic.LoadInt32(&c05Timeouts) > c05MaxTimeouts {
					// enough hangs to report: the rest of the run would be spent waiting for watchdogs
					results <- c05Done{c: c, fail: "skipped"}
					continue
				}
				if w == nil {
					var err error
					if w, err = c05Start(); err != nil {
						results <- c05Done{c: c, fail: "fatal", detail: "cannot start child: " + err.Error()}
						w = nil
						continue
					}
				}
				line, _ := json.Marshal(c)
				limit := 2 * time.Second
				if s := c.num("timeout_s"); s > 0 {
					limit = time.Duration(s) * time.Second
				}
				type rd struct {
					b   []byte
					err error
				}
				ch := make(chan rd, 1)
				go func(w *c05Worker) {
					if _, err := w.stdin.Write(append(line, '\n')); err != nil {
						ch <- rd{nil, err}
						return
					}
					b, err := w.stdout.ReadBytes('\n')
					ch <- rd{b, err}
				}(w)
				select {
				case r := <-ch:
					if r.err != nil {
						w.cmd.Wait()
						st := w.stderr.String()
						if len(st) > 3000 {
							st = st[:3000]
						}
						results <- c05Done{c: c, fail: c05FatalClass(st), detail: st}
						w.kill()
						w = nil
						continue
					}
					var o c05Obs
					if err := json.Unmarshal(r.b, &o); err != nil {
						results <- c05Done{c: c, fail: "fatal:bad-reply", detail: string(r.b)}
						w.kill()
						w = nil
						continue
					}
					if time.Duration(o.Millis)*time.Millisecond > limit+1200*time.Millisecond {
						results <- c05Done{c: c, fail: "timeout:slow:" + o.Where, detail: fmt.Sprintf("took %d ms", o.Millis)}
					} else {
						results <- c05Done{c: c, obs: &o}
					}
					if o.Restart {
						atomic.AddInt32(&c05Timeouts, 1)
						w.kill()
						w = nil
					}
				case <-time.After(limit + 1200*time.Millisecond): // the slack covers the usable-afterwards probes
					// ask the runtime for the goroutine stacks (SIGQUIT), then kill
					w.cmd.Process.Signal(syscall.SIGQUIT)
					exited := make(chan struct{})
					go func(w *c05Worker) { w.cmd.Wait(); close(exited) }(w)
					select {
					case <-exited:
					case <-time.After(2 * time.Second):
					}
					st := w.stderr.String()
					w.stdin.Close()
					w.cmd.Process.Kill()
					w = nil
					atomic.AddInt32(&c05Timeouts, 1)
					results <- c05Done{c: c, fail: "timeout:" + c05BusyFrame(st), detail: fmt.Sprintf("no result within %v", limit)}
				}
			}
		}()
	}
	go func() {
		for _, c := range cases {
			jobs <- c
		}
		close(jobs)
		wg.Wait()
		close(results)
	}()
	for d := range results {
		handle(d)
	}
}

// ---------------------------------------------------------------- parent: judging
func c05Key(c Case) string {
	switch c.str("stream") {
	case "tokens":
		b, _ := json.Marshal(c["toks"])
		return "tok:" + string(b)
	case "source":
		return "src:" + c.str("src")
	case "render":
		return "rnd:" + c.str("tpl")
	}
	return "cmp:" + c.str("data")
}

func c05Describe(c Case) string {
	if r := c.str("recipe"); r != "" {
		return fmt.Sprintf("recipe %s n=%d", r, c.num("n"))
	}
	for _, k := range []string{"tpl", "src", "data"} {
		if v := c.str(k); v != "" && !strings.HasPrefix(v, "(omitted") {
			b := unhex(v)
			if len(b) > 160 {
				b = b[:160] + "..."
			}
			return fmt.Sprintf("%s %q", k, b)
		}
	}
	if toks := c.list("toks"); toks != nil {
		var b strings.Builder
		b.WriteString("tokens [")
		for i, e := range toks {
			a := e.([]interface{})
			if i > 0 {
				b.WriteByte(' ')
			}
			if i >= 24 {
				b.WriteString("...")
				break
			}
			fmt.Fprintf(&b, "%d", int(a[0].(float64)))
			if v := unhex(a[1].(string)); v != "" {
				fmt.Fprintf(&b, ":%q", v)
			}
		}
		b.WriteString("]")
		return b.String()
	}
	return c.str("stream")
}

func c05Small(c Case) Case {
	// cases can be megabytes long (deep nestings): the replay keeps the generator recipe instead when there is one
	out := Case{}
	for k, v := range c {
		if s, ok := v.(string); ok && len(s) > 20000 && c.str("recipe") != "" {
			out[k] = "(omitted: " + fmt.Sprint(len(s)/2) + " bytes, see recipe)"
		} else {
			out[k] = v
		}
	}
	return out
}

func runC05(casesPath string, res *Result) {
	// the children make a scratch directory each for their file-system loaders
	defer func() {
		if m, _ := filepath.Glob(filepath.Join(os.TempDir(), "c05fs*")); len(m) > 0 {
			for _, d := range m {
				os.RemoveAll(d)
			}
		}
	}()
	var cases []Case
	readCases(casesPath, func(c Case) {
		// (a replay file keeps the recipe and a remark in place of the megabytes)
		if r := c.str("recipe"); r != "" && (c.str("src") == "" || strings.HasPrefix(c.str("src"), "(omitted")) && (c.str("tpl") == "" || strings.HasPrefix(c.str("tpl"), "(omitted")) {
			delete(c, "src")
			delete(c, "tpl")
			c05Expand(c)
		}
		cases = append(cases, c)
	})
	var noexact, exact, srcSame int
	perClass := map[string]int{}
	firstOf := map[string]string{}
	addClass := func(cls string, f Finding) {
		res.Hist["class:"+cls]++
		perClass[cls]++
		if _, ok := firstOf[cls]; !ok {
			firstOf[cls] = c05Describe(f.Case.(Case))
		}
		if perClass[cls] <= 2 {
			res.add(f)
		} else {
			res.OracleFails++
		}
	}
	c05Pool(cases, func(d c05Done) {
		c := d.c
		stream := c.str("stream")
		tag := c.str("tag")
		res.Evaluations++
		res.Hist["stream:"+stream]++
		if tag != "" {
			res.Hist["tag:"+tag]++
		}
		nontrivial := stream != "tokens" || len(c.list("toks")) >= 6
		res.count(c05Key(c), nontrivial)
		if d.fail == "skipped" {
			res.Hist["skipped-after-many-timeouts"]++
			return
		}
		if d.fail != "" {
			cls := d.fail
			res.Hist["fail:"+strings.SplitN(cls, ":", 2)[0]]++
			addClass(cls, Finding{Kind: "oracle", Where: stream + "/" + tag, Case: c05Small(c), Expected: "a value or an error within the watchdog",
				Observed: d.fail, Detail: cls + " :: " + d.detail, Known: c05Known(cls)})
			return
		}
		o := d.obs
		if o.Outcome != "" {
			res.Hist["outcome:"+o.Outcome]++
		}
		if stream != "tokens" && o.Panic != "" {
			res.Hist["fail:panic"]++
			addClass(o.Class, Finding{Kind: "oracle", Where: stream + "/" + tag + " " + o.Where, Case: c05Small(c), Expected: "a value or an error",
				Observed: "panic: " + o.Panic, Detail: o.Class, Known: c05Known(o.Class)})
		}
		if o.Unusable != "" {
			res.add(Finding{Kind: "oracle", Where: stream + "/" + tag, Case: c05Small(c), Expected: "the engine renders a trivial template afterwards",
				Observed: o.Unusable, Detail: "engine-unusable"})
		}
		if o.NoEOF != "" {
			res.add(Finding{Kind: "disagreement", Where: "tokenizer-eof-invariant", Case: c05Small(c), Expected: "token stream ends in EOF (hypothesis of C05_block_parser_index_safe)",
				Observed: o.NoEOF})
		}
		if stream == "tokens" {
			c05JudgeTokens(c, o, res, &exact, &noexact, &srcSame)
		}
		if tag == "sanity" && o.Panic == "" {
			switch {
			case o.Outcome != "value":
				addClass("sanity-error", Finding{Kind: "oracle", Where: "render/sanity", Case: c, Expected: "output " + fmt.Sprintf("%q", c.hexs("out")),
					Observed: o.Outcome, Detail: "sanity-error: a read of an existing field or zero-argument method of a supported context value fails (an internal failure reported as an error)"})
			case o.Shape != c.str("out"):
				res.add(Finding{Kind: "disagreement", Where: "render/sanity", Case: c, Expected: fmt.Sprintf("%q", c.hexs("out")), Observed: fmt.Sprintf("%q", unhex(o.Shape))})
			}
		}
		if len(res.Samples) < 12 && (res.Evaluations%97 == 1) {
			res.sample(map[string]interface{}{"stream": stream, "tag": tag, "outcome": o.Outcome, "verdict": o.Verdict}, 12)
		}
	})
	var classes []string
	for cls := range firstOf {
		classes = append(classes, cls)
	}
	sort.Strings(classes)
	for _, cls := range classes {
		res.Notes = append(res.Notes, fmt.Sprintf("failure class %s: %d cases, first input %s", cls, perClass[cls], firstOf[cls]))
	}
	res.Notes = append(res.Notes, fmt.Sprintf("tokens stream: %d cases where every traced parseExpression extent equals the stand-in (verdict, index and shape compared), %d where it does not (only: no panic on EOF-terminated lists, extents within bp_expr_spec); %d printed sources re-tokenized to the same list and parsed through Parser.Parse", exact, noexact, srcSame))
}

func c05JudgeTokens(c Case, o *c05Obs, res *Result, exact, noexact, srcSame *int) {
	want := c.str("verdict")
	eof := c["eof"] == true
	if o.SpecBad != "" {
		res.add(Finding{Kind: "disagreement", Where: "bp_expr_spec", Case: c, Expected: "parseExpression consumes at least one token and only expression tokens", Observed: o.SpecBad})
	}
	res.Hist["model:"+want]++
	res.Hist["real:"+o.Verdict]++
	if eof && strings.HasPrefix(o.Verdict, "panic") && !(o.Verdict == "panic-str" && want == "panic-str") {
		// the theorem covers every stand-in, so this is a failure whatever the extents
		res.add(Finding{Kind: "disagreement", Where: "C05_block_parser_index_safe", Case: c, Expected: "no panic on a token list that ends in EOF (model: " + want + ")",
			Observed: o.Verdict + ": " + o.Panic})
		return
	}
	sk := c.list("skips")
	same := len(sk) == len(o.Extents)
	for i := 0; same && i < len(sk); i++ {
		if int(sk[i].([]interface{})[1].(float64)) != o.Extents[i] {
			same = false
		}
	}
	if !same {
		*noexact++
		res.Hist["abstraction:inexact"]++
		return
	}
	*exact++
	res.Hist["abstraction:exact"]++
	if want == "fuel" {
		res.add(Finding{Kind: "disagreement", Where: "C05_block_parser_fuel_bound", Case: c, Expected: "never out of fuel", Observed: "model returned PFuel"})
		return
	}
	if want != o.Verdict {
		res.add(Finding{Kind: "disagreement", Where: "block-parser verdict", Case: c, Expected: want, Observed: o.Verdict + " " + o.Panic})
		return
	}
	if want == "ok" && (c.num("idx") != o.Idx || c.str("shape") != o.Shape) {
		res.add(Finding{Kind: "disagreement", Where: "block-parser index/shape", Case: c, Expected: fmt.Sprintf("%d %s", c.num("idx"), c.str("shape")),
			Observed: fmt.Sprintf("%d %s", o.Idx, o.Shape)})
		return
	}
	if o.SrcSame {
		*srcSame++
		wantParse := map[string]string{"ok": "ok", "err": "err"}[want]
		if wantParse != "" && o.SrcParse != wantParse {
			res.add(Finding{Kind: "disagreement", Where: "Parser.Parse on the printed source", Case: c, Expected: wantParse, Observed: o.SrcParse + " " + o.Panic})
		}
	}
}

// known-finding classes: a failure class is attributed to a known finding only when KNOWN_FINDINGS.txt lists
// `finding: property=C05 class=c05:<class> ...`; everything else is a failure of the property
var c05Listed map[string]bool

func c05Known(class string) string {
	if c05Listed == nil {
		c05Listed = map[string]bool{}
		dirs := []string{os.Getenv("VERIF_DIR"), "."}
		if exe, err := os.Executable(); err == nil {
			d := exe
			for i := 0; i < 5; i++ {
				d = filepath.Dir(d)
				dirs = append(dirs, d)
			}
		}
		for _, d := range dirs {
			if d == "" {
				continue
			}
			b, err := os.ReadFile(filepath.Join(d, "KNOWN_FINDINGS.txt"))
			if err != nil {
				continue
			}
			for _, l := range strings.Split(string(b), "\n") {
				l = strings.TrimSpace(l)
				if strings.HasPrefix(l, "finding:") && strings.Contains(l, "property=C05") {
					for _, w := range strings.Fields(l) {
						if strings.HasPrefix(w, "class=") {
							c05Listed[strings.TrimPrefix(w, "class=")] = true
						}
					}
				}
			}
			break
		}
	}
	cl := "c05:" + strings.NewReplacer(" ", "", "/", "-").Replace(class)
	if c05Listed[cl] {
		return cl
	}
	return ""
}

// recipes: sources too long to travel as hex are built here from a short description
func c05Expand(c Case) {
	n := c.num("n")
	var src string
	rep := strings.Repeat
	switch c.str("recipe") {
	case "parens":
		src = "{{ " + rep("(", n) + "1" + rep(")", n) + " }}"
	case "arrays":
		src = "{{ " + rep("[", n) + "1" + rep("]", n) + " }}"
	case "hashes":
		src = "{{ " + rep("{'a':", n) + "1" + rep("}", n) + " }}"
	case "unary":
		src = "{{ " + rep("- ", n) + "1 }}"
	case "nots":
		src = "{{ " + rep("not ", n) + "x }}"
	case "sum":
		src = "{{ 1" + rep("+1", n) + " }}"
	case "concat":
		src = "{{ 'a'" + rep("~'a'", n) + " }}"
	case "index":
		src = "{{ lol" + rep("[0]", n) + " }}"
	case "attr":
		src = "{{ m" + rep(".a", n) + " }}"
	case "filters":
		src = "{{ a" + rep("|upper", n) + " }}"
	case "ifs":
		src = rep("{% if 1 %}", n) + "x" + rep("{% endif %}", n)
	case "fors":
		src = rep("{% for q in [1] %}", n) + "x" + rep("{% endfor %}", n)
	case "blocks":
		var b strings.Builder
		for i := 0; i < n; i++ {
			fmt.Fprintf(&b, "{%% block b%d %%}", i)
		}
		b.WriteString("x" + rep("{% endblock %}", n))
		src = b.String()
	case "names":
		var b strings.Builder
		b.WriteString("{{ 0")
		for i := 0; i < n; i++ {
			fmt.Fprintf(&b, "~v%d", i)
		}
		b.WriteString(" }}")
		src = b.String()
	case "tags":
		src = rep("{{ a }}x", n)
	case "manyattrs":
		// more distinct attribute names on one struct than the attribute cache holds
		var b strings.Builder
		for i := 0; i < n; i++ {
			b.WriteString("{{ st.Attr" + strconv.Itoa(i) + " }}")
		}
		b.WriteString("[{{ st.X }}]")
		src = b.String()
	case "text":
		src = rep("lorem { ipsum } % # ", n)
	case "ternary":
		src = "{{ " + rep("1 ? ", n) + "1" + rep(" : 0", n) + " }}"
	case "ternary-else":
		src = "{{ " + rep("0 ? 0 : ", n) + "1 }}"
	case "ternary-tight":
		src = "{{ 1" + rep("?1:1", n) + " }}"
	case "ternary-cond":
		src = "{{ " + rep("(", n/2) + "1" + rep(" ? 1 : 0)", n/2) + " }}"
	case "ternary-short":
		src = "{{ " + rep("a ?: ", n) + "1 }}"
	case "coalesce":
		src = "{{ " + rep("a ?? ", n) + "1 }}"
	}
	c["src"] = hx(src)
}
