package main

import (
	"html"
	"io"
	"strings"

	"github.com/semihalev/twig"
)

// c07UnderEngineSettings: what e / escape produce does not depend on the engine's debug, cache and reload settings,
// nor on the debug level another engine of the process switched on.
func c07UnderEngineSettings(res *Result) {
	tpls := map[string]string{
		"p_e": "{{ v|e }}", "p_escape": "{{ v|escape }}", "chain2": "{{ v|trim|e }}", "chain2b": "{{ v|e|raw }}", "chain3": "{{ v|raw|escape|raw }}", "chain4": "{{ v|trim|raw|trim|e }}",
		"macro": "{% macro m(x) %}{{ x|trim|e }}{% endmacro %}{{ m(v) }}", "inc": "{{ v|trim|escape }}", "include": "{% include 'inc' %}", "apply": "{% apply escape %}{{ v|trim }}{% endapply %}",
		"set": "{% set w = v|trim|e %}{{ w }}", "loop": "{% for i in [1, 2] %}{{ v|raw|e }}{% endfor %}", "arg": "{{ nothing|default(v|trim|e) }}",
	}
	inputs := []string{"<a href=\"x\">T&C's</a>", "&amp; &lt; already", "plain", "  <b> \"q\" 'r' & ", "&", "<", "'", "\"", "a&b<c>d\"e'f"}
	render := func(e *twig.Engine, name, in string) string {
		out, err := e.Render(name, map[string]interface{}{"v": in})
		if err != nil {
			return "error: " + err.Error()
		}
		return out
	}
	mk := func(set func(*twig.Engine)) *twig.Engine {
		e := twig.New()
		if set != nil {
			set(e)
		}
		for n, s := range tpls {
			if err := e.RegisterString(n, s); err != nil {
				panic(err)
			}
		}
		return e
	}
	plain := mk(nil)
	want := map[string]string{}
	for n := range tpls {
		for _, in := range inputs {
			want[n+"\x00"+in] = render(plain, n, in)
		}
	}
	settings := append([]struct {
		name string
		set  func(*twig.Engine)
	}{
		{"SetDebugLevel(DebugVerbose) on the process", func(e *twig.Engine) { twig.SetDebugWriter(io.Discard); twig.SetDebugLevel(twig.DebugVerbose) }},
		{"SetDebugLevel(DebugInfo) on the process", func(e *twig.Engine) { twig.SetDebugWriter(io.Discard); twig.SetDebugLevel(twig.DebugInfo) }},
	}, evalSettings...)
	for _, st := range settings {
		e := mk(st.set)
		res.Hist["stream:under-engine-settings"]++
		for _, who := range []struct {
			name string
			eng  *twig.Engine
		}{{"that engine", e}, {"another engine of the process", plain}} {
			for n := range tpls {
				for _, in := range inputs {
					res.Evaluations++
					got := render(who.eng, n, in)
					w := want[n+"\x00"+in]
					if got != w {
						msg := "the output of " + tpls[n] + " differs from the one under default settings"
						if n != "chain2b" && n != "chain3" && html.UnescapeString(got) != strings.TrimSpace(in) && html.UnescapeString(got) != in {
							msg += "; decoding it does not give the value back"
						}
						res.add(Finding{Kind: "oracle", Where: "under-engine-settings/" + n, Case: Case{"stream": "under-engine-settings", "setting": st.name, "rendered on": who.name, "tpl": tpls[n], "in": hx(in)},
							Expected: hx(w), Observed: hx(got), Detail: msg})
						twig.SetDebugLevel(twig.DebugOff)
						return
					}
				}
			}
		}
		twig.SetDebugLevel(twig.DebugOff)
	}
}

// c07PartialsRegisteredAgain: a page that includes a partial shows what the partial now says: once the partial escapes
// its value, the page does.
func c07PartialsRegisteredAgain(res *Result) {
	pages := map[string]string{
		"top":     "[{% include 'part' %}]",
		"loop":    "[{% for i in [1, 2] %}{% include 'part' %}{% endfor %}]",
		"nested":  "[{% include 'mid' %}]",
		"block":   "[{% block b %}{% include 'part' %}{% endblock %}]",
		"with":    "[{% include 'part' with {'k': 1} %}]",
		"only":    "[{% include 'part' with {'v': v} only %}]",
		"ignore":  "[{% include 'part' ignore missing %}]",
		"dynamic": "[{% include 'pa' ~ 'rt' %}]",
	}
	versions := []string{"{{ v }}", "{{ v|e }}", "{{ v|raw }}", "{{ v|escape }}", "{% apply e %}{{ v }}{% endapply %}", "{{ v }}", "{% apply escape %}<{{ v }}>{% endapply %}"}
	const in = "<b>\"T&C's\"</b>"
	for _, settings := range []string{"defaults", "cache-off"} {
		e := twig.New()
		if settings == "cache-off" {
			e.SetCache(false)
		}
		e.RegisterString("mid", "{% include 'part' %}")
		e.RegisterString("part", versions[0])
		for n, s := range pages {
			e.RegisterString("page-"+n, s)
		}
		res.Hist["stream:partials-registered-again"]++
		for vi, ver := range versions {
			if err := e.RegisterString("part", ver); err != nil {
				panic(err)
			}
			direct, err := e.Render("part", map[string]interface{}{"v": in})
			if err != nil {
				continue
			}
			if strings.Contains(ver, "|e") || strings.Contains(ver, "apply e") {
				if strings.ContainsAny(direct, "<>\"'") {
					res.add(Finding{Kind: "oracle", Where: "partials-registered-again/direct", Case: Case{"stream": "partials-registered-again", "part": ver}, Expected: "no raw special character", Observed: direct})
					return
				}
			}
			for n, s := range pages {
				res.Evaluations++
				got, err := e.Render("page-"+n, map[string]interface{}{"v": in})
				if err != nil {
					got = "error: " + err.Error()
				}
				want := "[" + direct + "]"
				if n == "loop" {
					want = "[" + direct + direct + "]"
				}
				if got != want {
					res.add(Finding{Kind: "oracle", Where: "partials-registered-again/" + n, Case: Case{"stream": "partials-registered-again", "page": s, "part": ver, "registration number": vi + 1, "settings": settings, "in": hx(in)},
						Expected: want, Observed: got, Detail: "the page shows the partial as it was registered before, not as it is now (rendered on its own it gives " + direct + ")"})
					return
				}
			}
		}
	}
}

// c07AfterRescues: e / escape behind a filter that stands in for a value that is not there (default after an index
// out of range, a missing key, an undefined name, a null attribute): if the render gives output at all, the escape
// has been applied to whatever default handed on.
func c07AfterRescues(res *Result) {
	bases := []string{"xs[9]", "xs[2]", "ts[5]", "mp.nokey", "mp['nokey']", "undefinedname", "mp.nul", "nested.rows[4]", "nested.rows[0][7]", "xs[0]", "st.Nope", "xs|first", "empty|first", "attribute(mp, 'nokey')"}
	chains := []string{"|default(v)|e", "|default(v)|escape", "|default(v)|e|trim", "|default(v)|trim|escape", "|default(v)|raw|e", "|default(v, 'x')|e"}
	forms := []func(expr string) string{
		func(x string) string { return "{{ " + x + " }}" }, func(x string) string { return "{% set w = " + x + " %}{{ w }}" }, func(x string) string { return "{% macro m(a) %}{{ a }}{% endmacro %}{{ m(" + x + ") }}" },
		func(x string) string { return "{% for i in [1] %}{{ " + x + " }}{% endfor %}" },
	}
	const in = `<i class="none">n/a</i> & 'more'`
	e := twig.New()
	for _, b := range bases {
		for _, ch := range chains {
			for fi, form := range forms {
				src := form(b + ch)
				if e.RegisterString("t", src) != nil {
					continue
				}
				res.Hist["stream:after-rescues"]++
				res.Evaluations++
				out, err := e.Render("t", map[string]interface{}{"v": in, "xs": []interface{}{nil, "", "x"}, "ts": []string{"a"}, "mp": map[string]interface{}{"nul": nil}, "empty": []interface{}{},
					"nested": map[string]interface{}{"rows": []interface{}{[]interface{}{1}}}, "st": struct{ Name string }{"n"}})
				if err != nil {
					continue // a refused index is not an escaping matter
				}
				if i := strings.IndexAny(out, "<>\"'"); i >= 0 {
					res.add(Finding{Kind: "oracle", Where: "after-rescues", Case: Case{"stream": "after-rescues", "tpl": src, "form": fi}, Expected: "no raw < > \" ' in the output", Observed: out,
						Detail: "the chain ends in e / escape; the value default handed on was printed without it"})
					return
				}
			}
		}
	}
}
