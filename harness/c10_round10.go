package main

import (
	"fmt"
	"os"
	"path/filepath"
	"time"

	"github.com/semihalev/twig"
)

// c10ParentsNamedRelatively: templates in two directories that write the same relative parent name each get the
// parent of their own directory, in whatever order they are rendered on one engine.
func c10ParentsNamedRelatively(cases string, res *Result) {
	files := map[string]string{
		"shop/layout.twig": "<shop|{% block body %}{% endblock %}|{% block foot %}shop foot{% endblock %}>", "shop/page.twig": "{% extends \"./layout.twig\" %}{% block body %}page {{ n }}{% endblock %}",
		"blog/layout.twig": "<blog|{% block body %}{% endblock %}|{% block foot %}blog foot{% endblock %}>", "blog/post.twig": "{% extends './layout.twig' %}{% block body %}post {{ n }}{% endblock %}{% block foot %}{{ parent() }}!{% endblock %}",
		"blog/deep/note.twig": "{% extends '../layout.twig' %}{% block body %}note {{ n }}{% endblock %}", "shop/deep/item.twig": "{% extends '../layout.twig' %}{% block body %}item {{ n }}{% endblock %}",
		"shop/part.twig": "[shop part]", "blog/part.twig": "[blog part]", "shop/inc.twig": "{% include './part.twig' %}", "blog/inc.twig": "{% include './part.twig' %}",
		"shop/lib.twig": "{% macro m() %}shop macro{% endmacro %}", "blog/lib.twig": "{% macro m() %}blog macro{% endmacro %}", "shop/imp.twig": "{% import './lib.twig' as l %}{{ l.m() }}", "blog/imp.twig": "{% from './lib.twig' import m %}{{ m() }}",
	}
	want := map[string]string{
		"shop/page.twig": "<shop|page 3|shop foot>", "blog/post.twig": "<blog|post 3|blog foot!>", "blog/deep/note.twig": "<blog|note 3|blog foot>", "shop/deep/item.twig": "<shop|item 3|shop foot>",
		"shop/inc.twig": "[shop part]", "blog/inc.twig": "[blog part]", "shop/imp.twig": "shop macro", "blog/imp.twig": "blog macro",
	}
	dir := filepath.Join(filepath.Dir(cases), "c10relative")
	defer os.RemoveAll(dir)
	for n, s := range files {
		os.MkdirAll(filepath.Dir(filepath.Join(dir, n)), 0o755)
		os.WriteFile(filepath.Join(dir, n), []byte(s), 0o644)
	}
	orders := [][]string{
		{"shop/page.twig", "blog/post.twig", "shop/page.twig", "blog/deep/note.twig", "shop/deep/item.twig", "blog/post.twig"},
		{"blog/post.twig", "shop/page.twig", "shop/deep/item.twig", "blog/deep/note.twig"},
		{"shop/inc.twig", "blog/inc.twig", "shop/inc.twig", "blog/imp.twig", "shop/imp.twig", "blog/imp.twig"},
		{"blog/inc.twig", "shop/inc.twig", "shop/imp.twig", "blog/imp.twig"},
	}
	for _, loader := range []string{"array", "files"} {
		for oi, order := range orders {
			e := twig.New()
			if loader == "array" {
				e.RegisterLoader(twig.NewArrayLoader(files))
			} else {
				e.RegisterLoader(twig.NewFileSystemLoader([]string{dir}))
			}
			res.Hist["stream:c10-parents-named-relatively"]++
			for step, name := range order {
				res.Evaluations++
				got, err := e.Render(name, map[string]interface{}{"n": 3})
				if err != nil {
					got = "error: " + err.Error()
				}
				if got != want[name] {
					res.add(Finding{Kind: "oracle", Where: "c10-parents-named-relatively", Case: Case{"stream": "c10-parents-named-relatively", "loader": loader, "order": fmt.Sprint(order), "step": step + 1, "template": name, "source": files[name]},
						Expected: want[name], Observed: got, Detail: fmt.Sprintf("order %d: the relative name is resolved against the directory of the template that writes it", oi+1)})
					break
				}
			}
		}
	}
}

// c10LayoutsRenderedFirst: a layout whose blocks stand inside other constructs, rendered on its own or under another
// page first: every page still gets its own blocks, and every context its own values.
func c10LayoutsRenderedFirst(res *Result) {
	wraps := [][3]string{
		{"spaceless", "{% spaceless %}", "{% endspaceless %}"}, {"plain", "", ""}, {"apply", "{% apply trim %}", "{% endapply %}"}, {"if", "{% if true %}", "{% endif %}"},
		{"for", "{% for q in [1] %}", "{% endfor %}"}, {"nested-spaceless", "{% spaceless %}<div> {% spaceless %}", "{% endspaceless %} </div>{% endspaceless %}"}, {"autoescape", "{% autoescape %}", "{% endautoescape %}"},
		{"block", "{% block outer %}", "{% endblock %}"},
	}
	for _, w := range wraps {
		base := "<html>" + w[1] + "<ul> <li>{% block nav %}Home{% endblock %}</li> <li>{% block empty %}{% endblock %}</li> </ul>" + w[2] + "<p>{% block who %}nobody{% endblock %}</p></html>"
		pages := map[string]string{
			"base":    base,
			"shop":    "{% extends 'base' %}{% block nav %}Shop{% endblock %}",
			"blank":   "{% extends 'base' %}{% block nav %}{% endblock %}{% block empty %}filled{% endblock %}",
			"wrapper": "{% extends 'base' %}{% block nav %}[{{ parent() }}]{% endblock %}",
			"account": "{% extends 'base' %}{% block nav %}<b>{{ user }}</b>{% endblock %}{% block who %}{{ user }}{% endblock %}",
			"deep":    "{% extends 'shop' %}{% block nav %}{{ parent() }}/Deep{% endblock %}",
		}
		fresh := func(name string, ctx map[string]interface{}) (string, bool) {
			e := twig.New()
			for n, s := range pages {
				if e.RegisterString(n, s) != nil {
					return "", false
				}
			}
			out, err := e.Render(name, ctx)
			if err != nil {
				return "error: " + err.Error(), true
			}
			return out, true
		}
		type step struct {
			name string
			user string
		}
		orders := [][]step{
			{{"base", "ann"}, {"shop", "ann"}, {"blank", "ann"}, {"wrapper", "ann"}, {"base", "ann"}},
			{{"shop", "ann"}, {"base", "ann"}, {"wrapper", "ann"}, {"deep", "ann"}, {"blank", "ann"}},
			{{"account", "ann"}, {"account", "bob"}, {"base", "bob"}, {"account", "ann"}},
			{{"blank", "x"}, {"deep", "x"}, {"shop", "x"}, {"base", "x"}},
		}
		for oi, order := range orders {
			e := twig.New()
			ok := true
			for n, s := range pages {
				if e.RegisterString(n, s) != nil {
					ok = false
				}
			}
			if !ok {
				break
			}
			res.Hist["stream:c10-layouts-rendered-first"]++
			for si, st := range order {
				ctx := map[string]interface{}{"user": st.user}
				want, ok := fresh(st.name, ctx)
				if !ok {
					break
				}
				res.Evaluations++
				var got string
				var err error
				if !c08WithTimeout(10*time.Second, func() { got, err = e.Render(st.name, ctx) }) {
					res.add(Finding{Kind: "oracle", Where: "c10-layouts-rendered-first/" + w[0], Case: Case{"stream": "c10-layouts-rendered-first", "construct": w[0]}, Expected: want, Observed: "no answer within 10 s"})
					return
				}
				if err != nil {
					got = "error: " + err.Error()
				}
				if got != want {
					res.add(Finding{Kind: "oracle", Where: "c10-layouts-rendered-first/" + w[0], Case: Case{"stream": "c10-layouts-rendered-first", "construct": w[0], "base": base, "page": pages[st.name], "order": fmt.Sprint(order), "step": si + 1},
						Expected: want, Observed: got, Detail: fmt.Sprintf("order %d, step %d: %s rendered for %s after other pages of the same layout; a new engine gives the expected output", oi+1, si+1, st.name, st.user)})
					break
				}
			}
		}
	}
}
