package main

import (
	"bytes"
	"encoding/json"
	"fmt"
	"math/rand"
	"os"
	"os/exec"
	"strconv"
	"strings"
	"time"

	"github.com/semihalev/twig"
)

// C01, stream "probes": a catalogue of small templates over the whole language surface, in families of near
// duplicates (the same construct with another flag, another format string, another receiver form, another
// spelling of an identifier), rendered in random orders on shared engines in this process. The oracle is the
// property itself: every result equals what a process that has rendered nothing else returns for that probe
// (one re-executed runner per probe). A process-wide or per-engine cache keyed by too little shows up as a
// probe whose answer depends on which of its neighbours ran first.

type c01Probe struct {
	Name string
	Src  string
}

type c01ProbeObjA struct{ Name, Title string }

func (a *c01ProbeObjA) Owner() string { return "own-" + a.Name }
func (a c01ProbeObjA) Kind() string   { return "kind-" + a.Title }

type c01ProbeObjB struct{ Name, Title string }

func (a *c01ProbeObjB) Owner() string { return "OWN-" + a.Name }
func (a c01ProbeObjB) Kind() string   { return "KIND-" + a.Title }

func c01ProbeContext() map[string]interface{} {
	return map[string]interface{}{
		"s": "AB", "t": "ab", "u": "Ab", "n": 5, "m": -3, "z": 0, "f": 2.5,
		"xs":  []interface{}{3, 1, 2},
		"ys":  []string{"b", "a", "c"},
		"mp":  map[string]interface{}{"b": 1, "a": 2},
		"ms":  map[string]string{"k": "v", "j": "w"},
		"d":   time.Date(2020, 2, 3, 4, 5, 6, 0, time.UTC),
		"d2":  time.Date(1999, 12, 31, 23, 59, 58, 0, time.UTC),
		"ds":  "2021-07-08 09:10:11",
		"abc": 1, "abC": 2, "ABC": 3, "abc_d": 4, "abcd": 5,
		"av": c01ProbeObjA{"an", "at"}, "ap": &c01ProbeObjA{"an", "at"},
		"bv": c01ProbeObjB{"bn", "bt"}, "bp": &c01ProbeObjB{"bn", "bt"},
		"html": "<a href='x'>T&C</a>", "nul": nil, "tr": true, "fa": false,
	}
}

// the templates every probe engine holds besides the probes
var c01ProbeSupport = map[string]string{
	"pbase":  "<{% block b %}base-{{ s }}{% endblock %}|{% block c %}c{% endblock %}>",
	"pmid":   "{% extends 'pbase' %}{% block b %}mid({{ parent() }}){% endblock %}",
	"pinc":   "[inc {{ s }} {{ n }}]",
	"pinc2":  "[inc2 {{ t }}{% set n = 9 %}{{ n }}]",
	"plib":   "{% macro m(a, b = n) %}[{{ a }}/{{ b }}]{% endmacro %}{% macro q(a) %}<{{ a|upper }}>{% endmacro %}",
	"plib2":  "{% macro m(a) %}({{ a }}){% endmacro %}",
	"pinner": "{{ t|upper }}",
	"pdeep1": "D1[{% include 'pdeep2' with {'t': 'x'} only %}{{ s }}]",
	"pdeep2": "D2({{ t }}{% include 'pinc' with {'s': t, 'n': 1} only %}{{ t }})",
}

func c01ProbeCatalogue() []c01Probe {
	groups := [][]string{
		// regular expressions: the same body with and without the i flag, other bodies
		{"{{ s matches '/ab/i' ? 'y' : 'n' }}", "{{ s matches '/ab/' ? 'y' : 'n' }}", "{{ t matches '/AB/i' ? 'y' : 'n' }}", "{{ t matches '/AB/' ? 'y' : 'n' }}",
			"{{ u matches '/^a.$/i' ? 'y' : 'n' }}", "{{ u matches '/^a.$/' ? 'y' : 'n' }}", "{{ s matches '/^A/' ? 'y' : 'n' }}", "{{ s matches '/b$/i' ? 'y' : 'n' }}"},
		// dates: the same value through several formats, several values through one
		{"{{ d|date('Y-m-d') }}", "{{ d|date('d/m/Y H:i') }}", "{{ d|date('D, d M Y') }}", "{{ d|date('Y') }}-{{ d|date('y') }}", "{{ d2|date('Y-m-d') }}",
			"{{ d2|date('d/m/Y H:i:s') }}", "{{ ds|date('Y-m-d') }}", "{{ ds|date('H:i') }}", "{{ d|date('l jS F') }}", "{{ d|date('N') }}{{ d|date('n') }}"},
		// numbers
		{"{{ 1234.5678|number_format(2) }}", "{{ 1234.5678|number_format(2, ',', '.') }}", "{{ 1234.5678|number_format(0) }}", "{{ 1234.5678|round(1) }}",
			"{{ 1234.5678|round(1, 'floor') }}", "{{ 1234.5678|round(1, 'ceil') }}", "{{ m|abs }}{{ n|abs }}", "{{ f|round }}{{ (f * 2)|round }}", "{{ 7 % 2 }}{{ 2 ^ 3 }}{{ 7 / 2 }}"},
		// attributes and methods: by value and through a pointer, two types with the same member names
		{"{{ av.Name }}{{ ap.Name }}", "{{ av.Owner }}", "{{ ap.Owner }}", "{{ av.Kind }}", "{{ ap.Kind }}", "{{ bv.Owner }}", "{{ bp.Owner }}", "{{ bv.Kind }}{{ bp.Kind }}",
			"{{ bv.Name }}{{ bp.Title }}", "{{ mp.a }}{{ mp['b'] }}", "{{ ms.k }}{{ ms['j'] }}", "{{ av.Missing }}|{{ ap.Missing }}|{{ mp.zz }}"},
		// strings
		{"{{ s|lower }}{{ t|upper }}", "{{ u|capitalize }}{{ 'hello world'|title }}", "{{ 'a,b;c'|split(',')|join('|') }}", "{{ 'a,b;c'|split(';')|join('|') }}",
			"{{ s|replace('A', 'x') }}", "{{ s|replace('B', 'y') }}", "{{ '  pad '|trim }}|{{ 'xxpadxx'|trim('x') }}", "{{ s|length }}{{ 'héllo'|length }}",
			"{{ 'héllo'|slice(1, 3) }}", "{{ 'héllo'|slice(-2) }}", "{{ 'héllo'|reverse }}", "{{ 'héllo'|first }}{{ 'héllo'|last }}", "{{ s ~ '-' ~ t ~ n }}"},
		// identifiers that differ in case or by a suffix (interned names)
		{"{{ abc }}", "{{ abC }}", "{{ ABC }}", "{{ abc_d }}", "{{ abcd }}", "{{ abc }}{{ abC }}{{ ABC }}", "{% set abc = 7 %}{{ abc }}{{ abC }}"},
		// loops
		{"{% for x in xs %}{{ loop.index }}:{{ x }},{% endfor %}", "{% for x in xs|sort %}{{ loop.index0 }}:{{ x }},{% endfor %}", "{% for k, v in mp %}{{ k }}={{ v }};{% endfor %}",
			"{% for x in ys %}{{ loop.revindex }}{{ x }}{% endfor %}", "{% for x in [] %}x{% else %}empty{% endfor %}", "{% for c in 'héy' %}{{ loop.index }}{{ c }}{% endfor %}",
			"{% for i in range(1, 3) %}{% for j in range(1, 2) %}{{ loop.index }}{% endfor %}{{ loop.index }}|{% endfor %}", "{% for x in xs|reverse %}{{ x }}{% if loop.last %}.{% endif %}{% endfor %}"},
		// tests and operators
		{"{{ n is even ? 1 : 0 }}{{ n is odd ? 1 : 0 }}", "{{ n is divisible_by(5) ? 1 : 0 }}{{ n is divisible_by(2) ? 1 : 0 }}", "{{ nosuch is defined ? 1 : 0 }}{{ n is defined ? 1 : 0 }}",
			"{{ nul is null ? 1 : 0 }}{{ n is null ? 1 : 0 }}", "{{ xs is iterable ? 1 : 0 }}{{ n is iterable ? 1 : 0 }}", "{{ 'A' in s ? 1 : 0 }}{{ 9 in xs ? 1 : 0 }}{{ 3 in xs ? 1 : 0 }}",
			"{{ s starts with 'A' ? 1 : 0 }}{{ s ends with 'A' ? 1 : 0 }}", "{{ nosuch is defined ? nosuch : 'dflt' }}{{ n is defined ? n : 'dflt' }}", "{{ nosuch|default('d2') }}{{ z|default('d3') }}{{ n|default('d4') }}",
			"{{ tr and fa ? 1 : 0 }}{{ tr or fa ? 1 : 0 }}{{ not fa ? 1 : 0 }}", "{{ n > 3 and n < 9 ? 'in' : 'out' }}{{ m >= -3 ? 1 : 0 }}{{ n == 5 ? 1 : 0 }}{{ n != 5 ? 1 : 0 }}", "{{ 1 + 2 * 3 - 4 / 2 }}{{ (1 + 2) * 3 }}"},
		// macros: the same name with another body in another template; defaults over the context
		{"{% macro m(a, b = n) %}[{{ a }}{{ b }}]{% endmacro %}{{ m(1) }}{{ m(1, 2) }}", "{% macro m(a) %}<{{ a }}>{% endmacro %}{{ m(3) }}", "{% import 'plib' as L %}{{ L.m(1) }}{{ L.q(t) }}",
			"{% import 'plib2' as L %}{{ L.m(1) }}", "{% from 'plib' import m %}{{ m(2, 3) }}", "{% from 'plib2' import m %}{{ m(2) }}", "{% from 'plib' import q as m %}{{ m(t) }}",
			"{% macro m(a, b = s) %}{{ a }}{{ b }}{% endmacro %}{{ _self.m(0) }}"},
		// include and inheritance
		{"{% include 'pinc' %}", "{% include 'pinc' with {'s': 'WW'} %}", "{% include 'pinc' with {'s': 'W2'} only %}", "{% include 'pinc2' %}{{ n }}", "{% include 'nothere' ignore missing %}ok",
			"{% extends 'pbase' %}{% block b %}child[{{ parent() }}]{% endblock %}", "{% extends 'pbase' %}{% block c %}C2{% endblock %}", "{% extends 'pmid' %}{% block b %}leaf{{ parent() }}{% endblock %}",
			"{% extends 'pmid' %}", "{% set nm = 'pinc' %}{% include nm %}"},
		// functions and collections
		{"{{ range(1, 4)|join(',') }}", "{{ range(4, 1, -1)|join(',') }}", "{{ range(0, 10, 5)|join(',') }}", "{{ max(1, 5, 3) }}{{ min(3, 1, 2) }}", "{{ cycle(['a', 'b'], 3) }}{{ cycle(['a', 'b'], 2) }}",
			"{{ xs|merge([9])|join(',') }}", "{{ mp|merge({'c': 3})|keys|join(',') }}", "{{ mp|keys|join(',') }}{{ ms|keys|join(',') }}", "{{ xs|first }}{{ xs|last }}{{ xs|length }}",
			"{{ xs|slice(1)|join(',') }}{{ xs|slice(0, 1)|join(',') }}", "{{ xs|sort|join(',') }}{{ ys|sort|join(',') }}", "{{ xs|reverse|join(',') }}", "{{ mp|json_encode }}{{ xs|json_encode }}",
			"{{ ys|join(', ') }}{{ ys|join }}", "{{ [1, 2]|length }}{{ {'a': 1}|length }}"},
		// blocks of other kinds, escaping
		{"{% apply upper %}a{{ t }}{% endapply %}", "{% apply lower %}A{{ s }}{% endapply %}", "{% spaceless %}<a> <b> </b> </a>{% endspaceless %}", "{% verbatim %}{{ s }}{% endverbatim %}",
			"{{ html|e }}", "{{ html|escape }}", "{{ html|raw }}", "{{ html|striptags }}", "{{ html|url_encode }}", "{{ 'a b'|url_encode }}", "{{ \"line1\\nline2\"|nl2br }}", "{# c #}x{{- ' y ' -}}z",
			"{% set v = 'cap' ~ n %}{{ v }}", "{% if n > 3 %}big{% elseif n > 1 %}mid{% else %}small{% endif %}", "{% do 1 + 1 %}done"},
		// sandboxed include next to the same filter outside the sandbox
		{"{% include 'pinner' sandboxed %}", "{{ t|upper }}{% include 'pinc' %}", "{{ t|upper }}", "{% include 'pinner' %}"},
		// failures in the middle of a construct, next to renders that keep several contexts alive at once
		{"{% include 'pinc' with {'s': xs[9]} %}", "{% include 'pinc' with {'s': 1 / 0} %}", "{% include 'pinc' with {'s': nosuchfn()} only %}", "{% import 'plib' as L %}{{ L.m(1 / 0) }}",
			"{% for x in xs %}{% include 'pinc' with {'s': x / 0} %}{% endfor %}", "{{ html }}{% include 'pdeep1' %}{{ s }}", "{% include 'pdeep1' with {'s': 'Q'} %}{{ html|e }}",
			"{% for x in xs %}{% include 'pdeep1' with {'s': x} only %}{% endfor %}{{ n }}", "{% extends 'pbase' %}{% block b %}{% include 'pdeep1' %}{{ parent() }}{% endblock %}",
			"{% import 'plib' as L %}{% include 'pdeep1' %}{{ L.m(s) }}", "{% include 'pinc' with {'s': mp.zz.deeper.x} %}", "{% set q = 1 / 0 %}{% include 'pdeep1' %}"},
		// failures
		{"{{ n|nosuchfilter }}", "{{ nosuchfn(1) }}", "{% include 'nothere' %}", "{{ 1 / 0 }}", "{{ range(1, 2, 0) }}"},
	}
	var ps []c01Probe
	for gi, g := range groups {
		for i, src := range g {
			ps = append(ps, c01Probe{Name: fmt.Sprintf("p%02d_%02d", gi, i), Src: src})
		}
	}
	return ps
}

type c01AllowUpper struct{}

func (c01AllowUpper) IsFunctionAllowed(string) bool { return true }
func (c01AllowUpper) IsFilterAllowed(n string) bool { return n == "upper" || n == "lower" }
func (c01AllowUpper) IsTagAllowed(string) bool      { return true }

func c01ProbeEngine(ps []c01Probe) (*twig.Engine, map[string]bool) {
	e := twig.New()
	bad := map[string]bool{}
	for n, s := range c01ProbeSupport {
		if err := e.RegisterString(n, s); err != nil {
			panic("c01 probes: support template " + n + ": " + err.Error())
		}
	}
	e.EnableSandbox(c01AllowUpper{})
	e.DisableSandbox()
	for _, p := range ps {
		if err := e.RegisterString(p.Name, p.Src); err != nil {
			bad[p.Name] = true
		}
	}
	return e, bad
}

func c01ProbeRender(e *twig.Engine, bad map[string]bool, p c01Probe) (r string) {
	if bad[p.Name] {
		return "parse-error"
	}
	defer func() {
		if x := recover(); x != nil {
			r = "panic:" + c01First(fmt.Sprint(x))
		}
	}()
	out, err := e.Render(p.Name, c01ProbeContext())
	return c01Class(out, err)
}

// c01ProbeMain runs in the re-executed runner (argv: runner C01 <index file> <out> --probe): renders that one probe
// in a process that has rendered nothing else.
func c01ProbeMain(reqPath string) {
	b, err := os.ReadFile(reqPath)
	if err != nil {
		os.Exit(2)
	}
	i, err := strconv.Atoi(strings.TrimSpace(string(b)))
	ps := c01ProbeCatalogue()
	if err != nil || i < 0 || i >= len(ps) {
		os.Exit(2)
	}
	// this process parses nothing but the support templates and the one probe
	e, bad := c01ProbeEngine(ps[i : i+1])
	os.WriteFile(reqPath+".answer", []byte(c01ProbeRender(e, bad, ps[i])), 0o644)
}

func runC01Probes(c Case, res *Result, dir string) {
	ps := c01ProbeCatalogue()
	rounds := c.num("rounds")
	if rounds < 1 {
		rounds = 3
	}
	seed := int64(c.num("seed"))
	only := map[int]bool{} // a replayed case names the probes that matter
	for _, v := range c.list("only") {
		if f, ok := v.(float64); ok {
			only[int(f)] = true
		}
	}
	// references: one fresh process per probe
	refs := make([]string, len(ps))
	for i := range ps {
		if len(only) > 0 && !only[i] {
			continue
		}
		req := fmt.Sprintf("%s/c01-probe-%d.req", dir, i)
		os.WriteFile(req, []byte(strconv.Itoa(i)), 0o644)
		os.Remove(req + ".answer")
		cmd := exec.Command(os.Args[0], "C01", req, dir+"/c01-probe-result.json", "--probe")
		var stderr bytes.Buffer
		cmd.Stderr = &stderr
		if err := cmd.Run(); err != nil {
			res.Notes = append(res.Notes, "probe reference could not run: "+err.Error()+": "+c01First(stderr.String()))
			return
		}
		a, _ := os.ReadFile(req + ".answer")
		refs[i] = string(a)
		cl := refs[i]
		if strings.HasPrefix(cl, "out:") {
			cl = "output"
		}
		res.Hist["probe reference (fresh process): "+cl]++
		os.Remove(req)
		os.Remove(req + ".answer")
	}
	res.Hist["stream:probes"]++
	res.Hist["probe templates"] += len(ps)
	rng := rand.New(rand.NewSource(seed))
	key, _ := json.Marshal(c)
	res.count(string(key), true)
	idx := make([]int, 0, len(ps))
	for i := range ps {
		if len(only) == 0 || only[i] {
			idx = append(idx, i)
		}
	}
	type step struct{ engine, probe int }
	for round := 0; round < rounds; round++ {
		// two engines sharing the process; every probe is rendered on each, in one shuffled sequence, some twice
		// the probes are parsed in another order on every engine (what a parse leaves behind is history too)
		shuffled := func() []c01Probe {
			q := append([]c01Probe(nil), ps...)
			rng.Shuffle(len(q), func(a, b int) { q[a], q[b] = q[b], q[a] })
			return q
		}
		e0, bad0 := c01ProbeEngine(shuffled())
		e1, bad1 := c01ProbeEngine(shuffled())
		var seq []step
		for _, i := range idx {
			seq = append(seq, step{0, i}, step{1, i})
			if rng.Intn(3) == 0 {
				seq = append(seq, step{rng.Intn(2), i})
			}
		}
		rng.Shuffle(len(seq), func(a, b int) { seq[a], seq[b] = seq[b], seq[a] })
		var done []int
		for _, st := range seq {
			e, bad := e0, bad0
			if st.engine == 1 {
				e, bad = e1, bad1
			}
			got := c01ProbeRender(e, bad, ps[st.probe])
			res.Evaluations++
			done = append(done, st.probe)
			if got != refs[st.probe] {
				// the replay keeps the probes rendered so far (the culprit is among them)
				seen := map[int]bool{}
				var keep []interface{}
				for _, d := range done {
					if !seen[d] {
						seen[d] = true
						keep = append(keep, d)
					}
				}
				// try to name the neighbour: the probes of the same family rendered before
				fam := ps[st.probe].Name[:3]
				var famBefore []string
				for _, d := range done[:len(done)-1] {
					if ps[d].Name[:3] == fam && ps[d].Name != ps[st.probe].Name {
						famBefore = append(famBefore, ps[d].Src)
					}
				}
				cc := Case{"stream": "probes", "k": "probes", "seed": seed, "rounds": rounds, "only": keep,
					"probe": ps[st.probe].Src, "rendered_before_in_family": famBefore}
				res.add(Finding{Kind: "oracle", Where: fmt.Sprintf("probes, round %d, %s on engine %d after %d renders", round, ps[st.probe].Name, st.engine, len(done)-1), Case: cc,
					Expected: refs[st.probe], Observed: got,
					Detail: "the render differs from the same render in a process that has rendered nothing else: " + ps[st.probe].Src})
				return
			}
		}
	}
	res.sample(map[string]interface{}{"stream": "probes", "probes": len(idx), "rounds": rounds, "example": ps[0].Src, "example_result": refs[idx[0]]}, 2)
}
