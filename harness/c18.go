package main

// C18: rendering never modifies the data of the caller.
//
// Cases come from ocaml/c18.ml with the predictions of the extracted heap model (Model/Heap.v):
//
//	render  a caller heap (objects: backing arrays with their full capacity, maps, pointer cells), the location of the
//	        context map, a template set; expected output / error class, and for templates that use the writing callback
//	        verif_poke the expected content of every object of the caller afterwards
//	probe   one filter called through the Go API (CoreExtension.GetFilters) on a value of such a heap; expected aliasing
//	        description of the result
//
// Model-independent oracles (Kind "oracle"):
//   - snapshot: the content of every object of the caller -- every slot of every backing array up to its capacity, before
//     and after the window of each slice value, every map, every pointer cell -- is the same before and after a render, and
//     before and after a filter call; checked on canonical descriptions and, independently, on deep copies with
//     reflect.DeepEqual (slices copied up to cap)
//   - second render sharing the data gives the same output as a render on a pristine rebuild of the context
//   - aliasing probes: writing through the result of sort / reverse / merge / keys / split (first element, an append into
//     spare capacity, a map insertion) does not change any object of the caller; writing to the input does not change a
//     result that is a fresh object
//   - a concurrent smoke run (two goroutines sharing one context, no race detector: that is C02) gives the sequential outputs
//
// Correspondence (Kind "disagreement"): output bytes and error class; the aliasing description of every filter result
// (which object of the caller it points into, at which offset, with which capacity: the aliasing class the model assigns)
// computed here from pointer identities; the description printed by the verif_alias callback inside templates; the
// content of the caller heap after templates that call verif_poke; the effect of the mutation probes.

import (
	"bytes"
	"encoding/hex"
	"encoding/json"
	"errors"
	"fmt"
	"os"
	"reflect"
	"regexp"
	"sort"
	"strconv"
	"strings"
	"sync"
	"time"

	"github.com/semihalev/twig"
)

func init() { runners["C18"] = runC18 }

// the struct catalogue (mirrored in ocaml/c18.ml: ty 1 and ty 2)
type C18Item struct {
	Name string
	N    int
	Tags []interface{}
	Meta map[string]interface{}
}
type C18Box struct {
	Label string
	Items []string
	Nums  []int
	Inner *C18Item
	Any   interface{}
}

const c18Mark = "POKED"

type c18Heap struct {
	kinds []string      // arr | map | cell
	tags  []string      // element / map type tag
	objs  []interface{} // arr: the full backing slice (len = cap = all slots); map: the map; cell: the pointer
	// registry for pointer identity
	base []uintptr
	size []uintptr
	caps []int
}

func c18Fail(format string, a ...interface{}) { panic(fmt.Sprintf("c18 case format: "+format, a...)) }

func (h *c18Heap) value(j interface{}) interface{} {
	switch x := j.(type) {
	case string:
		if x == "null" {
			return nil
		}
		c18Fail("value %q", x)
	case map[string]interface{}:
		if v, ok := x["b"]; ok {
			return v.(bool)
		}
		if v, ok := x["i"]; ok {
			return int(v.(float64))
		}
		if v, ok := x["s"]; ok {
			b, err := hex.DecodeString(v.(string))
			if err != nil {
				c18Fail("hex %v", v)
			}
			return string(b)
		}
		if v, ok := x["sl"]; ok {
			a := v.([]interface{})
			tag, loc, off, ln, cp := a[0].(string), int(a[1].(float64)), int(a[2].(float64)), int(a[3].(float64)), int(a[4].(float64))
			if loc >= len(h.objs) {
				c18Fail("forward reference to object %d", loc)
			}
			switch tag {
			case "a":
				return h.objs[loc].([]interface{})[off : off+ln : off+cp]
			case "s":
				return h.objs[loc].([]string)[off : off+ln : off+cp]
			case "i":
				return h.objs[loc].([]int)[off : off+ln : off+cp]
			}
			c18Fail("slice tag %q", tag)
		}
		if v, ok := x["m"]; ok {
			a := v.([]interface{})
			return h.objs[int(a[1].(float64))]
		}
		if v, ok := x["p"]; ok {
			return h.objs[int(v.(float64))]
		}
		if v, ok := x["st"]; ok {
			a := v.([]interface{})
			ty := int(a[0].(float64))
			f := a[1].([]interface{})
			switch ty {
			case 1:
				it := C18Item{Name: h.value(f[0]).(string), N: h.value(f[1]).(int)}
				if t := h.value(f[2]); t != nil {
					it.Tags = t.([]interface{})
				}
				if m := h.value(f[3]); m != nil {
					it.Meta = m.(map[string]interface{})
				}
				return it
			case 2:
				bx := C18Box{Label: h.value(f[0]).(string), Any: h.value(f[4])}
				if t := h.value(f[1]); t != nil {
					bx.Items = t.([]string)
				}
				if t := h.value(f[2]); t != nil {
					bx.Nums = t.([]int)
				}
				if p := h.value(f[3]); p != nil {
					bx.Inner = p.(*C18Item)
				}
				return bx
			}
			c18Fail("struct type %d", ty)
		}
		if v, ok := x["ar"]; ok {
			a := v.([]interface{})
			tag := a[0].(string)
			elems := a[1].([]interface{})
			var et reflect.Type
			switch tag {
			case "a":
				et = reflect.TypeOf((*interface{})(nil)).Elem()
			case "s":
				et = reflect.TypeOf("")
			case "i":
				et = reflect.TypeOf(0)
			default:
				c18Fail("array tag %q", tag)
			}
			av := reflect.New(reflect.ArrayOf(len(elems), et)).Elem()
			for i, e := range elems {
				if ev := h.value(e); ev != nil {
					av.Index(i).Set(reflect.ValueOf(ev))
				}
			}
			return av.Interface()
		}
	}
	c18Fail("value %v", j)
	return nil
}

func c18Build(objs []interface{}) *c18Heap {
	h := &c18Heap{}
	for _, o := range objs {
		m := o.(map[string]interface{})
		var kind, tag string
		var obj interface{}
		var base, size uintptr
		cp := 0
		if v, ok := m["arr"]; ok {
			a := v.([]interface{})
			kind, tag = "arr", a[0].(string)
			elems := a[1].([]interface{})
			switch tag {
			case "a":
				s := make([]interface{}, len(elems))
				for i, e := range elems {
					s[i] = h.value(e)
				}
				obj = s
			case "s":
				s := make([]string, len(elems))
				for i, e := range elems {
					s[i] = h.value(e).(string)
				}
				obj = s
			case "i":
				s := make([]int, len(elems))
				for i, e := range elems {
					s[i] = h.value(e).(int)
				}
				obj = s
			default:
				c18Fail("arr tag %q", tag)
			}
			rv := reflect.ValueOf(obj)
			cp = rv.Cap()
			if cp > 0 {
				base = rv.Pointer()
			}
			size = rv.Type().Elem().Size()
		} else if v, ok := m["map"]; ok {
			a := v.([]interface{})
			kind, tag = "map", a[0].(string)
			kvs := a[1].([]interface{})
			switch tag {
			case "a":
				mm := make(map[string]interface{}, len(kvs))
				for _, kv := range kvs {
					p := kv.([]interface{})
					mm[h.value(p[0]).(string)] = h.value(p[1])
				}
				obj = mm
			case "ss":
				mm := make(map[string]string, len(kvs))
				for _, kv := range kvs {
					p := kv.([]interface{})
					mm[h.value(p[0]).(string)] = h.value(p[1]).(string)
				}
				obj = mm
			case "is":
				mm := make(map[int]string, len(kvs))
				for _, kv := range kvs {
					p := kv.([]interface{})
					mm[h.value(p[0]).(int)] = h.value(p[1]).(string)
				}
				obj = mm
			case "si":
				mm := make(map[string]int, len(kvs))
				for _, kv := range kvs {
					p := kv.([]interface{})
					mm[h.value(p[0]).(string)] = h.value(p[1]).(int)
				}
				obj = mm
			default:
				c18Fail("map tag %q", tag)
			}
			base = reflect.ValueOf(obj).Pointer()
		} else if v, ok := m["cell"]; ok {
			kind = "cell"
			val := h.value(v)
			pv := reflect.New(reflect.TypeOf(val))
			pv.Elem().Set(reflect.ValueOf(val))
			obj = pv.Interface()
			base = pv.Pointer()
		} else {
			c18Fail("object %v", o)
		}
		h.kinds = append(h.kinds, kind)
		h.tags = append(h.tags, tag)
		h.objs = append(h.objs, obj)
		h.base = append(h.base, base)
		h.size = append(h.size, size)
		h.caps = append(h.caps, cp)
	}
	return h
}

// ---------------------------------------------------------------- canonical descriptions (mirror of hp_describe)

func (h *c18Heap) refSlice(rv reflect.Value) string {
	if rv.Cap() == 0 {
		return "@z"
	}
	p := rv.Pointer()
	sz := rv.Type().Elem().Size()
	for j, k := range h.kinds {
		if k != "arr" || h.caps[j] == 0 || h.size[j] != sz || reflect.TypeOf(h.objs[j]).Elem() != rv.Type().Elem() {
			continue
		}
		if p >= h.base[j] && p < h.base[j]+uintptr(h.caps[j])*sz {
			return "@o" + strconv.Itoa(j) + "+" + strconv.Itoa(int((p-h.base[j])/sz)) + ":" + strconv.Itoa(rv.Cap())
		}
	}
	return "@n"
}

func (h *c18Heap) refObj(kind string, p uintptr) string {
	for j, k := range h.kinds {
		if k == kind && h.base[j] == p && p != 0 {
			return "@o" + strconv.Itoa(j)
		}
	}
	return "@n"
}

func c18KeyText(k reflect.Value) string {
	switch k.Kind() {
	case reflect.String:
		return k.String()
	case reflect.Int, reflect.Int64:
		return strconv.FormatInt(k.Int(), 10)
	}
	return fmt.Sprint(k.Interface())
}

func (h *c18Heap) describe(v interface{}) string {
	var b strings.Builder
	h.desc(&b, reflect.ValueOf(v), 0)
	return b.String()
}

func (h *c18Heap) desc(b *strings.Builder, rv reflect.Value, depth int) {
	if depth > 12 {
		b.WriteString("<deep>")
		return
	}
	if !rv.IsValid() {
		b.WriteString("n")
		return
	}
	switch rv.Kind() {
	case reflect.Interface:
		if rv.IsNil() {
			b.WriteString("n")
			return
		}
		h.desc(b, rv.Elem(), depth)
	case reflect.Bool:
		if rv.Bool() {
			b.WriteString("b1")
		} else {
			b.WriteString("b0")
		}
	case reflect.Int, reflect.Int8, reflect.Int16, reflect.Int32, reflect.Int64:
		b.WriteString("i" + strconv.FormatInt(rv.Int(), 10))
	case reflect.Float32, reflect.Float64:
		f := rv.Float()
		if f == float64(int64(f)) {
			b.WriteString("i" + strconv.FormatInt(int64(f), 10))
		} else {
			b.WriteString("f" + strconv.FormatFloat(f, 'g', -1, 64))
		}
	case reflect.String:
		s := rv.String()
		b.WriteString("s" + strconv.Itoa(len(s)) + ":" + s)
	case reflect.Slice:
		b.WriteString("L" + c18ElemTag(rv.Type().Elem()) + h.refSlice(rv) + "[")
		for i := 0; i < rv.Len(); i++ {
			if i > 0 {
				b.WriteString(",")
			}
			h.desc(b, rv.Index(i), depth+1)
		}
		b.WriteString("]")
	case reflect.Array:
		b.WriteString("A" + c18ElemTag(rv.Type().Elem()) + "[")
		for i := 0; i < rv.Len(); i++ {
			if i > 0 {
				b.WriteString(",")
			}
			h.desc(b, rv.Index(i), depth+1)
		}
		b.WriteString("]")
	case reflect.Map:
		tag := "?"
		switch rv.Type().Key().Kind().String() + ":" + rv.Type().Elem().Kind().String() {
		case "string:interface":
			tag = "a"
		case "string:string":
			tag = "ss"
		case "int:string":
			tag = "is"
		case "string:int":
			tag = "si"
		}
		b.WriteString("M" + tag + h.refObj("map", rv.Pointer()) + "{")
		keys := rv.MapKeys()
		sort.SliceStable(keys, func(i, j int) bool { return c18KeyText(keys[i]) < c18KeyText(keys[j]) })
		for i, k := range keys {
			if i > 0 {
				b.WriteString(",")
			}
			h.desc(b, k, depth+1)
			b.WriteString("=")
			h.desc(b, rv.MapIndex(k), depth+1)
		}
		b.WriteString("}")
	case reflect.Struct:
		ty := "?"
		switch rv.Type() {
		case reflect.TypeOf(C18Item{}):
			ty = "1"
		case reflect.TypeOf(C18Box{}):
			ty = "2"
		}
		b.WriteString("S" + ty + "{")
		for i := 0; i < rv.NumField(); i++ {
			if i > 0 {
				b.WriteString(",")
			}
			h.desc(b, rv.Field(i), depth+1)
		}
		b.WriteString("}")
	case reflect.Ptr:
		if rv.IsNil() {
			b.WriteString("P@nil()")
			return
		}
		b.WriteString("P" + h.refObj("cell", rv.Pointer()) + "(")
		h.desc(b, rv.Elem(), depth+1)
		b.WriteString(")")
	default:
		b.WriteString("<" + rv.Kind().String() + ">")
	}
}

func c18ElemTag(t reflect.Type) string {
	switch t.Kind() {
	case reflect.Interface:
		return "a"
	case reflect.String:
		return "s"
	case reflect.Int:
		return "i"
	}
	return "?"
}

// the content of every object of the caller (mirror of hp_describe_obj): arrays with ALL their slots
func (h *c18Heap) snapshot() []string {
	out := make([]string, len(h.objs))
	for j, o := range h.objs {
		var b strings.Builder
		rv := reflect.ValueOf(o)
		switch h.kinds[j] {
		case "arr":
			b.WriteString("arr[")
			for i := 0; i < rv.Len(); i++ {
				if i > 0 {
					b.WriteString(",")
				}
				h.desc(&b, rv.Index(i), 1)
			}
			b.WriteString("]")
		case "map":
			b.WriteString("map{")
			keys := rv.MapKeys()
			sort.SliceStable(keys, func(i, j int) bool { return c18KeyText(keys[i]) < c18KeyText(keys[j]) })
			for i, k := range keys {
				if i > 0 {
					b.WriteString(",")
				}
				h.desc(&b, k, 1)
				b.WriteString("=")
				h.desc(&b, rv.MapIndex(k), 1)
			}
			b.WriteString("}")
		case "cell":
			b.WriteString("cell(")
			h.desc(&b, rv.Elem(), 1)
			b.WriteString(")")
		}
		out[j] = b.String()
	}
	return out
}

// an independent deep copy: slices are copied up to their capacity, maps, pointers and structs recursively
func c18DeepCopy(rv reflect.Value, depth int) reflect.Value {
	if !rv.IsValid() || depth > 14 {
		return rv
	}
	switch rv.Kind() {
	case reflect.Interface:
		if rv.IsNil() {
			return reflect.Zero(rv.Type())
		}
		c := reflect.New(rv.Type()).Elem()
		c.Set(c18DeepCopy(rv.Elem(), depth))
		return c
	case reflect.Slice:
		if rv.IsNil() {
			return reflect.Zero(rv.Type())
		}
		full := rv.Slice(0, rv.Cap())
		c := reflect.MakeSlice(rv.Type(), full.Len(), full.Len())
		for i := 0; i < full.Len(); i++ {
			c.Index(i).Set(c18DeepCopy(full.Index(i), depth+1))
		}
		return c
	case reflect.Array:
		c := reflect.New(rv.Type()).Elem()
		for i := 0; i < rv.Len(); i++ {
			c.Index(i).Set(c18DeepCopy(rv.Index(i), depth+1))
		}
		return c
	case reflect.Map:
		if rv.IsNil() {
			return reflect.Zero(rv.Type())
		}
		c := reflect.MakeMapWithSize(rv.Type(), rv.Len())
		for _, k := range rv.MapKeys() {
			c.SetMapIndex(k, c18DeepCopy(rv.MapIndex(k), depth+1))
		}
		return c
	case reflect.Ptr:
		if rv.IsNil() {
			return reflect.Zero(rv.Type())
		}
		c := reflect.New(rv.Type().Elem())
		c.Elem().Set(c18DeepCopy(rv.Elem(), depth+1))
		return c
	case reflect.Struct:
		c := reflect.New(rv.Type()).Elem()
		for i := 0; i < rv.NumField(); i++ {
			if rv.Type().Field(i).PkgPath != "" {
				// a struct with unexported fields (bytes.Buffer, strings.Reader ...): a copy of the value as a whole; its
				// own words (read offsets, lengths) are copied, storage it points to is shared
				if rv.CanInterface() {
					c.Set(rv)
				}
				return c
			}
		}
		for i := 0; i < rv.NumField(); i++ {
			c.Field(i).Set(c18DeepCopy(rv.Field(i), depth+1))
		}
		return c
	}
	return rv
}

func (h *c18Heap) copies() []interface{} {
	out := make([]interface{}, len(h.objs))
	for j, o := range h.objs {
		out[j] = c18DeepCopy(reflect.ValueOf(o), 0).Interface()
	}
	return out
}

// compares the caller heap with an earlier snapshot; "" when nothing changed
func (h *c18Heap) changed(snap []string, copies []interface{}) string {
	now := h.snapshot()
	for j := range now {
		if now[j] != snap[j] {
			return fmt.Sprintf("object %d (%s %s) was %s and is now %s", j, h.kinds[j], h.tags[j], snap[j], now[j])
		}
	}
	if copies != nil {
		nc := h.copies()
		for j := range nc {
			if !reflect.DeepEqual(nc[j], copies[j]) {
				return fmt.Sprintf("object %d (%s %s) differs from its deep copy taken before (reflect.DeepEqual, slices up to cap)", j, h.kinds[j], h.tags[j])
			}
		}
	}
	return ""
}

// ---------------------------------------------------------------- engine

var c18Cur *c18Heap // the caller heap of the render in progress (verif_alias describes values against it)

func c18ErrClass(err error) string {
	if err == nil {
		return "none"
	}
	if errors.Is(err, twig.ErrTemplateNotFound) {
		return "not-found"
	}
	var sv *twig.SecurityViolation
	if errors.As(err, &sv) {
		return "security"
	}
	return "other"
}

func c18Engine(tpls []interface{}) (*twig.Engine, error) {
	eng := twig.New()
	eng.AddFunction("verif_alias", func(args ...interface{}) (interface{}, error) {
		if len(args) != 1 {
			return nil, errors.New("verif_alias takes one argument")
		}
		return c18Cur.describe(args[0]), nil
	})
	// a careless extension function: writes through its argument
	eng.AddFunction("verif_poke", func(args ...interface{}) (interface{}, error) {
		if len(args) != 1 {
			return nil, errors.New("verif_poke takes one argument")
		}
		switch v := args[0].(type) {
		case []interface{}:
			if len(v) > 0 {
				v[0] = c18Mark
			}
			if cap(v) > len(v) {
				_ = append(v, c18Mark)
			}
		case map[string]interface{}:
			v["_poked"] = c18Mark
		}
		return "", nil
	})
	for _, t := range tpls {
		p := t.([]interface{})
		if err := eng.RegisterString(p[0].(string), unhex(p[1].(string))); err != nil {
			return nil, fmt.Errorf("template %s: %w", p[0].(string), err)
		}
	}
	return eng, nil
}

func c18Render(eng *twig.Engine, h *c18Heap, root int, name string) (out string, class string) {
	defer func() {
		if r := recover(); r != nil {
			out, class = "", "panic"
		}
	}()
	c18Cur = h
	ctx := h.objs[root].(map[string]interface{})
	o, err := eng.Render(name, ctx)
	if err != nil {
		return "", c18ErrClass(err)
	}
	// addresses (a pointer printed inside a struct or a list) are not observables
	return c18Addr.ReplaceAllString(o, "0xADDR"), "none"
}

var c18Addr = regexp.MustCompile(`(?i)0x[0-9a-f]{6,}`)

func c18Exp(c Case) (kind, val string) {
	e, _ := c["exp"].(map[string]interface{})
	for _, k := range []string{"out", "desc", "err", "skip"} {
		if v, ok := e[k]; ok {
			s := v.(string)
			if k == "out" || k == "desc" {
				s = unhex(s)
			}
			return k, s
		}
	}
	return "skip", "no expectation"
}

type c18Seq struct {
	c    Case
	out  string
	cls  string
	eng  *twig.Engine
	heap *c18Heap
	root int
}

// c18LongLists: long typed and untyped lists (above every size at which an implementation may switch strategy)
// through the operators and filters that only read them; the context is compared with a deep copy taken before.
func c18LongLists(res *Result) {
	mk := func() map[string]interface{} {
		ss := make([]string, 70)
		is := make([]int, 70)
		xs := make([]interface{}, 70)
		fs := make([]float64, 70)
		for i := range ss {
			k := (i*37 + 11) % 70 // unsorted, no duplicates
			ss[i] = fmt.Sprintf("w%02d", k)
			is[i] = k
			xs[i] = fmt.Sprintf("x%02d", k)
			fs[i] = float64(k) + 0.5
		}
		xs[5] = 12
		return map[string]interface{}{"ss": ss, "is": is, "xs": xs, "fs": fs,
			"m": map[string]interface{}{"k": ss, "j": map[string][]int{"deep": is}}, "st": struct{ Items []string }{ss}}
	}
	tpls := []string{
		"{{ 'w10' in ss ? 1 : 0 }}{{ 'nope' in ss ? 1 : 0 }}{{ 'w69' not in ss ? 1 : 0 }}",
		"{{ 10 in is ? 1 : 0 }}{{ 999 in is ? 1 : 0 }}{{ 'x10' in xs ? 1 : 0 }}{{ 12 in xs ? 1 : 0 }}{{ 10.5 in fs ? 1 : 0 }}",
		"{{ 'w10' in m.k ? 1 : 0 }}{{ 3 in m.j.deep ? 1 : 0 }}{{ 'w33' in st.Items ? 1 : 0 }}",
		"{% if 'w42' in ss and 'zz' not in ss %}y{% endif %}{% for s in ss %}{% if s in ss %}.{% endif %}{% endfor %}",
		"{{ ss|sort|first }}{{ is|sort|last }}{{ xs|sort|length }}{{ fs|sort|first }}",
		"{{ ss|reverse|first }}{{ is|reverse|last }}{{ xs|reverse|length }}",
		"{{ ss|slice(3, 60)|length }}{{ is|slice(-65)|first }}{{ xs|slice(1)|last }}",
		"{{ ss|merge(ss)|length }}{{ is|merge([1])|last }}{{ xs|merge(ss)|first }}",
		"{{ ss|join(',')|length }}{{ is|join|length }}{{ ss|first }}{{ ss|last }}{{ ss|length }}{{ is|keys|last }}",
		"{{ max(is) }}{{ min(is) }}{% for i in is|sort|reverse|slice(0, 55) %}{% endfor %}{{ ss|sort|reverse|join('')|length }}",
		"{% set t = ss|sort %}{% set u = t|reverse %}{{ t|first }}{{ u|first }}{{ ss|first }}{% set v = is|merge(is)|sort %}{{ v|last }}",
		"{{ ss|default(['d'])|length }}{{ ss|json_encode|length }}{{ ss|raw|length }}{{ xs|first }}{{ cycle(ss, 75) }}",
	}
	for ti, src := range tpls {
		ctx := mk()
		before := c18DeepCopy(reflect.ValueOf(ctx), 0).Interface()
		eng := twig.New()
		c := Case{"stream": "long-lists", "tpl": src}
		res.Hist["stream:long-lists"]++
		res.Evaluations++
		if err := eng.RegisterString("t", src); err != nil {
			res.Notes = append(res.Notes, fmt.Sprintf("long-lists template %d does not parse: %v", ti, err))
			continue
		}
		func() {
			defer func() {
				if r := recover(); r != nil {
					res.add(Finding{Kind: "oracle", Where: "long-lists", Case: c, Detail: fmt.Sprintf("panic: %v", r)})
				}
			}()
			out1, err1 := eng.Render("t", ctx)
			if !reflect.DeepEqual(ctx, before) {
				res.add(Finding{Kind: "oracle", Where: "long-lists", Case: c, Expected: "the context as it was handed over",
					Observed: c18FirstDiff(before, ctx), Detail: "a render changed a list of the caller's context (70 elements): " + src})
				return
			}
			// a second render on the same data gives the same output
			out2, err2 := eng.Render("t", ctx)
			if out1 != out2 || (err1 == nil) != (err2 == nil) {
				res.add(Finding{Kind: "oracle", Where: "long-lists", Case: c, Expected: out1, Observed: out2, Detail: "two renders that share context data differ"})
			}
		}()
	}
}

// c18Counter: a record with a pointer-receiver method that writes to its receiver (memoisation, a counter)
type c18Counter struct {
	Name string
	N    int
}

func (c *c18Counter) Bump() int    { c.N++; return c.N }
func (c c18Counter) Label() string { return "L" + c.Name }

// c18Aliases: names of the caller's context that a template also uses for something of its own -- an import alias, a
// loop variable, a set, a macro name, a block name -- and records whose pointer-receiver methods write to the receiver.
// Whatever the template does with the name, the caller's value under it is as it was afterwards.
func c18Aliases(res *Result) {
	mk := func() map[string]interface{} {
		return map[string]interface{}{
			"ui":   map[string]interface{}{"theme": "dark", "btn": "B"},
			"lib":  map[string]string{"k": "v"},
			"it":   []interface{}{"keep"},
			"recs": []c18Counter{{"a", 0}, {"b", 0}},
			"prec": []*c18Counter{{"p", 0}},
			"rec":  c18Counter{"solo", 0},
			"m":    map[string]interface{}{"inner": map[string]interface{}{"x": 1}, "list": []interface{}{1, 2}},
		}
	}
	tpls := []string{
		"{% import 'macros' as ui %}{{ ui.m(1) }}",
		"{% import 'macros' as lib %}{{ lib.m(2) }}{% from 'macros' import m as it %}{{ it(3) }}",
		"{% for r in recs %}{{ r.Bump }}{{ r.Label }}{% endfor %}{% for r in recs %}{{ r.N }}{% endfor %}",
		"{% for r in recs %}{{ r.Bump }}{% endfor %}{{ recs|first.N }}{{ rec.Bump }}{{ rec.N }}",
		"{% set ui = ui|merge({'x': 1}) %}{{ ui|keys|join }}{% set it = it|merge(['z']) %}{{ it|join }}",
		"{% for ui in it %}{{ ui }}{% endfor %}{% for k, lib in m %}{{ k }}{% endfor %}{{ ui.theme }}",
		"{% macro ui(a) %}{{ a }}{% endmacro %}{{ ui(1) }}{% set m = m.inner|merge({'y': 2}) %}{{ m|keys|join }}",
		"{% include 'inc' with {'ui': 1, 'it': 2} %}{% include 'inc' with {'theme': ui.theme, 'x': m.list} only %}{% include 'inc' %}",
	}
	for _, src := range tpls {
		ctx := mk()
		before := c18DeepCopy(reflect.ValueOf(ctx), 0).Interface()
		c := Case{"stream": "aliases", "tpl": src}
		res.Hist["stream:aliases"]++
		res.Evaluations++
		eng := twig.New()
		eng.RegisterString("macros", "{% macro m(a) %}<{{ a }}>{% endmacro %}")
		eng.RegisterString("inc", "[{{ theme }}{{ x }}{% set ui = 5 %}{% set theme = 'z' %}]")
		if err := eng.RegisterString("t", src); err != nil {
			res.Notes = append(res.Notes, "aliases: template does not parse: "+src+": "+err.Error())
			continue
		}
		func() {
			defer func() {
				if r := recover(); r != nil {
					res.add(Finding{Kind: "oracle", Where: "aliases", Case: c, Detail: fmt.Sprintf("panic: %v", r)})
				}
			}()
			eng.Render("t", ctx)
			if !reflect.DeepEqual(ctx, before) {
				res.add(Finding{Kind: "oracle", Where: "aliases", Case: c, Expected: "the context as it was handed over",
					Observed: c18FirstDiff(before, ctx), Detail: "a render changed the caller's data: " + src})
			}
		}()
	}
}

func c18FirstDiff(a, b interface{}) string {
	ma, ok1 := a.(map[string]interface{})
	mb, ok2 := b.(map[string]interface{})
	if !ok1 || !ok2 {
		return "differs"
	}
	for k := range ma {
		if !reflect.DeepEqual(ma[k], mb[k]) {
			return fmt.Sprintf("%s: was %s, is %s", k, c18Brief(ma[k], 3), c18Brief(mb[k], 3))
		}
	}
	return "differs"
}

func runC18(cases string, res *Result) {
	c18LongLists(res)
	c18Aliases(res)
	c18WrappedAssignments(res)
	c18NestedInterfaceMaps(res)
	c18OtherDialects(res)
	c18TypedArgumentsAndNilEmbeds(res)
	c18MethodsThatWrite(res)
	var smoke []c18Seq
	private := map[string]bool{"sort": true, "reverse": true, "merge": true, "keys": true, "split": true}
	filters := (&twig.CoreExtension{}).GetFilters()

	var cur []byte
	watchdog := time.AfterFunc(time.Hour, func() {})
	defer watchdog.Stop()
	readCases(cases, func(c Case) {
		raw, _ := json.Marshal(c)
		cur = raw
		watchdog.Stop()
		watchdog = time.AfterFunc(90*time.Second, func() {
			fmt.Fprintf(os.Stderr, "c18: a case did not finish within 90 s: %.3000s\n", string(cur))
			os.Exit(3)
		})
		stream := c.str("stream")
		res.count(string(raw), true) // every generated context holds nested collections
		res.Hist["stream:"+stream]++
		objs := c.list("heap")
		switch c.str("kind") {
		case "render":
			root := c.num("root")
			poke, _ := c["poke"].(bool)
			ek, ev := c18Exp(c)
			eng, err := c18Engine(c.list("tpls"))
			if err != nil {
				res.Hist["parse-error"]++
				if ek != "skip" {
					res.add(Finding{Kind: "disagreement", Where: stream, Case: c, Expected: ek + ":" + hx(ev), Observed: "parse error", Detail: err.Error()})
				}
				return
			}
			h := c18Build(objs)
			snap, copies := h.snapshot(), h.copies()
			out, cls := c18Render(eng, h, root, "main")
			res.Evaluations++
			res.Hist["class:"+cls]++
			if len(res.Samples) < 10 && ek == "out" && len(c.list("tpls")) > 0 {
				res.sample(map[string]interface{}{"stream": stream, "main": unhex(c.list("tpls")[0].([]interface{})[1].(string)), "output": out, "objects": len(objs)}, 10)
			}
			// ---- oracle 1: the data of the caller is unchanged (templates without the writing callback)
			if !poke {
				if d := h.changed(snap, copies); d != "" {
					res.add(Finding{Kind: "oracle", Where: stream, Case: c, Expected: "caller data unchanged by the render", Observed: d,
						Detail: "deep snapshot of the context (every slot of every backing array up to cap, maps, pointer cells) differs after Render"})
					return
				}
			}
			// ---- correspondence: output / error class
			switch ek {
			case "skip":
				res.Unmodelled++
			case "out":
				if cls != "none" || out != ev {
					res.add(Finding{Kind: "disagreement", Where: stream, Case: c, Expected: "out:" + hx(ev), Observed: cls + ":" + hx(out)})
				}
			case "err":
				if cls != ev {
					res.add(Finding{Kind: "disagreement", Where: stream, Case: c, Expected: "err:" + ev, Observed: cls + ":" + hx(out)})
				}
			}
			// ---- correspondence: where the writes of the callback landed
			if poke && ek == "out" {
				e := c["exp"].(map[string]interface{})
				if hl, ok := e["heap"].([]interface{}); ok {
					now := h.snapshot()
					for j := range now {
						if j < len(hl) && unhex(hl[j].(string)) != now[j] {
							res.add(Finding{Kind: "disagreement", Where: stream + ":heap-after-poke", Case: c, Expected: hx(unhex(hl[j].(string))), Observed: hx(now[j]),
								Detail: fmt.Sprintf("object %d after a template that writes through filter results: the aliasing of some result differs from the model", j)})
							break
						}
					}
					changedObjs := 0
					for j := range now {
						if now[j] != snap[j] {
							changedObjs++
						}
					}
					if changedObjs > 0 {
						res.Hist["poke:caller-data-written-through-alias"]++
					} else {
						res.Hist["poke:caller-data-untouched"]++
					}
				}
			}
			// ---- oracle 2: a second render sharing the data = a render on a pristine rebuild
			if !poke {
				snap2 := h.snapshot()
				out2, cls2 := c18Render(eng, h, root, "main")
				hp := c18Build(objs)
				out3, cls3 := c18Render(eng, hp, root, "main")
				res.Evaluations += 2
				if out2 != out3 || cls2 != cls3 || out2 != out || cls2 != cls {
					res.add(Finding{Kind: "oracle", Where: stream + ":second-render", Case: c, Expected: cls3 + ":" + hx(out3), Observed: cls2 + ":" + hx(out2),
						Detail: "the second render sharing the context data differs from a render on a pristine copy (first render: " + cls + ":" + hx(out) + ")"})
				}
				if d := h.changed(snap2, nil); d != "" {
					res.add(Finding{Kind: "oracle", Where: stream + ":second-render", Case: c, Expected: "caller data unchanged", Observed: d})
				}
				if strings.HasPrefix(stream, "fixed:") && cls == "none" {
					smoke = append(smoke, c18Seq{c: c, out: out, cls: cls, eng: eng, heap: h, root: root})
				}
			}

		case "probe":
			h := c18Build(objs)
			c18Cur = h
			name := c.str("filter")
			f, ok := filters[name]
			if !ok {
				res.add(Finding{Kind: "disagreement", Where: stream, Case: c, Detail: "filter " + name + " is not registered"})
				return
			}
			v := h.value(c["v"])
			var args []interface{}
			for _, a := range c.list("args") {
				args = append(args, h.value(a))
			}
			snap, copies := h.snapshot(), h.copies()
			var r interface{}
			cls := "none"
			func() {
				defer func() {
					if rec := recover(); rec != nil {
						cls = "panic"
					}
				}()
				var err error
				r, err = f(v, args...)
				if err != nil {
					cls = "other"
				}
			}()
			res.Evaluations++
			// ---- oracle: the filter did not write to its input, its arguments or anything else of the caller
			if d := h.changed(snap, copies); d != "" {
				res.add(Finding{Kind: "oracle", Where: stream + ":" + name, Case: c, Expected: "filter " + name + " leaves the data of the caller unchanged", Observed: d})
				return
			}
			ek, ev := c18Exp(c)
			if cls == "panic" {
				res.Hist["probe-panic:"+name]++
				if ek == "skip" {
					res.Unmodelled++
				} else {
					res.add(Finding{Kind: "disagreement", Where: stream + ":" + name, Case: c, Expected: ek + ":" + hx(ev), Observed: "panic"})
				}
				return
			}
			if cls != "none" {
				if ek == "desc" {
					res.add(Finding{Kind: "disagreement", Where: stream + ":" + name, Case: c, Expected: "desc:" + hx(ev), Observed: "error"})
				} else if ek == "skip" {
					res.Unmodelled++
				}
				return
			}
			got := h.describe(r)
			class := c18Class(got)
			res.Hist["alias:"+name+":"+class]++
			switch ek {
			case "skip":
				res.Unmodelled++
			case "err":
				res.add(Finding{Kind: "disagreement", Where: stream + ":" + name, Case: c, Expected: "err:" + ev, Observed: "desc:" + hx(got)})
			case "desc":
				if got != ev {
					res.add(Finding{Kind: "disagreement", Where: stream + ":" + name + ":aliasing", Case: c, Expected: hx(ev), Observed: hx(got),
						Detail: "aliasing description of the filter result (which object of the caller it points into, offset, capacity) differs from the class the model assigns: model " + c18Class(ev) + ", engine " + class})
				}
			}
			// ---- aliasing probes: write through the result, look at the caller; write to the input, look at the result
			c18MutationProbes(res, c, stream, name, h, v, r, got, snap, private[name] && !(name == "merge" && !c18IsCollection(v)) && !(name == "sort" && c18EmptyAny(v)))
		}
	})

	// ---- concurrent smoke run (no race detector): two goroutines render the fixed templates with the same context
	if len(smoke) > 0 && res.OracleFails == 0 { // when the data is being written to, the sequential findings are the report
		// all fixed cases share one context description: rebuild it once and share it
		h := smoke[0].heap
		c18Cur = h // read only from here on
		var wg sync.WaitGroup
		outs := make([][]string, 2)
		for g := 0; g < 2; g++ {
			wg.Add(1)
			go func(g int) {
				defer wg.Done()
				for rep := 0; rep < 20; rep++ {
					for _, s := range smoke {
						ctx := h.objs[s.root].(map[string]interface{})
						o, err := s.eng.Render("main", ctx)
						if err != nil {
							o = "ERR"
						}
						o = c18Addr.ReplaceAllString(o, "0xADDR")
						outs[g] = append(outs[g], o)
					}
				}
			}(g)
		}
		wg.Wait()
		k := 0
		for rep := 0; rep < 20; rep++ {
			for _, s := range smoke {
				for g := 0; g < 2; g++ {
					res.Evaluations++
					if k < len(outs[g]) && outs[g][k] != s.out {
						res.add(Finding{Kind: "oracle", Where: "concurrent-smoke", Case: s.c, Expected: hx(s.out), Observed: hx(outs[g][k]),
							Detail: "two goroutines rendering with the same context data: output differs from the sequential render"})
					}
				}
				k++
			}
		}
		res.Hist["concurrent-smoke-renders"] = 2 * k
	}
	res.Notes = append(res.Notes,
		"alias:<filter>:<class> counts the aliasing class observed on the engine for every probed filter result: scalar | fresh (a new object) | window (a slice over a backing array of the caller) | same-map / pointer (the object of the caller itself) | value (struct or array value)",
		"slice on []interface{}: class window means filterSlice returns v[start:end], a window of the array of the caller (Properties/C18.v C18_slice_private_copy_refuted, repaired by notes/proposed-fixes/C18-slice-private-copy.patch); class fresh means the private copy")
}

func c18IsCollection(v interface{}) bool {
	if v == nil {
		return false
	}
	k := reflect.ValueOf(v).Kind()
	return k == reflect.Slice || k == reflect.Array || k == reflect.Map
}

func c18EmptyAny(v interface{}) bool {
	s, ok := v.([]interface{})
	return ok && len(s) == 0
}

// the aliasing class of a description
func c18Class(d string) string {
	switch {
	case d == "":
		return "none"
	case d[0] == 'L':
		i := strings.Index(d, "@")
		if i < 0 {
			return "list?"
		}
		switch d[i+1] {
		case 'o':
			return "window"
		case 'z':
			return "fresh" // no capacity: nothing to share
		}
		return "fresh"
	case d[0] == 'M':
		if strings.Contains(strings.SplitN(d, "{", 2)[0], "@o") {
			return "same-map"
		}
		return "fresh"
	case d[0] == 'P':
		if strings.HasPrefix(d[1:], "@o") {
			return "pointer"
		}
		return "fresh"
	case d[0] == 'S' || d[0] == 'A':
		return "value"
	}
	return "scalar"
}

// c18Window parses L<t>@o<j>+<off>:<cap>[...]: array id, offset; ok=false for anything else
func c18Window(d string) (j, off int, ok bool) {
	if len(d) < 4 || d[0] != 'L' || !strings.HasPrefix(d[2:], "@o") {
		return 0, 0, false
	}
	rest := d[4:]
	p := strings.Index(rest, "+")
	q := strings.Index(rest, ":")
	if p < 0 || q < p {
		return 0, 0, false
	}
	j, e1 := strconv.Atoi(rest[:p])
	off, e2 := strconv.Atoi(rest[p+1 : q])
	return j, off, e1 == nil && e2 == nil
}

func c18MutationProbes(res *Result, c Case, stream, name string, h *c18Heap, v, r interface{}, desc string, snap []string, mustBePrivate bool) {
	class := c18Class(desc)
	report := func(what, observed string, expectChange, changed bool) {
		if changed && mustBePrivate {
			res.add(Finding{Kind: "oracle", Where: stream + ":" + name + ":mutation", Case: c, Expected: "caller data unchanged", Observed: observed,
				Detail: "mutation probe (" + what + "): writing through the result of " + name + " changed the data of the caller; the property says " + name + " works on a private copy"})
			return
		}
		if changed == expectChange {
			return
		}
		kind := "disagreement"
		detail := "mutation probe (" + what + "): the engine's result has aliasing class " + class + " by pointer identity, but writing says otherwise"
		res.add(Finding{Kind: kind, Where: stream + ":" + name + ":mutation", Case: c, Expected: fmt.Sprintf("caller data changes: %v", expectChange), Observed: observed, Detail: detail})
	}
	rv := reflect.ValueOf(r)
	if !rv.IsValid() {
		return
	}
	switch rv.Kind() {
	case reflect.Slice:
		aliased := class == "window"
		if rv.Len() > 0 {
			old := reflect.New(rv.Type().Elem()).Elem()
			old.Set(rv.Index(0))
			rv.Index(0).Set(c18Sentinel(rv.Type().Elem()))
			d := h.changed(snap, nil)
			rv.Index(0).Set(old)
			res.Evaluations++
			report("result[0] = sentinel", d, aliased, d != "")
		}
		if rv.Cap() > rv.Len() {
			ext := rv.Slice(0, rv.Len()+1)
			old := reflect.New(rv.Type().Elem()).Elem()
			old.Set(ext.Index(rv.Len()))
			_ = reflect.Append(rv, c18Sentinel(rv.Type().Elem()))
			d := h.changed(snap, nil)
			ext.Index(rv.Len()).Set(old)
			res.Evaluations++
			report("append(result, sentinel) within capacity", d, aliased, d != "")
			if d != "" {
				res.Hist["append-into-caller-capacity:"+name]++
			}
		}
		// the converse: write to the input, look at the result
		if in, ok := v.([]interface{}); ok && len(in) > 0 {
			ind := h.describe(v)
			jv, offv, okv := c18Window(ind)
			jr, offr, okr := c18Window(desc)
			expect := okv && okr && jv == jr && offr <= offv && offv < offr+rv.Len()
			old := in[0]
			in[0] = "C18-SENTINEL"
			after := h.describe(r)
			in[0] = old
			res.Evaluations++
			if (after != desc) != expect {
				kind := "disagreement"
				if after != desc && (class == "fresh" || class == "scalar") {
					kind = "oracle"
				}
				res.add(Finding{Kind: kind, Where: stream + ":" + name + ":mutation-converse", Case: c, Expected: fmt.Sprintf("result changes when input[0] is overwritten: %v", expect),
					Observed: hx(after), Detail: "writing to the input after the filter returned: a result that is a fresh object must not change, a window over the same slot must"})
			}
		}
	case reflect.Map:
		if rv.Type().Key().Kind() == reflect.String && rv.Type().Elem().Kind() == reflect.Interface {
			k := reflect.ValueOf("C18-SENTINEL-KEY")
			rv.SetMapIndex(k, reflect.ValueOf(1))
			d := h.changed(snap, nil)
			rv.SetMapIndex(k, reflect.Value{})
			res.Evaluations++
			report("result[key] = 1", d, class == "same-map", d != "")
		}
	}
	if d := h.changed(snap, nil); d != "" {
		panic("c18: mutation probe did not restore the heap: " + d)
	}
}

func c18Sentinel(t reflect.Type) reflect.Value {
	switch t.Kind() {
	case reflect.Interface:
		return reflect.ValueOf("C18-SENTINEL")
	case reflect.String:
		return reflect.ValueOf("C18-SENTINEL")
	case reflect.Int:
		return reflect.ValueOf(-987654)
	}
	return reflect.Zero(t)
}

// c18Family: every template rendered twice on one context built by mk; the context must be what it was (types
// included) and the two outputs equal. Errors are results like any other.
func c18Family(res *Result, stream string, mk func() map[string]interface{}, support map[string]string, tpls []string) {
	for ti, src := range tpls {
		ctx := mk()
		before := c18DeepCopy(reflect.ValueOf(ctx), 0).Interface()
		eng := twig.New()
		for n, s := range support {
			if err := eng.RegisterString(n, s); err != nil {
				panic("c18 " + stream + ": support template " + n + ": " + err.Error())
			}
		}
		c := Case{"stream": stream, "tpl": src}
		res.Hist["stream:"+stream]++
		res.Evaluations++
		res.count(stream+"/"+src, true)
		if err := eng.RegisterString("t", src); err != nil {
			res.Hist[stream+":does not parse"]++
			if ti < 0 {
				return
			}
			continue
		}
		func() {
			defer func() {
				if r := recover(); r != nil {
					res.add(Finding{Kind: "oracle", Where: stream, Case: c, Detail: fmt.Sprintf("panic: %v", r)})
				}
			}()
			out1, err1 := eng.Render("t", ctx)
			if !reflect.DeepEqual(ctx, before) {
				res.add(Finding{Kind: "oracle", Where: stream, Case: c, Expected: "the context as it was handed over",
					Observed: c18FirstDiff(before, ctx), Detail: "a render changed the caller's context: " + src})
				return
			}
			out2, err2 := eng.Render("t", ctx)
			if out1 != out2 || (err1 == nil) != (err2 == nil) {
				res.add(Finding{Kind: "oracle", Where: stream, Case: c, Expected: out1, Observed: out2, Detail: "two renders that share context data differ: " + src})
			}
			if !reflect.DeepEqual(ctx, before) {
				res.add(Finding{Kind: "oracle", Where: stream, Case: c, Expected: "the context as it was handed over",
					Observed: c18FirstDiff(before, ctx), Detail: "the second render changed the caller's context: " + src})
			}
		}()
	}
}

// every assigning statement inside every construct that has a body, with nothing assigning outside it: the
// caller's map holds the very names the template assigns
func c18WrappedAssignments(res *Result) {
	mk := func() map[string]interface{} {
		return map[string]interface{}{"n": 1, "xs": []interface{}{1, 2}, "v": "keep-v", "k": "keep-k", "loop": "keep-loop", "s": "str",
			"m": map[string]interface{}{"a": 1, "b": 2}, "L": "keep-L", "f": "keep-f", "w": nil}
	}
	wrappers := [][2]string{{"{% spaceless %}", "{% endspaceless %}"}, {"{% apply upper %}", "{% endapply %}"}, {"{% block b %}", "{% endblock %}"},
		{"{% if true %}", "{% endif %}"}, {"{% if false %}{% else %}", "{% endif %}"}, {"{% if false %}{% elseif n %}", "{% endif %}"},
		{"{% block b %}{% spaceless %}", "{% endspaceless %}{% endblock %}"}, {"{% if n %}{% spaceless %}{% apply lower %}", "{% endapply %}{% endspaceless %}{% endif %}"},
		{"{% spaceless %}{% if true %}", "{% endif %}{% endspaceless %}"}, {"<div>{% spaceless %}<p>", "</p>{% endspaceless %}</div>"}, {"", ""}}
	bodies := []string{"{% set n = n + 1 %}{{ n }}", "{% set w = 'W' %}{% set brand_new = 1 %}{{ w }}{{ brand_new }}", "{% for v in xs %}{{ loop.index }}{{ v }}{% endfor %}",
		"{% for k, v in m %}{{ k }}={{ v }}{% endfor %}", "{% for v in [] %}x{% else %}{% set n = 9 %}{% endfor %}{{ n }}", "{% import 'lib' as L %}{{ L.f() }}",
		"{% from 'lib' import f %}{{ f() }}", "{% set xs = xs|merge([3]) %}{{ xs|length }}", "{% do n %}{% set m = {'z': 1} %}{{ m.z }}"}
	var tpls []string
	for _, w := range wrappers {
		for _, b := range bodies {
			tpls = append(tpls, w[0]+b+w[1])
		}
	}
	c18Family(res, "wrapped-assignments", mk, map[string]string{"lib": "{% macro f() %}F{% endmacro %}"}, tpls)
}

// untyped documents that hold maps with interface keys at some depth (what YAML decoders produce) through
// every built-in that takes a collection
func c18NestedInterfaceMaps(res *Result) {
	mk := func() map[string]interface{} {
		return map[string]interface{}{
			"doc": map[string]interface{}{
				"meta": map[interface{}]interface{}{1: "a", 2: "b"},
				"list": []interface{}{map[interface{}]interface{}{"k": 1, 2: "two"}, "plain"},
				"deep": map[string]interface{}{"x": []interface{}{[]interface{}{map[interface{}]interface{}{true: 1, "s": []interface{}{1}}}}},
			},
			"top": map[interface{}]interface{}{"a": map[interface{}]interface{}{3: 4}},
			"lst": []interface{}{[]interface{}{map[interface{}]interface{}{5: 6}}},
		}
	}
	filters := []string{"json_encode", "keys", "merge(doc)", "merge(lst)", "length", "first", "last", "join(',')", "sort", "reverse", "slice(0, 1)", "default('d')", "e", "raw",
		"upper", "format(doc)", "replace(doc)", "url_encode", "striptags", "batch(1)", "column('k')", "json_encode|length", "keys|json_encode", "first|json_encode"}
	subjects := []string{"doc", "doc.meta", "doc.list", "doc.deep", "doc.deep.x", "top", "lst", "[doc]", "{'w': doc, 'l': lst}"}
	var tpls []string
	for _, f := range filters {
		for _, v := range subjects {
			tpls = append(tpls, "{{ "+v+"|"+f+" }}")
		}
	}
	for _, v := range subjects {
		tpls = append(tpls, "{{ json_encode("+v+") }}", "{{ dump("+v+") }}", "{{ max("+v+") }}", "{{ merge("+v+", "+v+")|length }}", "{{ length("+v+") }}",
			"{{ cycle("+v+", 1) }}", "{% for k, x in "+v+" %}{{ k }}{{ x|json_encode }}{% endfor %}", "{% set c = "+v+" %}{{ c|json_encode }}{{ c|keys|join }}")
	}
	c18Family(res, "nested-interface-maps", mk, nil, tpls)
}

// c18OtherDialects: spellings of other Twig versions that this engine may refuse (a refused template is skipped) or
// may come to accept: loop conditions, the variables of an include given as an expression, with blocks, arrow
// functions, block set. Whatever is accepted leaves the caller's lists and hashes as they were.
func c18OtherDialects(res *Result) {
	mk := func() map[string]interface{} {
		users := []interface{}{
			map[string]interface{}{"name": "ann", "active": false, "tags": []interface{}{"x"}},
			map[string]interface{}{"name": "bob", "active": true, "tags": []interface{}{"y", "z"}},
			map[string]interface{}{"name": "cid", "active": false, "tags": []interface{}{}},
			map[string]interface{}{"name": "dan", "active": true, "tags": []interface{}{"w"}},
		}
		card := map[string]interface{}{"title": "T", "body": "B"}
		return map[string]interface{}{"users": users, "card": card, "site": "S", "title": "outer", "xs": []interface{}{3, 1, 2},
			"doc": map[string]interface{}{"card": card, "list": users}, "typed": map[string]string{"title": "tt"}, "n": 1}
	}
	tpls := []string{
		"{% for u in users if u.active %}{{ loop.index }}/{{ loop.length }}:{{ u.name }},{% endfor %}",
		"{% for u in users if not u.active %}{{ u.name }}{% else %}none{% endfor %}", "{% for u in doc.list if u.active %}{{ u.name }}{% endfor %}",
		"{% for k, v in card if v %}{{ k }}{% endfor %}", "{% for x in xs if x > 1 %}{{ x }}{% endfor %}", "{% for u in users if u.tags|length %}{{ u.name }}{% endfor %}",
		"{% include 'p' with card %}", "{% include 'p' with card only %}", "{% include 'p' with card sandboxed %}", "{% include 'p' with doc.card sandboxed %}",
		"{% include 'p' with card|default({}) sandboxed %}", "{% include 'p' with typed sandboxed %}", "{% include 'p' with users|first sandboxed %}",
		"{% include 'p' with card ignore missing sandboxed %}", "{% for i in [1, 2] %}{% include 'p' with card sandboxed %}{% endfor %}",
		"{% with card %}{{ title }}{% set title = 'W' %}{% endwith %}{{ title }}", "{% with {'title': 'w'} %}{{ title }}{% endwith %}", "{% with card only %}{{ title }}{{ site }}{% endwith %}",
		"{% set a, b = 1, 2 %}{{ a }}{{ b }}", "{% set z %}<{{ title }}>{% endset %}{{ z }}", "{{ users|filter(u => u.active)|length }}", "{{ xs|map(x => x * 2)|join(',') }}",
		"{{ xs|sort((a, b) => a <=> b)|join }}", "{{ users|column('name')|join }}", "{{ xs|batch(2)|length }}", "{{ xs|shuffle|length }}", "{{ users|reduce((c, u) => c + 1, 0) }}",
		"{% set xs2 = xs %}{% set xs2 = xs2|sort %}{{ xs2|join }}{{ xs|join }}", "{% do xs|sort %}{{ xs|join }}", "{{ users|sort((a, b) => a.name <=> b.name)|first.name }}",
		"{% embed 'p' %}{% endembed %}", "{% autoescape %}{{ title }}{% endautoescape %}", "{{ card|merge(doc.card)|keys|join }}{{ users|merge(xs)|length }}",
		"{{ users|slice(1, 2)|first.name }}{{ users|reverse|first.name }}{{ users|last.name }}", "{{ users[1:2]|length }}{{ xs[:2]|join }}",
	}
	c18Family(res, "other-dialects", mk, map[string]string{"p": "[{{ title }}|{{ body }}|{{ site }}]{% set title = 'changed' %}"}, tpls)
}

// c18Brief: a value in few words, to a fixed depth (what a render left behind may contain itself)
func c18Brief(v interface{}, depth int) string {
	if v == nil {
		return "nil"
	}
	rv := reflect.ValueOf(v)
	switch rv.Kind() {
	case reflect.Map:
		if depth == 0 {
			return fmt.Sprintf("%T(%d entries)", v, rv.Len())
		}
		var parts []string
		for _, k := range rv.MapKeys() {
			parts = append(parts, fmt.Sprintf("%v:%s", k.Interface(), c18Brief(rv.MapIndex(k).Interface(), depth-1)))
		}
		sort.Strings(parts)
		if len(parts) > 12 {
			parts = append(parts[:12], "...")
		}
		return fmt.Sprintf("%T{%s}", v, strings.Join(parts, " "))
	case reflect.Slice, reflect.Array:
		if depth == 0 || rv.Len() > 12 {
			return fmt.Sprintf("%T(%d elements)", v, rv.Len())
		}
		var parts []string
		for i := 0; i < rv.Len(); i++ {
			parts = append(parts, c18Brief(rv.Index(i).Interface(), depth-1))
		}
		return "[" + strings.Join(parts, " ") + "]"
	case reflect.Ptr:
		if rv.IsNil() || depth == 0 {
			return fmt.Sprintf("%T", v)
		}
		return "&" + c18Brief(rv.Elem().Interface(), depth-1)
	case reflect.Struct:
		if depth == 0 {
			return fmt.Sprintf("%T", v)
		}
	}
	s := fmt.Sprintf("%v", v)
	if len(s) > 80 {
		s = s[:80] + "..."
	}
	return s
}

type C18Person struct {
	Name string
	Age  int
}
type C18ByAge []C18Person

func (a C18ByAge) Len() int           { return len(a) }
func (a C18ByAge) Less(i, j int) bool { return a[i].Age < a[j].Age }
func (a C18ByAge) Swap(i, j int)      { a[i], a[j] = a[j], a[i] }

type C18Names []string

func (a C18Names) Len() int           { return len(a) }
func (a C18Names) Less(i, j int) bool { return a[i] < a[j] }
func (a C18Names) Swap(i, j int)      { a[i], a[j] = a[j], a[i] }

type C18Author struct{ Name string }
type C18Post struct {
	*C18Author
	Title string
	Meta  *C18Author
}

// c18TypedArgumentsAndNilEmbeds: the function forms of merge with untyped bases and typed Go maps / slices as later
// arguments (and the other way round); records reached through pointers whose embedded pointer is nil, read and
// tested through promoted names.
func c18TypedArgumentsAndNilEmbeds(res *Result) {
	mk := func() map[string]interface{} {
		return map[string]interface{}{
			"defaults": map[string]interface{}{"color": "red", "size": 1},
			"labels":   map[string]string{"env": "prod", "color": "blue"},
			"counts":   map[string]int{"a": 1},
			"ifaces":   map[interface{}]interface{}{"k": "v"},
			"lst":      []interface{}{1, 2},
			"strs":     []string{"x", "y"},
			"ints":     []int{7},
			"empty":    map[string]interface{}{},
			"p":        &C18Post{Title: "t"},
			"posts":    []*C18Post{{Title: "a"}, {Title: "b", C18Author: &C18Author{"bob"}}},
			"v":        C18Post{Title: "by value"},
			// values with methods of the standard interfaces a library might use as a short cut
			"buf":   bytes.NewBufferString("buffer body"),
			"rd":    strings.NewReader("reader body"),
			"brd":   bytes.NewReader([]byte("bytes reader")),
			"page":  map[string]interface{}{"body": bytes.NewBufferString("<p>nested</p>")},
			"sorts": sort.StringSlice{"pear", "fig", "apple"},
			"sorti": sort.IntSlice{3, 1, 2},
			"byage": C18ByAge{{"ann", 40}, {"bob", 20}, {"cid", 30}},
			"named": C18Names{"z", "y", "x"},
		}
	}
	var tpls []string
	maps := []string{"defaults", "labels", "counts", "ifaces", "empty", "{'lit': 1}"}
	for _, a := range maps {
		for _, b := range maps {
			tpls = append(tpls, "{{ merge("+a+", "+b+")|keys|join(',') }}", "{{ "+a+"|merge("+b+")|length }}", "{{ merge("+a+", "+b+", labels)|length }}")
		}
	}
	lists := []string{"lst", "strs", "ints", "[9]"}
	for _, a := range lists {
		for _, b := range lists {
			tpls = append(tpls, "{{ merge("+a+", "+b+")|join(',') }}", "{{ "+a+"|merge("+b+")|join(',') }}", "{{ merge("+a+", "+b+", strs)|length }}")
		}
	}
	tpls = append(tpls,
		"{{ p.Name }}|{{ p.Title }}|{{ p.Name is defined ? 'd' : 'u' }}", "{{ p.Author }}|{{ p.C18Author }}|{{ p.Meta }}|{{ p.Meta.Name }}", "{% if p.Name %}n{% endif %}{{ p.Name|default('anon') }}",
		"{% for q in posts %}{{ q.Name|default('-') }}{{ q.Title }}{% endfor %}", "{{ posts[0].Name is defined ? 1 : 0 }}{{ posts[1].Name }}", "{{ v.Name }}{{ v.Title }}{{ v.Meta.Name }}",
		"{{ posts|first.Name }}{{ posts|column('Name')|join }}", "{{ p|json_encode }}", "{{ dump(p) }}{{ p }}")
	tpls = append(tpls,
		"{{ buf }}", "{{ rd }}|{{ brd }}", "{{ page.body }}", "{{ buf }}{{ buf|length }}{{ buf ~ '' }}", "{% set b = buf %}{{ b }}", "{% for k, v in page %}{{ v }}{% endfor %}",
		"{{ sorts|sort|join(',') }}|{{ sorts|first }}", "{{ sorti|sort|join(',') }}|{{ sorti|first }}", "{{ byage|sort|length }}{{ byage|first.Name }}", "{{ named|sort|join }}{{ named|reverse|join }}{{ named|first }}",
		"{{ sorts|reverse|join }}{{ sorts|slice(0, 2)|join }}{{ sorts|merge(['q'])|join }}{{ sorts|join }}", "{% for x in sorts|sort %}{{ x }}{% endfor %}{{ sorts|join }}")
	c18Family(res, "typed-arguments-and-nil-embeds", mk, nil, tpls)
}
