package main

import "github.com/semihalev/twig"

// hooks/verif_hooks_attr.go (injected into package twig by bin/check through the build overlay)
func init() {
	c20CacheStats = twig.VerifAttrCacheStats
	c20CacheReset = twig.VerifAttrCacheReset
}
