package main

import (
	"fmt"
	"os"
	"path/filepath"
	"strings"

	"github.com/semihalev/twig"
)

// c14BodiesOfAnySize: a construct that collects the output of its body before doing something with it (spaceless,
// apply, a captured set, a block, a macro) gives, for a body with N bytes of padding, what it gives for a short
// padding with the padding lengthened: nothing about the result depends on where N falls.
func c14BodiesOfAnySize(res *Result) {
	constructs := []struct{ name, open, close, want string }{
		// want: %P is the padding, the rest is what the construct makes of the body
		{"spaceless", "{% spaceless %}", "{% endspaceless %}", "<div>%P</div><p>x</p><i>A</i>"},
		{"apply-spaceless", "{% apply spaceless %}", "{% endapply %}", "<div>%P</div><p>x</p><i>A</i>"},
		{"apply-upper", "{% apply upper %}", "{% endapply %}", "<DIV>%U</DIV>\n  <P>X</P>  <I>A</I>"},
		{"apply-trim", "{% apply trim %}", "{% endapply %}", "<div>%P</div>\n  <p>x</p>  <i>A</i>"},
		{"block", "{% block b %}", "{% endblock %}", "<div>%P</div>\n  <p>x</p>  <i>A</i>"},
		{"spaceless-in-block", "{% block b %}{% spaceless %}", "{% endspaceless %}{% endblock %}", "<div>%P</div><p>x</p><i>A</i>"},
		{"if", "{% if c %}", "{% endif %}", "<div>%P</div>\n  <p>x</p>  <i>A</i>"},
	}
	sizes := []int{1, 100, 4095, 4096, 4097, 32767, 32768, 65535, 65536, 65537, 100000, 131072, 300000, 1 << 20}
	for _, k := range constructs {
		for _, where := range []string{"text", "variable", "before-construct"} {
			for _, n := range sizes {
				pad := strings.Repeat("p", n)
				body := "<div>%P</div>\n  {% if c %}<p>x</p>{% endif %}  <i>{{ a }}</i>"
				ctx := map[string]interface{}{"a": "A", "c": true}
				var src string
				switch where {
				case "text":
					src = k.open + strings.Replace(body, "%P", pad, 1) + k.close
				case "variable":
					src = k.open + strings.Replace(body, "%P", "{{ padding }}", 1) + k.close
					ctx["padding"] = pad
				default:
					src = pad + k.open + strings.Replace(body, "%P", "q", 1) + k.close
				}
				want := strings.Replace(strings.Replace(k.want, "%P", pad, 1), "%U", strings.ToUpper(pad), 1)
				if where == "before-construct" {
					want = pad + strings.Replace(strings.Replace(k.want, "%P", "q", 1), "%U", "Q", 1)
				}
				eng := twig.New()
				res.Hist["stream:bodies-of-any-size"]++
				res.count(fmt.Sprint("bodies-of-any-size", k.name, where, n), n >= 65536)
				if err := eng.RegisterString("t", src); err != nil {
					res.add(Finding{Kind: "oracle", Where: "bodies-of-any-size/" + k.name, Case: Case{"stream": "bodies-of-any-size", "construct": k.name, "padding": n, "padding in": where}, Expected: "parses", Observed: err.Error()})
					return
				}
				res.Evaluations++
				got, err := eng.Render("t", ctx)
				if err != nil {
					got = "error: " + err.Error()
				}
				if got != want {
					res.add(Finding{Kind: "oracle", Where: "bodies-of-any-size/" + k.name, Case: Case{"stream": "bodies-of-any-size", "construct": k.name, "padding": n, "padding in": where},
						Expected: clip(want) + fmt.Sprintf(" (%d bytes)", len(want)), Observed: clip(got) + fmt.Sprintf(" (%d bytes)", len(got)),
						Detail: "body " + k.open + body + k.close + " with %P standing for " + fmt.Sprint(n) + " letters p (" + where + "): the result differs from the one for a short padding, lengthened"})
					return
				}
			}
		}
	}
}

// c14StaticTemplates: templates that hold literal text and comments only (no print tag, no block tag), of every size:
// the output is the text with the comments taken out, below and above every threshold.
func c14StaticTemplates(res *Result) {
	for _, n := range []int{10, 1000, 4000, 4090, 4096, 4097, 5000, 8192, 40000, 65536, 70000, 300000} {
		for _, shape := range []string{"header", "middle", "trailer", "several", "ruler", "looks-like-tags-inside", "escaped-opener"} {
			pad := strings.Repeat("p.note: margin 0; /* css */ ", n/20+2)[:n]
			var src, want string
			switch shape {
			case "header":
				src, want = "{# licence header #}"+pad, pad
			case "middle":
				src, want = pad[:n/2]+"{# note #}"+pad[n/2:], pad
			case "trailer":
				src, want = pad+"{# end #}", pad
			case "several":
				src, want = "{# a #}"+pad[:n/3]+"{# b\nb #}"+pad[n/3:]+"{##}", pad
			case "ruler":
				src, want = pad[:n/2]+" \n{#---------- list ----------#}\n "+pad[n/2:]+"\n{#-- next --#}\n", pad[:n/2]+" \n\n "+pad[n/2:]+"\n\n"
			case "looks-like-tags-inside":
				src, want = pad[:n/2]+"{# {{ x }} {% if y %} #}"+pad[n/2:], pad
			default:
				src, want = pad[:n/2]+"\\{# not a comment #}"+pad[n/2:]+"{# c #}", pad[:n/2]+"{# not a comment #}"+pad[n/2:]
			}
			c := Case{"stream": "static-templates", "shape": shape, "bytes of text": n}
			res.Hist["stream:static-templates"]++
			res.count(fmt.Sprint("static-templates", shape, n), n > 4096)
			for _, route := range []string{"RegisterString", "include"} {
				eng := twig.New()
				name := "t"
				if err := eng.RegisterString("t", src); err != nil {
					res.add(Finding{Kind: "oracle", Where: "static-templates/" + shape, Case: c, Expected: "parses", Observed: err.Error()})
					return
				}
				w := want
				if route == "include" {
					eng.RegisterString("page", "<{% include 't' %}>")
					name, w = "page", "<"+want+">"
				}
				res.Evaluations++
				got, err := eng.Render(name, nil)
				if err != nil {
					got = "error: " + err.Error()
				}
				if got != w {
					res.add(Finding{Kind: "oracle", Where: "static-templates/" + shape + "/" + route, Case: c, Expected: clip(w) + fmt.Sprintf(" (%d bytes)", len(w)), Observed: clip(got) + fmt.Sprintf(" (%d bytes)", len(got)),
						Detail: "a template of text and comments only: the comments contribute nothing, whatever the length of the text"})
					return
				}
			}
		}
	}
}

// c14ThroughLoaders: a template of any size reads the same from every loader: array, files, chain, compiled files
// written by SaveCompiled, serialised forms.
func c14ThroughLoaders(cases string, res *Result) {
	dir := filepath.Join(filepath.Dir(cases), "c14loaders")
	defer os.RemoveAll(dir)
	for _, n := range []int{100, 3000, 4000, 4080, 4090, 4096, 4100, 5000, 8192, 9000, 65536, 70000, 200000} {
		for _, shape := range []string{"tags at the end", "tags throughout", "a tag across 4096"} {
			pad := strings.Repeat("lorem ipsum dolor ", n/18+2)[:n]
			var src, want string
			switch shape {
			case "tags at the end":
				src, want = pad+"{{ a }}{% if c %}yes{% endif %}{# c #}end", pad+"Ayesend"
			case "tags throughout":
				src, want = "{{ a }}"+pad[:n/2]+"{% if c %}[{{ a }}]{% endif %}"+pad[n/2:]+"{{ a }}", "A"+pad[:n/2]+"[A]"+pad[n/2:]+"A"
			default:
				k := n - 3
				if n > 4096 {
					k = 4093
				}
				src, want = pad[:k]+"{{ a }}"+pad[k:]+"|{{ a }}", pad[:k]+"A"+pad[k:]+"|A"
			}
			os.RemoveAll(dir)
			os.MkdirAll(filepath.Join(dir, "files"), 0o755)
			os.MkdirAll(filepath.Join(dir, "compiled"), 0o755)
			os.WriteFile(filepath.Join(dir, "files", "page.twig"), []byte(src), 0o644)
			ref := twig.New()
			if ref.RegisterString("page.twig", src) != nil {
				continue
			}
			if err := twig.NewCompiledLoader(filepath.Join(dir, "compiled")).SaveCompiled(ref, "page.twig"); err != nil {
				res.add(Finding{Kind: "oracle", Where: "through-loaders/SaveCompiled", Case: Case{"stream": "through-loaders", "bytes of text": n, "shape": shape}, Expected: "written", Observed: err.Error()})
				return
			}
			var blob []byte
			if t, err := ref.Load("page.twig"); err == nil {
				blob, _ = t.SaveCompiled()
			}
			routes := []struct {
				name string
				mk   func(e *twig.Engine) error
			}{
				{"ArrayLoader", func(e *twig.Engine) error {
					e.RegisterLoader(twig.NewArrayLoader(map[string]string{"page.twig": src}))
					return nil
				}},
				{"FileSystemLoader", func(e *twig.Engine) error {
					e.RegisterLoader(twig.NewFileSystemLoader([]string{filepath.Join(dir, "files")}))
					return nil
				}},
				{"ChainLoader", func(e *twig.Engine) error {
					e.RegisterLoader(twig.NewChainLoader([]twig.Loader{twig.NewArrayLoader(map[string]string{}), twig.NewFileSystemLoader([]string{filepath.Join(dir, "files")})}))
					return nil
				}},
				{"CompiledLoader", func(e *twig.Engine) error {
					e.RegisterLoader(twig.NewCompiledLoader(filepath.Join(dir, "compiled")))
					return nil
				}},
				{"LoadFromCompiledData", func(e *twig.Engine) error { return e.LoadFromCompiledData(blob) }},
			}
			for _, rt := range routes {
				for _, cache := range []bool{true, false} {
					e := twig.New()
					e.SetCache(cache)
					if rt.mk(e) != nil {
						continue
					}
					c := Case{"stream": "through-loaders", "route": rt.name, "cache": cache, "bytes of text": n, "shape": shape}
					res.Hist["stream:through-loaders"]++
					res.count(fmt.Sprint("through-loaders", rt.name, cache, n, shape), n > 4096)
					res.Evaluations++
					got, err := e.Render("page.twig", map[string]interface{}{"a": "A", "c": true})
					if err != nil {
						got = "error: " + err.Error()
					}
					if got != want {
						res.add(Finding{Kind: "oracle", Where: "through-loaders/" + rt.name, Case: c, Expected: clip(want) + fmt.Sprintf(" (%d bytes)", len(want)), Observed: clip(got) + fmt.Sprintf(" (%d bytes)", len(got)),
							Detail: "the template read through this loader renders differently from the same text registered directly"})
						return
					}
				}
			}
		}
	}
}
