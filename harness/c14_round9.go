package main

import (
	"fmt"
	"strings"

	"github.com/semihalev/twig"
)

// c14BodiesOfAnySize: a construct that collects the output of its body before doing something with it (spaceless,
// apply, a captured set, a block, a macro) gives, for a body with N bytes of padding, what it gives for a short
// padding with the padding lengthened: nothing about the result depends on where N falls.
func c14BodiesOfAnySize(res *Result) {
	constructs := []struct{ name, open, close, want string }{
		// want: %P is the padding, the rest is what the construct makes of the body
		{"spaceless", "{% spaceless %}", "{% endspaceless %}", "<div>%P</div><p>x</p><i>A</i>"},
		{"apply-spaceless", "{% apply spaceless %}", "{% endapply %}", "<div>%P</div><p>x</p><i>A</i>"},
		{"apply-upper", "{% apply upper %}", "{% endapply %}", "<DIV>%U</DIV>\n  <P>X</P>  <I>A</I>"},
		{"apply-trim", "{% apply trim %}", "{% endapply %}", "<div>%P</div>\n  <p>x</p>  <i>A</i>"},
		{"block", "{% block b %}", "{% endblock %}", "<div>%P</div>\n  <p>x</p>  <i>A</i>"},
		{"spaceless-in-block", "{% block b %}{% spaceless %}", "{% endspaceless %}{% endblock %}", "<div>%P</div><p>x</p><i>A</i>"},
		{"if", "{% if c %}", "{% endif %}", "<div>%P</div>\n  <p>x</p>  <i>A</i>"},
	}
	sizes := []int{1, 100, 4095, 4096, 4097, 32767, 32768, 65535, 65536, 65537, 100000, 131072, 300000, 1 << 20}
	for _, k := range constructs {
		for _, where := range []string{"text", "variable", "before-construct"} {
			for _, n := range sizes {
				pad := strings.Repeat("p", n)
				body := "<div>%P</div>\n  {% if c %}<p>x</p>{% endif %}  <i>{{ a }}</i>"
				ctx := map[string]interface{}{"a": "A", "c": true}
				var src string
				switch where {
				case "text":
					src = k.open + strings.Replace(body, "%P", pad, 1) + k.close
				case "variable":
					src = k.open + strings.Replace(body, "%P", "{{ padding }}", 1) + k.close
					ctx["padding"] = pad
				default:
					src = pad + k.open + strings.Replace(body, "%P", "q", 1) + k.close
				}
				want := strings.Replace(strings.Replace(k.want, "%P", pad, 1), "%U", strings.ToUpper(pad), 1)
				if where == "before-construct" {
					want = pad + strings.Replace(strings.Replace(k.want, "%P", "q", 1), "%U", "Q", 1)
				}
				eng := twig.New()
				res.Hist["stream:bodies-of-any-size"]++
				res.count(fmt.Sprint("bodies-of-any-size", k.name, where, n), n >= 65536)
				if err := eng.RegisterString("t", src); err != nil {
					res.add(Finding{Kind: "oracle", Where: "bodies-of-any-size/" + k.name, Case: Case{"stream": "bodies-of-any-size", "construct": k.name, "padding": n, "padding in": where}, Expected: "parses", Observed: err.Error()})
					return
				}
				res.Evaluations++
				got, err := eng.Render("t", ctx)
				if err != nil {
					got = "error: " + err.Error()
				}
				if got != want {
					res.add(Finding{Kind: "oracle", Where: "bodies-of-any-size/" + k.name, Case: Case{"stream": "bodies-of-any-size", "construct": k.name, "padding": n, "padding in": where},
						Expected: clip(want) + fmt.Sprintf(" (%d bytes)", len(want)), Observed: clip(got) + fmt.Sprintf(" (%d bytes)", len(got)),
						Detail: "body " + k.open + body + k.close + " with %P standing for " + fmt.Sprint(n) + " letters p (" + where + "): the result differs from the one for a short padding, lengthened"})
					return
				}
			}
		}
	}
}
