package main

import (
	"encoding/json"
	"fmt"
	"math/rand"
	"os"
	"os/exec"
	"path/filepath"
	"reflect"
	"regexp"
	"runtime"
	"sort"
	"strconv"
	"strings"
	"time"

	"github.com/semihalev/twig"
)

func init() {
	runners["C03"] = runC03
	runners["C03-child"] = runC03Child
}

// C03: output is a function of templates and context.
//
// Oracle (model independent, the property itself): every case is rendered c03Reps times in this process.
// Before each render the whole context is rebuilt from its description: every map gets its entries in
// one of four insertion orders (as listed, reversed, rotated, shuffled) and one of four capacities,
// every pointer and func value is a fresh allocation (earlier ones are kept alive, so addresses
// differ). The case is rendered once more in a second process (this executable re-executed as runner
// C03-child, which first allocates a pid-dependent amount of memory). Any two differing observables
// (output bytes, or error class) are an oracle failure -- unless the case belongs to a stream
// known:<class>, then it is reported as that known class provided the observed outputs are among those
// the faithful model predicts for some iteration order (merge-filter-key-collision) or are equal after
// masking hexadecimal numbers and equal to the model's output with the address masked (nested-pointer).
// The classes repaired in the engine (hash-duplicate-key, key-string-collision, toplevel-address, merge-filter-key-collision) are
// ordinary cases now (streams regress:<class>): one predicted output, any variation is an oracle failure.
// Correspondence: the (single) observable against the model's prediction, when the model covers the case.
// Dates: twig.VerifConvertDateFormat against the model for every format string, and {{ d|date(f) }} with a
// fixed time against time.Format of the model's layout.

const c03Reps = 16
const c03RepsKnown = 64

var c03KeepAlive []interface{}

type c03Struct1 struct {
	N string
	P *int
}
type c03Struct2 struct {
	A int
	B string
}

// c03Key is a struct used as a map key (type 9 and 10 of the case files)
type c03Key struct {
	A int
	B string
}

// c03Order returns the entry order of a map with n entries for a build variant.
func c03Order(n, variant int, rng *rand.Rand) []int {
	idx := make([]int, n)
	for i := range idx {
		idx[i] = i
	}
	switch variant % 4 {
	case 1:
		for i, j := 0, n-1; i < j; i, j = i+1, j-1 {
			idx[i], idx[j] = idx[j], idx[i]
		}
	case 2:
		if n > 1 {
			k := (1 + variant/4) % n
			idx = append(append([]int{}, idx[k:]...), idx[:k]...)
		}
	case 3:
		rng.Shuffle(n, func(i, j int) { idx[i], idx[j] = idx[j], idx[i] })
	}
	return idx
}

func c03Cap(n, variant int) int {
	switch (variant / 4) % 4 {
	case 0:
		return 0
	case 1:
		return n
	case 2:
		return 64
	}
	return 1024
}

func c03Scalar(v map[string]interface{}) interface{} {
	switch v["t"] {
	case "null":
		return nil
	case "bool":
		return v["b"].(bool)
	case "int":
		return int(v["i"].(float64))
	case "str":
		return unhex(v["s"].(string))
	}
	panic("c03: not a scalar: " + fmt.Sprint(v["t"]))
}

// c03Build constructs a fresh Go value from its description.
func c03Build(v map[string]interface{}, variant int, rng *rand.Rand) interface{} {
	switch v["t"] {
	case "null", "bool", "int", "str":
		return c03Scalar(v)
	case "list":
		xs, _ := v["xs"].([]interface{})
		switch v["tag"] {
		case "strings":
			out := make([]string, 0, len(xs))
			for _, x := range xs {
				out = append(out, c03Build(x.(map[string]interface{}), variant, rng).(string))
			}
			return out
		case "ints":
			out := make([]int, 0, len(xs))
			for _, x := range xs {
				out = append(out, c03Build(x.(map[string]interface{}), variant, rng).(int))
			}
			return out
		}
		out := make([]interface{}, 0, len(xs))
		for _, x := range xs {
			out = append(out, c03Build(x.(map[string]interface{}), variant, rng))
		}
		return out
	case "map":
		kvs, _ := v["kvs"].([]interface{})
		n := len(kvs)
		order := c03Order(n, variant, rng)
		capa := c03Cap(n, variant)
		key := func(i int) interface{} {
			return c03Scalar(kvs[i].([]interface{})[0].(map[string]interface{}))
		}
		val := func(i int) interface{} {
			return c03Build(kvs[i].([]interface{})[1].(map[string]interface{}), variant, rng)
		}
		switch v["tag"] {
		case "strstr":
			m := make(map[string]string, capa)
			for _, i := range order {
				m[key(i).(string)] = val(i).(string)
			}
			return m
		case "intstr":
			m := make(map[int]string, capa)
			for _, i := range order {
				m[key(i).(int)] = val(i).(string)
			}
			return m
		case "strint":
			m := make(map[string]int, capa)
			for _, i := range order {
				m[key(i).(string)] = val(i).(int)
			}
			return m
		case "iface":
			m := make(map[interface{}]interface{}, capa)
			for _, i := range order {
				m[key(i)] = val(i)
			}
			return m
		}
		m := make(map[string]interface{}, capa)
		for _, i := range order {
			m[key(i).(string)] = val(i)
		}
		return m
	case "ptr":
		inner, ok := v["v"].(map[string]interface{})
		if !ok {
			return (*int)(nil)
		}
		x := c03Build(inner, variant, rng)
		var p interface{}
		switch t := x.(type) {
		case int:
			q := new(int)
			*q = t
			p = q
		case string:
			q := new(string)
			*q = t
			p = q
		case bool:
			q := new(bool)
			*q = t
			p = q
		case c03Struct1:
			q := new(c03Struct1)
			*q = t
			p = q
		case c03Struct2:
			q := new(c03Struct2)
			*q = t
			p = q
		default:
			q := new(interface{})
			*q = t
			p = q
		}
		c03KeepAlive = append(c03KeepAlive, p)
		return p
	case "func":
		id := int(v["id"].(float64))
		f := func() int { return id + variant }
		c03KeepAlive = append(c03KeepAlive, f)
		return f
	case "struct":
		fields, _ := v["fields"].([]interface{})
		get := func(name string) interface{} {
			for _, f := range fields {
				fl := f.([]interface{})
				if unhex(fl[0].(string)) == name {
					return c03Build(fl[1].(map[string]interface{}), variant, rng)
				}
			}
			return nil
		}
		switch int(v["ty"].(float64)) {
		case 11:
			// a map that contains itself, and a list holding that map
			inner, _ := get("M").(map[int]string)
			ks := make([]int, 0, len(inner))
			for k := range inner {
				ks = append(ks, k)
			}
			sort.Ints(ks)
			m := make(map[string]interface{}, c03Cap(len(ks), variant))
			self := len(ks) / 2
			for n, i := range c03Order(len(ks), variant, rng) {
				if n == self {
					m["self"] = m
				}
				m[fmt.Sprintf("k%d", ks[i])] = inner[ks[i]]
			}
			m["self"] = m
			return map[string]interface{}{"map": m, "list": []interface{}{1, m, "x"}}
		case 9, 10:
			// a map keyed by structs (9) or by interface values of several kinds (10), from the int-keyed map in field M
			inner, _ := get("M").(map[int]string)
			ks := make([]int, 0, len(inner))
			for k := range inner {
				ks = append(ks, k)
			}
			sort.Ints(ks)
			order := c03Order(len(ks), variant, rng)
			if int(v["ty"].(float64)) == 9 {
				m := make(map[c03Key]string, c03Cap(len(ks), variant))
				for _, i := range order {
					m[c03Key{A: ks[i], B: "k"}] = inner[ks[i]]
				}
				return m
			}
			m := make(map[interface{}]string, c03Cap(len(ks), variant))
			for _, i := range order {
				k := ks[i]
				switch i % 4 {
				case 0:
					m[c03Key{A: k, B: "i"}] = inner[k]
				case 1:
					m[k] = inner[k]
				case 2:
					m[fmt.Sprintf("s%d", k)] = inner[k]
				default:
					m[c03Struct2{A: k, B: "t"}] = inner[k]
				}
			}
			return m
		case 1:
			s := c03Struct1{}
			s.N, _ = get("N").(string)
			s.P, _ = get("P").(*int)
			return s
		case 2:
			s := c03Struct2{}
			s.A, _ = get("A").(int)
			s.B, _ = get("B").(string)
			return s
		}
	}
	panic("c03: unknown value description " + fmt.Sprint(v["t"]))
}

func c03BuildCtx(c Case, variant int, rng *rand.Rand) map[string]interface{} {
	vars := c.list("ctx")
	order := c03Order(len(vars), variant, rng)
	ctx := make(map[string]interface{}, c03Cap(len(vars), variant))
	for _, i := range order {
		pr := vars[i].([]interface{})
		ctx[unhex(pr[0].(string))] = c03Build(pr[1].(map[string]interface{}), variant, rng)
	}
	return ctx
}

// c03Engine registers the templates of a case; main template is "main".
func c03Engine(c Case) (*twig.Engine, error) {
	eng := twig.New()
	for _, t := range c.list("tpls") {
		pr := t.([]interface{})
		if err := eng.RegisterString(unhex(pr[0].(string)), unhex(pr[1].(string))); err != nil {
			return nil, err
		}
	}
	if err := eng.RegisterString("main", c.hexs("tpl")); err != nil {
		return nil, err
	}
	return eng, nil
}

// c03Render returns the observable of one render: "out:<bytes>", "err" (class other), "err:parse", "panic".
func c03Render(eng *twig.Engine, ctx map[string]interface{}) (obs string) {
	defer func() {
		if r := recover(); r != nil {
			obs = "panic"
		}
	}()
	out, err := eng.Render("main", ctx)
	if err != nil {
		return "err"
	}
	return "out:" + out
}

var c03Hex = regexp.MustCompile(`0x[0-9a-f]+`)

func c03Mask(s string) string { return c03Hex.ReplaceAllString(s, "0xADDR") }

func c03Set(m map[string]int) []string {
	ks := make([]string, 0, len(m))
	for k := range m {
		ks = append(ks, k)
	}
	sort.Strings(ks)
	return ks
}

// c03Listed reads the known-finding classes of C03 from KNOWN_FINDINGS.txt (two directories above the case file,
// where bin/check keeps it). A class that is not listed there is reported as an oracle failure, also on a replay.
// When the file cannot be found every class counts as listed and bin/check decides.
func c03Listed(cases string) func(string) bool {
	dir := filepath.Dir(filepath.Dir(filepath.Dir(cases)))
	b, err := os.ReadFile(filepath.Join(dir, "KNOWN_FINDINGS.txt"))
	if err != nil {
		return func(string) bool { return true }
	}
	listed := map[string]bool{}
	for _, line := range strings.Split(string(b), "\n") {
		f := strings.Fields(line)
		if len(f) >= 3 && f[0] == "finding:" && f[1] == "property=C03" && strings.HasPrefix(f[2], "class=") {
			listed[strings.TrimPrefix(f[2], "class=")] = true
		}
	}
	return func(c string) bool { return listed[c] }
}

var c03FixedTime = time.Date(2021, time.March, 7, 15, 4, 9, 0, time.UTC) // a Sunday; afternoon, single-digit day and month

func runC03(cases string, res *Result) {
	// ---- the second process, started first so that it runs alongside
	childOut := cases + ".child.json"
	os.Remove(childOut)
	var child *exec.Cmd
	if exe, err := os.Executable(); err == nil {
		child = exec.Command(exe, "C03-child", cases, childOut)
		child.Stderr = os.Stderr
		if err := child.Start(); err != nil {
			child = nil
		}
	}

	listed := c03Listed(cases)
	addKnown := func(f Finding) {
		if !listed(f.Known) {
			f.Kind = "oracle"
			f.Detail = strings.TrimSpace(f.Detail + " [class " + f.Known + " is not a listed known finding]")
			f.Known = ""
		}
		res.add(f)
	}
	first := map[int]string{} // case id -> first observable of this process
	stream := map[int]string{}
	caseOf := map[int]Case{}
	dateEng := twig.New()
	if err := dateEng.RegisterString("date", "{{ d|date(f) }}"); err != nil {
		panic(err)
	}
	mapCases3 := 0

	readCases(cases, func(c Case) {
		st := c.str("stream")
		id := c.num("id")
		res.Hist["stream:"+st]++
		if c.str("kind") == "date" {
			f := c.hexs("fmt")
			exp := c.hexs("exp")
			letters := 0
			for i := 0; i < len(f); i++ {
				if twig.VerifConvertDateFormat(f[i:i+1]) != f[i:i+1] {
					letters++
				}
			}
			res.count("date:"+f, letters >= 2)
			res.Evaluations++
			got := twig.VerifConvertDateFormat(f)
			got2 := twig.VerifConvertDateFormat(f)
			if got != got2 {
				res.add(Finding{Kind: "oracle", Where: "convertDateFormat", Case: c, Expected: hx(got), Observed: hx(got2), Detail: "two conversions of one format string differ"})
			} else if got != exp {
				// the conversion is the model's by C03_date_homomorphism; look for a failing input of the property itself
				differs := false
				for i := 0; i < 200 && !differs; i++ {
					if twig.VerifConvertDateFormat(f) != got {
						differs = true
					}
				}
				if differs {
					res.add(Finding{Kind: "oracle", Where: "convertDateFormat", Case: c, Expected: hx(exp), Observed: hx(got), Detail: "repeated conversions of one format string differ"})
				} else {
					res.add(Finding{Kind: "disagreement", Where: "convertDateFormat", Case: c, Expected: hx(exp), Observed: hx(got)})
				}
			}
			if st == "date-filter" {
				want := c03FixedTime.Format(exp)
				outs := map[string]int{}
				for i := 0; i < 8; i++ {
					res.Evaluations++
					o, err := dateEng.Render("date", map[string]interface{}{"d": c03FixedTime, "f": f})
					if err != nil {
						o = "ERR"
					}
					outs[o]++
				}
				if len(outs) > 1 {
					res.add(Finding{Kind: "oracle", Where: "date filter", Case: c, Observed: strings.Join(c03Set(outs), " | "), Detail: "renders of {{ d|date(f) }} with a fixed time differ"})
				} else if _, ok := outs[want]; !ok {
					res.add(Finding{Kind: "disagreement", Where: "date filter", Case: c, Expected: hx(want), Observed: hx(c03Set(outs)[0])})
				}
			}
			if len(res.Samples) < 4 && len(f) >= 3 && st == "date-random" {
				res.sample(map[string]string{"format": f, "model": exp, "engine": got}, 16)
			}
			return
		}

		// ---- render cases
		src := c.hexs("tpl")
		mm := c.num("maxmap")
		if mm >= 3 {
			mapCases3++
		}
		res.count(src+"\x00"+fmt.Sprint(c["ctx"])+fmt.Sprint(c["tpls"]), mm >= 3)
		known := ""
		if strings.HasPrefix(st, "known:") {
			known = strings.TrimPrefix(st, "known:")
		}
		eng, err := c03Engine(c)
		if err != nil {
			// a template of the generated fragment that does not parse: the model says it renders
			res.add(Finding{Kind: "disagreement", Where: "parse", Case: c, Detail: "generated template is rejected: " + err.Error()})
			return
		}
		rng := rand.New(rand.NewSource(int64(id)))
		reps := c03Reps
		if known != "" {
			reps = c03RepsKnown
		}
		outs := map[string]int{}
		firstObs := ""
		for i := 0; i < reps; i++ {
			ctx := c03BuildCtx(c, i, rng)
			res.Evaluations++
			o := c03Render(eng, ctx)
			if i == 0 {
				firstObs = o
			}
			outs[o]++
		}
		first[id] = firstObs
		stream[id] = st
		caseOf[id] = c
		if len(c03KeepAlive) > 4096 {
			c03KeepAlive = c03KeepAlive[:0]
		}
		if _, has := c["exp"]; !has {
			if _, has := c["experr"]; !has {
				res.Unmodelled++
			}
		}
		if len(res.Samples) < 14 && (st == "gen" || known != "") && mm >= 3 {
			res.sample(map[string]interface{}{"stream": st, "template": src, "observables": c03Set(outs), "model": c["exp"], "model_alternatives": c["alts"]}, 16)
		}

		if len(outs) > 1 {
			set := c03Set(outs)
			if known != "" && c03KnownExplains(c, known, set) {
				addKnown(Finding{Kind: "known", Known: known, Where: "render", Case: c, Observed: strings.Join(set, " | "),
					Detail: fmt.Sprintf("%d different outputs in %d renders of one template with one context", len(set), reps)})
			} else {
				res.add(Finding{Kind: "oracle", Where: "render", Case: c, Expected: hx(set[0]), Observed: hx(set[1]),
					Detail: fmt.Sprintf("%d different observables in %d renders of one template with one context value (maps rebuilt in other insertion orders): %q", len(set), reps, c03Trunc(set))})
			}
			return
		}
		// one observable: compare with the model
		switch {
		case c["exp"] != nil:
			if want := "out:" + c.hexs("exp"); firstObs != want {
				res.add(Finding{Kind: "disagreement", Where: "render", Case: c, Expected: hx(want), Observed: hx(firstObs)})
			}
		case c["experr"] != nil:
			if firstObs != "err" {
				res.add(Finding{Kind: "disagreement", Where: "render", Case: c, Expected: "err", Observed: hx(firstObs)})
			}
		case c["alts"] != nil:
			// one stable output where the model allows several: it must be one of them
			if !c03InAlts(c, firstObs) {
				res.add(Finding{Kind: "disagreement", Where: "render", Case: c, Expected: fmt.Sprint(c["alts"]), Observed: hx(firstObs), Detail: "stable output that no iteration order of the model produces"})
			}
		case known == "nested-pointer":
			if strings.Contains(c03Mask(firstObs), "0xADDR") {
				// an address that happens to be the same in every render of this process
				addKnown(Finding{Kind: "known", Known: known, Where: "render", Case: c, Observed: firstObs,
					Detail: "an address is printed; it happened to be the same in every render of this process"})
			}
		}
	})
	res.Hist["cases_with_map_of_3_or_more_entries"] = mapCases3
	c03DateValues(res, dateEng)
	c03MapsThatChange(res)
	c03IdenticallyBuiltEngines(res)
	c03AttributeHistory(res)
	c03SpellingsOfOneWord(res)
	c03RenderedAgainUnderSettings(res)
	c03OtherContextsFirst(res)
	c10ParentsNamedRelatively(cases, res)
	for _, cl := range []string{"hash-duplicate-key", "key-string-collision", "toplevel-address", "merge-filter-key-collision"} {
		bad := 0
		for _, f := range res.Findings {
			if cm, ok := f.Case.(Case); ok && cm.str("stream") == "regress:"+cl {
				bad++
			}
		}
		if n := res.Hist["stream:regress:"+cl]; n > 0 && bad == 0 {
			res.Notes = append(res.Notes, fmt.Sprintf("class %s: no longer observed (%d cases of the former known class, each with one stable output equal to the model's)", cl, n))
		}
	}

	// ---- compare with the second process
	if child == nil {
		res.Notes = append(res.Notes, "second process could not be started; cross-process comparison skipped")
	} else {
		done := make(chan error, 1)
		go func() { done <- child.Wait() }()
		select {
		case err := <-done:
			if err != nil {
				res.add(Finding{Kind: "disagreement", Where: "second process", Case: map[string]string{}, Detail: "child runner failed: " + err.Error()})
			}
		case <-time.After(10 * time.Minute):
			child.Process.Kill()
			res.add(Finding{Kind: "disagreement", Where: "second process", Case: map[string]string{}, Detail: "child runner timed out"})
		}
		var cr struct {
			Notes []string `json:"notes"`
		}
		if b, err := os.ReadFile(childOut); err == nil && json.Unmarshal(b, &cr) == nil {
			n := 0
			for _, line := range cr.Notes {
				var id int
				var h string
				if _, err := fmt.Sscanf(line, "%d %s", &id, &h); err != nil {
					continue
				}
				obs := unhex(h)
				mine, ok := first[id]
				if !ok {
					continue
				}
				n++
				res.Evaluations++
				if obs == mine {
					continue
				}
				st := stream[id]
				c := caseOf[id]
				if strings.HasPrefix(st, "known:") && c03KnownExplains(c, strings.TrimPrefix(st, "known:"), []string{mine, obs}) {
					addKnown(Finding{Kind: "known", Known: strings.TrimPrefix(st, "known:"), Where: "second process", Case: c, Observed: mine + " | " + obs})
				} else {
					res.add(Finding{Kind: "oracle", Where: "second process", Case: c, Expected: hx(mine), Observed: hx(obs),
						Detail: "the same template and context give different output in another process"})
				}
			}
			res.Hist["compared_with_second_process"] = n
			os.Remove(childOut)
		} else {
			res.add(Finding{Kind: "disagreement", Where: "second process", Case: map[string]string{}, Detail: "no result from the child runner"})
		}
	}
	res.Exhaustive = []string{"date-exhaustive"}
	res.Notes = append(res.Notes, fmt.Sprintf("every render case: %d renders in this process (%d for known classes) with all maps rebuilt in 4 insertion orders x 4 capacities and fresh pointers, plus one render in a second process", c03Reps, c03RepsKnown))
}

func c03Trunc(set []string) []string {
	out := make([]string, 0, len(set))
	for _, s := range set {
		if len(s) > 160 {
			s = s[:160] + "..."
		}
		out = append(out, s)
	}
	return out
}

func c03InAlts(c Case, obs string) bool {
	if !strings.HasPrefix(obs, "out:") {
		return false
	}
	o := strings.TrimPrefix(obs, "out:")
	for _, a := range c.list("alts") {
		if unhex(a.(string)) == o {
			return true
		}
	}
	if d, ok := c["demanded"].(string); ok && unhex(d) == o {
		return true
	}
	return false
}

// c03KnownExplains: do the differing observables fit the listed class?
func c03KnownExplains(c Case, class string, set []string) bool {
	switch class {
	case "merge-filter-key-collision":
		for _, o := range set {
			if !c03InAlts(c, o) {
				return false
			}
		}
		return true
	case "nested-pointer":
		m := c03Mask(set[0])
		for _, o := range set {
			if !strings.HasPrefix(o, "out:") || c03Mask(o) != m {
				return false
			}
		}
		if em, ok := c["expmask"].(string); ok && "out:"+unhex(em) != m {
			return false // the model prints this value too, and differently
		}
		return strings.Contains(m, "0xADDR")
	}
	return false
}

// runC03Child: one render of every render case in a fresh process; the observables go to Notes.
func runC03Child(cases string, res *Result) {
	// shift the heap: a pid-dependent amount of live garbage before anything else is allocated
	n := 1000 + (os.Getpid()%977)*131
	junk := make([][]byte, 0, n)
	for i := 0; i < n; i++ {
		junk = append(junk, make([]byte, 16+(i%64)))
	}
	c03KeepAlive = append(c03KeepAlive, junk)
	// the other process renders the cases in the opposite order: what a process rendered before is no input either
	var all []Case
	readCases(cases, func(c Case) {
		if c.str("kind") == "render" {
			all = append(all, c)
		}
	})
	for i := len(all) - 1; i >= 0; i-- {
		c := all[i]
		id := c.num("id")
		eng, err := c03Engine(c)
		if err != nil {
			continue
		}
		rng := rand.New(rand.NewSource(int64(id)))
		ctx := c03BuildCtx(c, 0, rng)
		res.Notes = append(res.Notes, fmt.Sprintf("%d %s", id, hx(c03Render(eng, ctx))))
	}
}

// c03DateValues: fixed instants (the Unix epoch, the year 1, leap days, zones, far future; as time.Time, *time.Time
// and in the string spellings the filter parses) through the date filter with several formats. A fixed value is
// not "the current date": the output must be the value formatted (reference: Go's time.Format with the layout of
// the proved conversion, as the hook computes it) and must not change while the clock advances -- every case is
// rendered again after one pause of 1.1 s for the whole stream.
func c03DateValues(res *Result, eng *twig.Engine) {
	cet := time.FixedZone("CET", 3600)
	type dv struct {
		name string
		v    interface{}
		t    time.Time
	}
	mk := func(name string, t time.Time) []dv {
		tt := t
		return []dv{{name, t, t}, {name + " (pointer)", &tt, t}}
	}
	var vals []dv
	for _, x := range []struct {
		n string
		t time.Time
	}{
		{"unix epoch", time.Unix(0, 0).UTC()}, {"unix epoch in CET", time.Unix(0, 0).In(cet)}, {"one second after the epoch", time.Unix(1, 0).UTC()},
		{"one second before the epoch", time.Unix(-1, 0).UTC()}, {"year 1", time.Date(1, 1, 1, 0, 0, 1, 0, time.UTC)}, {"leap day", time.Date(2024, 2, 29, 23, 59, 59, 0, time.UTC)},
		{"far future", time.Date(9999, 12, 31, 23, 59, 59, 0, time.UTC)}, {"2001-09-09 (unix 10^9)", time.Unix(1000000000, 0).UTC()}, {"midnight", time.Date(2020, 6, 1, 0, 0, 0, 0, cet)},
		{"noon", time.Date(2020, 6, 1, 12, 0, 0, 0, time.UTC)}, {"before 1970", time.Date(1969, 7, 20, 20, 17, 40, 0, time.UTC)},
	} {
		vals = append(vals, mk(x.n, x.t)...)
	}
	// string spellings: the reference is the same instant handed over as a time.Time (metamorphic)
	type sv struct {
		s      string
		layout string
	}
	strs := []sv{{"1970-01-01", "2006-01-02"}, {"1970-01-01 00:00:00", "2006-01-02 15:04:05"}, {"1970-01-01T00:00:00Z", time.RFC3339}, {"2024-02-29", "2006-01-02"},
		{"1969-07-20 20:17:40", "2006-01-02 15:04:05"}, {"2001-09-09T01:46:40Z", time.RFC3339}, {"1999-12-31 23:59:59", "2006-01-02 15:04:05"}}
	formats := []string{"Y-m-d H:i:s", "D, d M Y", "U", "d/m/y g:i a", "c"}
	render := func(v interface{}, f string) string {
		o, err := eng.Render("date", map[string]interface{}{"d": v, "f": f})
		if err != nil {
			return "ERR"
		}
		return o
	}
	type obs struct {
		where string
		c     Case
		v     interface{}
		f     string
		out   string
	}
	var all []obs
	for _, d := range vals {
		for _, f := range formats {
			res.Evaluations++
			res.Hist["stream:date-values"]++
			c := Case{"stream": "date-values", "kind": "date-value", "value": d.name, "fmt": hx(f)}
			got := render(d.v, f)
			all = append(all, obs{"date filter on " + d.name, c, d.v, f, got})
			want := d.t.Format(twig.VerifConvertDateFormat(f))
			if got != want && f != "U" && f != "c" { // U and c have no Go layout: covered by the second render below
				res.add(Finding{Kind: "oracle", Where: "date filter on a fixed instant: " + d.name, Case: c, Expected: hx(want), Observed: hx(got),
					Detail: "{{ d|date(f) }} of a fixed time value is not that value in the requested format"})
			}
		}
	}
	for _, s := range strs {
		t, err := time.Parse(s.layout, s.s)
		if err != nil {
			continue
		}
		for _, f := range formats {
			res.Evaluations++
			res.Hist["stream:date-values"]++
			c := Case{"stream": "date-values", "kind": "date-value", "value": "string " + s.s, "fmt": hx(f)}
			got := render(s.s, f)
			all = append(all, obs{"date filter on the string " + s.s, c, s.s, f, got})
			// the engine reads such a string in its own zone convention: compare with the instant read as UTC and as local time
			asUTC, asLocal := render(t, f), render(time.Date(t.Year(), t.Month(), t.Day(), t.Hour(), t.Minute(), t.Second(), 0, time.Local), f)
			if got != asUTC && got != asLocal {
				res.add(Finding{Kind: "oracle", Where: "date filter on the string " + s.s, Case: c, Expected: hx(asUTC), Observed: hx(got),
					Detail: "a date given as text is not rendered like the same instant given as a time value"})
			}
		}
	}
	time.Sleep(1100 * time.Millisecond)
	for _, o := range all {
		res.Evaluations++
		if again := render(o.v, o.f); again != o.out {
			res.add(Finding{Kind: "oracle", Where: o.where, Case: o.c, Expected: hx(o.out), Observed: hx(again),
				Detail: "two renders of a fixed date value, 1.1 s apart, differ: the output follows the clock"})
		}
	}
	res.sample(map[string]interface{}{"stream": "date-values", "values": len(vals) + len(strs), "formats": formats, "example": all[0].out}, 20)
}

// c03MapsThatChange: the output is determined by template and context -- the context as it is at that render. Maps of
// 8 to 70 entries are rendered, changed in place so that their size stays the same (one key out, one in), rendered
// again; and fresh maps of equal size and type are rendered one after the other with the collector run in between
// (a later map may stand where an earlier one stood). Keys are two-digit so that the order is plain.
func c03MapsThatChange(res *Result) {
	tpls := []string{
		"{% for k, v in m %}{{ k }}={{ v }};{% endfor %}", "{{ m|keys|join(',') }}", "{{ m|join(',') }}", "{% for v in m %}{{ v }}.{% endfor %}{{ m|length }}",
		"{{ m|first }}|{{ m|last }}|{{ m|json_encode }}", "{% for k in m|keys|reverse %}{{ k }}{% endfor %}", "{{ m|merge({'zz': 0})|keys|join }}",
	}
	eng := twig.New()
	for i, t := range tpls {
		if err := eng.RegisterString("mc"+strconv.Itoa(i), t); err != nil {
			panic("c03 maps that change: " + err.Error())
		}
	}
	expect := func(ti int, keys []string, val func(string) string) string {
		ks := append([]string(nil), keys...)
		sort.Strings(ks)
		var b strings.Builder
		switch ti {
		case 0:
			for _, k := range ks {
				b.WriteString(k + "=" + val(k) + ";")
			}
		case 1:
			b.WriteString(strings.Join(ks, ","))
		case 3:
			for _, k := range ks {
				b.WriteString(val(k) + ".")
			}
			b.WriteString(strconv.Itoa(len(ks)))
		default:
			return ""
		}
		return b.String()
	}
	check := func(where string, c Case, ti int, m interface{}, keys []string, val func(string) string) bool {
		res.Evaluations++
		got, err := eng.Render("mc"+strconv.Itoa(ti), map[string]interface{}{"m": m})
		if err != nil {
			got = "error: " + err.Error()
		}
		want := expect(ti, keys, val)
		if want == "" {
			// no closed form written down here: the same map rendered by an engine of its own is the reference
			ref := twig.New()
			ref.RegisterString("t", tpls[ti])
			var rerr error
			want, rerr = ref.Render("t", map[string]interface{}{"m": c03CopyMap(m)})
			if rerr != nil {
				want = "error: " + rerr.Error()
			}
		}
		if got != want {
			res.add(Finding{Kind: "oracle", Where: "maps-that-change/" + where, Case: c, Expected: want, Observed: got,
				Detail: "the output does not follow the map as it is at this render: " + tpls[ti]})
			return false
		}
		return true
	}
	for _, n := range []int{8, 31, 32, 40, 70} {
		for ti := range tpls {
			c := Case{"stream": "maps-that-change", "entries": n, "tpl": tpls[ti]}
			res.Hist["stream:maps-that-change"]++
			m := map[string]interface{}{}
			var keys []string
			for i := 0; i < n; i++ {
				k := fmt.Sprintf("k%02d", i)
				m[k] = i
				keys = append(keys, k)
			}
			val := func(k string) string {
				if k == "k99" || k == "k98" {
					return "new"
				}
				return strconv.Itoa(int(k[1]-'0')*10 + int(k[2]-'0'))
			}
			if !check("first render", c, ti, m, keys, val) {
				continue
			}
			delete(m, "k07")
			m["k99"] = "new"
			keys2 := append([]string{"k99"}, append(append([]string(nil), keys[:7]...), keys[8:]...)...)
			if !check("one key out, one key in", c, ti, m, keys2, val) {
				continue
			}
			m["k03"] = 333
			val2 := func(k string) string {
				if k == "k03" {
					return "333"
				}
				return val(k)
			}
			check("a value changed", c, ti, m, keys2, val2)
		}
	}
	// fresh maps of the same size, one after the other
	for round := 0; round < 40; round++ {
		m := map[string]int{}
		var keys []string
		for i := 0; i < 40; i++ {
			k := fmt.Sprintf("r%02d_%02d", round%7, (i*7+round)%97)
			m[k] = i
			keys = append(keys, k)
		}
		vals := map[string]string{}
		for k, v := range m {
			vals[k] = strconv.Itoa(v)
		}
		c := Case{"stream": "maps-that-change", "round": round}
		if !check("fresh maps of equal size", c, 0, m, keys, func(k string) string { return vals[k] }) {
			break
		}
		m = nil
		runtime.GC()
	}
}

func c03CopyMap(m interface{}) interface{} {
	rv := reflect.ValueOf(m)
	out := reflect.MakeMapWithSize(rv.Type(), rv.Len())
	for _, k := range rv.MapKeys() {
		out.SetMapIndex(k, rv.MapIndex(k))
	}
	return out.Interface()
}

// c03IdenticallyBuiltEngines: engines configured by the same sequence of calls (extensions that define the same
// names, one of them registered a second time, AddFilter / AddFunction / AddGlobal over them) render the same
// template and context to the same bytes.
func c03IdenticallyBuiltEngines(res *Result) {
	f := func(tag string) twig.FilterFunc {
		return func(v interface{}, _ ...interface{}) (interface{}, error) { return tag, nil }
	}
	g := func(tag string) twig.FunctionFunc {
		return func(_ ...interface{}) (interface{}, error) { return tag, nil }
	}
	build := func() *twig.Engine {
		e := twig.New()
		e.RegisterExtension("theme", func(x *twig.CustomExtension) {
			x.Filters["upper"] = f("theme-upper")
			x.Functions["greet"] = g("theme-greet")
		})
		e.RegisterExtension("shop", func(x *twig.CustomExtension) {
			x.Filters["upper"] = f("shop-upper")
			x.Filters["price"] = f("shop-price")
			x.Functions["greet"] = g("shop-greet")
			x.Tests["cheap"] = func(v interface{}, _ ...interface{}) (bool, error) { return true, nil }
		})
		e.RegisterExtension("blog", func(x *twig.CustomExtension) {
			x.Filters["price"] = f("blog-price")
			x.Functions["greet"] = g("blog-greet")
		})
		for i := 0; i < 6; i++ {
			n := "ext" + strconv.Itoa(i)
			e.RegisterExtension(n, func(x *twig.CustomExtension) { x.Filters["tag"] = f(n + "-tag"); x.Functions["who"] = g(n + "-who") })
		}
		e.RegisterExtension("theme", func(x *twig.CustomExtension) { x.Filters["lower"] = f("theme2-lower") })
		e.RegisterExtension("ext2", func(x *twig.CustomExtension) { x.Filters["tag"] = f("ext2b-tag") })
		e.AddGlobal("g1", "G1")
		e.AddGlobal("g2", "G2")
		return e
	}
	const src = "{{ 'x'|upper }}|{{ 'X'|lower }}|{{ 1|price }}|{{ greet() }}|{{ 1|tag }}|{{ who() }}|{{ 1 is cheap ? 'c' : 'd' }}|{{ g1 }}{{ g2 }}|{{ 'a b'|title }}"
	seen := map[string]int{}
	first := ""
	for i := 0; i < 48; i++ {
		e := build()
		res.Evaluations++
		res.Hist["stream:identically-built-engines"]++
		out, err := "", e.RegisterString("t", src)
		if err == nil {
			out, err = e.Render("t", map[string]interface{}{})
		}
		if err != nil {
			out = "error: " + err.Error()
		}
		if i == 0 {
			first = out
		}
		seen[out]++
	}
	if len(seen) > 1 {
		res.add(Finding{Kind: "oracle", Where: "identically-built-engines", Case: Case{"stream": "identically-built-engines", "tpl": src}, Expected: first + " from every engine",
			Observed: strings.Join(c03Set(seen), " | "), Detail: "48 engines configured by the same calls (extensions that define the same names, two of them registered a second time) render one template and context differently"})
	}
}

type c03LabA struct{ N string }
type c03LabB struct{ N string }
type c03LabC struct{ N string }

func (a *c03LabA) Label() string { return "label-" + a.N }
func (a c03LabA) Plain() string  { return "plain-" + a.N }
func (a *c03LabB) Label() string { return "label-" + a.N }
func (a c03LabB) Plain() string  { return "plain-" + a.N }
func (a *c03LabC) Label() string { return "label-" + a.N }
func (a c03LabC) Plain() string  { return "plain-" + a.N }

// c03AttributeHistory: the bytes are determined by template and context, not by what the process rendered before:
// three types of one shape, one first seen through a pointer, one first seen by value, one seen by value on another
// engine; afterwards the same template with a pointer of each gives the same output.
func c03AttributeHistory(res *Result) {
	const src = "{{ b.Label }}|{{ b.Plain }}|{{ b.N }}"
	render := func(e *twig.Engine, v interface{}) string {
		out, err := e.Render("t", map[string]interface{}{"b": v})
		if err != nil {
			return "error: " + err.Error()
		}
		return out
	}
	eng, other := twig.New(), twig.New()
	eng.RegisterString("t", src)
	other.RegisterString("t", src)
	res.Hist["stream:attribute-history"]++
	render(eng, &c03LabA{"x"})  // A: first seen through a pointer
	render(eng, c03LabB{"x"})   // B: first seen by value
	render(other, c03LabC{"x"}) // C: first seen by value, on another engine
	outs := []string{render(eng, &c03LabA{"x"}), render(eng, &c03LabB{"x"}), render(eng, &c03LabC{"x"})}
	res.Evaluations += 3
	if outs[0] != outs[1] || outs[0] != outs[2] || outs[0] != "label-x|plain-x|x" {
		res.add(Finding{Kind: "oracle", Where: "attribute-history", Case: Case{"stream": "attribute-history", "tpl": src}, Expected: "label-x|plain-x|x for all three",
			Observed: strings.Join(outs, " / "), Detail: "three struct types of one shape differ only in how the process first met them (pointer, value, value on another engine); a pointer of each renders differently"})
	}
	vals := []string{render(eng, c03LabA{"y"}), render(eng, c03LabB{"y"}), render(eng, c03LabC{"y"})}
	res.Evaluations += 3
	if vals[0] != vals[1] || vals[0] != vals[2] {
		res.add(Finding{Kind: "oracle", Where: "attribute-history/by-value", Case: Case{"stream": "attribute-history", "tpl": src}, Expected: vals[0] + " for all three", Observed: strings.Join(vals, " / "),
			Detail: "the same three types by value"})
	}
}
