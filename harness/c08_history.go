package main

import (
	"bytes"
	"fmt"
	"math/rand"
	"os"
	"os/exec"
	"strconv"
	"strings"
)

// Stream history: the value of an expression is a function of its operands, not of what the process
// evaluated before. Each expression of the catalogue is first evaluated in a process of its own (the
// reference), then all of them in this process, in shuffled orders, in several positions; every value
// must be the reference's. The catalogue concentrates on operators behind which something can be kept
// between evaluations: patterns (matches, in the three ways a pattern is written), attribute look-ups,
// filters that build tables.

func c08HistoryCatalogue() []string {
	var es []string
	bodies := []string{"^leaf$", "ea", "^[a-c]+x$", "b+c", "^.e", "(le|EA)f?"}
	subjects := []string{"LEAF", "leaf", "Leaf", "abcx", "ABCX", "xbbc", "XBBC"}
	for _, b := range bodies {
		for _, form := range []string{"'/" + b + "/'", "'/" + b + "/i'", "'" + b + "'"} {
			for _, s := range subjects {
				es = append(es, "'"+s+"' matches "+form)
			}
		}
	}
	es = append(es,
		"s matches '/^STR$/i'", "s matches '/^STR$/'", "s matches '^STR$'", "(s|upper) matches '/^str$/'", "(s|upper) matches '/^str$/i'",
		"m.k", "m['k']", "m.n.x", "ll[0].name", "l|join(',')", "'a,b'|split(',')|join('|')", "'a,b'|split('')|length",
		"s|replace({'t': 'T'})", "s|replace({'T': 't'})", "'STR' starts with 'S'", "'STR' starts with 's'", "'b' in ls", "'B' in ls",
		"s|upper", "s|lower", "s|title", "'%s-%s'|format(s, i5)", "'%s-%s'|format(i5, s)")
	return es
}

func c08HistoryOne(e string) string {
	a := c08Render("{{ " + e + " }}")
	b := c08Render("{% if " + e + " %}T{% else %}F{% endif %}")
	return a.String() + " / " + b.String()
}

// child: one expression, nothing else evaluated in this process
func c08HistoryMain(reqPath string) {
	b, err := os.ReadFile(reqPath)
	if err != nil {
		os.Exit(2)
	}
	i, err := strconv.Atoi(strings.TrimSpace(string(b)))
	es := c08HistoryCatalogue()
	if err != nil || i < 0 || i >= len(es) {
		os.Exit(2)
	}
	os.WriteFile(reqPath+".answer", []byte(c08HistoryOne(es[i])), 0o644)
}

func c08History(c Case, res *Result, cases string) {
	dir := "."
	if i := strings.LastIndexByte(cases, '/'); i >= 0 {
		dir = cases[:i]
	}
	es := c08HistoryCatalogue()
	refs := make([]string, len(es))
	for i := range es {
		req := fmt.Sprintf("%s/c08-history-%d.req", dir, i)
		os.WriteFile(req, []byte(strconv.Itoa(i)), 0o644)
		os.Remove(req + ".answer")
		cmd := exec.Command(os.Args[0], "C08", req, dir+"/c08-history-result.json", "--history-one")
		var stderr bytes.Buffer
		cmd.Stderr = &stderr
		if err := cmd.Run(); err != nil {
			res.Notes = append(res.Notes, "history reference could not run: "+err.Error()+": "+strings.SplitN(stderr.String(), "\n", 2)[0])
			return
		}
		a, _ := os.ReadFile(req + ".answer")
		refs[i] = string(a)
		os.Remove(req)
		os.Remove(req + ".answer")
		res.Hist["history reference (fresh process)"]++
	}
	rng := rand.New(rand.NewSource(int64(c.num("seed"))))
	rounds := c.num("rounds")
	if rounds < 1 {
		rounds = 3
	}
	for r := 0; r < rounds; r++ {
		order := rng.Perm(len(es))
		for _, i := range order {
			res.Evaluations++
			res.count(es[i], true)
			if got := c08HistoryOne(es[i]); got != refs[i] {
				cc := Case{"stream": "history", "seed": c["seed"], "rounds": c["rounds"], "expr": es[i]}
				res.add(Finding{Kind: "oracle", Where: "history", Case: cc, Expected: refs[i], Observed: got,
					Detail: "the value of the expression in this process (after other expressions were evaluated) differs from its value in a process that evaluates nothing else"})
			}
		}
	}
}
