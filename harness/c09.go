package main

import (
	"fmt"
	"math"
	"strconv"
	"strings"

	"github.com/semihalev/twig"
)

func init() { runners["C09"] = runC09 }

// C09: if / for / set have their defined control-flow meaning.
// Every case carries two predictions for the same (template set, context): the proved specification of
// Spec/ControlSpec.v ("spec", the reference: a difference is a failing input of the property) and the
// faithful evaluator model Model/Eval.v ("exp"). Streams:
//
//	c09-*   generated control-flow programs; expected = spec, and the model must agree with the spec
//	known:* programs of a listed known class: the model predicts the engine's (wrong) output, the spec the right one
//	core    (driver tier "core" only, bin/evalcore) the evaluator-core validation: every node kind, expected = model
func runC09(cases string, res *Result) {
	c09RangeBounds(res)
	c09NullOverOuterNames(res)
	c09DefinedNullsUnderStrictVariables(res)
	c09SetsKeepTheirValues(res)
	var firstKnown = map[string]*Finding{}
	var knownSize = map[string]int{}
	readCases(cases, func(c Case) {
		if evalAbort {
			return // a render did not come back: see renderGuarded
		}
		stream := c.str("stream")
		res.Hist["stream:"+stream]++
		key := c.str("main") + "|" + c.str("ctx") + "|" + fmt.Sprint(c["tpls"])
		nontrivial := c.num("depth") >= 2 || c.num("seqlen") >= 2
		if stream == "core" {
			nontrivial = true
		}
		res.count(key, nontrivial)
		if k := c.str("kinds"); k != "" {
			for _, x := range strings.Split(k, ",") {
				res.Hist["node:"+x]++
			}
		}

		kind, val := evalExpectation(c)
		if kind == "skip" {
			res.Unmodelled++
			res.Hist["skip:"+val]++
			return
		}
		out, class, spy, det := runEvalCase(c)
		res.Evaluations++
		observed := evalObserved(out, class)
		if stream != "core" {
			res.Hist["under-other-engine-settings"]++
			if msg := evalUnderSettings(c, parseContext(c.str("ctx")), nil, out, class); msg != "" {
				res.add(Finding{Kind: "oracle", Where: stream + "/settings", Case: c, Expected: observed, Observed: msg,
					Detail: "engine settings that have nothing to do with control flow change what the template renders"})
				return
			}
			if msg := evalByOtherRoutes(c, parseContext(c.str("ctx")), nil, out, class); msg != "" {
				res.add(Finding{Kind: "oracle", Where: stream + "/routes", Case: c, Expected: observed, Observed: msg,
					Detail: "the way the template reached the engine, or the entry point that renders it, changes what it renders"})
				return
			}
			if msg := evalAfterHistory(c, parseContext(c.str("ctx")), nil, out, class); msg != "" {
				res.add(Finding{Kind: "oracle", Where: stream + "/history", Case: c, Expected: observed, Observed: msg,
					Detail: "what the engine did before changes what the template renders"})
				return
			}
		}
		res.Hist["class:"+class]++
		model := "out:" + hx(val)
		if kind == "err" {
			model = "err:" + val
		}
		// the case itself is what a replay file re-runs; the sources are added in readable form
		c["readable"] = evalCaseSources(c)
		small := c
		res.sample(map[string]interface{}{"templates": evalCaseSources(c), "ctx": c.str("ctx"), "observed": observed}, 8)

		if spec, ok := c["spec"].(map[string]interface{}); ok {
			// reference: the proved specification
			want := ""
			if v, ok := spec["out"].(string); ok {
				want = "out:" + v
			} else if v, ok := spec["err"].(string); ok {
				want = "err:" + v
			}
			if want != "" && want != observed {
				if known := c.str("known"); known != "" && model == observed && !knownClassListed("C09", known) {
					// the class of this failure is understood (the faithful model predicts it) but not a listed
					// known finding: an ordinary failing input
					res.Hist["unlisted:"+known]++
					size := len(c.str("ctx")) + len(fmt.Sprint(c["tpls"]))
					if firstKnown[known] == nil || size < knownSize[known] {
						knownSize[known] = size
						firstKnown[known] = &Finding{Kind: "oracle", Where: stream, Case: small, Expected: want, Observed: observed,
							Detail: "class " + known + " (not a listed known finding): the specification (property text) and the engine differ; the faithful model predicts the engine's output"}
					}
					return
				}
				if known := c.str("known"); known != "" && model == observed {
					// a listed class: the faithful model predicts exactly this wrong observable
					res.Hist["known:"+known]++
					// the representative of a known class: the smallest case (template and context)
					size := len(c.str("ctx")) + len(fmt.Sprint(c["tpls"]))
					if firstKnown[known] == nil || size < knownSize[known] {
						knownSize[known] = size
						firstKnown[known] = &Finding{Kind: "oracle", Where: stream, Case: small, Expected: want, Observed: observed,
							Known: known, Detail: "the specification (property text) and the engine differ; the faithful model predicts the engine's output"}
					}
					return
				}
				res.add(Finding{Kind: "oracle", Where: stream, Case: small, Expected: want, Observed: observed,
					Detail: "engine differs from Spec/ControlSpec.v (model says " + model + ") " + det})
				return
			}
		}
		if model != observed {
			res.add(Finding{Kind: "disagreement", Where: stream, Case: small, Expected: model, Observed: observed, Detail: det})
			return
		}
		if want, ok := c["spy"].(map[string]interface{}); ok {
			for k, v := range want {
				n, _ := v.(float64)
				if spy[k] != int(n) {
					res.add(Finding{Kind: "disagreement", Where: stream + "/calls", Case: small,
						Expected: fmt.Sprintf("%s called %d times", k, int(n)), Observed: fmt.Sprintf("%d times", spy[k])})
					return
				}
			}
		}
	})
	for _, f := range firstKnown {
		res.add(*f)
	}
}

// c09RangeBounds: a range written with bounds that are not whole numbers (a division, a decimal literal, a value of
// the context). Whatever whole numbers the engine derives from them, the elements a for loop visits lie between the
// start and the end as written and never beyond the end, one apart, the counters fit, and the else branch is
// rendered exactly when no element is.
func c09RangeBounds(res *Result) {
	type rb struct {
		a, b string
		end  float64
		asc  bool
	}
	var cases []rb
	add := func(a string, av float64, b string, bv float64) {
		cases = append(cases, rb{a, b, bv, math.Trunc(av) <= bv})
	}
	for _, n := range []int{1, 3, 5, 7, 9} {
		add("1", 1, fmt.Sprintf("%d / 2", n), float64(n)/2)
		add(fmt.Sprintf("%d / 2", n), float64(n)/2, "6", 6)
		add("0", 0, fmt.Sprintf("-%d / 2", n), -float64(n)/2)
		add(fmt.Sprintf("-%d / 2", n), -float64(n)/2, "1", 1)
	}
	for _, d := range []string{"0.25", "0.5", "0.75", "1.5", "2.5", "2.6", "3.49", "3.5", "3.51"} {
		v, _ := strconv.ParseFloat(d, 64)
		add("1", 1, d, v)
		add(d, v, "5", 5)
		add("0", 0, "-"+d, -v)
		add("f", 2.5, d, v)
		add(d, v, "g", -1.5)
	}
	eng := twig.New()
	ctx := func() map[string]interface{} { return map[string]interface{}{"f": 2.5, "g": -1.5} }
	for _, c := range cases {
		src := "{% for i in range(" + c.a + ", " + c.b + ") %}{{ i }}:{{ loop.index }}/{{ loop.length }}:{{ loop.first ? 'f' : '' }}{{ loop.last ? 'l' : '' }},{% else %}none{% endfor %}"
		cc := Case{"stream": "c09-range-bounds", "tpl": src}
		res.Hist["stream:c09-range-bounds"]++
		res.Evaluations++
		res.count(src, true)
		name := "rb:" + c.a + ":" + c.b
		if err := eng.RegisterString(name, src); err != nil {
			res.Hist["c09-range-bounds: does not parse"]++
			continue
		}
		out, err := eng.Render(name, ctx())
		if err != nil {
			res.Hist["c09-range-bounds: render error"]++
			continue
		}
		bad := func(msg string) {
			res.add(Finding{Kind: "oracle", Where: "c09-range-bounds", Case: cc, Expected: fmt.Sprintf("whole numbers up to %v, one apart, counters to match", c.end), Observed: out, Detail: msg})
		}
		if out == "none" {
			continue // nothing to iterate: the else branch alone
		}
		if strings.Contains(out, "none") {
			bad("body and else branch both rendered")
			continue
		}
		items := strings.Split(strings.TrimSuffix(out, ","), ",")
		prev := 0.0
		for k, it := range items {
			parts := strings.Split(it, ":")
			if len(parts) != 3 {
				bad("unexpected item " + it)
				break
			}
			v, perr := strconv.ParseFloat(parts[0], 64)
			if perr != nil {
				bad("element is not a number: " + parts[0])
				break
			}
			// (the start is turned into a whole number by cutting its fraction off, so the first element may stand
			// before the start as written; nothing is demanded there)
			if (c.asc && v > c.end+1e-9) || (!c.asc && v < c.end-1e-9) {
				bad(fmt.Sprintf("element %v lies beyond the end of the range as written", v))
				break
			}
			if k > 0 && math.Abs(math.Abs(v-prev)-1) > 1e-9 {
				bad(fmt.Sprintf("elements %v and %v are not one apart", prev, v))
				break
			}
			prev = v
			wantCnt := fmt.Sprintf("%d/%d", k+1, len(items))
			wantFl := ""
			if k == 0 {
				wantFl += "f"
			}
			if k == len(items)-1 {
				wantFl += "l"
			}
			if parts[1] != wantCnt || parts[2] != wantFl {
				bad("counters of element " + strconv.Itoa(k+1) + ": " + parts[1] + " " + parts[2] + ", want " + wantCnt + " " + wantFl)
				break
			}
		}
	}
}

// c09NullOverOuterNames: a null that a set assigns or a loop binds is the value of that name from then on, also when
// a variable of the same name exists further out: an engine global, the render context seen from an include, the
// caller's variable seen from a macro.
func c09NullOverOuterNames(res *Result) {
	type tc struct{ name, src, want string }
	cases := []tc{
		{"set-null-over-global", "{% set banner = null %}[{{ banner }}|{{ banner is null ? 'n' : 'v' }}|{% if banner %}T{% else %}F{% endif %}|{{ banner|default('d') }}]", "[|n|F|d]"},
		{"loop-null-element-over-global", "{% for item in xs %}<{{ item }}{{ item is null ? '!' : '' }}>{% endfor %}", "<a><!><c>"},
		{"loop-null-element-condition", "{% for item in xs %}{% if item %}y{% else %}n{% endif %}{% endfor %}", "yny"},
		{"set-null-in-loop-later-iterations", "{% set banner = 'b' %}{% for i in [1, 2, 3] %}{{ banner }}:{% if i == 1 %}{% set banner = null %}{% endif %}{% endfor %}|{{ banner }}", "b:::|"},
		{"set-null-then-later-set-reads-it", "{% set banner = null %}{% set t = banner ~ '!' %}{{ t }}", "!"},
		{"macro-null-argument-over-caller", "{% macro m(item) %}<{{ item }}{{ item is null ? '!' : '' }}>{% endmacro %}{{ m(null) }}{{ m() }}{{ m('z') }}", "<!><!><z>"},
		{"include-null-with-over-includer", "{% set item = 'outer' %}{% include 'shows' with {'item': null} %}", "(|n)"},
		{"include-set-null", "{% set item = 'outer' %}{% include 'nulls' %}/{{ item }}", "(|n)/outer"},
		{"key-value-loop-null", "{% for banner, item in m %}{{ banner }}={{ item }}{{ item is null ? '!' : '' }};{% endfor %}", "a=!;b=2;"},
	}
	for _, c := range cases {
		eng := twig.New()
		eng.AddGlobal("banner", "GLOBAL-BANNER")
		eng.AddGlobal("item", "GLOBAL-ITEM")
		eng.RegisterString("shows", "({{ item }}|{{ item is null ? 'n' : 'v' }})")
		eng.RegisterString("nulls", "{% set item = null %}({{ item }}|{{ item is null ? 'n' : 'v' }})")
		cc := Case{"stream": "c09-null-over-outer", "scenario": c.name, "tpl": c.src}
		res.Hist["stream:c09-null-over-outer"]++
		res.Evaluations++
		res.count("c09-null-over-outer/"+c.name, true)
		if err := eng.RegisterString("t", c.src); err != nil {
			res.add(Finding{Kind: "oracle", Where: "c09-null-over-outer/" + c.name, Case: cc, Detail: "parse: " + err.Error()})
			continue
		}
		got, err := eng.Render("t", map[string]interface{}{"xs": []interface{}{"a", nil, "c"}, "m": map[string]interface{}{"a": nil, "b": 2}})
		if err != nil {
			got = "error: " + err.Error()
		}
		if got != c.want {
			res.add(Finding{Kind: "oracle", Where: "c09-null-over-outer/" + c.name, Case: cc, Expected: c.want, Observed: got,
				Detail: "engine globals banner = GLOBAL-BANNER and item = GLOBAL-ITEM exist; a null assigned or bound under those names is what the template reads afterwards"})
		}
	}
}
