package main

import (
	"fmt"
	"strings"
)

func init() { runners["C09"] = runC09 }

// C09: if / for / set have their defined control-flow meaning.
// Every case carries two predictions for the same (template set, context): the proved specification of
// Spec/ControlSpec.v ("spec", the reference: a difference is a failing input of the property) and the
// faithful evaluator model Model/Eval.v ("exp"). Streams:
//
//	c09-*   generated control-flow programs; expected = spec, and the model must agree with the spec
//	known:* programs of a listed known class: the model predicts the engine's (wrong) output, the spec the right one
//	core    (driver tier "core" only, bin/evalcore) the evaluator-core validation: every node kind, expected = model
func runC09(cases string, res *Result) {
	var firstKnown = map[string]*Finding{}
	var knownSize = map[string]int{}
	readCases(cases, func(c Case) {
		stream := c.str("stream")
		res.Hist["stream:"+stream]++
		key := c.str("main") + "|" + c.str("ctx") + "|" + fmt.Sprint(c["tpls"])
		nontrivial := c.num("depth") >= 2 || c.num("seqlen") >= 2
		if stream == "core" {
			nontrivial = true
		}
		res.count(key, nontrivial)
		if k := c.str("kinds"); k != "" {
			for _, x := range strings.Split(k, ",") {
				res.Hist["node:"+x]++
			}
		}

		kind, val := evalExpectation(c)
		if kind == "skip" {
			res.Unmodelled++
			res.Hist["skip:"+val]++
			return
		}
		out, class, spy, det := runEvalCase(c)
		res.Evaluations++
		observed := evalObserved(out, class)
		if stream != "core" {
			res.Hist["under-other-engine-settings"]++
			if msg := evalUnderSettings(c, parseContext(c.str("ctx")), nil, out, class); msg != "" {
				res.add(Finding{Kind: "oracle", Where: stream + "/settings", Case: c, Expected: observed, Observed: msg,
					Detail: "engine settings that have nothing to do with control flow change what the template renders"})
				return
			}
		}
		res.Hist["class:"+class]++
		model := "out:" + hx(val)
		if kind == "err" {
			model = "err:" + val
		}
		// the case itself is what a replay file re-runs; the sources are added in readable form
		c["readable"] = evalCaseSources(c)
		small := c
		res.sample(map[string]interface{}{"templates": evalCaseSources(c), "ctx": c.str("ctx"), "observed": observed}, 8)

		if spec, ok := c["spec"].(map[string]interface{}); ok {
			// reference: the proved specification
			want := ""
			if v, ok := spec["out"].(string); ok {
				want = "out:" + v
			} else if v, ok := spec["err"].(string); ok {
				want = "err:" + v
			}
			if want != "" && want != observed {
				if known := c.str("known"); known != "" && model == observed && !knownClassListed("C09", known) {
					// the class of this failure is understood (the faithful model predicts it) but not a listed
					// known finding: an ordinary failing input
					res.Hist["unlisted:"+known]++
					size := len(c.str("ctx")) + len(fmt.Sprint(c["tpls"]))
					if firstKnown[known] == nil || size < knownSize[known] {
						knownSize[known] = size
						firstKnown[known] = &Finding{Kind: "oracle", Where: stream, Case: small, Expected: want, Observed: observed,
							Detail: "class " + known + " (not a listed known finding): the specification (property text) and the engine differ; the faithful model predicts the engine's output"}
					}
					return
				}
				if known := c.str("known"); known != "" && model == observed {
					// a listed class: the faithful model predicts exactly this wrong observable
					res.Hist["known:"+known]++
					// the representative of a known class: the smallest case (template and context)
					size := len(c.str("ctx")) + len(fmt.Sprint(c["tpls"]))
					if firstKnown[known] == nil || size < knownSize[known] {
						knownSize[known] = size
						firstKnown[known] = &Finding{Kind: "oracle", Where: stream, Case: small, Expected: want, Observed: observed,
							Known: known, Detail: "the specification (property text) and the engine differ; the faithful model predicts the engine's output"}
					}
					return
				}
				res.add(Finding{Kind: "oracle", Where: stream, Case: small, Expected: want, Observed: observed,
					Detail: "engine differs from Spec/ControlSpec.v (model says " + model + ") " + det})
				return
			}
		}
		if model != observed {
			res.add(Finding{Kind: "disagreement", Where: stream, Case: small, Expected: model, Observed: observed, Detail: det})
			return
		}
		if want, ok := c["spy"].(map[string]interface{}); ok {
			for k, v := range want {
				n, _ := v.(float64)
				if spy[k] != int(n) {
					res.add(Finding{Kind: "disagreement", Where: stream + "/calls", Case: small,
						Expected: fmt.Sprintf("%s called %d times", k, int(n)), Observed: fmt.Sprintf("%d times", spy[k])})
					return
				}
			}
		}
	})
	for _, f := range firstKnown {
		res.add(*f)
	}
}
