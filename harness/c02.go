package main

import (
	"bytes"
	"context"
	"encoding/json"
	"errors"
	"fmt"
	"io"
	"os"
	"os/exec"
	"path/filepath"
	"regexp"
	"runtime"
	"sort"
	"strings"
	"sync"
	"time"

	"github.com/semihalev/twig"
)

func init() {
	runners["C02"] = runC02
	runners["C02-child"] = runC02Child
	runners["C02-policy"] = func(_ string, res *Result) { c02PolicyIsOnlyRead(res) }
}

// C02: workloads of goroutines sharing one engine, executed on the real twig.Engine by a copy of this
// (race-enabled) runner started as a subprocess per batch, so that a race report or a fatal runtime error
// is read from the child's stderr instead of killing the runner.
//
// Oracle (the property itself, model-independent): for every repetition with a cold engine, every call's
// class and output equals what the same call returns when all calls run one after another on a fresh engine
// with the same configuration; the race detector reports nothing; the child neither dies with a fatal error
// or panic nor hangs. Correspondence: the serially computed result equals the model's prediction.
//
// Templates of FileSystemLoaders are written under work/C02/tpl-<id>/L<loader>/D<searchpath>/.

type c02Var struct {
	K  string   `json:"k"`
	S  *string  `json:"s,omitempty"`
	Ty int      `json:"ty"`
	F  []string `json:"f,omitempty"`
}

type c02Call struct {
	Op   string   `json:"op"`
	N    string   `json:"n,omitempty"`
	S    string   `json:"s,omitempty"`
	Vars []c02Var `json:"vars,omitempty"`
	C    string   `json:"c"`
	O    string   `json:"o"`
}

type c02File struct {
	N string `json:"n"`
	S string `json:"s"`
}

type c02Loader struct {
	FS   bool        `json:"fs"`
	Dirs [][]c02File `json:"dirs"`
}

type c02Workload struct {
	K          string      `json:"k"`
	ID         int         `json:"id"`
	Cache      bool        `json:"cache"`
	Auto       bool        `json:"auto"`
	Debug      bool        `json:"debug"`
	Chain      bool        `json:"chain"`
	Loaders    []c02Loader `json:"loaders"`
	Reg        []c02File   `json:"reg"`
	RegT       []c02File   `json:"regt"`
	Phases     []c02Phase  `json:"phases"`
	Threads    [][]c02Call `json:"threads"`
	NCalls     int         `json:"ncalls"`
	Nontrivial bool        `json:"nontrivial"`
	Reps       int         `json:"reps"`
}

// a later phase of a workload: while no call is running the named template files are rewritten (with a later
// modification time), then the phase's goroutines run on the same engine
type c02Rewrite struct {
	L   int    `json:"l"`
	D   int    `json:"d"`
	N   string `json:"n"`
	S   string `json:"s"`
	Del bool   `json:"del"`
}

type c02Phase struct {
	Rewrites []c02Rewrite `json:"rewrites"`
	MTime    int64        `json:"mtime"`
	PauseMS  int          `json:"pause_ms"` // the engine sits idle that long before the phase starts
	Threads  [][]c02Call  `json:"threads"`
}

var c02BaseTime = time.Unix(1700000000, 0)

func c02ApplyRewrites(root string, ph *c02Phase) error {
	for _, rw := range ph.Rewrites {
		p := filepath.Join(root, fmt.Sprintf("L%d", rw.L), fmt.Sprintf("D%d", rw.D), filepath.FromSlash(unhex(rw.N)))
		if rw.Del {
			if err := os.Remove(p); err != nil {
				return err
			}
			continue
		}
		if err := os.WriteFile(p, []byte(unhex(rw.S)), 0o644); err != nil {
			return err
		}
		t := c02BaseTime.Add(time.Duration(ph.MTime) * time.Second)
		if err := os.Chtimes(p, t, t); err != nil {
			return err
		}
	}
	return nil
}

type c02T0 struct{ Name, Title string }
type c02T1 struct{ Id, Name, Kind string }
type c02T2 struct{ A, B, C, D string }

type c02Res struct {
	C string // class: ok | notfound | other | panic
	O string // output (render, renderto, parse when ok)
	X string // further observable compared with the serial run only (Load: the loaded template rendered)
}

type c02Mismatch struct {
	Rep      int    `json:"rep"`
	Phase    int    `json:"phase"`
	Thread   int    `json:"thread"`
	Call     int    `json:"call"`
	Op       string `json:"op"`
	Name     string `json:"name"`
	Kind     string `json:"kind"` // oracle | model
	Expected string `json:"expected"`
	Observed string `json:"observed"`
}

type c02Out struct {
	ID       int            `json:"id"`
	RepsDone int            `json:"reps_done"`
	Calls    int            `json:"calls"`
	Mis      []c02Mismatch  `json:"mis"`
	NMis     int            `json:"nmis"`
	NModel   int            `json:"nmodel"`
	Unmod    map[string]int `json:"unmod,omitempty"` // serial class of the calls that carry no prediction
}

func c02Vars(vs []c02Var) map[string]interface{} {
	m := make(map[string]interface{}, len(vs))
	for _, v := range vs {
		k := unhex(v.K)
		if v.S != nil {
			m[k] = unhex(*v.S)
			continue
		}
		f := make([]string, 4)
		for i := range v.F {
			if i < 4 {
				f[i] = unhex(v.F[i])
			}
		}
		switch v.Ty {
		case 0:
			m[k] = c02T0{f[0], f[1]}
		case 1:
			m[k] = c02T1{f[0], f[1], f[2]}
		default:
			m[k] = c02T2{f[0], f[1], f[2], f[3]}
		}
	}
	return m
}

func c02Class(err error) string {
	switch {
	case err == nil:
		return "ok"
	case errors.Is(err, twig.ErrTemplateNotFound):
		return "notfound"
	default:
		return "other"
	}
}

type c02Prepared struct {
	op, n, s string
	vars     map[string]interface{}
}

type c02SharedRec struct {
	Tags  []interface{}
	Names []string
}

var c02Shared = func() map[string]interface{} {
	sp := make([]interface{}, 0, 16)
	sp = append(sp, "s1", "s2", "s3")
	names := make([]string, 0, 8)
	names = append(names, "n2", "n1")
	return map[string]interface{}{"sp": sp, "m": map[string]interface{}{"a": 1, "b": 2}, "rec": &c02SharedRec{Tags: sp[:2], Names: names}, "names": names}
}()

var c02LoadProbe = map[string]interface{}{"x": "lx", "mk": "probe"}

func c02Exec(e *twig.Engine, c *c02Prepared) (r c02Res) {
	defer func() {
		if p := recover(); p != nil {
			r = c02Res{C: "panic", O: fmt.Sprint(p)}
		}
	}()
	// every call gets its own copy of the context map: the engine is shared, the arguments are not
	vars := make(map[string]interface{}, len(c.vars)+1)
	for k, v := range c.vars {
		vars[k] = v
	}
	// ... except for application data that every call reads: the same list (built with append: spare capacity), map
	// and record in every context
	vars["shared"] = c02Shared
	switch c.op {
	case "render":
		out, err := e.Render(c.n, vars)
		if err != nil {
			return c02Res{C: c02Class(err)}
		}
		return c02Res{C: "ok", O: out}
	case "renderto":
		var b bytes.Buffer
		// every other call writes to a destination that is a plain io.Writer (no WriteString method, like a
		// network connection or a compressing writer) and is a little slow
		var w io.Writer = &b
		if len(c.n)%2 == 0 {
			w = &c02PlainWriter{b: &b}
		}
		if err := e.RenderTo(w, c.n, vars); err != nil {
			return c02Res{C: c02Class(err)}
		}
		return c02Res{C: "ok", O: b.String()}
	case "load":
		t, err := e.Load(c.n)
		if err != nil {
			return c02Res{C: c02Class(err)}
		}
		out, err := t.Render(c02LoadProbe)
		return c02Res{C: "ok", X: c02Class(err) + ":" + out}
	case "parse":
		t, err := e.ParseTemplate(c.s)
		if err != nil {
			return c02Res{C: c02Class(err)}
		}
		out, err := t.Render(vars)
		if err != nil {
			return c02Res{C: c02Class(err)}
		}
		return c02Res{C: "ok", O: out}
	case "register":
		return c02Res{C: c02Class(e.RegisterString(c.n, c.s))}
	}
	return c02Res{C: "unknown-op"}
}

// c02PlainWriter has Write only; it yields the processor in the middle of taking the bytes over
type c02PlainWriter struct{ b *bytes.Buffer }

func (w *c02PlainWriter) Write(p []byte) (int, error) {
	h := len(p) / 2
	w.b.Write(p[:h])
	runtime.Gosched()
	w.b.Write(p[h:])
	return len(p), nil
}

func c02Root(casesPath string, id int) string {
	d := filepath.Dir(casesPath)
	if !strings.HasSuffix(filepath.ToSlash(d), "work/C02") {
		d = "/verif/work/C02"
	}
	return filepath.Join(d, fmt.Sprintf("tpl-%d", id))
}

func c02Materialise(w *c02Workload, root string) error {
	os.RemoveAll(root)
	for i, l := range w.Loaders {
		if !l.FS {
			continue
		}
		for j, d := range l.Dirs {
			base := filepath.Join(root, fmt.Sprintf("L%d", i), fmt.Sprintf("D%d", j))
			if err := os.MkdirAll(base, 0o755); err != nil {
				return err
			}
			for _, f := range d {
				p := filepath.Join(base, filepath.FromSlash(unhex(f.N)))
				if err := os.MkdirAll(filepath.Dir(p), 0o755); err != nil {
					return err
				}
				if err := os.WriteFile(p, []byte(unhex(f.S)), 0o644); err != nil {
					return err
				}
				if err := os.Chtimes(p, c02BaseTime, c02BaseTime); err != nil {
					return err
				}
			}
		}
	}
	return nil
}

func c02Engine(w *c02Workload, root string) *twig.Engine {
	e := twig.New()
	var ls []twig.Loader
	for i, l := range w.Loaders {
		if l.FS {
			var paths []string
			for j := range l.Dirs {
				paths = append(paths, filepath.Join(root, fmt.Sprintf("L%d", i), fmt.Sprintf("D%d", j)))
			}
			ls = append(ls, twig.NewFileSystemLoader(paths))
		} else {
			m := map[string]string{}
			for _, d := range l.Dirs {
				for _, f := range d {
					if _, dup := m[unhex(f.N)]; !dup {
						m[unhex(f.N)] = unhex(f.S)
					}
				}
			}
			ls = append(ls, twig.NewArrayLoader(m))
		}
	}
	if w.Chain {
		e.RegisterLoader(twig.NewChainLoader(ls))
	} else {
		for _, l := range ls {
			e.RegisterLoader(l)
		}
	}
	e.SetCache(w.Cache)
	e.SetAutoReload(w.Auto)
	if w.Debug {
		twig.SetDebugWriter(io.Discard)
		e.SetDebug(true)
	}
	for _, r := range w.Reg {
		e.RegisterString(unhex(r.N), unhex(r.S))
	}
	// templates without a name of their own: ParseTemplate result handed to RegisterTemplate
	for _, r := range w.RegT {
		if t, err := e.ParseTemplate(unhex(r.S)); err == nil {
			e.RegisterTemplate(unhex(r.N), t)
		}
	}
	return e
}

func (r c02Res) String() string { return r.C + ":" + hx(r.O) + ":" + hx(r.X) }

// runC02Child executes the workloads of one batch; results go to <cases>.out, one JSON line per workload.
func runC02Child(cases string, res *Result) {
	runtime.GOMAXPROCS(16)
	out, err := os.Create(cases + ".out")
	if err != nil {
		fmt.Fprintln(os.Stderr, "C02-child:", err)
		os.Exit(2)
	}
	defer out.Close()
	readCases(cases, func(c Case) {
		raw, _ := json.Marshal(c)
		var w c02Workload
		if err := json.Unmarshal(raw, &w); err != nil || w.K != "wl" {
			return
		}
		root := c02Root(cases, w.ID)
		if err := c02Materialise(&w, root); err != nil {
			fmt.Fprintln(os.Stderr, "C02-child:", err)
			os.Exit(2)
		}
		// phase 0 = the workload's own threads; later phases follow on the same engine after their rewrites
		phases := append([]c02Phase{{Threads: w.Threads}}, w.Phases...)
		prep := make([][][]c02Prepared, len(phases))
		for p := range phases {
			prep[p] = make([][]c02Prepared, len(phases[p].Threads))
			for t, cs := range phases[p].Threads {
				prep[p][t] = make([]c02Prepared, len(cs))
				for i, c := range cs {
					prep[p][t][i] = c02Prepared{op: c.Op, n: unhex(c.N), s: unhex(c.S), vars: c02Vars(c.Vars)}
				}
			}
		}
		fail := func(err error) {
			fmt.Fprintln(os.Stderr, "C02-child:", err)
			os.Exit(2)
		}
		o := c02Out{ID: w.ID}
		note := func(m c02Mismatch) {
			if m.Kind == "model" {
				o.NModel++
			} else {
				o.NMis++
			}
			if len(o.Mis) < 12 {
				o.Mis = append(o.Mis, m)
			}
		}
		fmt.Fprintf(os.Stderr, "C02-MARK id=%d rep=serial\n", w.ID)
		// the calls one after another on a fresh engine with the same configuration
		serial := make([][][]c02Res, len(prep))
		{
			e := c02Engine(&w, root)
			for p := range prep {
				if p > 0 {
					if err := c02ApplyRewrites(root, &phases[p]); err != nil {
						fail(err)
					}
				}
				serial[p] = make([][]c02Res, len(prep[p]))
				for t := range prep[p] {
					serial[p][t] = make([]c02Res, len(prep[p][t]))
					for i := range prep[p][t] {
						serial[p][t][i] = c02Exec(e, &prep[p][t][i])
						o.Calls++
						c := phases[p].Threads[t][i]
						exp := c02Res{C: c.C, O: unhex(c.O)}
						got := serial[p][t][i]
						if c.C == "unmodelled" || c.C == "fuel" {
							if o.Unmod == nil {
								o.Unmod = map[string]int{}
							}
							o.Unmod[c.Op+"/"+got.C]++
						}
						if c.C != "fuel" && c.C != "unmodelled" && (got.C != exp.C || got.O != exp.O) {
							note(c02Mismatch{Rep: -1, Phase: p, Thread: t, Call: i, Op: c.Op, Name: unhex(c.N), Kind: "model", Expected: exp.C + ":" + exp.O, Observed: got.C + ":" + got.O})
						}
					}
				}
			}
		}
		for rep := 0; rep < w.Reps; rep++ {
			fmt.Fprintf(os.Stderr, "C02-MARK id=%d rep=%d\n", w.ID, rep)
			twig.VerifC02ResetGlobalCaches() // the process-wide string and attribute caches start cold as well
			if len(phases) > 1 {
				if err := c02Materialise(&w, root); err != nil { // the files as they were before the first rewrite
					fail(err)
				}
			}
			e := c02Engine(&w, root)
			for p := range prep {
				if p > 0 {
					if err := c02ApplyRewrites(root, &phases[p]); err != nil {
						fail(err)
					}
					if phases[p].PauseMS > 0 && rep == 0 {
						time.Sleep(time.Duration(phases[p].PauseMS) * time.Millisecond)
					}
				}
				got := make([][]c02Res, len(prep[p]))
				start := make(chan struct{})
				var wg sync.WaitGroup
				for t := range prep[p] {
					got[t] = make([]c02Res, len(prep[p][t]))
					wg.Add(1)
					go func(t int) {
						defer wg.Done()
						<-start
						for i := range prep[p][t] {
							got[t][i] = c02Exec(e, &prep[p][t][i])
							if rep%2 == 1 {
								runtime.Gosched()
							}
						}
					}(t)
				}
				done := make(chan struct{})
				go func() { wg.Wait(); close(done) }()
				close(start)
				select {
				case <-done:
				case <-time.After(150 * time.Second):
					fmt.Fprintf(os.Stderr, "C02-HANG id=%d rep=%d\n", w.ID, rep)
					buf := make([]byte, 1<<16)
					n := runtime.Stack(buf, true)
					os.Stderr.Write(buf[:n])
					os.Exit(3)
				}
				for t := range prep[p] {
					for i := range prep[p][t] {
						o.Calls++
						if got[t][i] != serial[p][t][i] {
							c := phases[p].Threads[t][i]
							note(c02Mismatch{Rep: rep, Phase: p, Thread: t, Call: i, Op: c.Op, Name: unhex(c.N), Kind: "oracle",
								Expected: serial[p][t][i].C + ":" + serial[p][t][i].O + serial[p][t][i].X, Observed: got[t][i].C + ":" + got[t][i].O + got[t][i].X})
						}
					}
				}
			}
			o.RepsDone++
		}
		if w.Debug {
			twig.SetDebugLevel(twig.DebugOff)
		}
		b, _ := json.Marshal(o)
		out.Write(append(b, '\n'))
		os.RemoveAll(root)
	})
	fmt.Fprintln(os.Stderr, "C02-MARK done")
}

var c02MarkRe = regexp.MustCompile(`^C02-MARK id=(\d+) rep=(\S+)`)

type c02Race struct {
	id    int
	rep   string
	text  string
	frame string
}

// c02ParseStderr splits the child's stderr into race reports attributed to the workload running when they were printed.
func c02ParseStderr(s string) (races []c02Race, lastID int, lastRep string, fatal string) {
	lines := strings.Split(s, "\n")
	cur, rep := 0, ""
	for i := 0; i < len(lines); i++ {
		l := lines[i]
		if m := c02MarkRe.FindStringSubmatch(l); m != nil {
			fmt.Sscan(m[1], &cur)
			rep = m[2]
			continue
		}
		if strings.HasPrefix(l, "WARNING: DATA RACE") {
			j := i + 1
			for j < len(lines) && !strings.HasPrefix(lines[j], "==================") {
				j++
			}
			block := strings.Join(lines[i:j], "\n")
			races = append(races, c02Race{id: cur, rep: rep, text: block, frame: c02TopFrames(lines[i:j])})
			i = j
			continue
		}
		if fatal == "" && (strings.HasPrefix(l, "fatal error:") || strings.HasPrefix(l, "panic:") || strings.HasPrefix(l, "C02-HANG")) {
			end := i + 40
			if end > len(lines) {
				end = len(lines)
			}
			fatal = strings.Join(lines[i:end], "\n")
		}
	}
	return races, cur, rep, fatal
}

// c02TopFrames: the first function outside the Go runtime of each of the two stacks of a race report.
func c02TopFrames(block []string) string {
	var tops []string
	for i, l := range block {
		if !(strings.Contains(l, " at 0x") && strings.Contains(l, "by ")) {
			continue
		}
		top := ""
		for j := i + 1; j < len(block) && strings.TrimSpace(block[j]) != ""; j += 2 {
			f := strings.TrimSpace(block[j])
			if top == "" {
				top = f
			}
			if !strings.HasPrefix(f, "runtime.") && !strings.HasPrefix(f, "sync.") && !strings.HasPrefix(f, "internal/") {
				top = f
				break
			}
		}
		if top != "" {
			tops = append(tops, top)
		}
	}
	sort.Strings(tops)
	return strings.Join(tops, " / ")
}

func runC02(cases string, res *Result) {
	c02RegisterDuringLookup(res)
	c02InAChild(cases, res, "C02-policy", "policy-is-only-read")
	if !c02RaceEnabled {
		res.add(Finding{Kind: "disagreement", Where: "runner", Case: map[string]string{"k": "build"},
			Detail: "the runner was not built with -race (props/C02.json must say \"race\": true): the runtime part of C02 is not observed"})
	}
	var wls []Case
	readCases(cases, func(c Case) {
		if c.str("k") == "wl" {
			wls = append(wls, c)
		}
	})
	wd := filepath.Dir(cases)
	if old, _ := filepath.Glob(filepath.Join(wd, "tpl-*")); len(old) > 0 {
		for _, d := range old {
			os.RemoveAll(d)
		}
	}
	if len(wls) <= 2 {
		// a replay: schedules are not reproducible, so repeat more often
		for _, w := range wls {
			w["reps"] = float64(w.num("reps") * 8)
		}
	}
	byID := map[int]Case{}
	for _, w := range wls {
		byID[w.num("id")] = w
	}
	totalRaces := 0
	seenRace := map[string]bool{}
	batchNo := 0
	abnormal := 0
	pending := wls
	for len(pending) > 0 {
		// a batch: a handful of workloads, bounded by the number of calls
		n, calls := 0, 0
		for n < len(pending) && n < 6 && (n == 0 || calls+pending[n].num("ncalls")*(pending[n].num("reps")+1) < 12000) {
			calls += pending[n].num("ncalls") * (pending[n].num("reps") + 1)
			n++
		}
		batch := pending[:n]
		pending = pending[n:]
		batchNo++
		bf := filepath.Join(wd, fmt.Sprintf("batch-%d.jsonl", batchNo))
		{
			var b bytes.Buffer
			for _, w := range batch {
				j, _ := json.Marshal(w)
				b.Write(j)
				b.WriteByte('\n')
			}
			os.WriteFile(bf, b.Bytes(), 0o644)
		}
		os.Remove(bf + ".out")
		ctx, cancel := context.WithTimeout(context.Background(), 1200*time.Second)
		cmd := exec.CommandContext(ctx, os.Args[0], "C02-child", bf, bf+".result")
		cmd.Env = append(os.Environ(), "GORACE=halt_on_error=0 exitcode=66", "GOMAXPROCS=16")
		var stderr bytes.Buffer
		cmd.Stderr = &stderr
		cmd.Stdout = io.Discard
		err := cmd.Run()
		cancel()
		code := 0
		if err != nil {
			code = -1
			var ee *exec.ExitError
			if errors.As(err, &ee) {
				code = ee.ExitCode()
			}
		}
		races, lastID, lastRep, fatal := c02ParseStderr(stderr.String())
		completed := strings.Contains(stderr.String(), "C02-MARK done")
		// per-workload results written by the child
		outs := map[int]c02Out{}
		if fh, err := os.Open(bf + ".out"); err == nil {
			dec := json.NewDecoder(fh)
			for {
				var o c02Out
				if dec.Decode(&o) != nil {
					break
				}
				outs[o.ID] = o
			}
			fh.Close()
		}
		for _, w := range batch {
			id := w.num("id")
			o, ok := outs[id]
			if !ok {
				continue
			}
			key, _ := json.Marshal(w["threads"])
			res.count(fmt.Sprintf("%d|%s", id, key), w["nontrivial"] == true)
			res.Evaluations += o.Calls
			res.Hist["workloads"]++
			res.Hist["repetitions (cold engine each)"] += o.RepsDone
			res.Hist["goroutines"] += len(w.list("threads"))
			if ph := w.list("phases"); len(ph) > 0 {
				res.Hist["workloads with later phases (files rewritten between phases)"]++
				res.Hist["later phases"] += len(ph)
			}
			mode := "cache-on"
			if w["cache"] != true {
				mode = "cache-off"
			} else if w["auto"] == true {
				mode = "auto-reload"
			}
			if w["debug"] == true {
				mode += "+debug"
			}
			if w["chain"] == true {
				mode += "+chain"
			}
			res.Hist["mode "+mode]++
			if w["model_schedule_dependent"] == true {
				res.Hist["workloads on which the model itself is schedule-dependent"]++
			}
			for k, n := range o.Unmod {
				res.Hist["unmodelled call, serial result "+k] += n
				res.Unmodelled += n
			}
			for _, t := range w.list("threads") {
				for _, c := range t.([]interface{}) {
					cm := c.(map[string]interface{})
					if cm["c"] != "unmodelled" {
						res.Hist[fmt.Sprintf("call %v/%v", cm["op"], cm["c"])]++
					}
				}
			}
			res.sample(map[string]interface{}{"id": id, "goroutines": len(w.list("threads")), "calls": w.num("ncalls"), "mode": mode,
				"loaders": len(w.list("loaders")), "reps": o.RepsDone, "mismatches": o.NMis, "model_mismatches": o.NModel}, 12)
			for _, m := range o.Mis {
				if m.Kind == "oracle" {
					res.add(Finding{Kind: "oracle", Where: fmt.Sprintf("workload %d rep %d phase %d goroutine %d call %d (%s %s)", id, m.Rep, m.Phase, m.Thread, m.Call, m.Op, m.Name),
						Case: w, Expected: m.Expected, Observed: m.Observed,
						Detail: "a call on the shared engine returned something else than the same call when all calls run one after another on a fresh engine"})
					break
				}
			}
			for _, m := range o.Mis {
				if m.Kind == "model" {
					res.add(Finding{Kind: "disagreement", Where: fmt.Sprintf("workload %d phase %d goroutine %d call %d (%s %s), serial execution", id, m.Phase, m.Thread, m.Call, m.Op, m.Name),
						Case: w, Expected: m.Expected, Observed: m.Observed, Detail: "the serially executed call differs from the model's prediction"})
					break
				}
			}
		}
		for _, r := range races {
			totalRaces++
			if seenRace[r.frame] {
				continue
			}
			seenRace[r.frame] = true
			txt := r.text
			if len(txt) > 6000 {
				txt = txt[:6000]
			}
			res.add(Finding{Kind: "oracle", Where: fmt.Sprintf("race detector, workload %d rep %s: %s", r.id, r.rep, r.frame), Case: byID[r.id],
				Expected: "no race report", Observed: "WARNING: DATA RACE", Detail: txt})
		}
		if !completed || (code != 0 && code != 66) {
			abnormal++
			if fatal == "" {
				tail := stderr.String()
				if len(tail) > 3000 {
					tail = tail[len(tail)-3000:]
				}
				fatal = tail
			}
			if len(fatal) > 6000 {
				fatal = fatal[:6000]
			}
			res.add(Finding{Kind: "oracle", Where: fmt.Sprintf("child process ended abnormally (exit %d) in workload %d rep %s", code, lastID, lastRep), Case: byID[lastID],
				Expected: "all goroutines return", Observed: strings.SplitN(fatal, "\n", 2)[0], Detail: fatal})
			// go on behind the workload that killed the child
			var rest []Case
			after := false
			for _, w := range batch {
				if after {
					rest = append(rest, w)
				}
				if w.num("id") == lastID {
					after = true
				}
			}
			pending = append(rest, pending...)
		}
		os.Remove(bf)
		os.Remove(bf + ".out")
		os.Remove(bf + ".result")
	}
	res.Hist["race reports"] = totalRaces
	res.Hist["abnormal child exits"] = abnormal
	res.Notes = append(res.Notes, fmt.Sprintf("race detector: %v; every repetition starts all goroutines on one channel close against a cold engine; GOMAXPROCS=16; %d child processes", c02RaceEnabled, batchNo))
}

// c02BlockingLoader answers not-found for every name; for the watched name it first waits until the test lets it go
type c02BlockingLoader struct {
	watch   string
	entered chan struct{}
	release chan struct{}
	once    sync.Once
}

func (l *c02BlockingLoader) Load(name string) (string, error) {
	if name == l.watch {
		l.once.Do(func() { close(l.entered) })
		select {
		case <-l.release:
		case <-time.After(5 * time.Second):
		}
	}
	return "", fmt.Errorf("%w: %s", twig.ErrTemplateNotFound, name)
}
func (l *c02BlockingLoader) Exists(name string) bool { return false }

// c02RegisterDuringLookup: a render looks an optional include up (the loader is slow to say it has no such template)
// while RegisterString registers that very name. Once both calls have returned the name is registered, under either
// serial order, and every later render shows it.
func c02RegisterDuringLookup(res *Result) {
	for _, page := range []string{"[{% include 'banner.twig' ignore missing %}]", "[{% for i in [1] %}{% include 'ban' ~ 'ner.twig' ignore missing %}{% endfor %}]"} {
		for round := 0; round < 3; round++ {
			ld := &c02BlockingLoader{watch: "banner.twig", entered: make(chan struct{}), release: make(chan struct{})}
			eng := twig.New()
			eng.RegisterLoader(ld)
			if eng.RegisterString("page", page) != nil {
				return
			}
			c := Case{"k": "register-during-lookup", "page": page}
			res.Hist["stream:register-during-lookup"]++
			res.Evaluations++
			var wg sync.WaitGroup
			wg.Add(1)
			go func() {
				defer wg.Done()
				eng.Render("page", map[string]interface{}{})
			}()
			select {
			case <-ld.entered:
			case <-time.After(5 * time.Second):
			}
			wg.Add(1)
			go func() {
				defer wg.Done()
				eng.RegisterString("banner.twig", "BANNER")
			}()
			time.Sleep(30 * time.Millisecond)
			close(ld.release)
			wg.Wait()
			for i := 0; i < 2; i++ {
				got, err := eng.Render("page", map[string]interface{}{})
				if err != nil {
					got = "error: " + err.Error()
				}
				if got != "[BANNER]" {
					res.add(Finding{Kind: "oracle", Where: "register-during-lookup", Case: c, Expected: "[BANNER]", Observed: got,
						Detail: "Render(page) was looking the optional include up while RegisterString(banner.twig) ran; both returned; a later render must show the registered template (as after either serial order)"})
					return
				}
			}
		}
	}
}

// c02InAChild runs one of the Go-side streams in a process of its own (this runner, race-enabled, started again): a race
// report or a fatal runtime error is then read from the child's stderr and becomes a finding with the stream as its
// input, instead of ending the runner.
func c02InAChild(cases string, res *Result, runner, stream string) {
	out := filepath.Join(filepath.Dir(cases), runner+".result.json")
	os.Remove(out)
	ctx, cancel := context.WithTimeout(context.Background(), 300*time.Second)
	defer cancel()
	cmd := exec.CommandContext(ctx, os.Args[0], runner, "-", out)
	cmd.Env = append(os.Environ(), "GORACE=halt_on_error=0 exitcode=66", "GOMAXPROCS=16")
	var stderr bytes.Buffer
	cmd.Stderr = &stderr
	cmd.Stdout = io.Discard
	err := cmd.Run()
	var child Result
	if b, rerr := os.ReadFile(out); rerr == nil && json.Unmarshal(b, &child) == nil {
		res.Evaluations += child.Evaluations
		for k, v := range child.Hist {
			res.Hist[k] += v
		}
		for _, f := range child.Findings {
			res.add(f)
		}
	}
	races, _, _, fatal := c02ParseStderr(stderr.String())
	c := Case{"k": stream, "how": "the stream " + stream + " of harness/c02*.go, run on its own as `runner " + runner + " - out.json`"}
	switch {
	case len(races) > 0:
		res.add(Finding{Kind: "oracle", Where: stream + "/race", Case: c, Expected: "no data race", Observed: fmt.Sprintf("%d race reports", len(races)),
			Detail: "first report, top frames: " + races[0].frame + "\n" + clip(races[0].text)})
	case fatal != "":
		res.add(Finding{Kind: "oracle", Where: stream + "/fatal", Case: c, Expected: "the process survives", Observed: clip(fatal)})
	case err != nil && len(child.Findings) == 0:
		res.add(Finding{Kind: "oracle", Where: stream + "/child", Case: c, Expected: "the child process ends normally", Observed: err.Error() + ": " + clip(stderr.String())})
	}
}
