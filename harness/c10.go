package main

import (
	"fmt"
	"github.com/semihalev/twig"
	"sort"
	"strconv"
	"strings"
	"time"
)

func init() { runners["C10"] = runC10 }

// C10: template inheritance is block substitution along the extends chain.
// A case is a template set, a main template and TWO contexts; the same engine renders main twice (a dynamic parent
// has to be chosen anew at every render). For each render the case carries three predictions:
//
//	spec    Spec/InheritSpec.v inh_render_template (the reference: proved equal to the model)
//	exp     Model/Eval.v render_template (the faithful model)
//	oracle  the substitution computed by the generator directly on the description of the chain (no extracted code)
//
// engine != oracle is a failing input of the property ("oracle"); engine != spec a difference from the proved
// specification ("disagreement", a violation with a failing input because props/C10.json names a reference_spec).
func runC10(cases string, res *Result) {
	// findings are collected and reported smallest template set first, so that the failing input shown is a small one
	type sized struct {
		f    Finding
		size int
	}
	var found []sized
	add := func(f Finding) {
		c, _ := f.Case.(Case)
		found = append(found, sized{f, len(fmt.Sprint(c["tpls"]))})
	}
	defer func() {
		sort.SliceStable(found, func(i, j int) bool { return found[i].size < found[j].size })
		for _, s := range found {
			res.add(s.f)
		}
	}()
	res.Exhaustive = []string{"c10-grid (1-3 levels x 2 blocks x 5 choices)", "c10-place (4 placements x 1-2 child levels x 2 blocks x 5 choices)"}
	readCases(cases, func(c Case) {
		if evalAbort {
			return // a render did not come back: see renderGuarded
		}
		stream := c.str("stream")
		res.Hist["stream:"+stream]++
		res.Hist[fmt.Sprintf("levels:%d", c.num("levels"))]++
		key := c.str("main") + "|" + c.str("ctx") + "|" + c.str("ctx2") + "|" + fmt.Sprint(c["tpls"])
		b, _ := c["parents"].(bool)
		// a chain of at least two templates in which some block has at least two definitions
		nontrivial := c.num("levels") >= 2 && c.num("overrides") >= 2
		res.count(key, nontrivial)
		if b {
			res.Hist["with-parent()"]++
		}
		if k := c.str("kinds"); k != "" {
			for _, x := range strings.Split(k, ",") {
				res.Hist["node:"+x]++
			}
		}
		c["readable"] = evalCaseSources(c)
		if sc := c.str("selfcheck"); sc != "" {
			// the generator found its three predictions at odds: the case is reported whatever the engine does
			add(Finding{Kind: "disagreement", Where: stream + "/selfcheck", Case: c, Expected: fmt.Sprint(c["spec"], c["spec2"]),
				Observed: fmt.Sprint(c["exp"], c["exp2"], c["oracle"], c["oracle2"]), Detail: sc})
			return
		}
		ee := newEvalEngine(c)
		if !ee.regOK {
			add(Finding{Kind: "disagreement", Where: stream + "/parse", Case: c, Expected: "every generated template parses",
				Observed: "err:parse", Detail: ee.regEr})
			return
		}
		pred := func(field string) (string, bool) {
			m, _ := c[field].(map[string]interface{})
			if v, ok := m["out"].(string); ok {
				return "out:" + v, true
			}
			if v, ok := m["err"].(string); ok {
				return "err:" + v, true
			}
			return "", false // skipped by the model (unmodelled / out of fuel)
		}
		for i, suffix := range []string{"", "2"} {
			spec, okS := pred("spec" + suffix)
			model, okM := pred("exp" + suffix)
			oracle, okO := pred("oracle" + suffix)
			if !okS || !okM {
				res.Unmodelled++
				res.Hist["skip"]++
				continue
			}
			out, class, det := ee.render(c.str("main"), parseContext(c.str("ctx"+suffix)))
			res.Evaluations++
			observed := evalObserved(out, class)
			res.Hist["class:"+class]++
			if i == 0 {
				res.sample(map[string]interface{}{"templates": evalCaseSources(c), "ctx": c.str("ctx"), "observed": observed}, 8)
			}
			where := fmt.Sprintf("%s/render%d", stream, i+1)
			if i == 0 {
				res.Hist["under-other-engine-settings"]++
				if msg := evalUnderSettings(c, parseContext(c.str("ctx")), nil, out, class); msg != "" {
					add(Finding{Kind: "oracle", Where: where + "/settings", Case: c, Expected: observed, Observed: msg,
						Detail: "engine settings that have nothing to do with inheritance change what the template renders"})
					return
				}
				if msg := evalAfterHistory(c, parseContext(c.str("ctx")), nil, out, class); msg != "" {
					add(Finding{Kind: "oracle", Where: where + "/history", Case: c, Expected: observed, Observed: msg,
						Detail: "what the engine did before changes what the chain renders"})
					return
				}
			}
			if i == 0 {
				res.Hist["by-other-routes"]++
				if msg := evalByOtherRoutes(c, parseContext(c.str("ctx")), nil, out, class); msg != "" {
					add(Finding{Kind: "oracle", Where: where + "/routes", Case: c, Expected: observed, Observed: msg,
						Detail: "the way the templates of the chain reached the engine changes what the chain renders"})
					return
				}
			}
			if okO && oracle != observed {
				add(Finding{Kind: "oracle", Where: where, Case: c, Expected: oracle, Observed: observed,
					Detail: "the engine's output is not the substitution along the extends chain (specification says " + spec + ", model " + model + ") " + det})
				return
			}
			if spec != observed {
				add(Finding{Kind: "disagreement", Where: where, Case: c, Expected: spec, Observed: observed,
					Detail: "engine differs from Spec/InheritSpec.v (model says " + model + ") " + det})
				return
			}
		}
	})
	// last: a rendering that does not end leaves a goroutine behind; the results so far are complete
	if evalAbort {
		return
	}
	c10ParentsNamedRelatively(cases, res)
	c10LayoutsRenderedFirst(res)
	c10ParentInsideConstructs(res)
	c10BlocksUnderLiteralConditions(res)
	c10ParentNameSpellings(res)
	c10IncludedChains(res)
}

// c10IncludedChains: a template reached through an include has an extends chain of its own; its blocks are resolved
// along that chain, not along the chain of the template that includes it, also when both chains define blocks of
// the same names. The expectation is the included template rendered on its own, put where the include stands.
func c10IncludedChains(res *Result) {
	tpls := map[string]string{
		"base":      "<{% block title %}B{% endblock %}|{% block body %}b{% endblock %}|{% block foot %}f{% endblock %}>",
		"card_base": "[{% block title %}CB{% endblock %}:{% block body %}cb{% endblock %}:{% block extra %}x{% endblock %}]",
		"card":      "{% extends 'card_base' %}{% block title %}Hello{% endblock %}",
		"card_par":  "{% extends 'card_base' %}{% block title %}H({{ parent() }}){% endblock %}{% block body %}{% endblock %}",
		"card_mid":  "{% extends 'card' %}{% block body %}mid({{ parent() }}){% endblock %}",
		"card_none": "{% extends 'card_base' %}",
		"plain":     "(plain {% block title %}PT{% endblock %})",
	}
	pages := []struct{ name, src string }{
		{"in-block", "{% extends 'base' %}{% block title %}Page{% endblock %}{% block body %}{% include '$' %}{% endblock %}"},
		{"in-block-with-parent", "{% extends 'base' %}{% block title %}Page{% endblock %}{% block body %}{{ parent() }}{% include '$' %}{{ parent() }}{% endblock %}"},
		{"in-loop", "{% extends 'base' %}{% block title %}Page{% endblock %}{% block body %}{% for i in [1, 2] %}{% include '$' %}{% endfor %}{% endblock %}"},
		{"empty-override-around", "{% extends 'base' %}{% block title %}{% endblock %}{% block body %}{% include '$' %}{% endblock %}{% block foot %}F2{% endblock %}"},
		{"no-chain-around", "{% block title %}Own{% endblock %}/{% include '$' %}/{% block body %}ob{% endblock %}"},
		{"twice", "{% extends 'base' %}{% block title %}Page{% endblock %}{% block body %}{% include '$' %}+{% include '$' %}{% endblock %}{% block foot %}{% include '$' %}{% endblock %}"},
	}
	for _, inc := range []string{"card", "card_par", "card_mid", "card_none", "plain"} {
		for _, pg := range pages {
			eng := twig.New()
			for n, s := range tpls {
				if err := eng.RegisterString(n, s); err != nil {
					panic("c10 included chains: " + n + ": " + err.Error())
				}
			}
			src := strings.ReplaceAll(pg.src, "$", inc)
			c := Case{"stream": "c10-included-chains", "page": pg.name, "included": inc, "tpl": src}
			res.Hist["stream:c10-included-chains"]++
			res.Evaluations++
			res.count("c10-included-chains/"+pg.name+"/"+inc, true)
			alone, aerr := eng.Render(inc, map[string]interface{}{})
			if aerr != nil {
				continue
			}
			// the page with a marker where the include stands, on an engine of its own
			ref := twig.New()
			for n, s := range tpls {
				ref.RegisterString(n, s)
			}
			ref.RegisterString("page", strings.ReplaceAll(pg.src, "{% include '$' %}", "@@INC@@"))
			skeleton, serr := ref.Render("page", map[string]interface{}{})
			if serr != nil {
				continue
			}
			want := strings.ReplaceAll(skeleton, "@@INC@@", alone)
			if err := eng.RegisterString("page", src); err != nil {
				res.add(Finding{Kind: "oracle", Where: "c10-included-chains/parse", Case: c, Detail: err.Error()})
				continue
			}
			var got string
			var err error
			if !c08WithTimeout(10*time.Second, func() { got, err = eng.Render("page", map[string]interface{}{}) }) {
				res.add(Finding{Kind: "oracle", Where: "c10-included-chains/" + pg.name, Case: c, Expected: want, Observed: "no answer within 10 s",
					Detail: "rendering does not end"})
				return
			}
			if err != nil {
				got = "error: " + err.Error()
			}
			if got != want {
				res.add(Finding{Kind: "oracle", Where: "c10-included-chains/" + pg.name, Case: c, Expected: want, Observed: got,
					Detail: "the included template's blocks are not resolved along its own extends chain (included alone it renders " + strconv.Quote(alone) + ")"})
			}
		}
	}
}

// c10ParentInsideConstructs: parent() yields what the next definition up the chain renders, wherever it stands in the
// overriding block: alone in an apply block, in spaceless, in a condition, in a loop, next to text, at two levels.
func c10ParentInsideConstructs(res *Result) {
	const base = "<t>{% block title %}Site {{ name }}{% endblock %}</t>"
	const p = "Site acme"
	wrappers := []struct {
		name, open, close string
		f                 func(string) string
	}{
		{"apply-upper-alone", "{% apply upper %}", "{% endapply %}", strings.ToUpper},
		{"apply-lower-alone", "{% apply lower %}", "{% endapply %}", strings.ToLower},
		{"apply-upper-with-text", "{% apply upper %}x ", " y{% endapply %}", func(s string) string { return strings.ToUpper("x " + s + " y") }},
		{"spaceless", "{% spaceless %}", "{% endspaceless %}", func(s string) string { return s }},
		{"if", "{% if name %}", "{% endif %}", func(s string) string { return s }},
		{"for", "{% for i in [1, 2] %}", "{% endfor %}", func(s string) string { return s + s }},
		{"apply-in-if", "{% if name %}{% apply upper %}", "{% endapply %}{% endif %}", strings.ToUpper},
		{"nested-apply", "{% apply lower %}{% apply upper %}", "{% endapply %}{% endapply %}", strings.ToLower},
		{"plain", "", "", func(s string) string { return s }},
	}
	for _, w := range wrappers {
		for _, spaced := range []bool{false, true} {
			call := "{{ parent() }}"
			if spaced {
				call = "{{parent()}}"
			}
			eng := twig.New()
			eng.RegisterString("base", base)
			eng.RegisterString("page", "{% extends 'base' %}{% block title %}"+w.open+call+w.close+"{% endblock %}")
			eng.RegisterString("leaf", "{% extends 'page' %}{% block title %}["+call+"]{% endblock %}")
			eng.RegisterString("leaf2", "{% extends 'page' %}{% block title %}"+w.open+call+w.close+"{% endblock %}")
			for _, tc := range []struct{ tpl, want string }{
				{"page", "<t>" + w.f(p) + "</t>"}, {"leaf", "<t>[" + w.f(p) + "]</t>"}, {"leaf2", "<t>" + w.f(w.f(p)) + "</t>"},
			} {
				c := Case{"stream": "c10-parent-inside", "construct": w.name, "template": tc.tpl, "compact call": spaced}
				res.Hist["stream:c10-parent-inside"]++
				res.Evaluations++
				res.count("c10-parent-inside/"+w.name+tc.tpl+fmt.Sprint(spaced), true)
				got, err := eng.Render(tc.tpl, map[string]interface{}{"name": "acme"})
				if err != nil {
					got = "error: " + err.Error()
				}
				if got != tc.want {
					res.add(Finding{Kind: "oracle", Where: "c10-parent-inside/" + w.name + "/" + tc.tpl, Case: c, Expected: tc.want, Observed: got,
						Detail: "parent() inside " + w.name + " of an overriding block does not yield what the parent's definition renders (" + p + ")"})
				}
			}
		}
	}
}

// c10BlocksUnderLiteralConditions: whether a block written inside a condition counts as a definition does not depend
// on how the condition is spelled: under a literal (false, true, 0, ”) a template renders as under a variable of the
// same value -- two and three levels, with parent().
func c10BlocksUnderLiteralConditions(res *Result) {
	const base = "[{% block a %}A0{% endblock %}|{% block b %}B0{% endblock %}]"
	shapes := []string{
		"{% extends 'base' %}{% if C %}{% block a %}A1{% endblock %}{% endif %}",
		"{% extends 'base' %}{% if C %}x{% else %}{% block a %}A1{% endblock %}{% endif %}",
		"{% extends 'base' %}{% if D %}x{% elseif C %}{% block a %}A1<{{ parent() }}>{% endblock %}{% else %}{% block b %}B1{% endblock %}{% endif %}",
		"{% extends 'base' %}{% if C %}{% if C %}{% block a %}A1{% endblock %}{% endif %}{% endif %}{% block b %}B1{{ parent() }}{% endblock %}",
	}
	lits := []struct {
		lit string
		val interface{}
	}{{"false", false}, {"true", true}, {"0", 0}, {"1", 1}, {"''", ""}, {"'x'", "x"}, {"not true", false}, {"1 == 2", false}}
	for si, shape := range shapes {
		for _, l := range lits {
			render := func(cond string) (string, string) {
				eng := twig.New()
				eng.RegisterString("base", base)
				mid := strings.ReplaceAll(strings.ReplaceAll(shape, "D", "false"), "C", cond)
				eng.RegisterString("mid", mid)
				eng.RegisterString("leaf", "{% extends 'mid' %}{% block a %}A2({{ parent() }}){% endblock %}")
				o1, e1 := eng.Render("mid", map[string]interface{}{"cv": l.val})
				o2, e2 := eng.Render("leaf", map[string]interface{}{"cv": l.val})
				if e1 != nil {
					o1 = "error: " + e1.Error()
				}
				if e2 != nil {
					o2 = "error: " + e2.Error()
				}
				return o1, o2
			}
			res.Evaluations += 2
			res.Hist["stream:c10-literal-conditions"]++
			res.count(fmt.Sprint("c10-literal-conditions", si, l.lit), true)
			lm, ll := render(l.lit)
			vm, vl := render("cv")
			if lm != vm || ll != vl {
				res.add(Finding{Kind: "oracle", Where: "c10-literal-conditions", Case: Case{"stream": "c10-literal-conditions", "shape": shape, "literal": l.lit},
					Expected: vm + " / " + vl + " (the condition written as a variable of that value)", Observed: lm + " / " + ll,
					Detail: "a block inside a condition: with the condition written as the literal " + l.lit + " the chain resolves differently than with a variable that holds that value"})
			}
		}
	}
}

// c10ParentNameSpellings: the parent named by an expression -- concatenations written with and without blanks, in
// either kind of quote, conditionals, item access, a filtered literal -- is the template that expression names.
func c10ParentNameSpellings(res *Result) {
	exprs := []string{
		"'layouts/blue.twig'", "\"layouts/blue.twig\"", "'layouts/' ~ theme ~ '.twig'", "'layouts/'~theme~'.twig'", "\"layouts/\"~theme~\".twig\"", "'layouts/blue' ~ '.twig'", "'layouts/blue'~'.twig'",
		"\"layouts/blue\"~\".twig\"", "('layouts/'~theme)~'.twig'", "'layouts/'~(theme~'.twig')", "theme == 'blue' ? 'layouts/blue.twig' : 'nothere'", "theme=='blue'?'layouts/blue.twig':'nothere'",
		"names[0]", "names|first", "'LAYOUTS/BLUE.TWIG'|lower", "full", "'layouts/' ~ 'blue' ~ '.twig'", "'layouts/'~'blue'~'.twig'",
	}
	for _, tag := range []struct{ name, tpl, want string }{
		{"extends", "{% extends $ %}{% block a %}A1({{ parent() }}){% endblock %}", "<A1(A0)>"},
		{"include", "[{% include $ %}]", "[<A0>]"},
		{"include-with", "[{% include $ with {'q': 1} %}]", "[<A0>]"},
		{"import", "{% import $ as L %}[{{ L.m() }}]", "[M]"},
		// (the from tag takes a literal name only: {% from 'a' ~ 'b' import m %} is refused; no property speaks of it)
	} {
		for _, e := range exprs {
			eng := twig.New()
			eng.RegisterString("layouts/blue.twig", "<{% block a %}A0{% endblock %}>{% macro m() %}M{% endmacro %}")
			src := strings.ReplaceAll(tag.tpl, "$", e)
			c := Case{"stream": "c10-parent-name-spellings", "tag": tag.name, "expression": e, "tpl": src}
			res.Hist["stream:c10-parent-name-spellings"]++
			res.Evaluations++
			res.count("c10-parent-name-spellings/"+tag.name+"/"+e, true)
			want := tag.want
			if tag.name == "import" || tag.name == "from" {
				want = "[M]"
			}
			if err := eng.RegisterString("t", src); err != nil {
				res.add(Finding{Kind: "oracle", Where: "c10-parent-name-spellings/" + tag.name, Case: c, Expected: want, Observed: "parse error: " + err.Error()})
				continue
			}
			got, err := eng.Render("t", map[string]interface{}{"theme": "blue", "names": []interface{}{"layouts/blue.twig"}, "full": "layouts/blue.twig"})
			if err != nil {
				got = "error: " + err.Error()
			}
			if got != want {
				res.add(Finding{Kind: "oracle", Where: "c10-parent-name-spellings/" + tag.name, Case: c, Expected: want, Observed: got,
					Detail: "the expression names layouts/blue.twig; the tag did not reach that template"})
			}
		}
	}
}
