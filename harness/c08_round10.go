package main

import (
	"github.com/semihalev/twig"
)

// c08TextThatIsNoNumber: a string that is not the text of a number is not equal to any number, and no number is a
// member of a list of such strings: in every position, on either side.
func c08TextThatIsNoNumber(res *Result) {
	texts := []string{"-", "+", ".", "-.", "e", "--5", "5-", " ", "n/a", "1e", "0x", "-e1", "", "- 0", "0-0", "٠"}
	nums := []string{"0", "i0", "i5", "neg", "(i5 - 5)", "0.0", "-0"}
	e := twig.New()
	ctx := map[string]interface{}{"i0": 0, "i5": 5, "neg": -7}
	for _, s := range texts {
		for _, n := range nums {
			for _, tc := range [][2]string{
				{"{{ " + n + " == '" + s + "' ? 'T' : 'F' }}", "F"}, {"{{ '" + s + "' == " + n + " ? 'T' : 'F' }}", "F"}, {"{{ " + n + " != '" + s + "' ? 'T' : 'F' }}", "T"},
				{"{% if " + n + " == '" + s + "' %}T{% else %}F{% endif %}", "F"}, {"{% set r = (" + n + " == '" + s + "') %}{{ r ? 'T' : 'F' }}", "F"},
				{"{{ " + n + " in ['" + s + "', 'zz'] ? 'T' : 'F' }}", "F"}, {"{{ " + n + " not in ['" + s + "'] ? 'T' : 'F' }}", "T"},
				{"{% set t = '" + s + "' %}{{ t == " + n + " ? 'T' : 'F' }}", "F"},
			} {
				res.Hist["stream:text-that-is-no-number"]++
				if e.RegisterString("t", tc[0]) != nil {
					continue
				}
				res.Evaluations++
				got, err := e.Render("t", ctx)
				if err != nil {
					got = "error: " + err.Error()
				}
				if got != tc[1] {
					res.add(Finding{Kind: "oracle", Where: "text-that-is-no-number", Case: Case{"stream": "text-that-is-no-number", "tpl": tc[0]}, Expected: tc[1], Observed: got,
						Detail: "the text " + strconvQuote(s) + " is not the text of a number: it equals no number"})
				}
			}
		}
	}
}

func strconvQuote(s string) string { return "`" + s + "`" }
