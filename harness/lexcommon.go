package main

import (
	"encoding/json"
	"fmt"
	"strings"

	"github.com/semihalev/twig"
)

// projected outer token: ["T", texthex] or ["G", kind, closerDash, commentBodyHex]
type ptok [4]string

func (p ptok) String() string { return strings.Join(p[:], ":") }

// goOuterTokens runs one of the two real tokenizers (forced, whatever the length) and projects the
// token stream to the outer structure the scanner model speaks about.
func goOuterTokens(src string, large bool, applyWS bool) (out []ptok, err error) {
	defer func() {
		if r := recover(); r != nil {
			err = fmt.Errorf("PANIC: %v", r)
		}
	}()
	tk := twig.GetTokenizer(src, 0)
	defer twig.ReleaseTokenizer(tk)
	var toks []twig.Token
	if large {
		toks, err = tk.TokenizeOptimized()
	} else {
		toks, err = tk.TokenizeHtmlPreserving()
	}
	if err != nil {
		return nil, err
	}
	if applyWS {
		tk.ApplyWhitespaceControl()
	}
	i := 0
	for i < len(toks) {
		t := toks[i]
		switch t.Type {
		case twig.TOKEN_TEXT:
			out = append(out, ptok{"T", hx(t.Value), "", ""})
			i++
		case twig.TOKEN_VAR_START, twig.TOKEN_VAR_START_TRIM, twig.TOKEN_BLOCK_START, twig.TOKEN_BLOCK_START_TRIM, twig.TOKEN_COMMENT_START:
			kind := map[int]string{twig.TOKEN_VAR_START: "v", twig.TOKEN_VAR_START_TRIM: "vt", twig.TOKEN_BLOCK_START: "b",
				twig.TOKEN_BLOCK_START_TRIM: "bt", twig.TOKEN_COMMENT_START: "c"}[t.Type]
			i++
			body := ""
			closed := false
			dash := "false"
			for i < len(toks) {
				u := toks[i]
				if kind == "c" {
					if u.Type == twig.TOKEN_COMMENT_END {
						closed = true
						i++
						break
					}
					if u.Type == twig.TOKEN_TEXT {
						body += u.Value
					}
				} else if kind[0] == 'v' && (u.Type == twig.TOKEN_VAR_END || u.Type == twig.TOKEN_VAR_END_TRIM) {
					closed = true
					if u.Type == twig.TOKEN_VAR_END_TRIM {
						dash = "true"
					}
					i++
					break
				} else if kind[0] == 'b' && (u.Type == twig.TOKEN_BLOCK_END || u.Type == twig.TOKEN_BLOCK_END_TRIM) {
					closed = true
					if u.Type == twig.TOKEN_BLOCK_END_TRIM {
						dash = "true"
					}
					i++
					break
				}
				i++
			}
			if !closed {
				return out, fmt.Errorf("projection: tag opened but no closer token")
			}
			out = append(out, ptok{"G", kind, dash, hx(body)})
		case twig.TOKEN_EOF:
			i = len(toks)
		default:
			return out, fmt.Errorf("projection: token type %d outside a tag", t.Type)
		}
	}
	return out, nil
}

func modelToks(c Case, key string) []ptok {
	var out []ptok
	for _, e := range c.list(key) {
		a := e.([]interface{})
		var p ptok
		p[0] = a[0].(string)
		if p[0] == "T" {
			p[1] = a[1].(string)
		} else {
			p[1] = a[1].(string)
			if a[2].(bool) {
				p[2] = "true"
			} else {
				p[2] = "false"
			}
			p[3] = a[3].(string)
		}
		out = append(out, p)
	}
	return out
}

func ptoksEqual(a, b []ptok) bool {
	if len(a) != len(b) {
		return false
	}
	for i := range a {
		if a[i] != b[i] {
			return false
		}
	}
	return true
}

func ptoksStr(a []ptok) string {
	b, _ := json.Marshal(a)
	return string(b)
}

// compareTokens checks both real tokenizers against the model's prediction for one source.
// It returns a description of the first difference ("" when all agree) and whether the two real
// tokenizers differ from each other (the model-independent oracle of C14).
func compareTokens(c Case, src string) (diff string, twoDiffer string) {
	lex := c.str("lex")
	var got [2][]ptok
	var gerr [2]error
	for li, large := range []bool{false, true} {
		name := "small"
		if large {
			name = "large"
		}
		raw, err := goOuterTokens(src, large, false)
		post, err2 := goOuterTokens(src, large, true)
		got[li], gerr[li] = post, err
		if err != nil && strings.HasPrefix(err.Error(), "PANIC") {
			return name + " tokenizer: " + err.Error(), ""
		}
		if lex == "ok" {
			if err != nil || err2 != nil {
				if diff == "" {
					diff = fmt.Sprintf("%s tokenizer: error %v, model scans the source", name, err)
				}
				continue
			}
			if !ptoksEqual(raw, modelToks(c, "toks_raw")) && diff == "" {
				diff = fmt.Sprintf("%s tokenizer (before whitespace control): got %s want %s", name, ptoksStr(raw), ptoksStr(modelToks(c, "toks_raw")))
			}
			if !ptoksEqual(post, modelToks(c, "toks")) && diff == "" {
				diff = fmt.Sprintf("%s tokenizer (after whitespace control): got %s want %s", name, ptoksStr(post), ptoksStr(modelToks(c, "toks")))
			}
		} else if err == nil && diff == "" {
			diff = fmt.Sprintf("%s tokenizer accepts a source the model rejects (unclosed tag): %s", name, ptoksStr(raw))
		}
	}
	if (gerr[0] == nil) != (gerr[1] == nil) {
		twoDiffer = fmt.Sprintf("small tokenizer err=%v, large tokenizer err=%v", gerr[0], gerr[1])
	} else if gerr[0] == nil && !ptoksEqual(got[0], got[1]) {
		twoDiffer = fmt.Sprintf("small %s large %s", ptoksStr(got[0]), ptoksStr(got[1]))
	}
	return diff, twoDiffer
}

// the context every generated scanner template is rendered with (mirrors ocaml/lexgen.ml ctx_value)
func lexCtx() map[string]interface{} {
	return map[string]interface{}{"a": "A1", "b": "<B&>", "c": "", "d": "d d"}
}

func renderOnce(src string, ctx map[string]interface{}) (out string, err error) {
	defer func() {
		if r := recover(); r != nil {
			err = fmt.Errorf("PANIC: %v", r)
		}
	}()
	eng := twig.New()
	if err = eng.RegisterString("t", src); err != nil {
		return "", err
	}
	return eng.Render("t", ctx)
}
