package main

import (
	"fmt"
	"os"
	"runtime"
	"strings"
	"sync/atomic"
	"time"

	"github.com/semihalev/twig"
)

func init() { runners["C08"] = runC08 }

// C08: expression trees printed in several spellings by the verified printers.
//   disagreement: the tree the real parser builds (hook VerifExprTree) differs from the tree the parser
//                 model builds from the same text; the printed value differs from the reference evaluator
//                 Spec.ExprEval (props/C08.json sets reference_spec, so this is a failing input of the
//                 property itself); a token list of TokenizeExpression differs from the lexer model.
//   oracle      : the spellings of one tree (fewest parentheses, fully parenthesised, spacing and quote
//                 variants) do not all parse to the same tree / print the same value / fail alike; the
//                 value differs between syntactic positions; a panic or a hang anywhere.
// Stream regress: witnesses of repaired defects, the demanded output or a failure. Stream known:<class>: the
// listed known finding, reported as Kind "known" only when the engine shows exactly the predicted wrong
// behaviour. Nothing is recorded silently.

func c08Ctx() map[string]interface{} {
	lng := make([]interface{}, 60)
	for i := range lng {
		lng[i] = i + 1
	}
	return map[string]interface{}{
		"lng": lng,
		"i5":  5, "i3": 3, "i0": 0, "neg": -7, "big": 9007199254740991, "starts": 2, "with": 4, "defined": 6,
		"s": "str", "emp": "", "sp": "a b", "q": "it's", "num": "12",
		"yes": true, "no": false,
		"l": []interface{}{1, 2, 3}, "el": []interface{}{}, "ls": []interface{}{"a", "b"},
		"m":  map[string]interface{}{"k": "v", "i": 4, "n": map[string]interface{}{"x": 7}},
		"ll": []interface{}{map[string]interface{}{"name": "N"}},
	}
}

type c08Out struct {
	out string
	cls string // none | parse | render | panic
	msg string
}

func (o c08Out) String() string {
	if o.cls == "none" {
		return "value " + fmt.Sprintf("%q", o.out)
	}
	return "error(" + o.cls + ")"
}

// c08Render renders one template in a fresh engine with the fixed context.
func c08Render(src string) (res c08Out) {
	defer func() {
		if r := recover(); r != nil {
			res = c08Out{cls: "panic", msg: fmt.Sprint(r)}
		}
	}()
	eng := twig.New()
	eng.AddFunction("vid", func(args ...interface{}) (interface{}, error) {
		if len(args) == 0 {
			return nil, nil
		}
		return args[0], nil
	})
	if err := eng.RegisterString("inc", "{{ v }}"); err != nil {
		return c08Out{cls: "parse", msg: err.Error()}
	}
	if err := eng.RegisterString("t", src); err != nil {
		return c08Out{cls: "parse", msg: err.Error()}
	}
	out, err := eng.Render("t", c08Ctx())
	if err != nil {
		return c08Out{cls: "render", msg: err.Error()}
	}
	return c08Out{out: out, cls: "none"}
}

func c08Tree(src string) (tree string, cls string) {
	defer func() {
		if r := recover(); r != nil {
			tree, cls = fmt.Sprint(r), "panic"
		}
	}()
	t, err := twig.VerifExprTree(src)
	if err != nil {
		if strings.Contains(err.Error(), "PANIC") {
			return err.Error(), "panic"
		}
		return err.Error(), "parse"
	}
	return t, "none"
}

// c08Positions: the template that puts the expression text into each syntactic position, and the
// template it must agree with (ref: "" means the print tag).
type c08Pos struct {
	name string
	tpl  func(e string) string
	ref  func(e string) string
	tag  string // prefix of the line of VerifTemplateExprTrees that must contain the tree ("" = any line)
}

func c08PositionTable() []c08Pos {
	pr := func(e string) string { return "{{ " + e + " }}" }
	truth := func(e string) string { return "{{ (" + e + ") ? 'T' : 'F' }}" }
	return []c08Pos{
		{"set", func(e string) string { return "{% set zq = " + e + " %}{{ zq }}" }, pr, "set "},
		{"if", func(e string) string { return "{% if " + e + " %}T{% else %}F{% endif %}" }, truth, "if "},
		{"elseif", func(e string) string { return "{% if false %}X{% elseif " + e + " %}T{% else %}F{% endif %}" }, truth, "elseif "},
		{"include-with", func(e string) string { return "{% include 'inc' with {'v': " + e + " } %}" }, pr, "include-var:v "},
		{"include-with-only", func(e string) string { return "{% include 'inc' with {'v': " + e + " } only %}" }, pr, "include-var:v "},
		{"include-with-shadow", func(e string) string {
			return "{% include 'inc' with {'i5': 'S', 's': 0, 'yes': 0, 'l': 'L', 'v': " + e + " , 'i3': 'S', 'no': 1, 'm': 2} %}"
		}, pr, "include-var:v "},
		{"filter-arg", func(e string) string { return "{{ nothing|default(" + e + ") }}" }, pr, "print "},
		{"function-arg", func(e string) string { return "{{ vid(" + e + ") }}" }, pr, "print "},
		{"macro-arg", func(e string) string { return "{% macro mq(p) %}{{ p }}{% endmacro %}{{ mq(" + e + ") }}" }, pr, "print "},
		{"macro-arg-with-default", func(e string) string {
			return "{% macro mq(p = 'DFLT', q = 7) %}{{ p }}{% endmacro %}{{ mq(" + e + ") }}"
		}, pr, "print "},
		{"macro-arg-second-with-default", func(e string) string {
			return "{% macro mq(a, p = true) %}{{ p }}{% endmacro %}{{ mq(1, " + e + ") }}"
		}, pr, "print "},
		{"array-element", func(e string) string { return "{{ [" + e + "][0] }}" }, pr, "print "},
		{"hash-value", func(e string) string { return "{{ {'k': " + e + " }['k'] }}" }, pr, "print "},
	}
}

func c08ForTpl(e string) string { return "{% for zq in " + e + " %}{{ zq }};{% endfor %}" }
func c08ForRefTpl(e string) string {
	return "{% set zs = " + e + " %}{% for zq in zs %}{{ zq }};{% endfor %}"
}
func c08MaxTpl(e string) string { return "{{ max(" + e + ", " + e + ") }}" }

func c08WithTimeout(d time.Duration, f func()) bool {
	done := make(chan struct{})
	go func() {
		defer close(done)
		f()
	}()
	select {
	case <-done:
		return true
	case <-time.After(d):
		return false
	}
}

// c08MemoryGuard: an expression whose evaluation allocates without bound would take the machine down
// before the per-case timeout fires; above 6 GiB the run is ended with the current case as the finding.
func c08MemoryGuard(res *Result, current *atomic.Value) {
	go func() {
		var ms runtime.MemStats
		for {
			time.Sleep(300 * time.Millisecond)
			runtime.ReadMemStats(&ms)
			if ms.Sys > 6<<30 {
				r := newResult(res.Property)
				r.Cases, r.Evaluations = res.Cases, res.Evaluations
				r.add(Finding{Kind: "oracle", Where: "memory", Case: current.Load(), Detail: fmt.Sprintf("the process grew beyond 6 GiB (%d MiB) while this case (or one of the last ones that timed out) was running", ms.Sys>>20)})
				if len(os.Args) > 3 {
					r.write(os.Args[3])
				}
				os.Exit(0)
			}
		}
	}()
}

func runC08(cases string, res *Result) {
	if len(os.Args) > 4 && os.Args[4] == "--history-one" {
		c08HistoryMain(cases)
		return
	}
	var current atomic.Value
	current.Store(Case{})
	c08MemoryGuard(res, &current)
	positions := c08PositionTable()
	c08TextThatIsNoNumber(res)
	n := 0
	readCases(cases, func(c Case) {
		n++
		current.Store(c)
		stream := c.str("stream")
		res.Hist["stream:"+stream]++
		if stream == "history" {
			c08History(c, res, cases)
			return
		}
		ok := c08WithTimeout(20*time.Second, func() {
			switch stream {
			case "soup", "truncated", "mutated":
				c08Malformed(c, res)
			case "lexbytes", "lexfixed":
				c08Lex(c, res)
			case "regress":
				c08Regress(c, res)
			default:
				if strings.HasPrefix(stream, "known:") {
					c08Known(c, res, strings.TrimPrefix(stream, "known:"))
				} else {
					c08TreeCase(c, res, positions)
				}
			}
		})
		if !ok {
			res.add(Finding{Kind: "oracle", Where: "timeout", Case: c, Detail: "no answer within 20 s (hang)"})
		}
	})
}

func c08TreeCase(c Case, res *Result, positions []c08Pos) {
	sexp := c.str("sexp")
	nt, _ := c["nt"].(bool)
	listy, _ := c["listy"].(bool)
	res.count(sexp, nt)
	for _, k := range c.list("kinds") {
		if s, ok := k.(string); ok {
			res.Hist["node:"+s]++
		}
	}
	switch sz := c.num("size"); {
	case sz <= 5:
		res.Hist["size:1-5"]++
	case sz <= 15:
		res.Hist["size:6-15"]++
	case sz <= 40:
		res.Hist["size:16-40"]++
	default:
		res.Hist["size:41+"]++
	}
	type variant struct{ style, src, model string }
	var vs []variant
	for _, x := range c.list("variants") {
		m, _ := x.(map[string]interface{})
		style, _ := m["style"].(string)
		src, _ := m["src"].(string)
		model, _ := m["tree"].(string)
		vs = append(vs, variant{style, unhex(src), model})
	}
	if len(vs) == 0 {
		return
	}
	res.sample(map[string]interface{}{"tree": sexp, "min": vs[0].src, "full": vs[1%len(vs)].src, "spec": c["spec"]}, 12)

	// ---- 1. trees: every spelling parses to the same tree (oracle), which is the model's (disagreement)
	trees := make([]string, len(vs))
	tcls := make([]string, len(vs))
	for i, v := range vs {
		trees[i], tcls[i] = c08Tree(v.src)
		res.Evaluations++
		if tcls[i] == "panic" {
			res.add(Finding{Kind: "oracle", Where: "tree:" + v.style, Case: c, Observed: trees[i], Detail: "panic while parsing " + v.src})
			return
		}
	}
	for i := 1; i < len(vs); i++ {
		if tcls[i] != tcls[0] || (tcls[0] == "none" && trees[i] != trees[0]) {
			res.add(Finding{Kind: "oracle", Where: "spellings:tree", Case: c,
				Expected: vs[0].style + ": " + vs[0].src + " => " + trees[0],
				Observed: vs[i].style + ": " + vs[i].src + " => " + trees[i],
				Detail:   "two spellings of one expression tree (parentheses / spacing / quotes) do not parse to the same tree"})
			return
		}
	}
	for i, v := range vs {
		want := v.model
		got := "err"
		if tcls[i] == "none" {
			got = "ok:" + trees[i]
		}
		if want == "unmodelled" {
			res.Unmodelled++
			continue
		}
		if want != got {
			res.add(Finding{Kind: "disagreement", Where: "tree:" + v.style, Case: c, Expected: want, Observed: got,
				Detail: "the real parser and the parser model build different trees from " + v.src})
			return
		}
		if want != "ok:"+sexp {
			detail := "the parser model does not read the printed tree back (contradicts the round-trip theorem: generator or extraction problem)"
			if v.style == "hand" {
				detail = "{{ " + v.src + " }} is not read as the tree that the operator table of the property gives this text (parser and parser model agree with each other: the table in the code has changed)"
			}
			res.add(Finding{Kind: "disagreement", Where: "model-roundtrip:" + v.style, Case: c, Expected: "ok:" + sexp, Observed: want, Detail: detail})
			return
		}
	}

	// ---- 2. values: every spelling prints the same (oracle)
	outs := make([]c08Out, len(vs))
	for i, v := range vs {
		outs[i] = c08Render("{{ " + v.src + " }}")
		res.Evaluations++
		if outs[i].cls == "panic" {
			res.add(Finding{Kind: "oracle", Where: "render:" + v.style, Case: c, Observed: outs[i].msg, Detail: "panic while rendering {{ " + v.src + " }}"})
			return
		}
	}
	for i := 1; i < len(vs); i++ {
		if outs[i].cls != outs[0].cls || outs[i].out != outs[0].out {
			res.add(Finding{Kind: "oracle", Where: "spellings:value", Case: c,
				Expected: vs[0].style + ": {{ " + vs[0].src + " }} => " + outs[0].String(),
				Observed: vs[i].style + ": {{ " + vs[i].src + " }} => " + outs[i].String(),
				Detail:   "two spellings of one expression tree do not have the same value"})
			return
		}
	}
	res.Hist["print-outcome:"+outs[0].cls]++

	// ---- 3. reference value: a difference from the reference evaluator is a failing input of the property.
	// When the model of the engine's arithmetic (Model/ExprEvalImpl.v, which follows the shapes recorded in
	// Gen/EvalShape.v and Gen/ArithShape.v) predicts the observed text, the detail says so.
	spec, _ := c["spec"].(map[string]interface{})
	sk, _ := spec["k"].(string)
	impl, _ := c["impl"].(map[string]interface{})
	ik, _ := impl["k"].(string)
	implNote := func(o c08Out) string {
		if ik == "val" && o.cls == "none" && o.out == unhex(impl["text"].(string)) {
			return " (the observed text is what binary64 arithmetic with the extracted toBool / plusZero shapes gives)"
		}
		return ""
	}
	switch sk {
	case "val":
		want := unhex(spec["text"].(string))
		res.Hist["spec:value"]++
		if outs[0].cls != "none" || outs[0].out != want {
			res.add(Finding{Kind: "disagreement", Where: "value-vs-spec", Case: c, Expected: "value " + fmt.Sprintf("%q", want), Observed: outs[0].String(),
				Detail: "{{ " + vs[0].src + " }} does not print the value the reference evaluator Spec.ExprEval gives for the tree" + implNote(outs[0])})
			return
		}
	case "err":
		res.Hist["spec:error"]++
		if outs[0].cls == "none" {
			res.add(Finding{Kind: "disagreement", Where: "value-vs-spec", Case: c, Expected: "error", Observed: outs[0].String(),
				Detail: "{{ " + vs[0].src + " }} printed a value where the reference evaluator has a division or modulo by zero" + implNote(outs[0])})
			return
		}
	default:
		res.Hist["spec:outside-fragment"]++
		res.Unmodelled++
	}
	// truth value in the if position
	if truth := c.str("truth"); truth != "" && outs[0].cls == "none" {
		o := c08Render("{% if " + vs[0].src + " %}T{% else %}F{% endif %}")
		res.Evaluations++
		if o.cls != "none" || o.out != truth {
			res.add(Finding{Kind: "disagreement", Where: "truth-vs-spec", Case: c, Expected: truth, Observed: o.String(),
				Detail: "{% if " + vs[0].src + " %} does not take the branch the reference evaluator gives"})
			return
		}
	}

	// ---- 4. positions, for the first spelling and one more
	which := []int{0}
	if len(vs) > 1 {
		which = append(which, 1+len(sexp)%(len(vs)-1))
	}
	// ... and every spelling that leaves a quote of the other kind unescaped inside a literal
	for i := range vs {
		if strings.Contains(vs[i].style, "-raw-") && i != which[0] && (len(which) < 2 || i != which[1]) {
			which = append(which, i)
		}
	}
	for _, i := range which {
		v := vs[i]
		base := outs[i]
		refCache := map[string]c08Out{"{{ " + v.src + " }}": base}
		get := func(tpl string) c08Out {
			if o, ok := refCache[tpl]; ok {
				return o
			}
			o := c08Render(tpl)
			res.Evaluations++
			refCache[tpl] = o
			return o
		}
		check := func(pos, tpl, ref, tag string) bool {
			got, want := get(tpl), get(ref)
			if got.cls == "panic" {
				res.add(Finding{Kind: "oracle", Where: "position:" + pos, Case: c, Observed: got.msg, Detail: "panic while rendering " + tpl})
				return false
			}
			sameErr := got.cls != "none" && want.cls != "none"
			if !(sameErr || (got.cls == want.cls && got.out == want.out)) {
				res.add(Finding{Kind: "oracle", Where: "position:" + pos, Case: c,
					Expected: ref + " => " + want.String(), Observed: tpl + " => " + got.String() + " " + got.msg,
					Detail: "the expression does not have the same value in position " + pos + " as in the reference position"})
				return false
			}
			if got.cls != "parse" && tcls[i] == "none" {
				lines, err := twig.VerifTemplateExprTrees(tpl)
				res.Evaluations++
				found := false
				for _, l := range lines {
					if strings.HasPrefix(l, tag) && strings.Contains(l, trees[i]) {
						found = true
					}
				}
				if err == nil && !found {
					res.add(Finding{Kind: "oracle", Where: "position-tree:" + pos, Case: c, Expected: trees[i], Observed: strings.Join(lines, " ; "),
						Detail: "the parser does not build the same tree for the expression in position " + pos + ": " + tpl})
					return false
				}
			}
			res.Hist["position:"+pos]++
			return true
		}
		for _, p := range positions {
			if !check(p.name, p.tpl(v.src), p.ref(v.src), p.tag) {
				return
			}
		}
		// the same positions in a template beyond the size at which the engine switches tokenizers
		if i == 0 {
			if !check("print-in-large-template", "{{ "+v.src+" }}"+c08Pad, "{{ "+v.src+" }}", "print ") {
				return
			}
			if !check("set-in-large-template", c08Pad+"{% set zz = "+v.src+" %}{{ zz }}", "{{ "+v.src+" }}", "set ") {
				return
			}
		}
		if listy {
			if !check("for-sequence", c08ForTpl(v.src), c08ForRefTpl(v.src), "for ") {
				return
			}
		}
		if sk == "val" && base.cls == "none" && isDecimal(base.out) {
			if !check("function-arg-max", c08MaxTpl(v.src), "{{ "+v.src+" }}", "print ") {
				return
			}
		}
	}
}

// a comment that contributes nothing but 4200 bytes
var c08Pad = "{#" + strings.Repeat("p", 4200) + "#}"

func isDecimal(s string) bool {
	if s == "" {
		return false
	}
	for i := 0; i < len(s); i++ {
		if !(s[i] >= '0' && s[i] <= '9') && !(i == 0 && s[i] == '-' && len(s) > 1) {
			return false
		}
	}
	return true
}

// malformed expression text: the model's verdict (tree / error) against the real parser; never a panic
func c08Malformed(c Case, res *Result) {
	src := c.hexs("src")
	model := c.str("model")
	res.count("malformed:"+src, false)
	tree, cls := c08Tree(src)
	res.Evaluations++
	if cls == "panic" {
		res.add(Finding{Kind: "oracle", Where: "malformed:parse", Case: c, Observed: tree, Detail: "panic while parsing {{ " + src + " }}"})
		return
	}
	o := c08Render("{{ " + src + " }}")
	res.Evaluations++
	if o.cls == "panic" {
		res.add(Finding{Kind: "oracle", Where: "malformed:render", Case: c, Observed: o.msg, Detail: "panic while rendering {{ " + src + " }}"})
		return
	}
	got := "err"
	if cls == "none" {
		got = "ok:" + tree
	}
	res.Hist["malformed-model:"+strings.SplitN(model, ":", 2)[0]]++
	if model == "unmodelled" {
		res.Unmodelled++
		return
	}
	if model != got {
		res.add(Finding{Kind: "disagreement", Where: "malformed:tree", Case: c, Expected: model, Observed: got,
			Detail: "the real parser and the parser model disagree on {{ " + src + " }}"})
	}
}

func c08Lex(c Case, res *Result) {
	src := c.hexs("src")
	res.count("lex:"+src, false)
	var got []string
	func() {
		defer func() {
			if r := recover(); r != nil {
				got = []string{"PANIC: " + fmt.Sprint(r)}
			}
		}()
		got = twig.VerifExprTokens(src)
	}()
	res.Evaluations++
	var want []string
	for _, x := range c.list("toks") {
		s, _ := x.(string)
		want = append(want, s)
	}
	g, w := strings.Join(got, " "), strings.Join(want, " ")
	if strings.HasPrefix(g, "PANIC") {
		res.add(Finding{Kind: "oracle", Where: "lexer", Case: c, Observed: g, Detail: "panic in TokenizeExpression"})
	} else if g != w {
		res.add(Finding{Kind: "disagreement", Where: "lexer", Case: c, Expected: w, Observed: g, Detail: "TokenizeExpression and the lexer model differ on " + fmt.Sprintf("%q", src)})
	}
}

// witnesses of repaired defects: the demanded output, or a failure
func c08Regress(c Case, res *Result) {
	tpl := c.hexs("tpl")
	demanded := c.hexs("demanded")
	res.count("regress:"+tpl, false)
	o := c08Render(tpl)
	res.Evaluations++
	if o.cls != "none" || o.out != demanded {
		kind := "oracle"
		res.add(Finding{Kind: kind, Where: "regress", Case: c, Expected: fmt.Sprintf("%q", demanded), Observed: o.String() + " " + o.msg,
			Detail: "a template that a repaired defect used to break does not print what the property demands: " + tpl})
	}
}

// the listed known finding: reported as known only when the engine shows exactly the predicted wrong
// behaviour (a parse-class error); the demanded output means it is repaired; anything else is a failure
func c08Known(c Case, res *Result, class string) {
	tpl := c.hexs("tpl")
	demanded := c.hexs("demanded")
	res.count("known:"+tpl, false)
	o := c08Render(tpl)
	res.Evaluations++
	switch {
	case o.cls == "none" && o.out == demanded:
		// repaired: nothing to report
	case o.cls == "parse" && c.str("predicted") == "parse-error":
		res.add(Finding{Kind: "known", Known: class, Where: "render", Case: c, Expected: fmt.Sprintf("%q", demanded), Observed: o.String(),
			Detail: tpl + " is a parse error: the scanner ends the tag at the first closer, also inside a string literal or between two closing braces"})
	default:
		res.add(Finding{Kind: "oracle", Where: "known:" + class, Case: c, Expected: fmt.Sprintf("%q", demanded), Observed: o.String() + " " + o.msg,
			Detail: "neither the demanded output nor the listed known behaviour: " + tpl})
	}
}
