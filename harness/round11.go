package main

import (
	"fmt"
	"os"
	"path/filepath"
	"strings"
	"time"

	"github.com/semihalev/twig"
)

// c09SetsKeepTheirValues: a value assigned by one set is what later reads see, whatever later sets of other names
// derive from the same list (a list grown by merge in a loop has room to grow further).
func c09SetsKeepTheirValues(res *Result) {
	cases := [][2]string{
		{"{% set xs = [] %}{% for i in [1, 2, 3] %}{% set xs = xs|merge([i]) %}{% endfor %}{% set a = xs|merge(['x']) %}{% set b = xs|merge(['y']) %}{{ a|join(',') }}|{{ b|join(',') }}|{{ xs|join(',') }}", "1,2,3,x|1,2,3,y|1,2,3"},
		{"{% set xs = [0] %}{% for i in 1..5 %}{% set xs = xs|merge([i]) %}{% set seen = xs|merge(['view']) %}{% set other = xs|merge(['edit']) %}{{ seen|last }}{{ other|last }},{% endfor %}{{ xs|join('') }}", "viewedit,viewedit,viewedit,viewedit,viewedit,012345"},
		{"{% set base = ['a'] %}{% for i in [1, 2] %}{% set base = base|merge([i]) %}{% endfor %}{% set first = base|merge(['c']) %}{% for j in [1] %}{% set second = base|merge(['d']) %}{% endfor %}{{ first|join('') }}|{{ second|join('') }}", "a12c|a12d"},
		{"{% set xs = [] %}{% for i in [1, 2, 3, 4, 5] %}{% set xs = xs|merge([i]) %}{% endfor %}{% set a = xs|slice(0, 2)|merge(['x']) %}{{ a|join('') }}|{{ xs|join('') }}", "12x|12345"},
	}
	e := twig.New()
	for _, tc := range cases {
		res.Hist["stream:c09-sets-keep-their-values"]++
		if e.RegisterString("t", tc[0]) != nil {
			continue
		}
		res.Evaluations++
		got, err := e.Render("t", map[string]interface{}{})
		if err != nil {
			got = "error: " + err.Error()
		}
		if got != tc[1] {
			res.add(Finding{Kind: "oracle", Where: "c09-sets-keep-their-values", Case: Case{"stream": "c09-sets-keep-their-values", "tpl": tc[0]}, Expected: tc[1], Observed: got,
				Detail: "a later set of another name changed what an earlier set had assigned"})
		}
	}
}

// c11AliasesOfTheIncluder: an included template that imports under an alias the including template also uses leaves
// the including template's alias as it was.
func c11AliasesOfTheIncluder(res *Result) {
	tpls := map[string]string{
		"forms":   "{% macro field(n) %}<input name=\"{{ n }}\">{% endmacro %}{% macro only_forms() %}F{% endmacro %}",
		"widgets": "{% macro field(n) %}<widget id=\"{{ n }}\">{% endmacro %}{% macro extra() %}X{% endmacro %}",
		"partial": "{% import 'widgets' as ui %}[{{ ui.field('p') }}]",
		"from":    "{% from 'widgets' import field %}[{{ field('p') }}]",
	}
	mains := [][2]string{
		{"{% import 'forms' as ui %}{{ ui.field('a') }}{% include 'partial' %}{{ ui.field('b') }}{{ ui.only_forms() }}", "<input name=\"a\">[<widget id=\"p\">]<input name=\"b\">F"},
		{"{% import 'forms' as ui %}{% for i in [1, 2] %}{% include 'partial' %}{{ ui.field(i) }}{% endfor %}", "[<widget id=\"p\">]<input name=\"1\">[<widget id=\"p\">]<input name=\"2\">"},
		{"{% import 'forms' as ui %}{% include 'partial' with {'x': 1} %}{{ ui.field('b') }}", "[<widget id=\"p\">]<input name=\"b\">"},
		{"{% from 'forms' import field %}{{ field('a') }}{% include 'from' %}{{ field('b') }}", "<input name=\"a\">[<widget id=\"p\">]<input name=\"b\">"},
		{"{% import 'forms' as ui %}{% include 'partial' %}{% if ui.extra is defined %}leaked{% endif %}{{ ui.field('b') }}", "[<widget id=\"p\">]<input name=\"b\">"},
	}
	for _, m := range mains {
		e := twig.New()
		for n, s := range tpls {
			e.RegisterString(n, s)
		}
		if e.RegisterString("main", m[0]) != nil {
			continue
		}
		res.Hist["stream:c11-aliases-of-the-includer"]++
		for i := 0; i < 2; i++ {
			res.Evaluations++
			got, err := e.Render("main", map[string]interface{}{})
			if err != nil {
				got = "error: " + err.Error()
			}
			if got != m[1] {
				res.add(Finding{Kind: "oracle", Where: "c11-aliases-of-the-includer", Case: Case{"stream": "c11-aliases-of-the-includer", "main": m[0], "partial": tpls["partial"]}, Expected: m[1], Observed: got,
					Detail: "the included template imported another library under the same alias; afterwards the including template's alias still names its own library"})
				break
			}
		}
	}
}

// c12CallsSeveralMacrosDeep: a macro the page from-imported (with or without an alias) or defined gives the same output
// called directly and from macros that call macros, at every depth.
func c12CallsSeveralMacrosDeep(res *Result) {
	const lib = "{% macro bold(x) %}<b>{{ x }}</b>{% endmacro %}"
	heads := []struct{ name, src, call string }{
		{"from-alias", "{% from 'lib' import bold as strong %}", "strong"}, {"from", "{% from 'lib' import bold %}", "bold"},
		{"own", "{% macro bold(x) %}<b>{{ x }}</b>{% endmacro %}", "bold"}, {"import", "{% import 'lib' as l %}", "l.bold"},
	}
	for _, h := range heads {
		for depth := 0; depth <= 5; depth++ {
			var sb strings.Builder
			sb.WriteString(h.src)
			sb.WriteString("{% macro m0(x) %}{{ " + h.call + "(x) }}{% endmacro %}")
			for d := 1; d <= depth; d++ {
				fmt.Fprintf(&sb, "{%% macro m%d(x) %%}{{ _self.m%d(x) }}{%% endmacro %%}", d, d-1)
			}
			fmt.Fprintf(&sb, "{{ _self.m%d('v') }}", depth)
			e := twig.New()
			e.RegisterString("lib", lib)
			if e.RegisterString("main", sb.String()) != nil {
				continue
			}
			res.Hist["stream:c12-calls-several-macros-deep"]++
			res.Evaluations++
			got, err := e.Render("main", map[string]interface{}{})
			if err != nil {
				got = "error: " + err.Error()
			}
			if got != "<b>v</b>" {
				res.add(Finding{Kind: "oracle", Where: "c12-calls-several-macros-deep/" + h.name, Case: Case{"stream": "c12-calls-several-macros-deep", "main": sb.String(), "depth": depth}, Expected: "<b>v</b>", Observed: got,
					Detail: "the helper is reached from a macro called by a macro ... as it is reached from the page"})
				break
			}
		}
	}
}

// c16RelativeNamesSurvive: a template with a directory in its name and relative includes / parents, compiled on one
// engine and loaded from the serialised form on another, renders like the original.
func c16RelativeNamesSurvive(cases string, res *Result) {
	dir := filepath.Join(filepath.Dir(cases), "c16relative")
	defer os.RemoveAll(dir)
	srcs := map[string]string{
		"mail/letter.twig": "{% extends './layout.twig' %}{% block body %}Dear {{ v }} {% include './_footer.twig' %}{% import '../lib/m.twig' as m %}{{ m.sig(v) }}{% endblock %}",
		"mail/layout.twig": "<mail>{% block body %}{% endblock %}</mail>", "mail/_footer.twig": "-- mail team", "lib/m.twig": "{% macro sig(x) %}[{{ x }}]{% endmacro %}",
		"_footer.twig": "WRONG FOOTER", "layout.twig": "<wrong>{% block body %}{% endblock %}</wrong>", "./_footer.twig": "LITERAL NAME", "./layout.twig": "<literal>{% block body %}{% endblock %}</literal>",
	}
	a := twig.New()
	for n, s := range srcs {
		a.RegisterString(n, s)
	}
	ctx := map[string]interface{}{"v": "Ann"}
	want, err := a.Render("mail/letter.twig", ctx)
	if err != nil {
		return
	}
	names := []string{"mail/letter.twig", "mail/layout.twig", "mail/_footer.twig", "lib/m.twig", "_footer.twig", "layout.twig", "./_footer.twig", "./layout.twig"}
	routes := []struct {
		name string
		put  func(b *twig.Engine, n string) error
	}{
		{"LoadFromCompiledData", func(b *twig.Engine, n string) error {
			t, err := a.Load(n)
			if err != nil {
				return err
			}
			data, err := t.SaveCompiled()
			if err != nil {
				return err
			}
			return b.LoadFromCompiledData(data)
		}},
		{"RegisterCompiledTemplate", func(b *twig.Engine, n string) error {
			ct, err := a.CompileTemplate(n)
			if err != nil {
				return err
			}
			return b.RegisterCompiledTemplate(ct)
		}},
		{"Serialize + Deserialize + RegisterCompiledTemplate", func(b *twig.Engine, n string) error {
			ct, err := a.CompileTemplate(n)
			if err != nil {
				return err
			}
			data, err := twig.SerializeCompiledTemplate(ct)
			if err != nil {
				return err
			}
			ct2, err := twig.DeserializeCompiledTemplate(data)
			if err != nil {
				return err
			}
			return b.RegisterCompiledTemplate(ct2)
		}},
	}
	for _, rt := range routes {
		b := twig.New()
		ok := true
		for _, n := range names {
			if rt.put(b, n) != nil {
				ok = false
			}
		}
		if !ok {
			continue
		}
		res.Hist["stream:relative-names-survive"]++
		res.Evaluations++
		got, err := b.Render("mail/letter.twig", ctx)
		if err != nil {
			got = "error: " + err.Error()
		}
		if got != want {
			res.add(Finding{Kind: "oracle", Where: "relative-names-survive/" + rt.name, Case: Case{"stream": "relative-names-survive", "route": rt.name, "template": srcs["mail/letter.twig"]}, Expected: want, Observed: got,
				Detail: "the compiled form registered on another engine resolves ./ and ../ against the template's own directory, as the original does"})
		}
	}
	// CompiledLoader directory with sub-directories
	os.RemoveAll(dir)
	os.MkdirAll(dir, 0o755)
	cl := twig.NewCompiledLoader(dir)
	saved := true
	for _, n := range names[:4] {
		if cl.SaveCompiled(a, n) != nil {
			saved = false
		}
	}
	if saved {
		b := twig.New()
		b.RegisterLoader(twig.NewCompiledLoader(dir))
		res.Evaluations++
		if got, err := b.Render("mail/letter.twig", ctx); err == nil && got != want {
			res.add(Finding{Kind: "oracle", Where: "relative-names-survive/CompiledLoader", Case: Case{"stream": "relative-names-survive", "route": "CompiledLoader"}, Expected: want, Observed: got})
		}
	}
}

// C20Level / C20Text are defined types with a String method; a field of such a type is such a value.
type C20Level int

func (l C20Level) String() string { return [...]string{"info", "warning", "error"}[int(l)%3] }

type C20Text string

func (t C20Text) String() string { return "text:" + string(t) }

type C20Ratio float64

func (r C20Ratio) String() string { return fmt.Sprintf("%.0f%%", float64(r)*100) }

type C20Flag bool

func (f C20Flag) String() string { return map[bool]string{true: "on", false: "off"}[bool(f)] }

type C20Job struct {
	Timeout time.Duration
	Level   C20Level
	Label   C20Text
	Share   C20Ratio
	Active  C20Flag
	Plain   string
	Count   int
	When    time.Month
}

// c20FieldsAreTheValuesTheyHold: x.Field is the value the field holds, of the type it has: printed, compared and
// passed on exactly as the same value handed over under a name of its own.
func c20FieldsAreTheValuesTheyHold(res *Result) {
	job := C20Job{Timeout: 90 * time.Second, Level: 1, Label: "l", Share: 0.25, Active: true, Plain: "p", Count: 3, When: time.March}
	direct := map[string]interface{}{"Timeout": job.Timeout, "Level": job.Level, "Label": job.Label, "Share": job.Share, "Active": job.Active, "Plain": job.Plain, "Count": job.Count, "When": job.When}
	forms := []string{"{{ $ }}", "{{ $ ~ '' }}", "[{{ [$]|join(',') }}]", "{% set v = $ %}{{ v }}", "{{ $|upper }}", "{% for q in [$] %}{{ q }}{% endfor %}", "{{ $|default('d') }}", "{{ $|length }}", "{{ $|json_encode }}"}
	e := twig.New()
	for field, val := range direct {
		for _, obj := range []string{"job", "pjob", "m.job", "jobs[0]"} {
			for _, f := range forms {
				viaAttr := strings.ReplaceAll(f, "$", obj+"."+field)
				viaName := strings.ReplaceAll(f, "$", "direct")
				ctx := map[string]interface{}{"job": job, "pjob": &job, "m": map[string]interface{}{"job": job}, "jobs": []C20Job{job}, "direct": val}
				render := func(src string) string {
					if e.RegisterString("t", src) != nil {
						return "parse error"
					}
					out, err := e.Render("t", ctx)
					if err != nil {
						return "error"
					}
					return out
				}
				res.Hist["stream:fields-are-the-values-they-hold"]++
				res.Evaluations += 2
				got, want := render(viaAttr), render(viaName)
				if got != want {
					res.add(Finding{Kind: "oracle", Where: "fields-are-the-values-they-hold/" + field, Case: Case{"stream": "fields-are-the-values-they-hold", "tpl": viaAttr, "field type": fmt.Sprintf("%T", val)}, Expected: want, Observed: got,
						Detail: "the same value handed over under a name of its own gives the expected output"})
					return
				}
			}
		}
	}
}
