package main

import (
	"encoding/json"
	"errors"
	"fmt"
	"reflect"
	"sort"
	"strconv"
	"strings"
	"unsafe"

	"github.com/semihalev/twig"
)

func init() { runners["C20"] = runC20 }

// C20: attribute access through real templates ({{ x.name }}, {{ x['name'] }}, and both as the argument
// of a probe function that reports the raw value) on values built from the case file: struct types made
// with reflect.StructOf plus the fixed catalogue below, maps, pointers, nils.  Every answer is compared with
//   (a) the model's answer for that step of the history (cache threaded through the history),
//   (b) direct reflection done here, independently of the engine and of the model (the oracle), and
//   (c) the first answer the same lookup gave earlier in the same history (before / after flooding).
// The attribute cache of the engine is process-wide; the hooks of hooks/verif_hooks_attr.go reset it before
// every case (so a replayed case starts from the same empty cache as the model) and report its size
// accounting after every case.  Without the hooks the histories of all cases concatenate, which by
// C20_cache_transparent does not change any predicted answer.

// Optional hooks, nil unless a file harness/c20_hooks.go sets them from /repo/verif_hooks.go:
//
//	c20CacheStats = twig.VerifAttrCacheStats   // len(attributeCache.m), attributeCache.currSize, attributeCache.maxSize
//	c20CacheReset = twig.VerifAttrCacheReset   // empties attributeCache.m and sets currSize to 0 (under the lock)
//
// With the reset every case starts from the empty cache the model starts from; with the statistics the size
// accounting (entries = currSize <= maxSize) is observed on the real cache after every case.
var c20CacheStats func() (int, int, int)
var c20CacheReset func()

// ---------------------------------------------------------------- catalogue (mirrored in ocaml/c20.ml)

type C20Plain struct {
	Name   string
	Age    int
	hidden string
}

type C20Inner struct {
	Name string
	Deep int
}

func (i C20Inner) GetName() string { return i.Name }
func (C20Inner) Hello() string     { return "hello" }
func (i *C20Inner) PtrDeep() int   { return i.Deep }

type C20Outer struct {
	C20Inner
	Title string
}

func (o C20Outer) Arg(n int) string     { return "arg" }
func (o C20Outer) None()                {}
func (o *C20Outer) PtrTitle() string    { return o.Title }
func (o C20Outer) Two() (string, error) { return "two", nil }

// a method at depth 0 and a promoted field of the same name at depth 1
type C20OM struct{ C20Inner }

func (C20OM) Name() string { return "method" }

type c20inner struct {
	X string
	y int
}

type C20UE struct {
	c20inner
	Y int
}

type C20UEP struct {
	*c20inner
	Z string
}

type C20Shadow struct {
	C20Plain
	Name string
}

// Name is ambiguous (two fields at depth 1)
type C20Amb struct {
	C20Plain
	C20Inner
}

type C20Deep struct {
	*C20Outer
	Extra string
}

type C20PtrM struct{ A string }

func (p *C20PtrM) GetA() string { return p.A }
func (p *C20PtrM) Ptr() string  { return "ptr" }
func (p C20PtrM) Val() string   { return "val" }

// a named string type as a map key
type C20Key string

// every method has a pointer receiver: the value type itself has an empty method set
type C20PtrOnly struct{ A string }

func (p *C20PtrOnly) GetA() string { return p.A }
func (p *C20PtrOnly) Ptr() string  { return "ptronly" }

// two different named types with the same reflect Name()
func c20SameA() reflect.Type {
	type Same struct {
		A string
		B int
	}
	return reflect.TypeOf(Same{})
}

func c20SameB() reflect.Type {
	type Same struct {
		B int
		A string
	}
	return reflect.TypeOf(Same{})
}

var c20Catalogue = map[string]reflect.Type{
	"C20Plain": reflect.TypeOf(C20Plain{}), "C20Inner": reflect.TypeOf(C20Inner{}), "C20Outer": reflect.TypeOf(C20Outer{}),
	"C20OM": reflect.TypeOf(C20OM{}), "c20inner": reflect.TypeOf(c20inner{}), "C20UE": reflect.TypeOf(C20UE{}),
	"C20UEP": reflect.TypeOf(C20UEP{}), "C20Shadow": reflect.TypeOf(C20Shadow{}), "C20Amb": reflect.TypeOf(C20Amb{}),
	"C20Deep": reflect.TypeOf(C20Deep{}), "C20SameA": c20SameA(), "C20SameB": c20SameB(), "C20PtrM": reflect.TypeOf(C20PtrM{}),
	"C20PtrOnly": reflect.TypeOf(C20PtrOnly{}),
}

// ---------------------------------------------------------------- building types and values

const c20Pkg = "verifharness"

var c20TypeCache = map[string]reflect.Type{}

func c20Exported(n string) bool { return n != "" && n[0] >= 'A' && n[0] <= 'Z' }

func c20Type(d map[string]interface{}) reflect.Type {
	if c, ok := d["cat"].(string); ok {
		t, ok := c20Catalogue[c]
		if !ok {
			panic("c20: unknown catalogue type " + c)
		}
		return t
	}
	key, _ := json.Marshal(d)
	if t, ok := c20TypeCache[string(key)]; ok {
		return t
	}
	var sf []reflect.StructField
	for _, fi := range d["fields"].([]interface{}) {
		f := fi.(map[string]interface{})
		n := f["n"].(string)
		fld := reflect.StructField{Name: n}
		if !c20Exported(n) {
			fld.PkgPath = c20Pkg
		}
		switch f["k"].(string) {
		case "str":
			fld.Type = reflect.TypeOf("")
		case "int":
			fld.Type = reflect.TypeOf(0)
		case "emb":
			fld.Type = c20Type(f["t"].(map[string]interface{}))
			fld.Anonymous = true
		case "embp":
			fld.Type = reflect.PointerTo(c20Type(f["t"].(map[string]interface{})))
			fld.Anonymous = true
		default:
			panic("c20: unknown field kind")
		}
		sf = append(sf, fld)
	}
	t := reflect.StructOf(sf)
	c20TypeCache[string(key)] = t
	return t
}

// c20Set stores src into a field, unexported ones included (the struct was allocated here, so it is addressable)
func c20Set(dst, src reflect.Value) {
	if !dst.CanSet() {
		dst = reflect.NewAt(dst.Type(), unsafe.Pointer(dst.UnsafeAddr())).Elem()
	}
	dst.Set(src)
}

// c20Value returns the described value; an invalid Value stands for the nil interface
func c20Value(d map[string]interface{}) reflect.Value {
	if _, ok := d["nil"]; ok {
		return reflect.Value{}
	}
	if s, ok := d["s"].(string); ok {
		return reflect.ValueOf(unhex(s))
	}
	if i, ok := d["i"].(float64); ok {
		return reflect.ValueOf(int(i))
	}
	if t, ok := d["t"].(map[string]interface{}); ok {
		rv := reflect.New(c20Type(t)).Elem()
		for i, fd := range d["f"].([]interface{}) {
			fv := c20Value(fd.(map[string]interface{}))
			if fv.IsValid() {
				c20Set(rv.Field(i), fv)
			}
		}
		return rv
	}
	if p, ok := d["ptr"].(map[string]interface{}); ok {
		inner := c20Value(p)
		pv := reflect.New(inner.Type())
		pv.Elem().Set(inner)
		return pv
	}
	if t, ok := d["nilptr"].(map[string]interface{}); ok {
		return reflect.Zero(reflect.PointerTo(c20Type(t)))
	}
	if kind, ok := d["map"].(string); ok {
		kv := d["kv"].([]interface{})
		switch kind {
		case "generic":
			m := map[string]interface{}{}
			for _, e := range kv {
				p := e.([]interface{})
				v := c20Value(p[1].(map[string]interface{}))
				if v.IsValid() {
					m[unhex(p[0].(string))] = v.Interface()
				} else {
					m[unhex(p[0].(string))] = nil
				}
			}
			return reflect.ValueOf(m)
		case "str":
			m := map[string]string{}
			for _, e := range kv {
				p := e.([]interface{})
				m[unhex(p[0].(string))] = c20Value(p[1].(map[string]interface{})).String()
			}
			return reflect.ValueOf(m)
		case "iface", "named":
			// keys of an interface type (YAML-style maps) and of a named string type
			mi := map[interface{}]interface{}{}
			mn := map[C20Key]interface{}{}
			for _, e := range kv {
				p := e.([]interface{})
				v := c20Value(p[1].(map[string]interface{}))
				var x interface{}
				if v.IsValid() {
					x = v.Interface()
				}
				mi[unhex(p[0].(string))] = x
				mn[C20Key(unhex(p[0].(string)))] = x
			}
			if kind == "iface" {
				return reflect.ValueOf(mi)
			}
			return reflect.ValueOf(mn)
		case "int":
			m := map[string]int{}
			for _, e := range kv {
				p := e.([]interface{})
				m[unhex(p[0].(string))] = int(c20Value(p[1].(map[string]interface{})).Int())
			}
			return reflect.ValueOf(m)
		}
	}
	panic(fmt.Sprintf("c20: bad value description %v", d))
}

// ---------------------------------------------------------------- canonical answers

func c20Enc(v reflect.Value) string {
	if !v.IsValid() {
		return "nil"
	}
	switch v.Kind() {
	case reflect.Interface:
		if v.IsNil() {
			return "nil"
		}
		return c20Enc(v.Elem())
	case reflect.String:
		return "s:" + hx(v.String())
	case reflect.Int, reflect.Int64:
		return "i:" + strconv.FormatInt(v.Int(), 10)
	case reflect.Struct:
		parts := make([]string, v.NumField())
		for i := range parts {
			parts[i] = c20Enc(v.Field(i))
		}
		return "{" + strings.Join(parts, ",") + "}"
	case reflect.Ptr:
		if v.IsNil() {
			return "nilptr"
		}
		return "*" + c20Enc(v.Elem())
	case reflect.Map:
		var parts []string
		for _, k := range v.MapKeys() {
			ks := k.String()
			if k.Kind() == reflect.Interface {
				ks = fmt.Sprint(k.Interface())
			}
			parts = append(parts, hx(ks)+"="+c20Enc(v.MapIndex(k)))
		}
		sort.Strings(parts)
		return "map[" + strings.Join(parts, ",") + "]"
	}
	return "other:" + v.Kind().String()
}

func c20EncIface(x interface{}) string {
	if x == nil {
		return "nil"
	}
	return c20Enc(reflect.ValueOf(x))
}

// the printed form of a leaf answer ({{ }} prints nil as nothing, strings as they are, ints in decimal)
func c20Plain(enc string) (string, bool) {
	switch {
	case enc == "nil":
		return "", true
	case strings.HasPrefix(enc, "s:"):
		return unhex(enc[2:]), true
	case strings.HasPrefix(enc, "i:"):
		return enc[2:], true
	}
	return "", false
}

func c20Kind(enc string) string {
	switch {
	case enc == "nil", enc == "nilptr":
		return enc
	case strings.HasPrefix(enc, "s:"):
		return "string"
	case strings.HasPrefix(enc, "i:"):
		return "int"
	case strings.HasPrefix(enc, "{"):
		return "struct"
	case strings.HasPrefix(enc, "*"):
		return "pointer"
	}
	return "other"
}

// ---------------------------------------------------------------- the oracle: direct reflection

type c20Cand struct {
	path     []int
	exported bool
}

// all fields called name reachable through embedded structs, by depth (the selector rule of the language
// then takes the shallowest depth and requires exactly one field there)
func c20Fields(t reflect.Type, name string, prefix []int, byDepth map[int][]c20Cand, depth int) {
	for i := 0; i < t.NumField(); i++ {
		f := t.Field(i)
		p := append(append([]int{}, prefix...), i)
		if f.Name == name {
			byDepth[depth] = append(byDepth[depth], c20Cand{p, f.PkgPath == ""})
		}
		if f.Anonymous {
			ft := f.Type
			if ft.Kind() == reflect.Ptr {
				ft = ft.Elem()
			}
			if ft.Kind() == reflect.Struct && depth < 16 {
				c20Fields(ft, name, p, byDepth, depth+1)
			}
		}
	}
}

func c20Direct(x interface{}, dot bool, name string) (res string) {
	defer func() {
		if r := recover(); r != nil {
			res = fmt.Sprintf("panic:%v", r)
		}
	}()
	if x == nil {
		return "nil"
	}
	v := reflect.ValueOf(x)
	if v.Kind() == reflect.Map {
		switch v.Type().Key().Kind() {
		case reflect.String:
			return c20Enc(v.MapIndex(reflect.ValueOf(name).Convert(v.Type().Key())))
		case reflect.Interface:
			return c20Enc(v.MapIndex(reflect.ValueOf(name)))
		}
		return "nil"
	}
	if !dot {
		return "nil"
	}
	orig := v
	if v.Kind() == reflect.Ptr {
		if v.IsNil() {
			return "nil"
		}
		v = v.Elem()
	}
	if v.Kind() != reflect.Struct {
		return "nil"
	}
	byDepth := map[int][]c20Cand{}
	c20Fields(v.Type(), name, nil, byDepth, 0)
	for d := 0; d < 20; d++ {
		cs := byDepth[d]
		if len(cs) == 0 {
			continue
		}
		if len(cs) == 1 && cs[0].exported {
			cur, ok := v, true
			for _, i := range cs[0].path {
				if cur.Kind() == reflect.Ptr {
					if cur.IsNil() {
						ok = false
						break
					}
					cur = cur.Elem()
				}
				cur = cur.Field(i)
			}
			if ok {
				return c20Enc(cur)
			}
		}
		break
	}
	recv := orig
	if orig.Kind() != reflect.Ptr {
		recv = reflect.New(v.Type())
		recv.Elem().Set(v)
	}
	m := recv.MethodByName(name)
	if m.IsValid() && m.Type().NumIn() == 0 {
		out := m.Call(nil)
		if len(out) == 0 {
			return "nil"
		}
		return c20Enc(out[0])
	}
	return "nil"
}

// ---------------------------------------------------------------- mirror check

func c20CheckMirror(c Case, res *Result) {
	for _, ci := range c.list("catalogue") {
		m := ci.(map[string]interface{})
		name := m["cat"].(string)
		t, ok := c20Catalogue[name]
		if !ok {
			res.add(Finding{Kind: "disagreement", Where: "catalogue-mirror", Case: m, Detail: "type missing in harness/c20.go"})
			continue
		}
		var want, got []string
		for _, fi := range m["fields"].([]interface{}) {
			f := fi.(map[string]interface{})
			want = append(want, fmt.Sprintf("%s/%v/%s", f["n"], f["x"], f["k"]))
		}
		for i := 0; i < t.NumField(); i++ {
			f := t.Field(i)
			k := "other"
			switch {
			case f.Anonymous && f.Type.Kind() == reflect.Struct:
				k = "emb"
			case f.Anonymous && f.Type.Kind() == reflect.Ptr:
				k = "embp"
			case f.Type.Kind() == reflect.String:
				k = "str"
			case f.Type.Kind() == reflect.Int:
				k = "int"
			}
			got = append(got, fmt.Sprintf("%s/%v/%s", f.Name, f.PkgPath == "", k))
		}
		want = append(want, "--")
		got = append(got, "--")
		for _, mi := range m["meths"].([]interface{}) {
			f := mi.(map[string]interface{})
			want = append(want, fmt.Sprintf("%s/%v/%v", f["n"], f["ptr"], f["args"]))
		}
		pt := reflect.PointerTo(t)
		for i := 0; i < pt.NumMethod(); i++ {
			mt := pt.Method(i)
			_, onValue := t.MethodByName(mt.Name)
			got = append(got, fmt.Sprintf("%s/%v/%v", mt.Name, !onValue, mt.Type.NumIn()-1))
		}
		if strings.Join(want, " ") != strings.Join(got, " ") {
			res.add(Finding{Kind: "disagreement", Where: "catalogue-mirror", Case: m,
				Expected: strings.Join(want, " "), Observed: strings.Join(got, " "), Detail: "ocaml/c20.ml does not mirror harness/c20.go"})
		}
	}
	res.Notes = append(res.Notes, fmt.Sprintf("model constants from Gen/AttrConsts.v: maxSize=%d numToEvict=%d", c.num("max_size"), c.num("num_to_evict")))
}

// ---------------------------------------------------------------- runner

func runC20(cases string, res *Result) {
	eng := twig.New()
	eng.AddFunction("c20probe", func(args ...interface{}) (interface{}, error) {
		if len(args) == 0 {
			return "noargs", nil
		}
		return c20EncIface(args[0]), nil
	})
	registered := map[string]bool{}
	tpl := func(kind, name string) string {
		id := "c20." + kind + "." + name
		if registered[id] {
			return id
		}
		var src string
		switch kind {
		case "d":
			src = "{{ x." + name + " }}"
		case "dp":
			src = "{{ c20probe(x." + name + ") }}"
		case "i":
			src = "{{ x['" + name + "'] }}"
		case "ip":
			src = "{{ c20probe(x['" + name + "']) }}"
		}
		if err := eng.RegisterString(id, src); err != nil {
			panic(fmt.Sprintf("c20: template %q does not parse: %v", src, err))
		}
		registered[id] = true
		return id
	}
	render := func(id string, x interface{}) (out string, err error) {
		defer func() {
			if r := recover(); r != nil {
				err = fmt.Errorf("panic: %v", r)
			}
		}()
		res.Evaluations++
		return eng.Render(id, map[string]interface{}{"x": x})
	}
	c20HeldResults(res)
	c20WordLikeNames(res)
	c20MethodValues(res)
	c20AfterSandboxedLookups(res)
	c20AfterPrefixOperators(res)
	c20StrictAndLenientEngines(res)
	c20MethodsAreCalledEachTime(res)
	c20FieldsAreTheValuesTheyHold(res)
	var knownFinding *Finding
	pairsSeen := map[string]bool{}

	readCases(cases, func(c Case) {
		stream := c.str("stream")
		res.Hist["stream:"+stream]++
		if stream == "catalogue-mirror" {
			c20CheckMirror(c, res)
			return
		}
		if c20CacheReset != nil {
			c20CacheReset()
		}
		vdescs := c.list("values")
		vals := make([]interface{}, len(vdescs))
		for i, d := range vdescs {
			if v := c20Value(d.(map[string]interface{})); v.IsValid() {
				vals[i] = v.Interface()
			}
		}
		steps := c.list("steps")
		first := map[string]string{}
		nontrivial := stream == "flood" || strings.HasPrefix(stream, "hot-")
		for si, s0 := range steps {
			s := s0.(map[string]interface{})
			vi := int(s["v"].(float64))
			dot := s["a"].(string) == "dot"
			name := s["n"].(string)
			exp := s["exp"].(string)
			spec := s["spec"].(string)
			cls, _ := s["cls"].(string)
			x := vals[vi]
			small := map[string]interface{}{"stream": stream, "values": []interface{}{vdescs[vi]}, "steps": []interface{}{map[string]interface{}{
				"v": 0, "a": s["a"], "n": name, "exp": exp, "spec": spec, "cls": cls}}, "step_index": si, "history_len": len(steps)}
			// the first findings carry the whole history up to the failing step, so that the replay starts from
			// an empty cache and walks the same lookups
			full := func() map[string]interface{} {
				if res.OracleFails+res.Disagreements < 3 && si < 12000 {
					return map[string]interface{}{"stream": stream, "values": vdescs, "steps": steps[:si+1], "step_index": si, "history_len": len(steps)}
				}
				return small
			}
			where := stream + ":" + s["a"].(string)
			if x != nil && dot {
				t := reflect.TypeOf(x)
				isPtr := t.Kind() == reflect.Ptr
				if isPtr {
					t = t.Elem()
				}
				if t.Kind() == reflect.Struct {
					// non-trivial (DESIGN A.5): a lookup on a pointer or on a type with an embedded struct
					if isPtr {
						nontrivial = true
					}
					for i := 0; i < t.NumField() && !nontrivial; i++ {
						nontrivial = t.Field(i).Anonymous
					}
					pairsSeen[t.String()+"|"+name] = true
				}
			}
			kp, kplain := "dp", "d"
			if !dot {
				kp, kplain = "ip", "i"
			}
			got, err := render(tpl(kp, name), x)
			if err != nil {
				res.add(Finding{Kind: "oracle", Where: where, Case: full(), Expected: exp, Detail: "render error: " + err.Error()})
				continue
			}
			direct := c20Direct(x, dot, name)
			res.Hist["answer:"+c20Kind(got)]++
			// (c) the same lookup earlier in this history
			key := fmt.Sprintf("%d|%v|%s", vi, dot, name)
			if prev, ok := first[key]; ok {
				if prev != got {
					res.add(Finding{Kind: "oracle", Where: where, Case: full(), Expected: prev, Observed: got,
						Detail: fmt.Sprintf("the same lookup answered differently earlier in this history (step %d of %d): the answer depends on what was looked up before", si, len(steps))})
					continue
				}
			} else {
				first[key] = got
			}
			switch {
			case got != direct:
				if cls == "typed-map-dot" && got == exp {
					// known class: the faithful model predicts the same wrong observable
					res.Hist["known:typed-map-dot"]++
					if knownFinding == nil {
						// added after all other findings, so that a listed or unlisted known class never hides a new failure
						knownFinding = &Finding{Kind: "oracle", Where: where, Case: small, Expected: spec, Observed: got, Known: "typed-map-dot",
							Detail: "x.name on a typed map (not map[string]interface{}) gives nothing although the key is present; x['name'] gives the value"}
					}
				} else {
					res.add(Finding{Kind: "oracle", Where: where, Case: full(), Expected: direct, Observed: got,
						Detail: "the engine's answer differs from direct reflection on the same value (model: " + exp + ", spec: " + spec + ")"})
				}
				continue
			case got != exp:
				res.add(Finding{Kind: "disagreement", Where: where, Case: full(), Expected: exp, Observed: got,
					Detail: "model and implementation differ; direct reflection agrees with the implementation"})
				continue
			case spec != direct && cls == "":
				res.add(Finding{Kind: "disagreement", Where: where + ":spec", Case: small, Expected: spec, Observed: direct,
					Detail: "Spec layer and direct reflection differ (engine agrees with direct reflection)"})
				continue
			}
			// the printed form, through GetAttrNode.Render / GetItemNode.Render
			if want, leaf := c20Plain(direct); leaf {
				out, err := render(tpl(kplain, name), x)
				if err != nil {
					res.add(Finding{Kind: "oracle", Where: where + ":print", Case: small, Expected: want, Detail: "render error: " + err.Error()})
				} else if out != want && !(cls == "typed-map-dot" && out == "") {
					res.add(Finding{Kind: "oracle", Where: where + ":print", Case: small, Expected: hx(want), Observed: hx(out),
						Detail: "printed attribute differs from direct reflection"})
				}
			}
		}
		kb, _ := json.Marshal([]interface{}{c["values"], c["steps"]})
		res.count(string(kb), nontrivial)
		for _, n := range c.list("model_notes") {
			// the model left its proved envelope (the translator read an unexpected shape): answers are still checked
			// against direct reflection and against earlier answers of the same history
			res.Hist["model_note:"+fmt.Sprint(n)]++
		}
		if stream == "flood" || strings.HasPrefix(stream, "hot-") {
			res.Hist["flood:steps"] += len(steps)
		}
		if len(steps) > 0 && stream == "small" {
			res.sample(map[string]interface{}{"values": len(vdescs), "steps": len(steps), "first_step": steps[0], "first_value": vdescs[int(steps[0].(map[string]interface{})["v"].(float64))]}, 6)
		}
		if c20CacheStats != nil {
			n, cur, max := c20CacheStats()
			res.Hist["cache_stats_checked"]++
			if n != cur || n > max {
				// the answers are unaffected (that is the theorem); what fails is the accounting the model mirrors
				res.add(Finding{Kind: "disagreement", Where: "cache-accounting", Case: c, Expected: "entries = currSize <= maxSize",
					Observed: fmt.Sprintf("entries=%d currSize=%d maxSize=%d", n, cur, max),
					Detail:   fmt.Sprintf("after this history attributeCache has %d entries, currSize %d, maxSize %d (currSize must be the number of entries and at most maxSize)", n, cur, max)})
			} else if want, ok := c["cache_len"].(float64); ok && want >= 0 && c20CacheReset != nil && n != int(want) {
				// no eviction in this history: the cache holds exactly the distinct (struct type, name) pairs
				res.add(Finding{Kind: "disagreement", Where: "cache-keys", Case: c, Expected: strconv.Itoa(int(want)), Observed: strconv.Itoa(n),
					Detail: "number of cache entries after a history without eviction differs from the model (keys are (element struct type, name))"})
			}
			if n > res.Hist["cache_entries_max"] {
				res.Hist["cache_entries_max"] = n
			}
		}
	})
	if knownFinding != nil {
		if len(res.Findings) >= 40 {
			res.Findings = res.Findings[:39]
		}
		res.add(*knownFinding)
	}
	res.Hist["distinct_struct_type_name_pairs"] = len(pairsSeen)
	if c20CacheStats == nil {
		res.Notes = append(res.Notes, "no cache hook: the size accounting of attributeCache (currSize = number of entries <= maxSize) is covered by the translator shape check and C20_cache_bounded only")
	} else {
		res.Notes = append(res.Notes, "cache reset before every case and entries = currSize <= maxSize observed after every case through hooks/verif_hooks_attr.go; entry count compared with the model on histories without eviction")
	}
}

// ---------------------------------------------------------------- results that are kept

type C20Cust struct {
	Name string
	N    int
}
type C20Order struct {
	customer C20Cust
	Tags     []string
	Total    int
}

func (o *C20Order) Customer() *C20Cust { return &o.customer }
func (o *C20Order) TagList() []string  { return o.Tags }
func (o *C20Order) Self() *C20Order    { return o }
func (o C20Order) Copy() *C20Cust      { c := o.customer; return &c }

// c20HeldResults: the value a method yields is that method's value for that object -- also when the template keeps
// it (set, a list, a loop variable) while the same attribute is looked up on other objects of the same type. The
// objects are struct values and pointers; the methods have pointer receivers and return something that refers to
// their receiver.
func c20HeldResults(res *Result) {
	mk := func() map[string]interface{} {
		a := C20Order{customer: C20Cust{"alice", 100}, Tags: []string{"a1", "a2"}, Total: 1}
		b := C20Order{customer: C20Cust{"bob", 200}, Tags: []string{"b1"}, Total: 2}
		c := C20Order{customer: C20Cust{"carol", 300}, Tags: []string{"c1", "c2", "c3"}, Total: 3}
		return map[string]interface{}{"first": a, "second": b, "pfirst": &a, "psecond": &b, "orders": []C20Order{a, b, c}, "porders": []*C20Order{&a, &b, &c},
			"iorders": []interface{}{a, &b, c}}
	}
	tpls := [][2]string{
		{"{% set a = first.Customer %}{% set b = second.Customer %}{{ a.Name }}/{{ b.Name }}|{{ a.N }}/{{ b.N }}", "alice/bob|100/200"},
		{"{% set a = pfirst.Customer %}{% set b = psecond.Customer %}{{ a.Name }}/{{ b.Name }}|{{ first.Customer.N }}", "alice/bob|100"},
		{"{% set a = first.Customer %}{% set b = psecond.Customer %}{% set c = second.Customer %}{{ a.Name }}{{ b.Name }}{{ c.Name }}{{ a.N + c.N }}", "alicebobbob300"},
		{"{% set held = [] %}{% for o in orders %}{% set held = held|merge([o.Customer]) %}{% endfor %}{% for c in held %}{{ c.Name }}{{ c.N }},{% endfor %}", "alice100,bob200,carol300,"},
		{"{% set held = [] %}{% for o in iorders %}{% set held = held|merge([o.Customer]) %}{% endfor %}{% for c in held %}{{ c.Name }},{% endfor %}", "alice,bob,carol,"},
		{"{% set t = first.TagList %}{% set u = second.TagList %}{{ t|join('+') }}|{{ u|join('+') }}|{{ t|length }}", "a1+a2|b1|2"},
		{"{% set s = first.Self %}{% set r = second.Self %}{{ s.Total }}{{ r.Total }}{{ s.Customer.Name }}{{ r.Customer.Name }}", "12alicebob"},
		{"{% set a = first.Copy %}{% set b = second.Copy %}{{ a.Name }}{{ b.Name }}", "alicebob"},
		{"{% for o in porders %}{% set k = o.Customer %}{% for q in orders %}{{ q.Customer.Name|first }}{% endfor %}{{ k.Name }};{% endfor %}", "abcalice;abcbob;abccarol;"},
		{"{{ first.Customer.Name }}{{ second.Customer.Name }}{{ first.Customer.Name }}", "alicebobalice"},
	}
	eng := twig.New()
	for i, tp := range tpls {
		name := fmt.Sprintf("held%d", i)
		if err := eng.RegisterString(name, tp[0]); err != nil {
			panic("c20 held results: template does not parse: " + tp[0] + ": " + err.Error())
		}
		for round := 0; round < 20; round++ {
			res.Evaluations++
			res.Hist["stream:held-results"]++
			got, err := eng.Render(name, mk())
			if err != nil {
				got = "error: " + err.Error()
			}
			if got != tp[1] {
				res.add(Finding{Kind: "oracle", Where: "held-results", Case: Case{"stream": "held-results", "tpl": tp[0], "round": round}, Expected: tp[1], Observed: got,
					Detail: "the value a pointer-receiver method yielded for one object changed (or was wrong) once the same attribute had been looked up on another object"})
				break
			}
		}
	}
}

// c20WordLikeNames: attribute names that are also words of the expression language (constants in several spellings,
// operator words, test names): after a dot they are names like any other -- the key of a map, the field or method
// of a struct -- and the dot and bracket forms agree.
func c20WordLikeNames(res *Result) {
	words := []string{"none", "NONE", "None", "true", "TRUE", "True", "false", "FALSE", "null", "NULL", "Null", "nil", "and", "or", "not", "in", "is", "matches", "defined", "empty",
		"even", "odd", "starts", "ends", "with", "if", "else", "for", "set", "block", "loop", "_self", "e", "length", "first", "keys", "default"}
	m := map[string]interface{}{}
	ms := map[string]string{}
	var fields []reflect.StructField
	for _, w := range words {
		m[w] = "value-of-" + w
		ms[w] = "text-of-" + w
		if w[0] >= 'A' && w[0] <= 'Z' {
			fields = append(fields, reflect.StructField{Name: w, Type: reflect.TypeOf("")})
		}
	}
	st := reflect.New(reflect.StructOf(fields)).Elem()
	for i, f := range fields {
		st.Field(i).SetString("field-" + f.Name)
	}
	eng := twig.New()
	ctx := map[string]interface{}{"m": m, "ms": ms, "st": st.Interface(), "pst": st.Addr().Interface()}
	for _, w := range words {
		for _, tc := range []struct{ tpl, want string }{
			{"{{ m." + w + " }}", "value-of-" + w}, {"{{ m['" + w + "'] }}", "value-of-" + w}, {"{{ ms." + w + " }}", "text-of-" + w},
			{"{% if m." + w + " is defined %}d{% else %}u{% endif %}", "d"}, {"{% set q = m." + w + " %}{{ q }}", "value-of-" + w},
		} {
			res.Evaluations++
			res.Hist["stream:word-like-names"]++
			name := "w:" + tc.tpl
			if err := eng.RegisterString(name, tc.tpl); err != nil {
				res.Hist["word-like-names: not accepted after a dot"]++
				continue
			}
			got, err := eng.Render(name, ctx)
			if err != nil {
				got = "error: " + err.Error()
			}
			if got != tc.want {
				res.add(Finding{Kind: "oracle", Where: "word-like-names", Case: Case{"stream": "word-like-names", "tpl": tc.tpl}, Expected: tc.want, Observed: got,
					Detail: "the map holds the key " + strconv.Quote(w) + "; the attribute access did not yield its value"})
			}
		}
		if w[0] >= 'A' && w[0] <= 'Z' {
			for _, obj := range []string{"st", "pst"} {
				tpl := "{{ " + obj + "." + w + " }}"
				res.Evaluations++
				if err := eng.RegisterString("w:"+tpl, tpl); err != nil {
					continue
				}
				got, err := eng.Render("w:"+tpl, ctx)
				if err != nil {
					got = "error: " + err.Error()
				}
				if got != "field-"+w {
					res.add(Finding{Kind: "oracle", Where: "word-like-names", Case: Case{"stream": "word-like-names", "tpl": tpl}, Expected: "field-" + w, Observed: got,
						Detail: "the struct has the exported field " + w})
				}
			}
		}
	}
}

type C20Scanner struct{ msg string }

func (s C20Scanner) Err() error             { return errors.New(s.msg) }
func (s *C20Scanner) PtrErr() error         { return errors.New("ptr " + s.msg) }
func (s C20Scanner) NoErr() error           { return nil }
func (s C20Scanner) Text() string           { return "text " + s.msg }
func (s C20Scanner) Flag() bool             { return true }
func (s C20Scanner) Nums() []int            { return []int{1, 2} }
func (s C20Scanner) Stringer() fmt.Stringer { return c20Str("st " + s.msg) }

type c20Str string

func (s c20Str) String() string { return string(s) }

type C20Wrap struct {
	C20Scanner
	Name string
}

// c20MethodValues: a zero-argument method yields its value whatever the type of that value is -- an error (nil or
// not), a Stringer, a slice -- on values, pointers and through embedding.
func c20MethodValues(res *Result) {
	eng := twig.New()
	objs := map[string]interface{}{"v": C20Scanner{"eof"}, "p": &C20Scanner{"eof"}, "w": C20Wrap{C20Scanner{"eof"}, "n"}, "pw": &C20Wrap{C20Scanner{"eof"}, "n"}}
	for obj := range objs {
		for _, tc := range []struct{ tpl, want string }{
			{"{{ $.Err }}", "eof"}, {"{% if $.Err %}failed{% else %}fine{% endif %}", "failed"}, {"{{ $.Err is null ? 'nil' : 'set' }}", "set"}, {"{{ $.NoErr is null ? 'nil' : 'set' }}", "nil"},
			{"{{ $.NoErr }}|{{ $.Text }}", "|text eof"}, {"{{ $.Flag ? 'y' : 'n' }}{{ $.Nums|join(',') }}", "y1,2"}, {"{{ $.Stringer }}", "st eof"}, {"[{{ $.Err }}]{{ $.Text }}", "[eof]text eof"},
		} {
			tpl := strings.ReplaceAll(tc.tpl, "$", obj)
			res.Evaluations++
			res.Hist["stream:method-values"]++
			if err := eng.RegisterString("mv:"+tpl, tpl); err != nil {
				continue
			}
			got, err := eng.Render("mv:"+tpl, objs)
			if err != nil {
				got = "error: " + err.Error()
			}
			if got != tc.want {
				res.add(Finding{Kind: "oracle", Where: "method-values", Case: Case{"stream": "method-values", "tpl": tpl, "object": fmt.Sprintf("%T", objs[obj])}, Expected: tc.want, Observed: got,
					Detail: "the value of a zero-argument method (an error value, nil, a Stringer, a slice) is what the attribute yields"})
			}
		}
	}
	// pointer-receiver method on addressable values
	for _, obj := range []string{"p", "pw"} {
		tpl := "{{ " + obj + ".PtrErr }}"
		res.Evaluations++
		eng.RegisterString("mv:"+tpl, tpl)
		if got, err := eng.Render("mv:"+tpl, objs); err != nil || got != "ptr eof" {
			res.add(Finding{Kind: "oracle", Where: "method-values", Case: Case{"stream": "method-values", "tpl": tpl}, Expected: "ptr eof", Observed: fmt.Sprintf("%q err=%v", got, err)})
		}
	}
}
