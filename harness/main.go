package main

import (
	"fmt"
	"os"
)

var runners = map[string]func(cases string, res *Result){}

func main() {
	if len(os.Args) < 4 {
		fmt.Fprintln(os.Stderr, "usage: runner <ID> <cases> <result.json>")
		os.Exit(2)
	}
	id, cases, out := os.Args[1], os.Args[2], os.Args[3]
	run, ok := runners[id]
	if !ok {
		fmt.Fprintln(os.Stderr, "runner: unknown property", id)
		os.Exit(2)
	}
	res := newResult(id)
	run(cases, res)
	res.write(out)
}
