module verifharness

go 1.24.1

require github.com/semihalev/twig v0.0.0

replace github.com/semihalev/twig => /repo
