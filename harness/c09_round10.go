package main

import (
	"github.com/semihalev/twig"
)

// c09DefinedNullsUnderStrictVariables: templates that read defined names only (some of them holding null) render
// the same whether or not the engine is told SetStrictVars(true): no undefined name is read, so there is nothing for
// that option to object to.
func c09DefinedNullsUnderStrictVariables(res *Result) {
	tpls := []string{
		"{% set x = null %}{% if x %}a{% elseif y %}b{% else %}c{% endif %}", "{% if nothing %}a{% else %}b{% endif %}", "{% for i in items %}{{ i }}{% else %}none{% endfor %}",
		"{% for v in withnulls %}{% if v %}[{{ v }}]{% else %}-{% endif %}{% endfor %}", "{% set x = null %}{% set z = x %}{{ z }}|{% set z = 1 %}{{ z }}", "{{ nothing }}|{{ nothing ? 'a' : 'b' }}|{{ not nothing ? 'n' : 'm' }}",
		"{% for k, v in mp %}{{ k }}={{ v }};{% endfor %}", "{% set acc = null %}{% for i in [1, 2] %}{% if acc %}{{ acc }}{% endif %}{% set acc = i %}{% endfor %}{{ acc }}",
		"{% if nothing is null %}null{% endif %}{% if nothing is defined %}defined{% endif %}", "{% for i in nothing %}x{% else %}empty{% endfor %}", "{{ nothing|default('d') }}|{{ items|length }}",
		"{% if nothing and y %}a{% elseif nothing or y %}b{% endif %}", "{% set x = nothing %}{% for i in [1] %}{% if x %}t{% else %}f{% endif %}{% endfor %}",
	}
	ctx := func() map[string]interface{} {
		return map[string]interface{}{"nothing": nil, "y": true, "items": nil, "withnulls": []interface{}{1, nil, "s", nil}, "mp": map[string]interface{}{"a": nil, "b": 2}}
	}
	for _, src := range tpls {
		res.Hist["stream:c09-defined-nulls-under-strict-variables"]++
		plain, strict := twig.New(), twig.New()
		strict.SetStrictVars(true)
		if plain.RegisterString("t", src) != nil || strict.RegisterString("t", src) != nil {
			continue
		}
		res.Evaluations += 2
		want, err := plain.Render("t", ctx())
		if err != nil {
			continue
		}
		got, err := strict.Render("t", ctx())
		if err != nil {
			got = "error: " + err.Error()
		}
		if got != want {
			res.add(Finding{Kind: "oracle", Where: "c09-defined-nulls-under-strict-variables", Case: Case{"stream": "c09-defined-nulls-under-strict-variables", "tpl": src}, Expected: want, Observed: got,
				Detail: "every name the template reads is defined (in the context or by a set); SetStrictVars(true) changes the control flow all the same"})
		}
	}
}
