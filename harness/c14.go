package main

import (
	"encoding/json"
	"fmt"
	"github.com/semihalev/twig"
	"runtime"
	"runtime/debug"
	"strings"
)

func init() { runners["C14"] = runC14 }

const c14Mark = "@@M@@"

func padText(n int) string {
	if n <= 0 {
		return ""
	}
	if n == 1 {
		return "P"
	}
	return "P" + strings.Repeat("x", n-2) + "Q"
}
func padComment(n int) string {
	if n < 4 {
		return "{##}"
	}
	return "{#" + strings.Repeat("c", n-4) + "#}"
}

func assemble(pieces []string, at int, ins string, reps int) string {
	var b strings.Builder
	for r := 0; r < reps; r++ {
		for i, p := range pieces {
			if i == at {
				b.WriteString(ins)
			}
			b.WriteString(p)
		}
		if at == len(pieces) {
			b.WriteString(ins)
		}
	}
	return b.String()
}

// C14: output with a long padding inserted = output with a short marker inserted, the marker replaced
// by the padding (nothing for a comment); both real tokenizers read the padded source alike and as
// the model predicts (token shape).
// c14ManyTags: many small tags (empty comments add nothing to the output) before and after a construct, for every
// small amount of trailing text: the token count crosses whatever capacity the tokenizer reserved for this length at
// some alignment of the construct. The output is the construct's output without the comments.
func c14ManyTags(res *Result) {
	constructs := []struct{ src, want string }{
		{"x {{- a }} y", "xA1 y"}, {"x {{ a -}} y", "x A1y"}, {"x {%- if t %}T{% endif -%} y", "xTy"}, {"x {{ a }} y", "x A1 y"},
		{"x {%- for i in one -%} L {%- endfor %} y", "xL y"},
	}
	for _, cs := range constructs {
		for _, k := range []int{40, 250, 1100} {
			for e := 0; e <= 24; e++ {
				src := strings.Repeat("{##}", k) + cs.src + strings.Repeat("{##}", 4*k) + strings.Repeat("p", e)
				res.Hist["stream:many-tags"]++
				res.Evaluations++
				eng := lexEngine()
				c := Case{"stream": "many-tags", "construct": cs.src, "comments_before": k, "comments_after": 4 * k, "trailing_text": e}
				if err := eng.RegisterString("t", src); err != nil {
					res.add(Finding{Kind: "oracle", Where: "many-tags", Case: c, Expected: cs.want, Detail: "does not parse: " + err.Error()})
					return
				}
				ctx := lexCtx()
				ctx["one"] = []interface{}{1}
				ctx["t"] = true
				got, err := eng.Render("t", ctx)
				want := cs.want + strings.Repeat("p", e)
				if err != nil || got != want {
					res.add(Finding{Kind: "oracle", Where: "many-tags", Case: c, Expected: want, Observed: got + errStr(err),
						Detail: fmt.Sprintf("%d empty comments before and %d after the construct (source of %d bytes) change its output", k, 4*k, len(src))})
					return
				}
			}
		}
	}
}

func runC14(cases string, res *Result) {
	c14ManyTags(res)
	c14ExactCapacities(res)
	c14HeldSerialisedForms(res)
	c14BodiesOfAnySize(res)
	c14StaticTemplates(res)
	c14ThroughLoaders(cases, res)
	readCases(cases, func(c Case) {
		if _, has := c["src"]; has {
			src := c.hexs("src")
			res.Hist["stream:"+c.str("stream")]++
			res.count("src|"+src, false)
			res.Evaluations++
			diff, two := compareTokens(c, src)
			if two != "" {
				res.add(Finding{Kind: "oracle", Where: "tokenizers", Case: c, Detail: "the two tokenizers read the same source differently: " + clip(two)})
			} else if diff != "" {
				res.add(Finding{Kind: "disagreement", Where: "tokens", Case: c, Detail: clip(diff)})
			}
			return
		}
		var pieces []string
		for _, p := range c.list("pieces") {
			pieces = append(pieces, unhex(p.(string)))
		}
		at, n, kind := c.num("at"), c.num("pad_len"), c.str("pad_kind")
		reps := c.num("reps")
		if reps == 0 {
			reps = 1
		}
		pad := padText(n)
		want := pad
		if kind == "comment" {
			pad = padComment(n)
			want = ""
		}
		mark := c14Mark
		if kind == "text" && n == 0 {
			// no padding at all: the marker itself would stand between a dashed delimiter and the whitespace it trims
			mark, want = "", ""
		}
		srcMark := assemble(pieces, at, mark, reps)
		srcPad := assemble(pieces, at, pad, reps)
		base := assemble(pieces, at, "", reps)
		cross := (len(base) <= 4096) != (len(srcPad) <= 4096)
		res.Hist["stream:"+c.str("stream")]++
		res.Hist["pad:"+kind]++
		if cross {
			res.Hist["crosses-4096"]++
		}
		res.count(fmt.Sprintf("%s|%d|%s|%d|%d", strings.Join(pieces, "\x00"), at, kind, n, reps), cross || len(srcPad) > 1024)
		res.sample(map[string]interface{}{"pieces": pieces, "insert_at": at, "pad_kind": kind, "pad_len": n, "padded_total": len(srcPad)}, 8)

		oMark, eMark := lexRender(srcMark)
		oPad, ePad := lexRender(srcPad)
		res.Evaluations += 2
		if eMark == nil && ePad == nil && len(oPad) >= 1024 {
			// a returned result is the caller's: later renders (of any size class) leave it alone
			if first, now := c14HeldResult(srcPad, srcMark); first != now {
				res.add(Finding{Kind: "oracle", Where: "render", Case: map[string]interface{}{"pieces": c["pieces"], "at": at, "pad_kind": kind, "pad_len": n, "reps": reps, "stream": c.str("stream")},
					Expected: clip(first), Observed: clip(now),
					Detail: fmt.Sprintf("the string returned by a render of %d bytes changed while later templates were rendered", len(first))})
				return
			}
			res.Evaluations += 4
		}
		small := map[string]interface{}{"pieces": c["pieces"], "at": at, "pad_kind": kind, "pad_len": n, "reps": reps, "stream": c.str("stream"), "shape": c["shape"]}
		if eMark != nil {
			res.add(Finding{Kind: "disagreement", Where: "render", Case: small, Detail: "base template with marker does not render: " + eMark.Error()})
		} else if ePad != nil {
			res.add(Finding{Kind: "oracle", Where: "render", Case: small, Detail: fmt.Sprintf("padded template (total %d bytes) fails: %v", len(srcPad), ePad)})
		} else if exp := c14Replace(oMark, mark, want); oPad != exp {
			res.add(Finding{Kind: "oracle", Where: "render", Case: small, Expected: clip(exp), Observed: clip(oPad),
				Detail: fmt.Sprintf("inserting %d bytes of %s padding changed the output by more than that padding (lengths: expected %d, got %d)", n, kind, len(exp), len(oPad))})
		}
		// both tokenizers on the padded source
		var shapes [2]string
		var errs [2]error
		for li, large := range []bool{false, true} {
			toks, err := goOuterTokens(srcPad, large, true)
			errs[li] = err
			var sh []interface{}
			for _, t := range toks {
				if t[0] == "T" {
					sh = append(sh, []interface{}{"T", len(t[1]) / 2})
				} else {
					sh = append(sh, []interface{}{"G", t[1], t[2] == "true"})
				}
			}
			b, _ := json.Marshal(sh)
			shapes[li] = string(b)
		}
		res.Evaluations += 2
		if (errs[0] == nil) != (errs[1] == nil) || shapes[0] != shapes[1] {
			res.add(Finding{Kind: "oracle", Where: "tokenizers", Case: small,
				Detail: fmt.Sprintf("the two tokenizers read the same %d-byte source differently: small err=%v %s / large err=%v %s", len(srcPad), errs[0], clip(shapes[0]), errs[1], clip(shapes[1]))})
		} else if ms, has := c["shape"]; has && errs[0] == nil {
			mb, _ := json.Marshal(ms)
			if string(mb) != shapes[0] {
				res.add(Finding{Kind: "disagreement", Where: "tokens", Case: small, Expected: clip(string(mb)), Observed: clip(shapes[0])})
			}
		}
	})
}

func clip(s string) string {
	if len(s) > 400 {
		return s[:200] + fmt.Sprintf("...(%d bytes)...", len(s)) + s[len(s)-150:]
	}
	return s
}

func c14Replace(s, mark, with string) string {
	if mark == "" {
		return s
	}
	return strings.ReplaceAll(s, mark, with)
}

// c14HeldResult renders a, keeps the returned string in use, renders b and a again on the same engine (one goroutine,
// no garbage collection in between, so that pooled buffers really come back), and returns a copy of the first result
// taken at once and the first result as it is afterwards.
func c14HeldResult(a, b string) (first, now string) {
	eng := lexEngine()
	if eng.RegisterString("ta", a) != nil || eng.RegisterString("tb", b) != nil {
		return "", ""
	}
	defer debug.SetGCPercent(debug.SetGCPercent(-1))
	ctx := lexCtx()
	ctx["items"] = []interface{}{1, 2}
	held, err := eng.Render("ta", ctx)
	if err != nil {
		return "", ""
	}
	first = strings.Clone(held)
	for i := 0; i < 3 && held == first; i++ {
		eng.Render("tb", ctx)
		eng.Render("ta", ctx)
		eng.Render("inc", ctx)
	}
	return first, held
}

// c14ExactCapacities: templates whose number of tokens meets the size the tokenizer gives its token buffer exactly
// (a tenth of the source length, at least 256), parsed by a tokenizer fresh from an emptied pool: dashed tags trim
// as in any other template, and appended literal text changes the output by that text only.
func c14ExactCapacities(res *Result) {
	render := func(src string) string {
		runtime.GC()
		runtime.GC()
		eng := twig.New()
		if err := eng.RegisterString("t", src); err != nil {
			return "parse error: " + err.Error()
		}
		out, err := eng.Render("t", map[string]interface{}{"a": "A", "c": true})
		if err != nil {
			return "error: " + err.Error()
		}
		return out
	}
	for _, shape := range []struct {
		name string
		mk   func(units, text string) (src, want string)
	}{
		{"units then text", func(units, text string) (string, string) { return units + text, "" }},
		{"text, then units in a dashed if", func(units, text string) (string, string) {
			return text + " {%- if c -%} " + units + "{%- endif -%} ", ""
		}},
	} {
		for _, n := range []int{64, 100, 500, 2000} {
			units := strings.Repeat("{{- a -}} ", n)
			for k := -25; k <= 25; k++ {
				pad := 30*n + k
				if pad < 1 {
					continue
				}
				text := "T" + strings.Repeat("x", pad-1)
				src, _ := shape.mk(units, text)
				want := strings.Repeat("A", n) + text
				if shape.name != "units then text" {
					want = text + strings.Repeat("A", n)
				}
				res.Evaluations++
				res.Hist["stream:exact-capacities"]++
				res.count(fmt.Sprint("exact-capacities", shape.name, n, k), true)
				if got := render(src); got != want {
					res.add(Finding{Kind: "oracle", Where: "exact-capacities/" + shape.name, Case: Case{"stream": "exact-capacities", "units": n, "appended bytes": pad, "shape": shape.name},
						Expected: clip(want), Observed: clip(got), Detail: fmt.Sprintf("%d units of `{{- a -}} ` and %d bytes of literal text, parsed after the pools were emptied: the dashes do not trim (or the text is not what was appended)", n, pad)})
					return
				}
			}
		}
	}
}

// c14HeldSerialisedForms: the serialised form of a template of any size (below and above 64 KiB, 1 MiB) stays what it
// was while other templates are serialised: it is loaded afterwards and must render as its source does.
func c14HeldSerialisedForms(res *Result) {
	const body = "[{{ a }}|{% if c %}y{% endif %}|{# n #}end]"
	for _, pad := range []int{0, 1000, 5000, 60 << 10, 70 << 10, 200 << 10, 1100 << 10} {
		for round := 0; round < 3; round++ {
			src := strings.Repeat("p", pad) + body
			a := twig.New()
			if a.RegisterString("big", src) != nil || a.RegisterString("other", "other "+strings.Repeat("o", pad/2)+" {{ a }}") != nil {
				continue
			}
			res.Evaluations++
			res.Hist["stream:held-serialised-forms"]++
			want, _ := a.Render("big", map[string]interface{}{"a": "A", "c": true})
			tb, _ := a.Load("big")
			to, _ := a.Load("other")
			blob, err := tb.SaveCompiled()
			if err != nil {
				continue
			}
			to.SaveCompiled()
			to.SaveCompiled()
			b := twig.New()
			got, lerr := "", b.LoadFromCompiledData(blob)
			if lerr == nil {
				got, lerr = b.Render("big", map[string]interface{}{"a": "A", "c": true})
			}
			if lerr != nil || got != want {
				res.add(Finding{Kind: "oracle", Where: "held-serialised-forms", Case: Case{"stream": "held-serialised-forms", "padding": pad}, Expected: clip(want), Observed: clip(got) + fmt.Sprintf(" (err=%v)", lerr),
					Detail: fmt.Sprintf("a template with %d bytes of literal text was serialised, another template was serialised twice, then the first form was loaded", pad)})
				return
			}
		}
	}
}
