//go:build race

package main

// the runner was built with -race
const c02RaceEnabled = true
