package main

import (
	"fmt"
	"strings"

	"github.com/semihalev/twig"
)

func init() { runners["C13"] = runC13 }

func lexEngine() *twig.Engine {
	eng := twig.New()
	for name, src := range map[string]string{
		"inc":    "[inc {{ a }}]",
		"base":   "<{% block b %}base{% endblock %}>",
		"macros": "{% macro hi(n) %}hi {{ n }}{% endmacro %}",
	} {
		if err := eng.RegisterString(name, src); err != nil {
			panic(err)
		}
	}
	return eng
}

func lexRender(src string) (out string, err error) {
	defer func() {
		if r := recover(); r != nil {
			err = fmt.Errorf("PANIC: %v", r)
		}
	}()
	eng := lexEngine()
	if err = eng.RegisterString("t", src); err != nil {
		return "", err
	}
	ctx := lexCtx()
	ctx["items"] = []interface{}{1, 2}
	return eng.Render("t", ctx)
}

// C13: a template with dashes against its dash-free, hand-trimmed counterpart (computed by the
// verified strip_dashes): same output, same parse verdict; token streams against the model.
func runC13(cases string, res *Result) {
	readCases(cases, func(c Case) {
		src := c.hexs("src")
		stripped := c.hexs("stripped")
		res.Hist["construct:"+c.str("stream")]++
		res.count(src, c.num("ndash") >= 1 && c.num("nws") >= 1)
		res.sample(map[string]interface{}{"construct": c.str("stream"), "src": src, "hand_trimmed": stripped}, 10)
		res.Evaluations++
		if diff, _ := compareTokens(c, src); diff != "" {
			kind := "disagreement"
			if strings.Contains(diff, "PANIC") {
				kind = "oracle"
			}
			res.add(Finding{Kind: kind, Where: "tokens", Case: c, Detail: diff})
		}
		o1, e1 := lexRender(src)
		o2, e2 := lexRender(stripped)
		res.Evaluations += 2
		switch {
		case e2 != nil && e1 != nil:
			res.add(Finding{Kind: "disagreement", Where: "render", Case: c, Detail: "generated template does not render even without dashes: " + e2.Error()})
		case e2 != nil:
			res.add(Finding{Kind: "oracle", Where: "render", Case: c, Observed: hx(o1), Detail: "the dash-free hand-trimmed template fails but the dashed one renders: " + e2.Error()})
		case e1 != nil:
			res.add(Finding{Kind: "oracle", Where: "render", Case: c, Expected: hx(o2), Detail: "dashes change whether the template parses/renders: " + e1.Error()})
		case o1 != o2:
			res.add(Finding{Kind: "oracle", Where: "render", Case: c, Expected: hx(o2), Observed: hx(o1),
				Detail: "output with dashes differs from the output of the same template with the dashes removed and the whitespace deleted by hand"})
		}
	})
}
