package main

import (
	"fmt"
	"strings"

	"github.com/semihalev/twig"
)

func init() { runners["C13"] = runC13 }

func lexEngine() *twig.Engine {
	eng := twig.New()
	for name, src := range map[string]string{
		"inc":    "[inc {{ a }}]",
		"base":   "<{% block b %}base{% endblock %}>",
		"macros": "{% macro hi(n) %}hi {{ n }}{% endmacro %}",
	} {
		if err := eng.RegisterString(name, src); err != nil {
			panic(err)
		}
	}
	return eng
}

func lexRender(src string) (out string, err error) {
	defer func() {
		if r := recover(); r != nil {
			err = fmt.Errorf("PANIC: %v", r)
		}
	}()
	eng := lexEngine()
	if err = eng.RegisterString("t", src); err != nil {
		return "", err
	}
	ctx := lexCtx()
	ctx["items"] = []interface{}{1, 2}
	return eng.Render("t", ctx)
}

func c13RenderCompiled(src string) (out string, err error) {
	defer func() {
		if r := recover(); r != nil {
			err = fmt.Errorf("PANIC: %v", r)
		}
	}()
	a := lexEngine()
	if err = a.RegisterString("t", src); err != nil {
		return "", err
	}
	ct, err := a.CompileTemplate("t")
	if err != nil {
		return "", err
	}
	data, err := twig.SerializeCompiledTemplate(ct)
	if err != nil {
		return "", err
	}
	b := lexEngine()
	if err = b.LoadFromCompiledData(data); err != nil {
		return "", err
	}
	ctx := lexCtx()
	ctx["items"] = []interface{}{1, 2}
	return b.Render("t", ctx)
}

// C13: a template with dashes against its dash-free, hand-trimmed counterpart (computed by the
// verified strip_dashes): same output, same parse verdict; token streams against the model.
func runC13(cases string, res *Result) {
	c13DashesOnTemplatesThatAreNotWellFormed(res)
	readCases(cases, func(c Case) {
		src := c.hexs("src")
		stripped := c.hexs("stripped")
		res.Hist["construct:"+c.str("stream")]++
		res.count(src, c.num("ndash") >= 1 && c.num("nws") >= 1)
		res.sample(map[string]interface{}{"construct": c.str("stream"), "src": src, "hand_trimmed": stripped}, 10)
		res.Evaluations++
		if diff, _ := compareTokens(c, src); diff != "" {
			kind := "disagreement"
			if strings.Contains(diff, "PANIC") {
				kind = "oracle"
			}
			res.add(Finding{Kind: kind, Where: "tokens", Case: c, Detail: diff})
		}
		o1, e1 := lexRender(src)
		o2, e2 := lexRender(stripped)
		res.Evaluations += 2
		switch {
		case e2 != nil && e1 != nil:
			res.add(Finding{Kind: "disagreement", Where: "render", Case: c, Detail: "generated template does not render even without dashes: " + e2.Error()})
		case e2 != nil:
			res.add(Finding{Kind: "oracle", Where: "render", Case: c, Observed: hx(o1), Detail: "the dash-free hand-trimmed template fails but the dashed one renders: " + e2.Error()})
		case e1 != nil:
			res.add(Finding{Kind: "oracle", Where: "render", Case: c, Expected: hx(o2), Detail: "dashes change whether the template parses/renders: " + e1.Error()})
		case o1 != o2:
			res.add(Finding{Kind: "oracle", Where: "render", Case: c, Expected: hx(o2), Observed: hx(o1),
				Detail: "output with dashes differs from the output of the same template with the dashes removed and the whitespace deleted by hand"})
		default:
			// the dashed template through its compiled form (compile, serialise, load on another engine): the same output
			if o4, e4 := c13RenderCompiled(src); e4 != nil || o4 != o2 {
				res.add(Finding{Kind: "oracle", Where: "render-compiled", Case: c, Expected: hx(o2), Observed: hx(o4) + fmt.Sprintf(" (err=%v)", e4),
					Detail: "the dashed template rendered from its compiled form differs from the hand-trimmed one"})
			}
			res.Evaluations++
			// the same template beyond the size at which the engine switches tokenizers (a comment adds nothing)
			o3, e3 := lexRender(src + c13Pad)
			res.Evaluations++
			if e3 != nil {
				res.add(Finding{Kind: "oracle", Where: "render-large", Case: c, Expected: hx(o2), Detail: "in a template of more than 4096 bytes the dashes change whether it parses/renders: " + e3.Error()})
			} else if o3 != o2 {
				res.add(Finding{Kind: "oracle", Where: "render-large", Case: c, Expected: hx(o2), Observed: hx(o3),
					Detail: "in a template of more than 4096 bytes (a 4200-byte comment appended) the output with dashes differs from the hand-trimmed one"})
			}
		}
	})
	c13ManySiblings(res)
}

var c13Pad = "{#" + strings.Repeat("p", 4200) + "#}"

// many sibling blocks, with a dash on the opening tag, the closing tag, both, and on the middle tag: the dash
// "never changes whether a template parses", however many blocks there are (nothing is nested here)
func c13ManySiblings(res *Result) {
	const n = 10050
	type form struct{ name, plain, dashed string }
	forms := []form{
		{"if, dash on the closing tag", "{% if a %}x{% endif %}", "{% if a %}x{%- endif %}"},
		{"if, dash on the opening tag", "{% if a %}x{% endif %}", "{%- if a %}x{% endif %}"},
		{"if, dashes everywhere", "{% if a %}x{% else %}y{% endif %}", "{%- if a -%}x{%- else -%}y{%- endif -%}"},
		{"for, dash on the closing tag", "{% for i in one %}x{% endfor %}", "{% for i in one %}x{%- endfor %}"},
		{"for, right-hand dashes", "{% for i in one %}x{% endfor %}", "{% for i in one -%}x{% endfor -%}"},
		{"apply, dash on the closing tag", "{% apply upper %}x{% endapply %}", "{% apply upper %}x{%- endapply %}"},
	}
	for _, f := range forms {
		render := func(unit string) (string, error) {
			eng := lexEngine()
			if err := eng.RegisterString("t", strings.Repeat(unit, n)); err != nil {
				return "", err
			}
			return eng.Render("t", map[string]interface{}{"a": true, "one": []interface{}{1}})
		}
		res.Hist["construct:many-siblings"]++
		res.Evaluations += 2
		o1, e1 := render(f.plain)
		o2, e2 := render(f.dashed)
		c := Case{"stream": "many-siblings", "form": f.name, "unit": f.dashed, "count": n}
		switch {
		case e1 != nil:
			res.Notes = append(res.Notes, "many-siblings: "+f.name+": the dash-free template does not render: "+e1.Error())
		case e2 != nil:
			res.add(Finding{Kind: "oracle", Where: "many-siblings: " + f.name, Case: c, Expected: "renders like " + fmt.Sprint(n) + " x " + f.plain,
				Detail: "dashes change whether the template parses/renders: " + e2.Error()})
		case o1 != o2:
			res.add(Finding{Kind: "oracle", Where: "many-siblings: " + f.name, Case: c, Expected: hx(o1[:min(len(o1), 40)]), Observed: hx(o2[:min(len(o2), 40)]),
				Detail: "no whitespace stands next to the dashes, yet the output differs"})
		}
	}
}
