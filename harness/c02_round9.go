package main

import (
	"fmt"
	"reflect"
	"sync"

	"github.com/semihalev/twig"
)

// c02PolicyIsOnlyRead: the policy a caller handed to EnableSandbox is shared by every render of the engine; renders
// only read it (whatever the names in it look like), so concurrent sandboxed includes see what serial ones see.
func c02PolicyIsOnlyRead(res *Result) {
	res.Hist["stream:policy-is-only-read"]++
	c := Case{"k": "policy-is-only-read"}
	p := twig.NewDefaultSecurityPolicy()
	for _, n := range []string{"app_*", "*", "up*", "*_x", "app_", ""} {
		p.AllowedFilters[n] = true
		p.AllowedFunctions[n] = true
		p.AllowedTags[n] = true
	}
	p.AllowedFilters["app_off"] = false
	copyOf := func(m map[string]bool) map[string]bool {
		r := map[string]bool{}
		for k, v := range m {
			r[k] = v
		}
		return r
	}
	f0, g0, t0 := copyOf(p.AllowedFilters), copyOf(p.AllowedFunctions), copyOf(p.AllowedTags)
	e := twig.New()
	e.EnableSandbox(p)
	const n = 40
	for i := 0; i < n; i++ {
		name := fmt.Sprintf("app_f%d", i)
		e.AddFilter(name, func(v interface{}, _ ...interface{}) (interface{}, error) { return fmt.Sprint(v) + "!", nil })
		e.AddFunction(name, func(_ ...interface{}) (interface{}, error) { return "fn", nil })
		e.RegisterString(fmt.Sprintf("part%d", i), "{{ v|"+name+" }}/{{ "+name+"() }}/{{ v|upper }}{% apply lower %}Q{% endapply %}")
		e.RegisterString(fmt.Sprintf("page%d", i), "[{% include 'part"+fmt.Sprint(i)+"' sandboxed %}]")
	}
	one := func(i int) string {
		out, err := e.Render(fmt.Sprintf("page%d", i), map[string]interface{}{"v": "val"})
		return c02Class(err) + ":" + out
	}
	serial := make([]string, n)
	for i := 0; i < n/2; i++ { // the other half is checked for the first time while other renders run
		res.Evaluations++
		serial[i] = one(i)
	}
	if !reflect.DeepEqual(p.AllowedFilters, f0) || !reflect.DeepEqual(p.AllowedFunctions, g0) || !reflect.DeepEqual(p.AllowedTags, t0) {
		res.add(Finding{Kind: "oracle", Where: "policy-is-only-read", Case: c, Expected: fmt.Sprintf("%d/%d/%d entries, as the caller made them", len(f0), len(g0), len(t0)),
			Observed: fmt.Sprintf("%d/%d/%d entries", len(p.AllowedFilters), len(p.AllowedFunctions), len(p.AllowedTags)),
			Detail:   "rendering sandboxed includes wrote to the maps of the caller's DefaultSecurityPolicy, which every concurrent render of the engine reads"})
		return // concurrent renders would now be a data race on a map (a fatal error of the runtime)
	}
	var wg sync.WaitGroup
	var mu sync.Mutex
	bad := ""
	for g := 0; g < 8; g++ {
		wg.Add(1)
		go func(g int) {
			defer wg.Done()
			for r := 0; r < 3; r++ {
				for i := 0; i < n; i++ {
					k := (i + g*5) % n
					got := one(k)
					mu.Lock()
					if serial[k] == "" {
						serial[k] = got
					} else if got != serial[k] && bad == "" {
						bad = fmt.Sprintf("page%d: %q here, %q in another call", k, got, serial[k])
					}
					mu.Unlock()
				}
			}
		}(g)
	}
	wg.Wait()
	res.Evaluations += 8 * 3 * n
	if bad != "" {
		res.add(Finding{Kind: "oracle", Where: "policy-is-only-read", Case: c, Expected: "every call returns what the serial call returns", Observed: bad})
	}
	if !reflect.DeepEqual(p.AllowedFilters, f0) || !reflect.DeepEqual(p.AllowedFunctions, g0) || !reflect.DeepEqual(p.AllowedTags, t0) {
		res.add(Finding{Kind: "oracle", Where: "policy-is-only-read", Case: c, Expected: "the caller's policy as the caller made it", Observed: "entries were added or changed during concurrent renders"})
	}
}
