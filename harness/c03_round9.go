package main

import (
	"fmt"
	"io"
	"strings"
	"time"

	"github.com/semihalev/twig"
)

// c03SpellingsOfOneWord: a template that writes a name in capitals renders the same before and after other templates
// (of any engine) wrote the same letters in another case: the output follows from this template and this context.
func c03SpellingsOfOneWord(res *Result) {
	res.Hist["stream:spellings-of-one-word"]++
	fail := func(where, want, got, detail string) {
		res.add(Finding{Kind: "oracle", Where: "spellings/" + where, Case: Case{"stream": "spellings-of-one-word", "scenario": where}, Expected: want, Observed: got, Detail: detail})
	}
	variants := func(w string) []string {
		return []string{strings.ToUpper(w), strings.ToUpper(w[:1]) + w[1:], w[:len(w)-1] + strings.ToUpper(w[len(w)-1:]), w}
	}
	for round := 0; round < 12; round++ {
		w := fmt.Sprintf("zq%c%cword%c", 'a'+round, 'k'+round%5, 'a'+round%7)
		if round%3 == 0 {
			w = fmt.Sprintf("i%c", 'd'+round) // short words, as in ID / URL
		}
		vs := variants(w)
		if round%2 == 1 { // the lower-case spelling is the first this process sees
			for i, j := 0, len(vs)-1; i < j; i, j = i+1, j-1 {
				vs[i], vs[j] = vs[j], vs[i]
			}
		}
		ctx := func() map[string]interface{} {
			m := map[string]interface{}{}
			it := map[string]interface{}{}
			for i, v := range vs {
				m[v] = fmt.Sprintf("top%d", i)
				it[v] = fmt.Sprintf("attr%d", i)
			}
			m["it"] = it
			return m
		}
		tpl := func(v string) string {
			return "{{ " + v + " }}/{{ it." + v + " }}/{% set q = " + v + " %}{{ q }}/{% if " + v + " == 'top0' %}first{% else %}other{% endif %}/{{ it['" + v + "'] }}"
		}
		// each spelling rendered before any other spelling of the word was seen by this process ... (only the first is)
		for i, v := range vs {
			others := []string{}
			for j, o := range vs {
				if j != i {
					others = append(others, o)
				}
			}
			e1 := twig.New()
			if e1.RegisterString("t", tpl(v)) != nil {
				continue
			}
			res.Evaluations++
			before, err := e1.Render("t", ctx())
			if err != nil {
				before = "error: " + err.Error()
			}
			want := fmt.Sprintf("top%d/attr%d/top%d/%s/attr%d", i, i, i, map[bool]string{true: "first", false: "other"}[i == 0], i)
			if before != want {
				fail("a name written in its own case", want, before, "template "+tpl(v)+" with each spelling of the word bound to a value of its own")
				return
			}
			// other engines see the other spellings, then this text is parsed again
			for _, o := range others {
				e2 := twig.New()
				e2.RegisterString("o", tpl(o))
				e2.Render("o", ctx())
			}
			e3 := twig.New()
			if e3.RegisterString("again", tpl(v)) != nil {
				fail("parsed again after other spellings", before, "does not parse", tpl(v))
				return
			}
			res.Evaluations++
			after, err := e3.Render("again", ctx())
			if err != nil {
				after = "error: " + err.Error()
			}
			if after != before {
				fail("parsed again after other spellings", before, after, "template "+tpl(v)+" parsed after templates that spell the word "+strings.Join(others, ", "))
				return
			}
		}
	}
}

// c03RenderedAgainUnderSettings: a template renders the same the second, third and fourth time, and after another
// template was registered and rendered, whatever the engine's cache, debug and reload settings are and however the
// template got there.
func c03RenderedAgainUnderSettings(res *Result) {
	res.Hist["stream:rendered-again-under-settings"]++
	fail := func(where, want, got, detail string) {
		res.add(Finding{Kind: "oracle", Where: "rendered-again/" + where, Case: Case{"stream": "rendered-again-under-settings", "scenario": where}, Expected: want, Observed: got, Detail: detail})
	}
	const src = "Hello {{ name }}{% for i in [1, 2] %}, {{ i }}{% endfor %}. {% include 'part' %}{% block b %}B{{ name|upper }}{% endblock %}"
	ctx := func() map[string]interface{} { return map[string]interface{}{"name": "Ann"} }
	const want = "Hello Ann, 1, 2. <part Ann>BANN"
	settings := append([]struct {
		name string
		set  func(*twig.Engine)
	}{{"defaults", func(*twig.Engine) {}}}, evalSettings...)
	routes := []struct {
		name string
		put  func(e *twig.Engine) error
	}{
		{"RegisterString", func(e *twig.Engine) error { return e.RegisterString("greeting", src) }},
		{"RegisterTemplate", func(e *twig.Engine) error {
			t, err := e.ParseTemplate(src)
			if err != nil {
				return err
			}
			e.RegisterTemplate("greeting", t)
			return nil
		}},
		{"loader", func(e *twig.Engine) error {
			e.RegisterLoader(twig.NewArrayLoader(map[string]string{"greeting": src}))
			return nil
		}},
		{"compiled", func(e *twig.Engine) error {
			o := twig.New()
			o.RegisterString("greeting", src)
			t, err := o.Load("greeting")
			if err != nil {
				return err
			}
			b, err := t.SaveCompiled()
			if err != nil {
				return err
			}
			return e.LoadFromCompiledData(b)
		}},
	}
	for _, st := range settings {
		for _, rt := range routes {
			e := twig.New()
			st.set(e)
			e.RegisterString("part", "<part {{ name }}>")
			if err := rt.put(e); err != nil {
				continue
			}
			where := st.name + " / " + rt.name
			for i := 0; i < 4; i++ {
				res.Evaluations++
				var got string
				var err error
				if !c08WithTimeout(10*time.Second, func() {
					if i%2 == 0 {
						got, err = e.Render("greeting", ctx())
					} else {
						var sb strings.Builder
						err = e.RenderTo(&sb, "greeting", ctx())
						got = sb.String()
					}
				}) {
					fail(where, want, "no answer within 10 s", fmt.Sprintf("render number %d of one template with one context", i+1))
					return
				}
				if err != nil {
					got = "error: " + err.Error()
				}
				if got != want {
					fail(where, want, got, fmt.Sprintf("render number %d of one template with one context", i+1))
					break
				}
				if i == 1 {
					e.RegisterString("farewell", "Bye {{ name }}. {% for k in [7, 8, 9] %}{{ k }}{% endfor %}")
					if !c08WithTimeout(10*time.Second, func() {
						e.Render("farewell", ctx())
						o := twig.New()
						o.RegisterString("elsewhere", "Somewhere else {{ name }}{% if name %} yes{% endif %}")
						o.Render("elsewhere", ctx())
					}) {
						fail(where, "an answer", "no answer within 10 s", "another template registered and rendered after two renders of the first")
						return
					}
				}
			}
			twig.SetDebugLevel(twig.DebugOff)
			twig.SetDebugWriter(io.Discard)
		}
	}
}

// c03OtherContextsFirst: a template renders with context B what a new engine renders with context B, also after the
// same engine rendered it with context A: nothing a render worked out from A's values (arguments of filters inside a
// chain, of functions and tests, bounds, defaults, names of templates) answers for B.
func c03OtherContextsFirst(res *Result) {
	res.Hist["stream:other-contexts-first"]++
	support := map[string]string{"pa": "<A {{ v }}>", "pb": "<B {{ v }}>", "lib": "{% macro m(x, y = dflt) %}({{ x }}/{{ y }}){% endmacro %}"}
	tpls := []string{
		"{{ name|default(placeholder)|upper }}", "{{ name|default(placeholder) }}", "{{ s|replace({(from): to})|upper }}", "{{ xs|join(sep)|upper }}", "{{ xs|slice(start, n)|join(',') }}",
		"{{ xs|slice(start, n)|reverse|join(sep) }}", "{{ s|split(sep)|join('+') }}", "{{ s|trim(ch)|upper }}", "{{ num|round(prec)|abs }}", "{{ num|number_format(prec, sep)|upper }}",
		"{{ xs|merge(more)|join(sep)|lower }}", "{{ max(num, n)|abs }}", "{{ range(start, n)|join(sep)|upper }}", "{{ s is same as(to) ? 'y' : 'n' }}", "{{ (num is divisible by(n)) ? 'y' : 'n' }}",
		"{{ s starts with from ? 'y' : 'n' }}", "{{ from in s ? 'y' : 'n' }}", "{% include tpl %}", "{% include tpl with {'v': name|default(placeholder)|upper} %}", "{{ xs[start]|default(placeholder)|upper }}",
		"{% for p in xs %}{{ name|default(p)|upper }},{% endfor %}", "{% for i in start..n %}{{ i }}{% endfor %}", "{% import 'lib' as l %}{{ l.m(name|default(placeholder)|upper) }}{{ l.m(s) }}",
		"{{ s|date(fmt)|upper }}", "{{ attribute(mp, key)|default(placeholder)|upper }}", "{{ mp[key]|default(placeholder)|upper }}", "{{ (cond ? s : to)|upper|trim(ch) }}", "{{ s ~ sep ~ to|upper }}",
		"{% set q = name|default(placeholder)|upper %}{{ q }}", "{% if name|default(placeholder)|upper == 'PB' %}b{% else %}other{% endif %}", "{% apply upper %}{{ name|default(placeholder)|lower }}{% endapply %}",
		"{{ xs|first|default(placeholder)|upper }}", "{{ xs|sort|join(sep)|upper }}", "{{ xs|batch(n)|length }}", "{{ s|slice(start)|upper|default(placeholder) }}", "{{ s|e|replace({(from): to}) }}",
	}
	ctxA := func() map[string]interface{} {
		return map[string]interface{}{"name": nil, "placeholder": "pa", "s": "xaxbx", "from": "a", "to": "T", "xs": []interface{}{"c", "a", "b"}, "sep": "-", "start": 0, "n": 2, "ch": "x", "num": -12.345,
			"prec": 1, "more": []interface{}{"m"}, "tpl": "pa", "v": "va", "dflt": "da", "fmt": "Y", "mp": map[string]interface{}{"k1": nil, "k2": "two"}, "key": "k1", "cond": true}
	}
	ctxB := func() map[string]interface{} {
		return map[string]interface{}{"name": nil, "placeholder": "pb", "s": "ybyay", "from": "b", "to": "U", "xs": []interface{}{"z", "y"}, "sep": "+", "start": 1, "n": 3, "ch": "y", "num": 7.25,
			"prec": 2, "more": []interface{}{"n", "o"}, "tpl": "pb", "v": "vb", "dflt": "db", "fmt": "m", "mp": map[string]interface{}{"k1": "one", "k2": nil}, "key": "k2", "cond": false}
	}
	mk := func(src string) *twig.Engine {
		e := twig.New()
		for n, s := range support {
			e.RegisterString(n, s)
		}
		if e.RegisterString("t", src) != nil {
			return nil
		}
		return e
	}
	obs := func(e *twig.Engine, ctx map[string]interface{}) string {
		out, err := e.Render("t", ctx)
		if err != nil {
			return "error"
		}
		return "out:" + out
	}
	for _, src := range tpls {
		for _, order := range []string{"A then B", "B then A", "A, A, B, A"} {
			fresh := mk(src)
			if fresh == nil {
				break
			}
			used := mk(src)
			first, second := ctxA, ctxB
			if order == "B then A" {
				first, second = ctxB, ctxA
			}
			want := obs(fresh, second())
			obs(used, first())
			if order == "A, A, B, A" {
				obs(used, first())
				obs(used, second())
				want = obs(mk(src), first())
				second = first
			}
			res.Evaluations++
			got := obs(used, second())
			if got != want {
				res.add(Finding{Kind: "oracle", Where: "other-contexts-first", Case: Case{"stream": "other-contexts-first", "tpl": src, "order": order}, Expected: want, Observed: got,
					Detail: "the same engine rendered the template with another context before; a new engine renders the expected output"})
				break
			}
		}
	}
}
