package main

import (
	"strings"
)

func init() { runners["C04"] = runC04 }

// C04: token streams of both real tokenizers against the scanner model; rendered output of
// segment-structured templates against the concatenation of their text segments and values;
// verbatim bodies rendered under two contexts.
func runC04(cases string, res *Result) {
	c04LongText(res)
	c04OtherRoutes(cases, res)
	c04AfterTemplatesThatDoNotParse(res)
	c04TemplatesStillHeld(res)
	readCases(cases, func(c Case) {
		src := c.hexs("src")
		stream := c.str("stream")
		res.Hist["stream:"+stream]++
		res.Hist["lex:"+c.str("lex")]++
		nontrivial := false
		if toks := c.list("toks"); len(toks) > 0 {
			nt, ng := 0, 0
			for _, t := range toks {
				if t.([]interface{})[0].(string) == "T" {
					nt++
				} else {
					ng++
				}
			}
			nontrivial = nt >= 2 && ng >= 1
		}
		for i := 0; i < len(src); i++ {
			if src[i] >= 0x80 {
				nontrivial = true
			}
		}
		res.count(src, nontrivial)
		if stream != "exhaustive" {
			res.sample(map[string]interface{}{"stream": stream, "src": hx(src), "model_tokens": c["toks"], "model_out": c["out"]}, 10)
		}
		if stream == "verbatim" || stream == "literal-in-construct" {
			runVerbatim(c, src, res)
			return
		}
		res.Evaluations++
		diff := ""
		if c.str("lex") != "skip" {
			diff, _ = compareTokens(c, src)
		}
		if diff != "" {
			kind := "disagreement"
			if strings.Contains(diff, "PANIC") {
				kind = "oracle"
			}
			res.add(Finding{Kind: kind, Where: "tokens", Case: c, Detail: diff})
		}
		if _, has := c["out"]; has {
			want := c.hexs("out")
			got, err := renderOnce(src, lexCtx())
			res.Evaluations++
			if strings.HasPrefix(stream, "known:") {
				cls := strings.TrimPrefix(stream, "known:")
				demanded := c.hexs("demanded")
				switch {
				case err == nil && got == demanded:
					// repaired: nothing to report
				case err == nil && got == want:
					res.add(Finding{Kind: "known", Known: cls, Where: "render", Case: c, Expected: hx(demanded), Observed: hx(got)})
				default:
					res.add(Finding{Kind: "oracle", Where: "render", Case: c, Expected: hx(demanded), Observed: hx(got), Detail: "neither the demanded output nor the listed known behaviour: " + errStr(err)})
				}
				return
			}
			if err != nil {
				res.add(Finding{Kind: "oracle", Where: "render", Case: c, Expected: hx(want), Detail: "render of a text/comment/print template failed: " + err.Error()})
			} else if got != want {
				res.add(Finding{Kind: "oracle", Where: "render", Case: c, Expected: hx(want), Observed: hx(got),
					Detail: "output differs from the concatenation of the literal text segments and printed values"})
			}
		}
	})
}

func errStr(err error) string {
	if err == nil {
		return "no error"
	}
	return err.Error()
}

// verbatim: same output under two contexts, no context data in it
func runVerbatim(c Case, src string, res *Result) {
	ctx1 := map[string]interface{}{"a": "CTXVAL1", "b": "CTXVAL2", "c": "CTXVAL3", "d": "CTXVAL4", "items": []interface{}{"CTXVAL5"}}
	ctx2 := map[string]interface{}{"a": "OTHERX1", "b": "", "c": 7, "d": nil, "items": []interface{}{}}
	o1, e1 := renderOnce(src, ctx1)
	o2, e2 := renderOnce(src, ctx2)
	res.Evaluations += 2
	if e1 != nil || e2 != nil {
		res.add(Finding{Kind: "oracle", Where: "verbatim", Case: c, Detail: "render failed: " + errStr(e1) + " / " + errStr(e2)})
		return
	}
	up := strings.ToUpper(o1)
	if o1 != o2 {
		res.add(Finding{Kind: "oracle", Where: "verbatim", Case: c, Expected: hx(o1), Observed: hx(o2), Detail: "verbatim output depends on the context"})
	} else if strings.Contains(up, "CTXVAL") || strings.Contains(up, "ARGVAL") {
		res.add(Finding{Kind: "oracle", Where: "verbatim", Case: c, Observed: hx(o1), Detail: "verbatim output contains context data"})
	}
	if want, has := c["body_marker"]; has {
		if !strings.Contains(strings.ToUpper(o1), strings.ToUpper(unhex(want.(string)))) {
			res.add(Finding{Kind: "oracle", Where: "verbatim", Case: c, Observed: hx(o1), Detail: "literal text of the verbatim body is missing from the output"})
		}
	}
	if want, has := c["exact"]; has {
		if w := unhex(want.(string)); o1 != w {
			res.add(Finding{Kind: "oracle", Where: "verbatim", Case: c, Expected: hx(w), Observed: hx(o1), Detail: "the literal text does not reach the output byte for byte (escaping backslashes apart)"})
		}
	}
	if want, has := c["body_end"]; has {
		if !strings.Contains(o1, unhex(want.(string))) {
			res.add(Finding{Kind: "oracle", Where: "verbatim", Case: c, Observed: hx(o1), Detail: "the end of the verbatim body is missing from the output"})
		}
	}
}
