//go:build !race

package main

// the runner was built without -race
const c02RaceEnabled = false
