package main

import (
	"os"
	"path/filepath"

	"github.com/semihalev/twig"
)

// c16FilesOfTemplatesRegisteredUnderOtherNames: the compiled loader writes a file for the name the engine knows a
// template by and reads it back under that name, whatever name (if any) the template object itself carries.
func c16FilesOfTemplatesRegisteredUnderOtherNames(cases string, res *Result) {
	dir := filepath.Join(filepath.Dir(cases), "c16othernames")
	defer os.RemoveAll(dir)
	const src = "Page {{ v }}{% for i in [1, 2] %}.{{ i }}{% endfor %}"
	routes := []struct {
		name, as string
		put      func(e *twig.Engine) error
	}{
		{"ParseTemplate + RegisterTemplate", "page", func(e *twig.Engine) error {
			t, err := e.ParseTemplate(src)
			if err == nil {
				e.RegisterTemplate("page", t)
			}
			return err
		}},
		{"a second name for a registered template", "alias", func(e *twig.Engine) error {
			if err := e.RegisterString("orig", src); err != nil {
				return err
			}
			t, err := e.Load("orig")
			if err == nil {
				e.RegisterTemplate("alias", t)
			}
			return err
		}},
		{"NewTemplate + RegisterTemplate", "made", func(e *twig.Engine) error {
			p, err := e.ParseTemplate(src)
			if err != nil {
				return err
			}
			_ = p
			e.RegisterTemplate("made", p)
			return nil
		}},
		{"a loader's template under a second name", "copy.twig", func(e *twig.Engine) error {
			e.RegisterLoader(twig.NewArrayLoader(map[string]string{"first.twig": src}))
			t, err := e.Load("first.twig")
			if err == nil {
				e.RegisterTemplate("copy.twig", t)
			}
			return err
		}},
	}
	for _, rt := range routes {
		for _, all := range []bool{false, true} {
			os.RemoveAll(dir)
			os.MkdirAll(dir, 0o755)
			a := twig.New()
			if rt.put(a) != nil {
				continue
			}
			c := Case{"stream": "files-of-templates-registered-under-other-names", "route": rt.name, "name": rt.as, "CompileAll": all}
			res.Hist["stream:files-of-templates-registered-under-other-names"]++
			ctx := map[string]interface{}{"v": "V"}
			want, err := a.Render(rt.as, ctx)
			if err != nil {
				continue
			}
			cl := twig.NewCompiledLoader(dir)
			if all {
				err = cl.CompileAll(a)
			} else {
				err = cl.SaveCompiled(a, rt.as)
			}
			if err != nil {
				res.add(Finding{Kind: "oracle", Where: "other-names/write", Case: c, Expected: "the file is written", Observed: err.Error()})
				continue
			}
			b := twig.New()
			b.RegisterLoader(twig.NewCompiledLoader(dir))
			res.Evaluations++
			got, err := b.Render(rt.as, ctx)
			if err != nil {
				got = "error: " + err.Error()
			}
			if got != want {
				res.add(Finding{Kind: "oracle", Where: "other-names/read-back", Case: c, Expected: want, Observed: got,
					Detail: "engine A knows the template as " + rt.as + " (" + rt.name + "); the file the compiled loader wrote for that name is read back by engine B's compiled loader"})
			}
		}
	}
}

// c16FilesThatArriveLater: a compiled loader that was asked for a name before its file existed reads the file once it
// is there, whoever wrote it (another loader object on the same directory, CompileAll of another engine).
func c16FilesThatArriveLater(cases string, res *Result) {
	dir := filepath.Join(filepath.Dir(cases), "c16later")
	defer os.RemoveAll(dir)
	const src = "Later {{ v }}{% if v %}!{% endif %}"
	for _, wiring := range []string{"direct", "chain", "chain-behind-empty-array", "override-directory"} {
		for _, cache := range []bool{true, false} {
			os.RemoveAll(dir)
			os.MkdirAll(filepath.Join(dir, "shared"), 0o755)
			os.MkdirAll(filepath.Join(dir, "override"), 0o755)
			serve := twig.NewCompiledLoader(filepath.Join(dir, "shared"))
			e := twig.New()
			e.SetCache(cache)
			switch wiring {
			case "direct":
				e.RegisterLoader(serve)
			case "chain":
				e.RegisterLoader(twig.NewChainLoader([]twig.Loader{serve}))
			case "chain-behind-empty-array":
				e.RegisterLoader(twig.NewChainLoader([]twig.Loader{twig.NewArrayLoader(map[string]string{}), serve}))
			default:
				e.RegisterLoader(twig.NewChainLoader([]twig.Loader{twig.NewCompiledLoader(filepath.Join(dir, "override")), serve}))
			}
			c := Case{"stream": "files-that-arrive-later", "wiring": wiring, "cache": cache}
			res.Hist["stream:files-that-arrive-later"]++
			ctx := map[string]interface{}{"v": "V"}
			if _, err := e.Render("page", ctx); err == nil {
				continue // nothing written yet: must fail
			}
			e.Render("page", ctx)
			build := twig.New()
			build.RegisterString("page", src)
			if twig.NewCompiledLoader(filepath.Join(dir, "shared")).CompileAll(build) != nil {
				continue
			}
			want, _ := build.Render("page", ctx)
			res.Evaluations++
			got, err := e.Render("page", ctx)
			if err != nil {
				got = "error: " + err.Error()
			}
			if got != want {
				res.add(Finding{Kind: "oracle", Where: "files-that-arrive-later/" + wiring, Case: c, Expected: want, Observed: got,
					Detail: "the serving engine asked for the name twice before the build wrote the compiled file into the directory its loader reads"})
				continue
			}
			if wiring == "override-directory" && !cache {
				// an override compiled later into the directory in front wins from then on
				ob := twig.New()
				ob.RegisterString("page", "Override {{ v }}")
				if twig.NewCompiledLoader(filepath.Join(dir, "override")).SaveCompiled(ob, "page") == nil {
					res.Evaluations++
					got, err := e.Render("page", ctx)
					if err != nil {
						got = "error: " + err.Error()
					}
					if got != "Override V" {
						res.add(Finding{Kind: "oracle", Where: "files-that-arrive-later/override", Case: c, Expected: "Override V", Observed: got,
							Detail: "caching is off; a compiled file written into the directory in front is read back from then on"})
					}
				}
			}
		}
	}
}
