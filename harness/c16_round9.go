package main

import (
	"os"
	"path/filepath"

	"github.com/semihalev/twig"
)

// c16FilesOfTemplatesRegisteredUnderOtherNames: the compiled loader writes a file for the name the engine knows a
// template by and reads it back under that name, whatever name (if any) the template object itself carries.
func c16FilesOfTemplatesRegisteredUnderOtherNames(cases string, res *Result) {
	dir := filepath.Join(filepath.Dir(cases), "c16othernames")
	defer os.RemoveAll(dir)
	const src = "Page {{ v }}{% for i in [1, 2] %}.{{ i }}{% endfor %}"
	routes := []struct {
		name, as string
		put      func(e *twig.Engine) error
	}{
		{"ParseTemplate + RegisterTemplate", "page", func(e *twig.Engine) error {
			t, err := e.ParseTemplate(src)
			if err == nil {
				e.RegisterTemplate("page", t)
			}
			return err
		}},
		{"a second name for a registered template", "alias", func(e *twig.Engine) error {
			if err := e.RegisterString("orig", src); err != nil {
				return err
			}
			t, err := e.Load("orig")
			if err == nil {
				e.RegisterTemplate("alias", t)
			}
			return err
		}},
		{"NewTemplate + RegisterTemplate", "made", func(e *twig.Engine) error {
			p, err := e.ParseTemplate(src)
			if err != nil {
				return err
			}
			_ = p
			e.RegisterTemplate("made", p)
			return nil
		}},
		{"a loader's template under a second name", "copy.twig", func(e *twig.Engine) error {
			e.RegisterLoader(twig.NewArrayLoader(map[string]string{"first.twig": src}))
			t, err := e.Load("first.twig")
			if err == nil {
				e.RegisterTemplate("copy.twig", t)
			}
			return err
		}},
	}
	for _, rt := range routes {
		for _, all := range []bool{false, true} {
			os.RemoveAll(dir)
			os.MkdirAll(dir, 0o755)
			a := twig.New()
			if rt.put(a) != nil {
				continue
			}
			c := Case{"stream": "files-of-templates-registered-under-other-names", "route": rt.name, "name": rt.as, "CompileAll": all}
			res.Hist["stream:files-of-templates-registered-under-other-names"]++
			ctx := map[string]interface{}{"v": "V"}
			want, err := a.Render(rt.as, ctx)
			if err != nil {
				continue
			}
			cl := twig.NewCompiledLoader(dir)
			if all {
				err = cl.CompileAll(a)
			} else {
				err = cl.SaveCompiled(a, rt.as)
			}
			if err != nil {
				res.add(Finding{Kind: "oracle", Where: "other-names/write", Case: c, Expected: "the file is written", Observed: err.Error()})
				continue
			}
			b := twig.New()
			b.RegisterLoader(twig.NewCompiledLoader(dir))
			res.Evaluations++
			got, err := b.Render(rt.as, ctx)
			if err != nil {
				got = "error: " + err.Error()
			}
			if got != want {
				res.add(Finding{Kind: "oracle", Where: "other-names/read-back", Case: c, Expected: want, Observed: got,
					Detail: "engine A knows the template as " + rt.as + " (" + rt.name + "); the file the compiled loader wrote for that name is read back by engine B's compiled loader"})
			}
		}
	}
}
