package main

import (
	"math"
	"strconv"
	"strings"

	"github.com/semihalev/twig"
)

// c19ChainsStepByStep: a chain of filters is the filters applied one after the other: {{ x|f|g }} prints what
// {% set t = x|f %}{{ t|g }} prints, also when f yields nothing (first of an empty list, keys of an undefined name).
func c19ChainsStepByStep(res *Result) {
	bases := []string{"empty", "undef", "nul", "lst", "one", "str", "estr", "mp", "emp", "num", "neg", "[]", "[3, 1, 2]", "''", "null", "{'b': 1, 'a': 2}", "nested"}
	firsts := []string{"first", "last", "keys", "reverse", "sort", "slice(0, 1)", "slice(5, 2)", "join(',')", "default(null)", "default([])", "length", "upper", "trim", "abs", "merge([])", "column('k')", "first|first", "last|last", "keys|first", "reverse|first", "sort|last", "slice(1)|first", "raw", "e", "batch(2)|first", "split(',')|last"}
	seconds := []string{"default('none')", "length", "join('-')", "first", "last", "upper", "default('none')|upper", "length + 1", "split(',')|length", "keys|length", "reverse|join", "default([])|length", "trim|default('blank')"}
	ctx := func() map[string]interface{} {
		return map[string]interface{}{
			"empty": []interface{}{}, "nul": nil, "lst": []interface{}{"b", "a", "c"}, "one": []interface{}{nil}, "str": "a,b", "estr": "", "mp": map[string]interface{}{"k": "v", "j": nil},
			"emp": map[string]interface{}{}, "num": 3, "neg": -2.5, "nested": []interface{}{[]interface{}{}, []interface{}{1}, map[string]interface{}{"k": nil}},
		}
	}
	eng := twig.New()
	run := func(src string) (string, bool) {
		if err := eng.RegisterString("t", src); err != nil {
			return "parse error", false
		}
		out, err := eng.Render("t", ctx())
		if err != nil {
			return "error", true
		}
		return out, true
	}
	for _, b := range bases {
		for _, f := range firsts {
			for _, g := range seconds {
				chain := "{{ " + b + "|" + f + "|" + g + " }}"
				if strings.Contains(g, " + ") {
					chain = "{{ (" + b + "|" + f + "|length) + 1 }}"
				}
				steps := "{% set t = " + b + "|" + f + " %}{{ t|" + g + " }}"
				if strings.Contains(g, " + ") {
					steps = "{% set t = " + b + "|" + f + " %}{{ (t|length) + 1 }}"
				}
				res.Hist["stream:chains-step-by-step"]++
				o1, ok1 := run(chain)
				o2, ok2 := run(steps)
				if !ok1 || !ok2 {
					continue
				}
				res.Evaluations += 2
				if o1 == "error" || o2 == "error" {
					continue // which values a filter refuses is not what this stream is about
				}
				if o1 != o2 {
					c19Add(res, Finding{Kind: "oracle", Where: "chains-step-by-step", Case: Case{"stream": "chains-step-by-step", "chain": chain, "steps": steps}, Expected: o2, Observed: o1,
						Detail: "the chain written in one print tag differs from the same filters applied one at a time"})
					return
				}
				// ... and the for tag walks what the chain's value is: as many iterations as length says
				if g == "length" && o1 != "error" {
					loop := "{% set n = 0 %}{% for q in " + b + "|" + f + " %}{% set n = n + 1 %}{% endfor %}{{ n }}"
					if o3, ok := run(loop); ok && o3 != "error" && o3 != o1 {
						if _, isnum := strconv.Atoi(o1); isnum == nil {
							if s, _ := run("{{ " + b + "|" + f + " is iterable ? 'y' : 'n' }}"); s == "y" {
								c19Add(res, Finding{Kind: "oracle", Where: "chains-step-by-step/for", Case: Case{"stream": "chains-step-by-step", "chain": chain, "loop": loop}, Expected: o1, Observed: o3,
									Detail: "length of the chain's value differs from the number of iterations of a for loop over it"})
								return
							}
						}
					}
				}
			}
		}
	}
}

// c19AbsAtTheEdges: abs is never negative: not for the smallest integers, not for a negative zero, whoever made it.
func c19AbsAtTheEdges(res *Result) {
	eng := twig.New()
	vals := []struct {
		name string
		v    interface{}
		want float64
	}{
		{"float64 -0.0", math.Copysign(0, -1), 0}, {"float32 -0.0", float32(math.Copysign(0, -1)), 0}, {"int64 MinInt64", int64(math.MinInt64), 9223372036854775808}, {"int MinInt", math.MinInt, 9223372036854775808},
		{"int32 MinInt32", int32(math.MinInt32), 2147483648}, {"int8 -128", int8(-128), 128}, {"int16 MinInt16", int16(math.MinInt16), 32768}, {"int64 MinInt64+1", int64(math.MinInt64 + 1), 9223372036854775807},
		{"float64 -MaxFloat64", -math.MaxFloat64, math.MaxFloat64}, {"float64 -SmallestNonzero", -math.SmallestNonzeroFloat64, math.SmallestNonzeroFloat64}, {"string -0", "-0", 0}, {"string -0.0", "-0.0", 0},
		{"int 0", 0, 0}, {"int64 -1", int64(-1), 1},
	}
	tpls := []string{"{{ v|abs }}", "{% set w = v|abs %}{{ w }}", "{{ (v|abs) ~ '' }}", "{{ v|abs|abs }}"}
	check := func(name, src string, ctx map[string]interface{}, want float64, exact string) {
		res.Hist["stream:abs-at-the-edges"]++
		if eng.RegisterString("t", src) != nil {
			return
		}
		res.Evaluations++
		out, err := eng.Render("t", ctx)
		if err != nil {
			return // refusing a value is not a wrong value
		}
		c := Case{"stream": "abs-at-the-edges", "value": name, "tpl": src}
		got, perr := strconv.ParseFloat(strings.TrimSpace(out), 64)
		switch {
		case strings.HasPrefix(strings.TrimSpace(out), "-"):
			c19Add(res, Finding{Kind: "oracle", Where: "abs-at-the-edges", Case: c, Expected: "a number that is not negative", Observed: out, Detail: "abs printed a minus sign"})
		case perr != nil:
			c19Add(res, Finding{Kind: "oracle", Where: "abs-at-the-edges", Case: c, Expected: "a number", Observed: out})
		case got != want:
			c19Add(res, Finding{Kind: "oracle", Where: "abs-at-the-edges", Case: c, Expected: strconv.FormatFloat(want, 'g', -1, 64), Observed: out, Detail: "abs is not the magnitude of the value"})
		case exact != "" && strings.TrimSpace(out) != exact:
			c19Add(res, Finding{Kind: "oracle", Where: "abs-at-the-edges", Case: c, Expected: exact, Observed: out})
		}
	}
	for _, v := range vals {
		for _, src := range tpls {
			check(v.name, src, map[string]interface{}{"v": v.v}, v.want, "")
		}
	}
	// negative zeros the template makes itself
	for _, src := range []string{"{{ (-0.04)|round(1)|abs }}", "{{ x|round(2, 'ceil')|abs }}", "{{ (x * 0)|abs }}", "{{ (0 * -1.5)|abs }}", "{{ (-0.4)|round|abs }}", "{{ x|round|abs }}", "{{ (x / 1000)|round(1, 'ceil')|abs }}"} {
		check("computed", src, map[string]interface{}{"x": -0.004}, 0, "0")
	}
}

// c19FractionalIndexes: a start or a length that is not whole (the half of an odd length, say) is cut to the whole
// number towards zero, as an index is everywhere else: slice(a, b) is slice(trunc a, trunc b).
func c19FractionalIndexes(res *Result) {
	eng := twig.New()
	fr := []float64{0.5, 1.5, 2.5, -0.5, -1.5, -2.5, 2.9, -2.9, 1.0, 0.4, 3.999, -0.999, 4.5, 7.5}
	ctx := func(f, g float64) map[string]interface{} {
		return map[string]interface{}{"xs": []interface{}{"a", "b", "c", "d", "e"}, "ts": []string{"p", "q", "r"}, "s": "héllo wörld", "f": f, "g": g, "tf": int(f), "tg": int(g)}
	}
	render := func(src string, c map[string]interface{}) string {
		if eng.RegisterString("t", src) != nil {
			return "parse error"
		}
		out, err := eng.Render("t", c)
		if err != nil {
			return "error"
		}
		return out
	}
	for _, base := range []string{"xs", "ts", "s"} {
		show := "|join(',')"
		if base == "s" {
			show = ""
		}
		for _, f := range fr {
			for _, g := range fr {
				c := ctx(f, g)
				for _, pair := range [][2]string{
					{"{{ " + base + "|slice(f)" + show + " }}", "{{ " + base + "|slice(tf)" + show + " }}"},
					{"{{ " + base + "|slice(0, g)" + show + " }}", "{{ " + base + "|slice(0, tg)" + show + " }}"},
					{"{{ " + base + "|slice(f, g)" + show + " }}", "{{ " + base + "|slice(tf, tg)" + show + " }}"},
					{"{{ " + base + "|slice(f, g)|length }}", "{{ " + base + "|slice(tf, tg)|length }}"},
					{"{% for x in " + base + "|slice(f, g) %}{{ x }};{% endfor %}", "{% for x in " + base + "|slice(tf, tg) %}{{ x }};{% endfor %}"},
				} {
					res.Hist["stream:fractional-indexes"]++
					res.Evaluations += 2
					got, want := render(pair[0], c), render(pair[1], c)
					if got == "error" || want == "error" {
						continue
					}
					if got != want {
						c19Add(res, Finding{Kind: "oracle", Where: "fractional-indexes", Case: Case{"stream": "fractional-indexes", "tpl": pair[0], "f": f, "g": g}, Expected: want, Observed: got,
							Detail: "the same slice with the whole numbers towards zero as arguments gives the expected result"})
						return
					}
				}
			}
		}
	}
	// the natural spelling: half of the length
	for _, tc := range [][2]string{{"{{ xs|slice(0, xs|length / 2)|join(',') }}", "a,b"}, {"{{ xs|slice(xs|length / 2)|join(',') }}", "c,d,e"}, {"{{ s|slice(0, s|length / 2) }}", "héllo"}} {
		res.Evaluations++
		if got := render(tc[0], ctx(0, 0)); got != tc[1] && got != "error" {
			c19Add(res, Finding{Kind: "oracle", Where: "fractional-indexes/half", Case: Case{"stream": "fractional-indexes", "tpl": tc[0]}, Expected: tc[1], Observed: got})
		}
	}
}
