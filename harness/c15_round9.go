package main

import (
	"errors"
	"fmt"
	"os"
	"path/filepath"
	"time"

	"github.com/semihalev/twig"
)

// c15LoadedAheadOfTime: CompiledLoader.LoadCompiled(engine, name) loads a template ahead of the first render; the
// engine then serves the name as it serves any name that came from a loader: re-read when caching is off, re-read
// when auto-reload sees a newer file, and only if no earlier loader has the name.
func c15LoadedAheadOfTime(cases string, res *Result) {
	dir := filepath.Join(filepath.Dir(cases), "c15ahead")
	defer os.RemoveAll(dir)
	save := func(src string, at int64) bool {
		w := twig.New()
		if w.RegisterString("t", src) != nil || twig.NewCompiledLoader(dir).SaveCompiled(w, "t") != nil {
			return false
		}
		files, _ := filepath.Glob(filepath.Join(dir, "t*"))
		for _, f := range files {
			tm := time.Now().Add(time.Duration(at) * time.Second)
			os.Chtimes(f, tm, tm)
		}
		return len(files) > 0
	}
	for _, mode := range []string{"cache-off", "development-mode", "auto-reload", "defaults", "earlier-loader"} {
		for _, ahead := range []bool{true, false} {
			os.RemoveAll(dir)
			os.MkdirAll(dir, 0o755)
			if !save("one", 0) {
				return
			}
			eng := twig.New()
			cl := twig.NewCompiledLoader(dir)
			switch mode {
			case "cache-off":
				eng.SetCache(false)
			case "development-mode":
				eng.SetDevelopmentMode(true)
			case "auto-reload":
				eng.SetAutoReload(true)
			case "earlier-loader":
				eng.RegisterLoader(twig.NewArrayLoader(map[string]string{"t": "from the first loader"}))
			}
			eng.RegisterLoader(cl)
			c := Case{"stream": "loaded-ahead-of-time", "mode": mode, "LoadCompiled called": ahead}
			res.Hist["stream:loaded-ahead-of-time"]++
			if ahead {
				if err := cl.LoadCompiled(eng, "t"); err != nil {
					res.add(Finding{Kind: "oracle", Where: "loaded-ahead-of-time", Case: c, Expected: "LoadCompiled succeeds", Observed: err.Error()})
					continue
				}
			}
			step := func(what, want string) bool {
				res.Evaluations++
				got, err := eng.Render("t", nil)
				if err != nil {
					got = "error: " + err.Error()
				}
				if got != want {
					res.add(Finding{Kind: "oracle", Where: "loaded-ahead-of-time: " + what, Case: c, Expected: want, Observed: got,
						Detail: "an engine with a CompiledLoader; whether LoadCompiled was called first changes nothing about what later calls return"})
					return false
				}
				return true
			}
			first := "one"
			if mode == "earlier-loader" {
				first = "from the first loader"
			}
			if !step("first render", first) {
				continue
			}
			save("two", 30)
			switch mode {
			case "cache-off", "development-mode", "auto-reload":
				if step("the compiled file was replaced", "two") {
					save("three", 60)
					step("and replaced again", "three")
				}
			case "defaults":
				step("the compiled file was replaced, caching on and auto-reload off", "one")
			default:
				step("the compiled file was replaced, an earlier loader has the name", "from the first loader")
			}
			twig.SetDebugLevel(twig.DebugOff)
		}
	}
}

// c15EmptySources: a loader that has a name whose source is empty has the name: the template is the empty template,
// not a missing one, and loaders registered later are not asked.
func c15EmptySources(cases string, res *Result) {
	dir := filepath.Join(filepath.Dir(cases), "c15empty")
	defer os.RemoveAll(dir)
	os.MkdirAll(dir, 0o755)
	os.WriteFile(filepath.Join(dir, "blank.twig"), nil, 0o644)
	later := func() twig.Loader { return twig.NewArrayLoader(map[string]string{"blank.twig": "from a later loader"}) }
	mks := []struct {
		name string
		mk   func() []twig.Loader
	}{
		{"array loader alone", func() []twig.Loader { return []twig.Loader{twig.NewArrayLoader(map[string]string{"blank.twig": ""})} }},
		{"array loader before another", func() []twig.Loader {
			return []twig.Loader{twig.NewArrayLoader(map[string]string{"blank.twig": ""}), later()}
		}},
		{"array loader first in a chain", func() []twig.Loader {
			return []twig.Loader{twig.NewChainLoader([]twig.Loader{twig.NewArrayLoader(map[string]string{"blank.twig": ""}), later()})}
		}},
		{"file loader before another", func() []twig.Loader { return []twig.Loader{twig.NewFileSystemLoader([]string{dir}), later()} }},
		{"file loader first in a chain", func() []twig.Loader {
			return []twig.Loader{twig.NewChainLoader([]twig.Loader{twig.NewFileSystemLoader([]string{dir}), later()})}
		}},
		{"blanked with SetTemplate before the first load", func() []twig.Loader {
			a := twig.NewArrayLoader(map[string]string{"blank.twig": "not blank yet"})
			a.SetTemplate("blank.twig", "")
			return []twig.Loader{a, later()}
		}},
	}
	for _, m := range mks {
		for _, cache := range []bool{true, false} {
			eng := twig.New()
			eng.SetCache(cache)
			for _, l := range m.mk() {
				eng.RegisterLoader(l)
			}
			eng.RegisterString("page", "[{% include 'blank.twig' %}]")
			c := Case{"stream": "empty-sources", "loaders": m.name, "cache": cache}
			res.Hist["stream:empty-sources"]++
			for i := 0; i < 2; i++ {
				res.Evaluations += 2
				got, err := eng.Render("blank.twig", nil)
				obs := fmt.Sprintf("%q", got)
				if err != nil {
					obs = "error: " + err.Error()
					if errors.Is(err, twig.ErrTemplateNotFound) {
						obs = "ErrTemplateNotFound: " + err.Error()
					}
				}
				if obs != `""` {
					res.add(Finding{Kind: "oracle", Where: "empty-sources/" + m.name, Case: c, Expected: `"" (the first loader has the name; its source is empty)`, Observed: obs})
					break
				}
				got, err = eng.Render("page", nil)
				if err != nil {
					got = "error: " + err.Error()
				}
				if got != "[]" {
					res.add(Finding{Kind: "oracle", Where: "empty-sources/" + m.name + "/included", Case: c, Expected: "[]", Observed: got})
					break
				}
			}
		}
	}
}

// c15RewrittenWithinTheSecond: with caching disabled every call re-reads the loaders: also when the file was written
// again with the very same modification time (two builds within a second, a tool that pins times), for the compiled
// loader, the file-system loader, and a new engine that shares the loader instance.
func c15RewrittenWithinTheSecond(cases string, res *Result) {
	dir := filepath.Join(filepath.Dir(cases), "c15samesecond")
	defer os.RemoveAll(dir)
	pinned := time.Now().Add(-time.Hour).Truncate(time.Second)
	for _, kind := range []string{"compiled", "files"} {
		for _, mode := range []string{"cache-off", "development-mode", "new-engine-same-loader"} {
			os.RemoveAll(dir)
			os.MkdirAll(dir, 0o755)
			write := func(src string) bool {
				if kind == "files" {
					p := filepath.Join(dir, "t.twig")
					if os.WriteFile(p, []byte(src), 0o644) != nil {
						return false
					}
					return os.Chtimes(p, pinned, pinned) == nil
				}
				w := twig.New()
				if w.RegisterString("t", src) != nil || twig.NewCompiledLoader(dir).SaveCompiled(w, "t") != nil {
					return false
				}
				files, _ := filepath.Glob(filepath.Join(dir, "t*"))
				for _, f := range files {
					os.Chtimes(f, pinned, pinned)
				}
				return len(files) > 0
			}
			if !write("first text") {
				return
			}
			var ld twig.Loader
			if kind == "files" {
				ld = twig.NewFileSystemLoader([]string{dir})
			} else {
				ld = twig.NewCompiledLoader(dir)
			}
			mk := func() *twig.Engine {
				e := twig.New()
				switch mode {
				case "cache-off", "new-engine-same-loader":
					e.SetCache(false)
				case "development-mode":
					e.SetDevelopmentMode(true)
				}
				e.RegisterLoader(ld)
				return e
			}
			eng := mk()
			c := Case{"stream": "rewritten-within-the-second", "loader": kind, "mode": mode}
			res.Hist["stream:rewritten-within-the-second"]++
			step := func(what, want string) bool {
				res.Evaluations++
				got, err := eng.Render("t", nil)
				if err != nil {
					got = "error: " + err.Error()
				}
				if got != want {
					res.add(Finding{Kind: "oracle", Where: "rewritten-within-the-second: " + what, Case: c, Expected: want, Observed: got,
						Detail: "caching is disabled; the file was written again and carries the same modification time as before"})
					return false
				}
				return true
			}
			if !step("first version", "first text") {
				continue
			}
			for i, v := range []string{"second text, longer than the first", "third", "4"} {
				if !write(v) {
					break
				}
				if mode == "new-engine-same-loader" {
					eng = mk()
				}
				if !step(fmt.Sprintf("rewrite %d", i+1), v) {
					break
				}
			}
			twig.SetDebugLevel(twig.DebugOff)
		}
	}
}
