package main

import (
	"fmt"
	"strings"

	"github.com/semihalev/twig"
)

// c06SwitchedOffAndOn: an engine that was given a policy, then told DisableSandbox(), then EnableSandbox(policy) again.
// Whatever DisableSandbox() means for ordinary renders, a template rendered through `include ... sandboxed` never
// gets to run a callback the policy the engine was given forbids: in each phase the include either confines the
// template (a security violation) or refuses to run it; it does not run it unconfined.
func c06SwitchedOffAndOn(res *Result) {
	inner := map[string]string{
		"filter": "<{{ x|spy }}>", "function": "<{{ spyfn(1) }}>", "chain": "<{{ x|upper|spy|upper }}>", "for-sequence": "{% for i in xs|spy %}{{ i }}{% endfor %}",
		"apply": "{% apply spy %}a{% endapply %}", "nested": "{% include 'deeper' %}", "argument": "<{{ x|default(spyfn(2)) }}>",
	}
	for name, src := range inner {
		filterCalls, functionCalls := 0, 0
		e := twig.New()
		e.AddFilter("spy", func(v interface{}, _ ...interface{}) (interface{}, error) { filterCalls++; return v, nil })
		e.AddFunction("spyfn", func(a ...interface{}) (interface{}, error) { functionCalls++; return "f", nil })
		policy := &twig.DefaultSecurityPolicy{AllowedFilters: map[string]bool{"upper": true, "default": true}, AllowedFunctions: map[string]bool{}, AllowedTags: map[string]bool{"for": true, "apply": true, "include": true}}
		e.RegisterString("widget", src)
		e.RegisterString("deeper", "<{{ x|spy }}{{ spyfn(3) }}>")
		e.RegisterString("page", "[{% include 'widget' sandboxed %}]")
		e.RegisterString("outside", "{{ x|spy }}{{ spyfn(0) }}")
		phases := []struct {
			name string
			do   func()
		}{
			{"EnableSandbox(policy)", func() { e.EnableSandbox(policy) }},
			{"then DisableSandbox()", func() { e.DisableSandbox() }},
			{"then EnableSandbox(policy) again", func() { e.EnableSandbox(policy) }},
			{"then DisableSandbox() twice", func() { e.DisableSandbox(); e.DisableSandbox() }},
		}
		for _, ph := range phases {
			ph.do()
			filterCalls, functionCalls = 0, 0
			c := Case{"stream": "c06-switched-off-and-on", "phase": ph.name, "widget": src, "position": name}
			res.Hist["stream:c06-switched-off-and-on"]++
			res.Evaluations++
			out, err := e.Render("page", map[string]interface{}{"x": "v", "xs": []interface{}{1, 2}})
			if filterCalls+functionCalls > 0 {
				res.add(Finding{Kind: "oracle", Where: "c06-switched-off-and-on/" + name, Case: c, Expected: "no spy invoked below the sandboxed include: the policy the engine was given allows neither",
					Observed: fmt.Sprintf("filter spy %d times, function spyfn %d times; output %q err %v", filterCalls, functionCalls, out, err),
					Detail:   "phase: " + ph.name})
				break
			}
			// the including template's own permissions are untouched
			filterCalls, functionCalls = 0, 0
			if _, err := e.Render("outside", map[string]interface{}{"x": "v"}); err != nil || filterCalls != 1 || functionCalls != 1 {
				res.add(Finding{Kind: "oracle", Where: "c06-switched-off-and-on/outside", Case: c, Expected: "a template outside any sandboxed include runs both callbacks once",
					Observed: fmt.Sprintf("filter spy %d times, function spyfn %d times, err %v", filterCalls, functionCalls, err), Detail: "phase: " + ph.name})
				break
			}
		}
	}
}

// c06RenderedOutsideFirst: a template that was already rendered outside any sandbox (where it may run everything) and
// is then reached through `include ... sandboxed` on the same engine: nothing the first render resolved answers for
// the second.
func c06RenderedOutsideFirst(res *Result) {
	inner := map[string]string{
		"filter": "<{{ x|spy }}>", "chain-first": "<{{ x|spy|upper }}>", "chain-middle": "<{{ x|upper|spy|upper }}>", "chain-last": "<{{ x|upper|spy }}>", "function": "<{{ spyfn(1) }}>",
		"for-sequence": "{% for i in xs|spy %}{{ i }}{% endfor %}", "for-chain": "{% for i in xs|spy|reverse %}{{ i }}{% endfor %}", "apply": "{% apply spy %}a{% endapply %}",
		"argument": "<{{ x|default(spyfn(2)) }}>", "set": "{% set y = x|spy|upper %}{{ y }}", "condition": "{% if x|spy|upper %}y{% endif %}", "nested": "{% include 'deeper' %}",
		"apply-core": "{% apply striptags %}<b>Hello</b> world{% endapply %}", "apply-core-spaceless": "{% apply spaceless %}<a> <b>x</b> </a>{% endapply %}", "core-filter": "<{{ x|striptags }}>",
		"core-chain": "<{{ x|upper|striptags|upper }}>", "core-function": "<{{ max(1, 2) }}>", "spaceless-tag": "{% spaceless %}<a> <b>x</b> </a>{% endspaceless %}",
		"macro": "{% macro m(a) %}{{ a|spy|upper }}{% endmacro %}{{ m(x) }}", "test-operand": "{{ (x|spy|upper) is defined ? 'd' : 'u' }}", "ternary": "{{ x ? x|spy|upper : '' }}",
	}
	for name, src := range inner {
		for _, times := range []int{1, 3} {
			filterCalls, functionCalls := 0, 0
			e := twig.New()
			e.AddFilter("spy", func(v interface{}, _ ...interface{}) (interface{}, error) { filterCalls++; return v, nil })
			e.AddFunction("spyfn", func(a ...interface{}) (interface{}, error) { functionCalls++; return "f", nil })
			e.EnableSandbox(&twig.DefaultSecurityPolicy{AllowedFilters: map[string]bool{"upper": true, "default": true, "reverse": true}, AllowedFunctions: map[string]bool{"m": true},
				AllowedTags: map[string]bool{"for": true, "apply": true, "include": true, "set": true, "if": true, "macro": true}})
			e.RegisterString("widget", src)
			e.RegisterString("deeper", "<{{ x|upper|spy|upper }}{{ spyfn(3) }}>")
			e.RegisterString("page", "[{% include 'widget' sandboxed %}]")
			ctx := func() map[string]interface{} { return map[string]interface{}{"x": "v", "xs": []interface{}{1, 2}} }
			c := Case{"stream": "c06-rendered-outside-first", "widget": src, "position": name, "renders outside the sandbox before": times}
			res.Hist["stream:c06-rendered-outside-first"]++
			for i := 0; i < times; i++ {
				if _, err := e.Render("widget", ctx()); err != nil {
					break
				}
			}
			outside := filterCalls + functionCalls
			filterCalls, functionCalls = 0, 0
			res.Evaluations++
			out, err := e.Render("page", ctx())
			if filterCalls+functionCalls > 0 {
				res.add(Finding{Kind: "oracle", Where: "c06-rendered-outside-first/" + name, Case: c, Expected: "no spy invoked below the sandboxed include",
					Observed: fmt.Sprintf("filter spy %d times, function spyfn %d times; output %q err %v", filterCalls, functionCalls, out, err),
					Detail:   fmt.Sprintf("the widget was rendered %d times outside the sandbox first (its callbacks ran %d times there, as they may)", times, outside)})
			} else if err == nil {
				res.add(Finding{Kind: "oracle", Where: "c06-rendered-outside-first/" + name, Case: c, Expected: "a security violation", Observed: fmt.Sprintf("output %q, no error", out)})
			}
		}
	}
}

// c06LongTemplates: the positions again in sandboxed templates longer than 4096 bytes (read by the other tokenizer),
// written tightly and with blanks.
func c06LongTemplates(res *Result) {
	pad := strings.Repeat("<p>static text of the widget</p>\n", 160) // 5280 bytes
	inner := map[string]string{
		"filter": "<{{ x|spy }}>", "filter-blanks": "<{{ x | spy }}>", "chain": "<{{ x|upper|spy|upper }}>", "function": "<{{ spyfn(1) }}>", "for-sequence": "{% for i in xs|spy %}{{ i }}{% endfor %}",
		"for-sequence-blanks": "{% for i in xs | spy %}{{ i }}{% endfor %}", "for-key-value": "{% for k, i in xs|spy %}{{ i }}{% endfor %}", "for-chain": "{% for i in xs|spy|reverse %}{{ i }}{% endfor %}",
		"for-function": "{% for i in spyfn(xs) %}{{ i }}{% endfor %}", "apply": "{% apply spy %}a{% endapply %}", "set": "{% set y = x|spy %}{{ y }}", "if": "{% if x|spy %}y{% endif %}", "argument": "<{{ x|default(spyfn(2)) }}>",
		"for-if": "{% for i in xs|spy if i %}{{ i }}{% endfor %}", "set-capture": "{% set y %}{{ x|spy }}{% endset %}{{ y }}", "include-with": "{% include 'plain' with {'v': x|spy} %}",
	}
	for name, src := range inner {
		for _, where := range []string{"short", "padding-after", "padding-before", "padding-both"} {
			widget := src
			switch where {
			case "padding-after":
				widget = src + pad
			case "padding-before":
				widget = pad + src
			case "padding-both":
				widget = pad + src + pad
			}
			filterCalls, functionCalls := 0, 0
			e := twig.New()
			e.AddFilter("spy", func(v interface{}, _ ...interface{}) (interface{}, error) { filterCalls++; return v, nil })
			e.AddFunction("spyfn", func(a ...interface{}) (interface{}, error) {
				functionCalls++
				if len(a) > 0 {
					return a[0], nil
				}
				return "f", nil
			})
			e.EnableSandbox(&twig.DefaultSecurityPolicy{AllowedFilters: map[string]bool{"upper": true, "default": true, "reverse": true}, AllowedFunctions: map[string]bool{},
				AllowedTags: map[string]bool{"for": true, "apply": true, "include": true, "set": true, "if": true}})
			if e.RegisterString("widget", widget) != nil {
				continue
			}
			e.RegisterString("plain", "{{ v }}")
			e.RegisterString("page", "[{% include 'widget' sandboxed %}]")
			c := Case{"stream": "c06-long-templates", "position": name, "widget": src, "padding": where, "bytes": len(widget)}
			res.Hist["stream:c06-long-templates"]++
			res.Evaluations++
			out, err := e.Render("page", map[string]interface{}{"x": "v", "xs": []interface{}{1, 2}})
			if filterCalls+functionCalls > 0 {
				res.add(Finding{Kind: "oracle", Where: "c06-long-templates/" + name + "/" + where, Case: c, Expected: "no spy invoked below the sandboxed include",
					Observed: fmt.Sprintf("filter spy %d times, function spyfn %d times; output of %d bytes, err %v", filterCalls, functionCalls, len(out), err)})
			} else if err == nil {
				res.add(Finding{Kind: "oracle", Where: "c06-long-templates/" + name + "/" + where, Case: c, Expected: "a security violation", Observed: fmt.Sprintf("output of %d bytes, no error", len(out))})
			}
		}
	}
}
