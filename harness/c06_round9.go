package main

import (
	"fmt"

	"github.com/semihalev/twig"
)

// c06SwitchedOffAndOn: an engine that was given a policy, then told DisableSandbox(), then EnableSandbox(policy) again.
// Whatever DisableSandbox() means for ordinary renders, a template rendered through `include ... sandboxed` never
// gets to run a callback the policy the engine was given forbids: in each phase the include either confines the
// template (a security violation) or refuses to run it; it does not run it unconfined.
func c06SwitchedOffAndOn(res *Result) {
	inner := map[string]string{
		"filter": "<{{ x|spy }}>", "function": "<{{ spyfn(1) }}>", "chain": "<{{ x|upper|spy|upper }}>", "for-sequence": "{% for i in xs|spy %}{{ i }}{% endfor %}",
		"apply": "{% apply spy %}a{% endapply %}", "nested": "{% include 'deeper' %}", "argument": "<{{ x|default(spyfn(2)) }}>",
	}
	for name, src := range inner {
		filterCalls, functionCalls := 0, 0
		e := twig.New()
		e.AddFilter("spy", func(v interface{}, _ ...interface{}) (interface{}, error) { filterCalls++; return v, nil })
		e.AddFunction("spyfn", func(a ...interface{}) (interface{}, error) { functionCalls++; return "f", nil })
		policy := &twig.DefaultSecurityPolicy{AllowedFilters: map[string]bool{"upper": true, "default": true}, AllowedFunctions: map[string]bool{}, AllowedTags: map[string]bool{"for": true, "apply": true, "include": true}}
		e.RegisterString("widget", src)
		e.RegisterString("deeper", "<{{ x|spy }}{{ spyfn(3) }}>")
		e.RegisterString("page", "[{% include 'widget' sandboxed %}]")
		e.RegisterString("outside", "{{ x|spy }}{{ spyfn(0) }}")
		phases := []struct {
			name string
			do   func()
		}{
			{"EnableSandbox(policy)", func() { e.EnableSandbox(policy) }},
			{"then DisableSandbox()", func() { e.DisableSandbox() }},
			{"then EnableSandbox(policy) again", func() { e.EnableSandbox(policy) }},
			{"then DisableSandbox() twice", func() { e.DisableSandbox(); e.DisableSandbox() }},
		}
		for _, ph := range phases {
			ph.do()
			filterCalls, functionCalls = 0, 0
			c := Case{"stream": "c06-switched-off-and-on", "phase": ph.name, "widget": src, "position": name}
			res.Hist["stream:c06-switched-off-and-on"]++
			res.Evaluations++
			out, err := e.Render("page", map[string]interface{}{"x": "v", "xs": []interface{}{1, 2}})
			if filterCalls+functionCalls > 0 {
				res.add(Finding{Kind: "oracle", Where: "c06-switched-off-and-on/" + name, Case: c, Expected: "no spy invoked below the sandboxed include: the policy the engine was given allows neither",
					Observed: fmt.Sprintf("filter spy %d times, function spyfn %d times; output %q err %v", filterCalls, functionCalls, out, err),
					Detail:   "phase: " + ph.name})
				break
			}
			// the including template's own permissions are untouched
			filterCalls, functionCalls = 0, 0
			if _, err := e.Render("outside", map[string]interface{}{"x": "v"}); err != nil || filterCalls != 1 || functionCalls != 1 {
				res.add(Finding{Kind: "oracle", Where: "c06-switched-off-and-on/outside", Case: c, Expected: "a template outside any sandboxed include runs both callbacks once",
					Observed: fmt.Sprintf("filter spy %d times, function spyfn %d times, err %v", filterCalls, functionCalls, err), Detail: "phase: " + ph.name})
				break
			}
		}
	}
}
