package main

import (
	"bytes"
	"fmt"
	"html"
	"strings"

	"github.com/semihalev/twig"
)

func init() { runners["C07"] = runC07 }

// C07: escape / e in every position a filter can be applied, and the built-in fallback.
// Oracle (model independent): no raw < > " ' in the output, and Go's own html.UnescapeString
// gives back the input.
func runC07(cases string, res *Result) {
	eng := twig.New()
	reg := func(name, src string) {
		if err := eng.RegisterString(name, src); err != nil {
			panic(err)
		}
	}
	reg("p_e", "{{ v|e }}")
	reg("p_escape", "{{ v|escape }}")
	reg("chain", "{{ v|raw|e|raw }}")
	reg("apply", "{% apply escape %}{{ v }}{% endapply %}")
	reg("macro", "{% macro m(x) %}{{ x|e }}{% endmacro %}{{ m(v) }}")
	reg("inc", "{{ v|escape }}")
	reg("include", "{% include 'inc' %}")
	reg("cond", "{% if true %}{% for i in [1] %}{{ v|e }}{% endfor %}{% endif %}")
	reg("chainarg", "{{ v|default(dflt|trim|lower)|e }}")
	reg("chainarg2", "{{ v|replace('@@NOPE@@', dflt|trim|upper|lower)|escape }}")
	// escape applied to escaped text: the second application sees the first one's output
	reg("twice_e", "{{ v|e|e }}")
	reg("twice_escape", "{{ v|escape|escape }}")
	reg("twice_mixed", "{{ v|raw|e|escape }}")
	reg("twice_set", "{% set w = v|e|e %}{{ w }}")
	reg("twice_macro", "{% macro m(x) %}{{ x|escape|escape }}{% endmacro %}{{ m(v) }}")
	twice := []string{"twice_e", "twice_escape", "twice_mixed", "twice_set", "twice_macro"}
	// another engine in the same process whose own filters carry the names e and escape: what it
	// resolves must never answer for this engine
	other := twig.New()
	other.AddFilter("e", func(v interface{}, _ ...interface{}) (interface{}, error) { return v, nil })
	other.AddFilter("escape", func(v interface{}, _ ...interface{}) (interface{}, error) { return v, nil })
	if err := other.RegisterString("o_e", "{{ v|e }}"); err != nil {
		panic(err)
	}
	if err := other.RegisterString("o_escape", "{% macro m(x) %}{{ x|escape }}{% endmacro %}{{ m(v) }}{{ v|escape }}"); err != nil {
		panic(err)
	}
	reg("p_raw", "{{ v }}")
	reg("ab_inc", "<i>{{ v }}</i>")
	for i, bp := range c07ApplyBodies {
		reg("ab_plain_"+bp[0], bp[1])
		name := []string{"escape", "e"}[i%2]
		reg("ab_esc_"+bp[0], "{% apply "+name+" %}"+bp[1]+"{% endapply %}")
	}
	// both names inside a sandboxed include, under the library's default security policy
	sbeng := twig.New()
	sbeng.EnableSandbox(twig.NewDefaultSecurityPolicy())
	for n, src := range map[string]string{"in_e": "{{ v|e }}", "in_escape": "{{ v|escape }}", "in_chain_e": "{{ v|raw|e }}", "in_chain_escape": "{{ v|raw|escape }}",
		"in_set_e": "{% set w = v|e %}{{ w }}", "in_set_escape": "{% set w = v|escape %}{{ w }}", "in_if_e": "{% if v|e is defined %}{{ v|e }}{% endif %}", "in_if_escape": "{% if v|escape is defined %}{{ v|escape }}{% endif %}",
		"sb_e": "{% include 'in_e' sandboxed %}", "sb_escape": "{% include 'in_escape' sandboxed %}", "sb_chain_e": "{% include 'in_chain_e' sandboxed %}", "sb_chain_escape": "{% include 'in_chain_escape' sandboxed %}",
		"sb_set_e": "{% include 'in_set_e' sandboxed %}", "sb_set_escape": "{% include 'in_set_escape' sandboxed %}", "sb_if_e": "{% include 'in_if_e' sandboxed %}", "sb_if_escape": "{% include 'in_if_escape' sandboxed %}"} {
		if err := sbeng.RegisterString(n, src); err != nil {
			panic(err)
		}
	}
	sandboxed := [][2]string{{"sb_e", "sb_escape"}, {"sb_chain_e", "sb_chain_escape"}, {"sb_set_e", "sb_set_escape"}, {"sb_if_e", "sb_if_escape"}}
	all := []string{"p_e", "p_escape", "chain", "apply", "macro", "include", "cond", "chainarg", "chainarg2"}
	few := []string{"p_e", "p_escape"}

	fbctx := twig.NewRenderContext(&twig.Environment{}, nil, nil)
	fallback := func(s string) (string, error) {
		v, err := fbctx.ApplyFilter("escape", s)
		if err != nil {
			return "", err
		}
		str, _ := v.(string)
		return str, nil
	}

	oracle := func(in, out string) string {
		if i := strings.IndexAny(out, "<>\"'"); i >= 0 {
			return "raw special character in output at offset " + itoa(i)
		}
		if html.UnescapeString(out) != in && !strings.Contains(in, "&") {
			// html.UnescapeString also decodes references that were already in the input only when
			// the encoder failed to escape their ampersand, which the first clause of the next
			// test catches; inputs containing & are checked by the exact reference scan below.
			return "html.UnescapeString(output) != input"
		}
		if strings.Contains(in, "&") && refDecode(out) != in {
			return "decoding the five references does not give back the input"
		}
		return ""
	}

	readCases(cases, func(c Case) {
		in := c.hexs("in")
		exp := c.hexs("exp")
		expfb := c.hexs("exp_fb")
		stream := c.str("stream")
		res.Hist["stream:"+stream]++
		res.count(in, strings.ContainsAny(in, "<>&\"'"))
		if stream != "exhaustive2" {
			res.sample(map[string]string{"in": hx(in), "model": hx(exp)}, 12)
		}
		pos := all
		if stream == "exhaustive2" {
			pos = few
		}
		check := func(where, want, got string, err error) {
			res.Evaluations++
			if err != nil {
				res.add(Finding{Kind: "oracle", Where: where, Case: c, Detail: "error: " + err.Error()})
				return
			}
			if msg := oracle(in, got); msg != "" {
				res.add(Finding{Kind: "oracle", Where: where, Case: c, Expected: hx(want), Observed: hx(got), Detail: msg})
			} else if got != want {
				res.add(Finding{Kind: "disagreement", Where: where, Case: c, Expected: hx(want), Observed: hx(got)})
			}
		}
		ctx := map[string]interface{}{"v": in, "dflt": "  ZZ  "}
		if vk := c.str("vkind"); vk != "" {
			ctx["v"] = c07Value(vk, in)
			pos = []string{"p_e", "p_escape", "chain", "macro", "include", "cond"}
		}
		for i, p := range pos {
			if (p == "chainarg") && in == "" {
				continue // default() replaces the empty string: outside what this position is for
			}
			if stream != "exhaustive2" {
				// the other engine renders in between, its last filter being its own e / escape
				o := "o_e"
				if i%2 == 1 {
					o = "o_escape"
				}
				res.Hist["interleaved:other-engine"]++
				if _, oerr := other.Render(o, ctx); oerr != nil {
					res.add(Finding{Kind: "oracle", Where: "other engine " + o, Case: c, Detail: "error: " + oerr.Error()})
				}
			}
			got, err := eng.Render(p, ctx)
			check(p, exp, got, err)
		}
		if exp2 := c.hexs("exp2"); c.str("vkind") == "" && stream != "exhaustive2" {
			for _, p := range twice {
				res.Hist["position:"+p]++
				res.Evaluations++
				got, err := eng.Render(p, ctx)
				switch {
				case err != nil:
					res.add(Finding{Kind: "oracle", Where: p, Case: c, Detail: "error: " + err.Error()})
				case strings.ContainsAny(got, "<>\"'"):
					res.add(Finding{Kind: "oracle", Where: p, Case: c, Expected: hx(exp2), Observed: hx(got), Detail: "raw special character in output"})
				case refDecode(got) != exp || refDecode(refDecode(got)) != in:
					res.add(Finding{Kind: "oracle", Where: p, Case: c, Expected: hx(exp2), Observed: hx(got), Detail: "decoding the output of escape applied twice once does not give back the escaped text (twice: the input)"})
				case got != exp2:
					res.add(Finding{Kind: "disagreement", Where: p, Case: c, Expected: hx(exp2), Observed: hx(got)})
				}
			}
		}
		// the text of a macro body built with the exported node constructors: {{ value|e }} in every spacing
		if c.str("vkind") == "" && stream != "exhaustive2" {
			form := c07MacroForms[len(in)%len(c07MacroForms)]
			res.Hist["position:macrotext"]++
			got, err := twig.VerifMacroTextCall(eng, "["+form+"]", in)
			if err == nil && len(got) >= 2 {
				got = got[1 : len(got)-1]
			}
			check("macrotext "+form, exp, got, err)
		}
		got, err := fallback(in)
		check("fallback", expfb, got, err)
		if stream != "exhaustive2" {
			for _, pr := range sandboxed {
				res.Hist["position:sandboxed-include"]++
				ge, ee := sbeng.Render(pr[0], ctx)
				gs, es := sbeng.Render(pr[1], ctx)
				res.Evaluations += 2
				if (ee == nil) != (es == nil) || ge != gs {
					res.add(Finding{Kind: "oracle", Where: pr[0] + " / " + pr[1], Case: c, Expected: fmt.Sprintf("%s (err=%v)", hx(gs), es), Observed: fmt.Sprintf("%s (err=%v)", hx(ge), ee),
						Detail: "e and escape behave differently inside a sandboxed include under the default security policy"})
				} else if ee == nil {
					check(pr[0], exp, ge, nil)
				}
			}
		}
		// the value inside containers: the filter sees the container's text form (whatever it is: the engine's own
		// conversion, read off an unfiltered print), and escapes all of it
		if vk := c.str("vkind"); (vk != "" || stream == "fixed" || stream == "exhaustive1") && in != "" {
			inner := interface{}(in)
			if vk != "" {
				inner = c07Value(vk, in)
			}
			for ci, cont := range []interface{}{
				[]interface{}{"<a>", inner}, []interface{}{[]interface{}{inner}, 1}, map[string]interface{}{"k": inner}, []interface{}{map[string]interface{}{"<k>": []interface{}{inner, "&"}}},
				[2]interface{}{inner, inner}, struct{ F interface{} }{inner}, &[]interface{}{inner}, []fmt.Stringer{c07StrStruct{in}}, []error{&c07Err{in}}, [][]byte{[]byte(in)},
			} {
				cctx := map[string]interface{}{"v": cont, "dflt": "ZZ"}
				text, terr := eng.Render("p_raw", cctx)
				if terr != nil {
					continue
				}
				for _, p := range []string{"p_e", "p_escape", "apply", "macro", "twice_set"} {
					res.Evaluations++
					res.Hist["container"]++
					got, err := eng.Render(p, cctx)
					want := text
					if p == "twice_set" {
						got = refDecode(got)
					}
					where := fmt.Sprintf("%s on container %d (%T)", p, ci, cont)
					switch {
					case err != nil:
						res.add(Finding{Kind: "oracle", Where: where, Case: c, Detail: "error: " + err.Error()})
					case strings.ContainsAny(got, "<>\"'"):
						res.add(Finding{Kind: "oracle", Where: where, Case: c, Expected: hx(want), Observed: hx(got), Detail: "raw special character in the escaped text of a container"})
					case refDecode(got) != want:
						res.add(Finding{Kind: "oracle", Where: where, Case: c, Expected: hx(want), Observed: hx(got), Detail: "decoding the escaped text of a container does not give the text the engine prints for it unescaped"})
					}
				}
			}
		}
		// an apply block around every construct that produces text: all of it is escaped
		if stream == "fixed" || stream == "random" || c.str("vkind") == "stringer-struct" {
			actx := map[string]interface{}{"v": ctx["v"], "dflt": "ZZ"}
			for _, bp := range c07ApplyBodies {
				plain, perr := eng.Render("ab_plain_"+bp[0], actx)
				got, err := eng.Render("ab_esc_"+bp[0], actx)
				res.Evaluations++
				res.Hist["apply-body:"+bp[0]]++
				if perr != nil && err != nil {
					continue
				}
				switch {
				case (perr == nil) != (err == nil):
					res.add(Finding{Kind: "oracle", Where: "apply escape around " + bp[0], Case: c, Detail: fmt.Sprintf("with apply: %v, without: %v", err, perr)})
				case strings.ContainsAny(got, "<>\"'"):
					res.add(Finding{Kind: "oracle", Where: "apply escape around " + bp[0], Case: c, Expected: hx(plain), Observed: hx(got), Detail: "raw special character in the output of {% apply escape %}"})
				case refDecode(got) != plain:
					res.add(Finding{Kind: "oracle", Where: "apply escape around " + bp[0], Case: c, Expected: hx(plain), Observed: hx(got), Detail: "decoding the output of {% apply escape %} does not give the body's own output"})
				}
			}
		}
	})
	c07LongValues(res, eng)
	c07UnderEngineSettings(res)
	c07PartialsRegisteredAgain(res)
	c07AfterRescues(res)
	res.Exhaustive = []string{"exhaustive1", "exhaustive2"}
}

// bodies of an apply block: every construct that writes text
var c07ApplyBodies = [][2]string{
	{"text", "<b class=\"x\">T&C's</b>{{ v }}"}, {"verbatim", "{% verbatim %}<a href=\"{{ url }}\">'&'</a>{% endverbatim %}{{ v }}"},
	{"if", "{% if true %}<p>{{ v }}</p>{% else %}no{% endif %}"}, {"for", "{% for i in [1, 2] %}<li>{{ v }}{{ i }}</li>{% endfor %}"},
	{"include", "<u>{% include 'ab_inc' %}</u>"}, {"macro", "{% macro m(x) %}<m>{{ x }}</m>{% endmacro %}{{ m(v) }}{{ _self.m('&') }}"},
	{"set", "{% set q = '<q>' ~ v ~ '</q>' %}{{ q }}"}, {"spaceless", "{% spaceless %}<a> <b>{{ v }}</b> </a>{% endspaceless %}"},
	{"nested-apply", "{% apply upper %}<x>{{ v }}</x>{% endapply %}<y>"}, {"raw", "{{ v|raw }}<z>{{ '<lit>'|raw }}"}, {"comment", "<c>{# <hidden> #}{{ v }}</c>"},
	{"block", "{% block bb %}<blk>{{ v }}</blk>{% endblock %}"}, {"verbatim-only", "{% verbatim %}<only>{% endverbatim %}"},
}

var c07MacroForms = []string{"{{ value|e }}", "{{value|e}}", "{{ value |e }}", "{{ value| e }}", "{{ value | e }}", "{{ value | escape }}", "{{  value  |  escape  }}", "{{ value |\te }}", "{{ value|escape }}"}

// values of other kinds whose text form is the given string
type c07StrInt int
type c07StrBool bool
type c07StrFloat float64
type c07StrStruct struct{ s string }
type c07Named string
type c07Err struct{ s string }

var c07Text = map[int]string{}

func (v c07StrInt) String() string    { return c07Text[int(v)] }
func (v c07StrBool) String() string   { return c07Text[-1] }
func (v c07StrFloat) String() string  { return c07Text[-2] }
func (v c07StrStruct) String() string { return v.s }
func (v *c07Err) Error() string       { return v.s }

func c07Value(kind, text string) interface{} {
	switch kind {
	case "int":
		n := 0
		neg := false
		for i := 0; i < len(text); i++ {
			if text[i] == '-' {
				neg = true
			} else {
				n = n*10 + int(text[i]-'0')
			}
		}
		if neg {
			n = -n
		}
		return n
	case "bool":
		return text == "true"
	case "nil":
		return nil
	case "float":
		var f float64
		fmt.Sscanf(text, "%g", &f)
		return f
	case "stringer-int":
		c07Text[7] = text
		return c07StrInt(7)
	case "stringer-bool":
		c07Text[-1] = text
		return c07StrBool(true)
	case "stringer-float":
		c07Text[-2] = text
		return c07StrFloat(1.5)
	case "stringer-struct":
		return c07StrStruct{text}
	case "ptr-stringer":
		return &c07StrStruct{text}
	case "error":
		return &c07Err{text}
	case "bytes":
		return []byte(text)
	case "named-string":
		return c07Named(text)
	}
	return text
}

// refDecode decodes exactly &amp; &lt; &gt; &#34; &#39; &quot; (independent re-implementation).
func refDecode(s string) string {
	r := strings.NewReplacer("&amp;", "&", "&lt;", "<", "&gt;", ">", "&#34;", "\"", "&#39;", "'", "&quot;", "\"")
	return r.Replace(s)
}

func itoa(i int) string {
	if i == 0 {
		return "0"
	}
	neg := i < 0
	if neg {
		i = -i
	}
	var b []byte
	for i > 0 {
		b = append([]byte{byte('0' + i%10)}, b...)
		i /= 10
	}
	if neg {
		b = append([]byte{'-'}, b...)
	}
	return string(b)
}

// c07LongValues: values longer than any buffer the engine writes through (64 KiB and more), made of multi-byte
// characters, invalid bytes and the five special characters, shifted so that a character stands across every
// multiple of 4096 and 65536, through Render and through RenderTo into a writer that only has Write.
func c07LongValues(res *Result, eng *twig.Engine) {
	units := []string{"é<", "€&", "\U0001F600\"", "a'\xff", "ééé>"}
	for _, size := range []int{4096, 65536, 131072, 200000} {
		for ui, u := range units {
			for shift := 0; shift < 6; shift++ {
				var sb strings.Builder
				sb.WriteString(strings.Repeat("x", shift))
				for sb.Len() < size+20 {
					sb.WriteString(u)
				}
				in := sb.String()
				ctx := map[string]interface{}{"v": in, "dflt": "ZZ"}
				c := Case{"stream": "long-values", "size": len(in), "unit": hx(u), "shift": shift}
				res.Hist["stream:long-values"]++
				res.count(fmt.Sprint("long-values", size, ui, shift), true)
				for _, p := range []string{"p_e", "p_escape", "apply", "macro", "include"} {
					for _, plain := range []bool{false, true} {
						res.Evaluations++
						var got string
						var err error
						if plain {
							var w c07PlainWriter
							err = eng.RenderTo(&w, p, ctx)
							got = w.buf.String()
						} else {
							got, err = eng.Render(p, ctx)
						}
						where := fmt.Sprintf("long-values/%s plain-writer=%v", p, plain)
						switch {
						case err != nil:
							res.add(Finding{Kind: "oracle", Where: where, Case: c, Detail: "error: " + err.Error()})
						case strings.ContainsAny(got, "<>\"'"):
							res.add(Finding{Kind: "oracle", Where: where, Case: c, Detail: "raw special character in the escaped text of a long value"})
						case refDecode(got) != in:
							d := refDecode(got)
							at := 0
							for at < len(d) && at < len(in) && d[at] == in[at] {
								at++
							}
							res.add(Finding{Kind: "oracle", Where: where, Case: c, Expected: fmt.Sprintf("%d bytes", len(in)), Observed: fmt.Sprintf("%d bytes after decoding, first difference at offset %d", len(d), at),
								Detail: "decoding the escaped text of a long value does not give the value back"})
						}
					}
				}
			}
		}
	}
}

type c07PlainWriter struct{ buf bytes.Buffer }

func (w *c07PlainWriter) Write(p []byte) (int, error) { return w.buf.Write(p) }
