package main

import (
	"bytes"
	"fmt"
	"strings"

	"github.com/semihalev/twig"
)

// c04PlainWriter has Write and nothing else: no WriteString, no ReadFrom (a gzip.Writer, a network connection,
// an io.PipeWriter look like this to the engine)
type c04PlainWriter struct{ buf bytes.Buffer }

func (w *c04PlainWriter) Write(p []byte) (int, error) { return w.buf.Write(p) }

// c04LongText: literal segments longer than any buffer the engine may copy through (4 KiB, 32 KiB, 64 KiB), with
// multi-byte characters and invalid bytes standing across every offset near a multiple of 4096, rendered into a
// strings.Builder (Render), a bytes.Buffer and a writer that only has Write. Every byte exactly once, in order.
func c04LongText(res *Result) {
	pieces := []string{"é", "€", "\U0001F600", "\xff", "\xc3", "\xe2\x82", "aé", "éééé"}
	for _, size := range []int{4096, 8192, 12288, 32768, 65536, 70000} {
		for _, piece := range pieces {
			for shift := -4; shift <= 1; shift++ {
				// ASCII filler with the piece placed so that it starts at (multiple of 4096) + shift, at every multiple
				var sb strings.Builder
				for sb.Len() < size+10 {
					next := (sb.Len()/4096+1)*4096 + shift
					for sb.Len() < next {
						sb.WriteByte(byte('a' + sb.Len()%26))
					}
					sb.WriteString(piece)
				}
				text := sb.String()
				for _, tpl := range []struct{ name, src, want string }{
					{"text only", text, text},
					{"text, tag, text", text + "{{ v }}" + text, text + "V" + text},
					{"in a block", "{% block b %}" + text + "{% endblock %}", text},
					{"in a loop", "{% for i in [1, 2] %}" + text + "{% endfor %}", text + text},
					{"printed value", "{{ big }}", text},
				} {
					c := Case{"stream": "long-text", "size": size, "piece": hx(piece), "shift": shift, "shape": tpl.name}
					res.Hist["stream:long-text"]++
					res.count(fmt.Sprint(size, piece, shift, tpl.name), true)
					eng := twig.New()
					if err := eng.RegisterString("t", tpl.src); err != nil {
						res.add(Finding{Kind: "oracle", Where: "long-text/parse", Case: c, Detail: err.Error()})
						continue
					}
					ctx := map[string]interface{}{"v": "V", "big": text}
					check := func(how, got string, err error) {
						res.Evaluations++
						if err != nil {
							res.add(Finding{Kind: "oracle", Where: "long-text/" + how, Case: c, Detail: "error: " + err.Error()})
						} else if got != tpl.want {
							at := 0
							for at < len(got) && at < len(tpl.want) && got[at] == tpl.want[at] {
								at++
							}
							res.add(Finding{Kind: "oracle", Where: "long-text/" + how, Case: c, Expected: fmt.Sprintf("%d bytes", len(tpl.want)),
								Observed: fmt.Sprintf("%d bytes, first difference at offset %d", len(got), at), Detail: "literal text does not reach the output byte for byte (" + tpl.name + ")"})
						}
					}
					out, err := eng.Render("t", ctx)
					check("Render", out, err)
					var bb bytes.Buffer
					err = eng.RenderTo(&bb, "t", ctx)
					check("RenderTo(bytes.Buffer)", bb.String(), err)
					var pw c04PlainWriter
					err = eng.RenderTo(&pw, "t", ctx)
					check("RenderTo(writer with Write only)", pw.buf.String(), err)
				}
			}
		}
	}
}
