package main

import (
	"bytes"
	"fmt"
	"os"
	"path/filepath"
	"strings"

	"github.com/semihalev/twig"
)

// c04PlainWriter has Write and nothing else: no WriteString, no ReadFrom (a gzip.Writer, a network connection,
// an io.PipeWriter look like this to the engine)
type c04PlainWriter struct{ buf bytes.Buffer }

func (w *c04PlainWriter) Write(p []byte) (int, error) { return w.buf.Write(p) }

// c04LongText: literal segments longer than any buffer the engine may copy through (4 KiB, 32 KiB, 64 KiB), with
// multi-byte characters and invalid bytes standing across every offset near a multiple of 4096, rendered into a
// strings.Builder (Render), a bytes.Buffer and a writer that only has Write. Every byte exactly once, in order.
func c04LongText(res *Result) {
	pieces := []string{"é", "€", "\U0001F600", "\xff", "\xc3", "\xe2\x82", "aé", "éééé"}
	for _, size := range []int{4096, 8192, 12288, 32768, 65536, 70000} {
		for _, piece := range pieces {
			for shift := -4; shift <= 1; shift++ {
				// ASCII filler with the piece placed so that it starts at (multiple of 4096) + shift, at every multiple
				var sb strings.Builder
				for sb.Len() < size+10 {
					next := (sb.Len()/4096+1)*4096 + shift
					for sb.Len() < next {
						sb.WriteByte(byte('a' + sb.Len()%26))
					}
					sb.WriteString(piece)
				}
				text := sb.String()
				for _, tpl := range []struct{ name, src, want string }{
					{"text only", text, text},
					{"text, tag, text", text + "{{ v }}" + text, text + "V" + text},
					{"in a block", "{% block b %}" + text + "{% endblock %}", text},
					{"in a loop", "{% for i in [1, 2] %}" + text + "{% endfor %}", text + text},
					{"printed value", "{{ big }}", text},
				} {
					c := Case{"stream": "long-text", "size": size, "piece": hx(piece), "shift": shift, "shape": tpl.name}
					res.Hist["stream:long-text"]++
					res.count(fmt.Sprint(size, piece, shift, tpl.name), true)
					eng := twig.New()
					if err := eng.RegisterString("t", tpl.src); err != nil {
						res.add(Finding{Kind: "oracle", Where: "long-text/parse", Case: c, Detail: err.Error()})
						continue
					}
					ctx := map[string]interface{}{"v": "V", "big": text}
					check := func(how, got string, err error) {
						res.Evaluations++
						if err != nil {
							res.add(Finding{Kind: "oracle", Where: "long-text/" + how, Case: c, Detail: "error: " + err.Error()})
						} else if got != tpl.want {
							at := 0
							for at < len(got) && at < len(tpl.want) && got[at] == tpl.want[at] {
								at++
							}
							res.add(Finding{Kind: "oracle", Where: "long-text/" + how, Case: c, Expected: fmt.Sprintf("%d bytes", len(tpl.want)),
								Observed: fmt.Sprintf("%d bytes, first difference at offset %d", len(got), at), Detail: "literal text does not reach the output byte for byte (" + tpl.name + ")"})
						}
					}
					out, err := eng.Render("t", ctx)
					check("Render", out, err)
					var bb bytes.Buffer
					err = eng.RenderTo(&bb, "t", ctx)
					check("RenderTo(bytes.Buffer)", bb.String(), err)
					var pw c04PlainWriter
					err = eng.RenderTo(&pw, "t", ctx)
					check("RenderTo(writer with Write only)", pw.buf.String(), err)
				}
			}
		}
	}
}

type c04Held struct {
	c    Case
	want string
	blob []byte
}

// c04OtherRoutes: the same source reaches the engine through a file (FileSystemLoader), through an ArrayLoader and
// through its compiled form (several versions under one name and one recorded time, each loaded into a fresh
// engine): every literal byte -- CR, CR LF, NUL, a byte order mark, invalid UTF-8 -- comes out as through RegisterString.
func c04OtherRoutes(cases string, res *Result) {
	root := filepath.Join(filepath.Dir(cases), "c04files")
	os.RemoveAll(root)
	os.MkdirAll(root, 0o755)
	defer os.RemoveAll(root)
	srcs := []string{
		"line1\nline2 {{ a }}\n", "line1\r\nline2 {{ a }}\r\n{# c #}\r\nend", "mac\rline {{ a }}\rend\r", "mixed\r\n\n\r{% if a %}y\r\n{% endif %}\r", "\r", "\r\n", "x\r{{ a }}\r\ny",
		"nul\x00byte {{ a }}", "\xef\xbb\xbfbom {{ a }}", "bad\xff\xfe {{ a }} \xc3", "tab\there  two  spaces {{ a }}", "{% verbatim %}raw\r\n{{ a }}\r{% endverbatim %}\r\n",
		"{# first #}v1 lit\r\n{{ a }}", "{# secnd #}v2 LIT\n\r{{ a }}", "{# third #}v3 \x00it\r\r{{ a }}",
	}
	ctx := func() map[string]interface{} { return map[string]interface{}{"a": "A"} }
	var held []c04Held
	defer func() {
		for _, h := range held {
			res.Evaluations++
			e := twig.New()
			got, err := "", e.LoadFromCompiledData(h.blob)
			if err == nil {
				got, err = e.Render("t.twig", ctx())
			}
			if err != nil || got != h.want {
				res.add(Finding{Kind: "oracle", Where: "other-routes/serialised forms held together", Case: h.c, Expected: hx(h.want), Observed: hx(got) + fmt.Sprintf(" (err=%v)", err),
					Detail: "every version was serialised with SaveCompiled, the results kept, then each loaded into an engine of its own: the literal text is another version's (or the form no longer loads)"})
				return
			}
		}
	}()
	for i, src := range srcs {
		c := Case{"stream": "other-routes", "src": hx(src)}
		res.Hist["stream:other-routes"]++
		res.count("other-routes/"+src, true)
		ref := twig.New()
		if ref.RegisterString("t.twig", src) != nil {
			continue
		}
		want, werr := ref.Render("t.twig", ctx())
		if werr != nil {
			continue
		}
		check := func(route, got string, err error) {
			res.Evaluations++
			if err != nil {
				res.add(Finding{Kind: "oracle", Where: "other-routes/" + route, Case: c, Expected: hx(want), Observed: "error: " + err.Error()})
			} else if got != want {
				res.add(Finding{Kind: "oracle", Where: "other-routes/" + route, Case: c, Expected: hx(want), Observed: hx(got),
					Detail: "the same source gives other bytes through " + route + " than through RegisterString"})
			}
		}
		name := fmt.Sprintf("f%d.twig", i)
		os.WriteFile(filepath.Join(root, name), []byte(src), 0o644)
		fe := twig.New()
		fe.RegisterLoader(twig.NewFileSystemLoader([]string{root}))
		got, err := fe.Render(name, ctx())
		check("FileSystemLoader", got, err)
		ae := twig.New()
		ae.RegisterLoader(twig.NewArrayLoader(map[string]string{name: src}))
		got, err = ae.Render(name, ctx())
		check("ArrayLoader", got, err)
		// the serialised form through Template.SaveCompiled, kept until every version has been serialised
		if t, lerr := ref.Load("t.twig"); lerr == nil {
			if blob, serr := t.SaveCompiled(); serr == nil {
				held = append(held, c04Held{c: c, want: want, blob: blob})
			}
		}
		// the compiled form: one name and one recorded time for every version
		if ct, cerr := ref.CompileTemplate("t.twig"); cerr == nil {
			ct.LastModified = 1700000000
			ct.CompileTime = 1700000001
			if data, serr := twig.SerializeCompiledTemplate(ct); serr == nil {
				ce := twig.New()
				err = ce.LoadFromCompiledData(data)
				if err == nil {
					got, err = ce.Render("t.twig", ctx())
				}
				check("LoadFromCompiledData", got, err)
				ce2 := twig.New()
				if back, derr := twig.DeserializeCompiledTemplate(data); derr == nil {
					err = ce2.RegisterCompiledTemplate(back)
					if err == nil {
						got, err = ce2.Render("t.twig", ctx())
					}
					check("RegisterCompiledTemplate", got, err)
				}
			}
		}
	}
}
