package main

import (
	"strings"

	"github.com/semihalev/twig"
)

// c12DefaultsAreExpressions: a parameter whose argument is omitted is bound to what its default expression is worth
// at that call: the same as when the caller writes that expression as the argument, by every way of reaching the macro.
func c12DefaultsAreExpressions(res *Result) {
	defaults := []string{
		"{'cls': theme, 'size': 10}", "[{'k': 'lang', 'v': theme}]", "{'a': {'b': theme} }", "[theme, 1]", "theme ~ '!'", "theme",
		"{'k': theme|upper}", "{'k': [theme, {'z': theme}] }", "[[theme]]", "{'n': size + 1}", "[1, 'two', {'three': 3}]", "{'a': 1, 'b': 'x'}",
		"{'t': theme is defined}", "{'c': theme ? 'yes' : 'no'}",
	}
	for _, d := range defaults {
		lib := "{% macro show(name, p = " + d + ") %}<{{ name }}:{{ p|json_encode|raw }}>{% endmacro %}"
		calls := []struct{ name, omitted, explicit string }{
			{"direct", lib + "{{ show('q') }}", lib + "{{ show('q', " + d + ") }}"},
			{"_self", lib + "{{ _self.show('q') }}", lib + "{{ _self.show('q', " + d + ") }}"},
			{"import", "{% import 'lib' as m %}{{ m.show('q') }}", "{% import 'lib' as m %}{{ m.show('q', " + d + ") }}"},
			{"from", "{% from 'lib' import show %}{{ show('q') }}", "{% from 'lib' import show %}{{ show('q', " + d + ") }}"},
			{"from-alias", "{% from 'lib' import show as s %}{{ s('q') }}", "{% from 'lib' import show as s %}{{ s('q', " + d + ") }}"},
			{"in-loop", "{% import 'lib' as m %}{% for theme in ['l1', 'l2'] %}{{ m.show('q') }}{% endfor %}", "{% import 'lib' as m %}{% for theme in ['l1', 'l2'] %}{{ m.show('q', " + d + ") }}{% endfor %}"},
			{"around-set", "{% import 'lib' as m %}{{ m.show('a') }}{% set theme = 'late' %}{% set size = 40 %}{{ m.show('b') }}",
				"{% import 'lib' as m %}{{ m.show('a', " + d + ") }}{% set theme = 'late' %}{% set size = 40 %}{{ m.show('b', " + d + ") }}"},
		}
		var first string
		for _, cl := range calls {
			res.Hist["stream:c12-defaults-are-expressions"]++
			outs := [2]string{}
			for i, src := range []string{cl.omitted, cl.explicit} {
				eng := twig.New()
				if eng.RegisterString("lib", lib) != nil || eng.RegisterString("t", src) != nil {
					outs[i] = "parse error"
					continue
				}
				res.Evaluations++
				got, err := eng.Render("t", map[string]interface{}{"theme": "dark", "size": 9})
				if err != nil {
					got = "error: " + err.Error()
				}
				outs[i] = got
			}
			c := Case{"stream": "c12-defaults-are-expressions", "default": d, "form": cl.name, "omitted": cl.omitted, "explicit": cl.explicit}
			if outs[0] != outs[1] {
				res.add(Finding{Kind: "oracle", Where: "c12-defaults-are-expressions/" + cl.name, Case: c, Expected: outs[1], Observed: outs[0],
					Detail: "the call that omits the argument differs from the call that writes the default expression as the argument"})
				break
			}
			if cl.name == "direct" {
				first = outs[0]
			} else if cl.name != "in-loop" && cl.name != "around-set" && outs[0] != first {
				res.add(Finding{Kind: "oracle", Where: "c12-defaults-are-expressions/" + cl.name, Case: c, Expected: first, Observed: outs[0],
					Detail: "the call that omits the argument gives something else than the direct call in the defining template"})
				break
			}
		}
	}
}

// c12AfterAFailedImport: a library whose import failed once (something it needed was not there yet) is imported
// like any other once the cause is gone: direct call, import, from-import and alias agree again.
func c12AfterAFailedImport(res *Result) {
	const lib = "{% from 'helpers' import wrap %}{% macro field(n, v = 'dflt') %}[{{ n }}]={{ v }}{% endmacro %}"
	const helpers = "{% macro wrap(t) %}[{{ t }}]{% endmacro %}"
	mains := []struct{ name, src string }{
		{"import", "{% import 'lib' as f %}{{ f.field('a') }}/{{ f.field('b', 2) }}"},
		{"from", "{% from 'lib' import field %}{{ field('a') }}/{{ field('b', 2) }}"},
		{"from-alias", "{% from 'lib' import field as g %}{{ g('a') }}/{{ g('b', 2) }}"},
		{"direct", lib + "{{ field('a') }}/{{ field('b', 2) }}"},
		{"self", lib + "{{ _self.field('a') }}/{{ _self.field('b', 2) }}"},
	}
	const want = "[a]=dflt/[b]=2"
	for _, firstFail := range []int{0, 1, 2} {
		for _, why := range []string{"missing-helper", "failing-function"} {
			eng := twig.New()
			broken := true
			eng.AddFunction("maybe", func(args ...interface{}) (interface{}, error) {
				if broken {
					return nil, evalSentinel(12)
				}
				return "", nil
			})
			l := lib
			if why == "failing-function" {
				eng.RegisterString("helpers", helpers)
				l = "{{ maybe() }}" + lib
			}
			eng.RegisterString("lib", l)
			ok := true
			for _, m := range mains {
				if eng.RegisterString(m.name, strings.Replace(m.src, lib, l, 1)) != nil {
					ok = false
				}
			}
			if !ok {
				continue
			}
			res.Hist["stream:c12-after-a-failed-import"]++
			for rep := 0; rep < 2; rep++ {
				eng.Render(mains[firstFail].name, map[string]interface{}{}) // fails: the helper / the function is not usable yet
			}
			broken = false
			if why == "missing-helper" {
				eng.RegisterString("helpers", helpers)
			}
			for _, m := range mains {
				res.Evaluations++
				got, err := eng.Render(m.name, map[string]interface{}{})
				if err != nil {
					got = "error: " + err.Error()
				}
				if got != want {
					res.add(Finding{Kind: "oracle", Where: "c12-after-a-failed-import/" + m.name, Case: Case{"stream": "c12-after-a-failed-import", "form": m.name, "tpl": m.src, "lib": l, "first": mains[firstFail].name, "why": why},
						Expected: want, Observed: got, Detail: "after a render that failed while importing the library (" + why + "), and the cause removed, the macro is reached by every route with the same result"})
					break
				}
			}
		}
	}
}

// c12MacrosReachedFromIncludes: a partial included from a macro body (or from the page) calls, by its plain name, a
// macro the page imported or defined. Whether the include passes variables of its own makes no difference to which
// macros the partial reaches: `include 'p' with {...}` gives what `include 'p'` gives when the same variables are in scope.
func c12MacrosReachedFromIncludes(res *Result) {
	const icons = `{% macro icon(n, size = 16) %}<i class="{{ n }}" s="{{ size }}"></i>{% endmacro %}`
	sites := []struct{ name, open, close string }{
		{"page", "", ""},
		{"macro-body", "{% macro card(t) %}", "{% endmacro %}{{ card('A') }}"},
		{"macro-body-self", "{% macro card(t) %}", "{% endmacro %}{{ _self.card('A') }}"},
		{"loop-in-macro-body", "{% macro card(t) %}{% for q in [1, 2] %}", "{% endfor %}{% endmacro %}{{ card('A') }}"},
		{"if-in-macro-body", "{% macro card(t) %}{% if t %}", "{% endif %}{% endmacro %}{{ card('A') }}"},
		{"macro-in-macro", "{% macro inner(t) %}", "{% endmacro %}{% macro card(t) %}{{ _self.inner(t) }}{% endmacro %}{{ card('A') }}"},
	}
	imports := []struct{ name, src, call string }{
		{"from", "{% from 'icons' import icon %}", "icon"}, {"from-alias", "{% from 'icons' import icon as ico %}", "ico"},
		{"own-macro", "{% macro icon(n, size = 16) %}<i class=\"{{ n }}\" s=\"{{ size }}\"></i>{% endmacro %}", "icon"},
	}
	includes := []struct{ name, tag string }{
		{"plain", "{% include 'head' %}"}, {"with", "{% include 'head' with {'t': t} %}"}, {"with-extra", "{% include 'head' with {'t': t, 'extra': 1} %}"},
		{"with-ignore-missing", "{% include 'head' ignore missing with {'t': t} %}"},
	}
	for _, im := range imports {
		for _, st := range sites {
			var ref string
			for _, inc := range includes {
				e := twig.New()
				e.RegisterString("icons", icons)
				e.RegisterString("head", "<h2>{{ "+im.call+"('star') }} {{ t }}</h2>")
				main := im.src + st.open + "<section>" + inc.tag + "</section>" + st.close
				if e.RegisterString("main", main) != nil {
					continue
				}
				res.Hist["stream:c12-macros-reached-from-includes"]++
				res.Evaluations++
				got, err := e.Render("main", map[string]interface{}{"t": "A"})
				if err != nil {
					got = "error: " + err.Error()
				}
				if inc.name == "plain" {
					ref = got
					continue
				}
				if got != ref {
					res.add(Finding{Kind: "oracle", Where: "c12-macros-reached-from-includes/" + st.name + "/" + inc.name, Case: Case{"stream": "c12-macros-reached-from-includes", "main": main, "import": im.name},
						Expected: ref, Observed: got, Detail: "the same partial, included without variables of its own, gives the expected output: the macro is reached from it"})
					break
				}
			}
		}
	}
}
