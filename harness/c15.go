package main

import (
	"bytes"
	"encoding/json"
	"errors"
	"fmt"
	"os"
	"path/filepath"
	"sort"
	"strconv"
	"strings"
	"time"

	"github.com/semihalev/twig"
)

func init() { runners["C15"] = runC15 }

// C15: histories of registrations, configuration changes, loader content / timestamp changes and
// Load / Render calls against a real twig.Engine whose loaders are in-memory and under the runner's
// control. Compared per Load: which source version was served (the templates are "SRC<id>"), the
// error class (errors.Is(err, twig.ErrTemplateNotFound) / other) and how many sources each loader
// handed out during the call. The expected observation is the model's; where the property text
// leaves the behaviour open the case lists the other permitted observation ("alt") and observing it
// is not a failure (the history is abandoned there, since model and engine state may now differ).
// Model-independent oracle: a call that fails with not-found leaves GetCachedTemplateNames unchanged.

type c15File struct {
	text  string
	mt    int64
	hasMt bool
}

// c15Store is the content of one loader; reads counts the sources handed out.
type c15Store struct {
	files map[string]c15File
	reads int
}

func (s *c15Store) load(name string) (string, error) {
	if f, ok := s.files[name]; ok {
		s.reads++
		return f.text, nil
	}
	return "", fmt.Errorf("%w: %s", twig.ErrTemplateNotFound, name)
}

// c15TSLoader implements twig.TimestampAwareLoader.
type c15TSLoader struct{ st *c15Store }

func (l *c15TSLoader) Load(name string) (string, error) { return l.st.load(name) }
func (l *c15TSLoader) Exists(name string) bool          { _, ok := l.st.files[name]; return ok }
func (l *c15TSLoader) GetModifiedTime(name string) (int64, error) {
	if f, ok := l.st.files[name]; ok && f.hasMt {
		return f.mt, nil
	}
	return 0, errors.New("modification time not available")
}

// c15PlainLoader implements twig.Loader only.
type c15PlainLoader struct{ st *c15Store }

func (l *c15PlainLoader) Load(name string) (string, error) { return l.st.load(name) }
func (l *c15PlainLoader) Exists(name string) bool          { _, ok := l.st.files[name]; return ok }

func c15Name(n int) string { return "t" + strconv.Itoa(n) + ".twig" }

// c15Text: the template text of a source id; ids congruent 4 mod 5 do not parse (Model cache_src_bad).
func c15Text(id int) string {
	if id%5 == 4 {
		return "SRC" + strconv.Itoa(id) + "{{"
	}
	return "SRC" + strconv.Itoa(id)
}

type c15Obs struct {
	R     string `json:"r"`
	Src   int    `json:"src,omitempty"`
	Reads []int  `json:"reads,omitempty"`
}

func (o c15Obs) String() string {
	b, _ := json.Marshal(o)
	return string(b)
}

func c15ObsOf(v interface{}) c15Obs {
	var o c15Obs
	m, _ := v.(map[string]interface{})
	o.R, _ = m["r"].(string)
	if f, ok := m["src"].(float64); ok {
		o.Src = int(f)
	}
	if l, ok := m["reads"].([]interface{}); ok {
		for _, x := range l {
			f, _ := x.(float64)
			o.Reads = append(o.Reads, int(f))
		}
	}
	return o
}

func c15Same(a, b c15Obs) bool {
	if a.R != b.R || a.Src != b.Src || len(a.Reads) != len(b.Reads) {
		return false
	}
	for i := range a.Reads {
		if a.Reads[i] != b.Reads[i] {
			return false
		}
	}
	return true
}

// c15FilesAndChain: the library's own loaders on real files -- a FileSystemLoader in front of an ArrayLoader, registered one
// after the other and behind one ChainLoader. Every call that re-reads the loaders takes the first loader that has the
// name NOW: the file's loader while the file exists, the next one once it is removed, the file's again when it is back.
func c15FilesAndChain(cases string, res *Result) {
	root := filepath.Join(filepath.Dir(cases), "fsroot")
	defer os.RemoveAll(root)
	for _, chain := range []bool{false, true} {
		for _, mode := range []string{"cache-off", "auto-reload"} {
			if chain && mode == "auto-reload" {
				continue // a ChainLoader reports no modification times: a cached entry rightly stays (the property speaks of timestamp-aware loaders)
			}
			os.RemoveAll(root)
			os.MkdirAll(root, 0o755)
			file := filepath.Join(root, "t.twig")
			write := func(src string, at int64) {
				os.WriteFile(file, []byte(src), 0o644)
				t := time.Unix(1700000000+at, 0)
				os.Chtimes(file, t, t)
			}
			write("from-file-1", 0)
			fs := twig.NewFileSystemLoader([]string{root})
			arr := twig.NewArrayLoader(map[string]string{"t.twig": "from-array", "only-array.twig": "A"})
			eng := twig.New()
			if chain {
				eng.RegisterLoader(twig.NewChainLoader([]twig.Loader{fs, arr}))
			} else {
				eng.RegisterLoader(fs)
				eng.RegisterLoader(arr)
			}
			if mode == "cache-off" {
				eng.SetCache(false)
			} else {
				eng.SetAutoReload(true)
			}
			c := Case{"stream": "files-and-chain", "chain": chain, "mode": mode}
			res.Hist["stream:files-and-chain"]++
			step := func(what, want string) bool {
				res.Evaluations++
				got, err := eng.Render("t.twig", nil)
				if err != nil {
					got = "error: " + err.Error()
				}
				if got != want {
					res.add(Finding{Kind: "oracle", Where: "files-and-chain: " + what, Case: c, Expected: want, Observed: got,
						Detail: "FileSystemLoader on " + root + " in front of an ArrayLoader that has the name too; history: file present, removed, back with new text, changed"})
					return false
				}
				return true
			}
			if !step("the file exists", "from-file-1") || !step("again", "from-file-1") {
				continue
			}
			os.Remove(file)
			if !step("the file is removed: the next loader has the name", "from-array") || !step("again", "from-array") {
				continue
			}
			if mode == "cache-off" {
				write("from-file-2", 20)
				if !step("the file is back", "from-file-2") {
					continue
				}
				write("from-file-3", 40)
				step("the file changed", "from-file-3")
			}
		}
	}
}

// c15SearchPaths: one FileSystemLoader with two search paths that both hold the name; the copy in the first path is
// removed (the copy behind it is older, of the same age, or newer), comes back, changes. With the cache off or
// auto-reload on every call sees the files as they are.
func c15SearchPaths(cases string, res *Result) {
	root := filepath.Join(filepath.Dir(cases), "fspaths")
	defer os.RemoveAll(root)
	for _, mode := range []string{"cache-off", "auto-reload", "development-mode"} {
		for _, behind := range []int64{-100, 0, 100} {
			os.RemoveAll(root)
			p1, p2 := filepath.Join(root, "override"), filepath.Join(root, "default")
			os.MkdirAll(p1, 0o755)
			os.MkdirAll(p2, 0o755)
			write := func(dir, src string, at int64) {
				f := filepath.Join(dir, "t.twig")
				os.WriteFile(f, []byte(src), 0o644)
				t := time.Unix(1700000000+at, 0)
				os.Chtimes(f, t, t)
			}
			write(p1, "override-1", 0)
			write(p2, "default-1", behind)
			eng := twig.New()
			eng.RegisterLoader(twig.NewFileSystemLoader([]string{p1, p2}))
			switch mode {
			case "cache-off":
				eng.SetCache(false)
			case "auto-reload":
				eng.SetAutoReload(true)
			default:
				eng.SetDevelopmentMode(true)
				twig.SetDebugLevel(twig.DebugOff)
			}
			c := Case{"stream": "search-paths", "mode": mode, "age of the copy in the second path": behind}
			res.Hist["stream:search-paths"]++
			step := func(what, want string) bool {
				res.Evaluations++
				got, err := eng.Render("t.twig", nil)
				if err != nil {
					got = "error: " + err.Error()
				}
				if got != want {
					res.add(Finding{Kind: "oracle", Where: "search-paths: " + what, Case: c, Expected: want, Observed: got,
						Detail: "one FileSystemLoader with the search paths override, default; history: both hold t.twig, the override is removed, comes back, changes, the default changes"})
					return false
				}
				return true
			}
			if !step("both paths hold the name", "override-1") || !step("again", "override-1") {
				continue
			}
			os.Remove(filepath.Join(p1, "t.twig"))
			if !step("the copy in the first path is removed", "default-1") || !step("again", "default-1") {
				continue
			}
			write(p2, "default-2", behind+200)
			if !step("the copy in the second path changed", "default-2") {
				continue
			}
			// (while the second path's copy exists the loader goes on reading it -- it remembers where it found a name;
			// the property speaks of loaders, not of the search paths inside one, so nothing is demanded at this point)
			write(p1, "override-2", 400)
			os.Remove(filepath.Join(p2, "t.twig"))
			if !step("the first path has the name again and the copy in the second path is removed", "override-2") {
				continue
			}
			write(p1, "override-3", 600)
			step("the copy in the first path changed", "override-3")
		}
	}
}

func runC15(cases string, res *Result) {
	c15FilesAndChain(cases, res)
	c15SearchPaths(cases, res)
	c15IncludedNames(res)
	c15CompiledFiles(cases, res)
	c15LoadedAheadOfTime(cases, res)
	c15EmptySources(cases, res)
	c15RewrittenWithinTheSecond(cases, res)
	// the two loader kinds must be what the engine distinguishes
	if _, ok := twig.Loader(&c15TSLoader{}).(twig.TimestampAwareLoader); !ok {
		panic("c15TSLoader does not implement twig.TimestampAwareLoader")
	}
	if _, ok := twig.Loader(&c15PlainLoader{}).(twig.TimestampAwareLoader); ok {
		panic("c15PlainLoader must not implement twig.TimestampAwareLoader")
	}
	readCases(cases, func(c Case) {
		c15History(c, res)
	})
}

func c15History(c Case, res *Result) {
	ops := c.list("ops")
	key, _ := json.Marshal(ops)
	nt, _ := c["nt"].(bool)
	chainMode, _ := c["chain"].(bool)
	res.count(string(key), nt)
	res.Hist["stream:"+c.str("stream")]++
	if chainMode {
		res.Hist["histories:loaders-behind-ChainLoader"]++
	}
	switch l := len(ops); {
	case l <= 10:
		res.Hist["len:1-10"]++
	case l <= 20:
		res.Hist["len:11-20"]++
	case l <= 40:
		res.Hist["len:21-40"]++
	default:
		res.Hist["len:41+"]++
	}
	if c.str("stream") == "fixed" {
		res.sample(c, 3)
	} else {
		res.sample(c, 5)
	}

	eng := twig.New()
	var stores []*c15Store
	var chain *twig.ChainLoader
	parsed := map[int]*twig.Template{}

	// the failing history is reported cut after the failing operation (predictions depend on the prefix only)
	cut := func(k int) Case {
		cc := Case{}
		for kk, v := range c {
			cc[kk] = v
		}
		cc["ops"] = ops[:k+1]
		cc["len"] = k + 1
		return cc
	}
	names := func() string {
		l := eng.GetCachedTemplateNames()
		sort.Strings(l)
		return strings.Join(l, ",")
	}

	for k, raw := range ops {
		op, _ := raw.(map[string]interface{})
		geti := func(f string) int { v, _ := op[f].(float64); return int(v) }
		getb := func(f string) bool { v, _ := op[f].(bool); return v }
		kind, _ := op["op"].(string)
		where := fmt.Sprintf("op %d (%s)", k, kind)
		switch kind {
		case "addloader":
			st := &c15Store{files: map[string]c15File{}}
			stores = append(stores, st)
			var ld twig.Loader
			if getb("ts") {
				ld = &c15TSLoader{st}
			} else {
				ld = &c15PlainLoader{st}
			}
			if chainMode {
				if chain == nil {
					chain = twig.NewChainLoader(nil)
					eng.RegisterLoader(chain)
				}
				chain.AddLoader(ld)
			} else {
				eng.RegisterLoader(ld)
			}
		case "put":
			if l := geti("l"); l < len(stores) {
				stores[l].files[c15Name(geti("n"))] = c15File{text: c15Text(geti("src")), mt: int64(geti("mt")), hasMt: getb("has_mt")}
			}
		case "del":
			if l := geti("l"); l < len(stores) {
				delete(stores[l].files, c15Name(geti("n")))
			}
		case "setcache":
			eng.SetCache(getb("b"))
		case "setautoreload":
			eng.SetAutoReload(getb("b"))
		case "setdevmode":
			eng.SetDevelopmentMode(getb("b"))
		case "register":
			name, text := c15Name(geti("n")), c15Text(geti("src"))
			how, _ := op["how"].(string)
			res.Hist["register:"+how]++
			if rtag, _ := op["rtag"].(string); rtag != "" {
				res.Hist["register-source:"+rtag]++
			}
			var err error
			switch how {
			case "template":
				// the same *Template value is registered again whenever the same source id comes back
				// (under this or another name): an identity shortcut must not skip the registration
				t := parsed[geti("src")]
				if t == nil {
					if t, err = eng.ParseTemplate(text); err == nil {
						parsed[geti("src")] = t
					}
				} else {
					res.Hist["register:template-same-pointer"]++
				}
				if err == nil {
					eng.RegisterTemplate(name, t)
				}
			case "compiled":
				var t *twig.Template
				if t, err = eng.ParseTemplate(text); err == nil {
					var ct *twig.CompiledTemplate
					if ct, err = twig.CompileTemplate(t); err == nil {
						ct.Name = name
						// a compiled template carries the times of its making: they may lie long before (a file
						// compiled ahead of time) or after what the engine holds; the registration counts, not the stamps
						switch geti("src") % 3 {
						case 0:
							ct.LastModified, ct.CompileTime = 1000, 1000
							res.Hist["register:compiled-with-old-timestamps"]++
						case 1:
							ct.LastModified = ct.LastModified + 86400*365
							res.Hist["register:compiled-with-future-timestamp"]++
						}
						var data []byte
						if data, err = twig.SerializeCompiledTemplate(ct); err == nil {
							err = eng.LoadFromCompiledData(data)
						}
					}
				}
			default:
				err = eng.RegisterString(name, text)
			}
			exp := c15ObsOf(op["exp"])
			if (err == nil) != (exp.R == "regok") {
				// whether a text parses is not what C15 is about: noted, history abandoned
				res.Unmodelled++
				res.Notes = append(res.Notes, fmt.Sprintf("%s: registration of %q: model %s, engine error %v", where, text, exp.R, err))
				return
			}
		case "load":
			name := c15Name(geti("n"))
			via, _ := op["via"].(string)
			tag, _ := op["tag"].(string)
			res.Hist["load:"+tag]++
			res.Hist["via:"+via]++
			for _, st := range stores {
				st.reads = 0
			}
			before := names()
			var out string
			var err error
			switch via {
			case "load":
				var t *twig.Template
				if t, err = eng.Load(name); err == nil {
					out, err = t.Render(nil)
				}
			case "renderto":
				var buf bytes.Buffer
				err = eng.RenderTo(&buf, name, nil)
				out = buf.String()
			default:
				out, err = eng.Render(name, nil)
			}
			got := c15Obs{}
			for _, st := range stores {
				got.Reads = append(got.Reads, st.reads)
			}
			switch {
			case err == nil:
				got.R = "served"
				id, perr := strconv.Atoi(strings.TrimPrefix(out, "SRC"))
				if perr != nil || !strings.HasPrefix(out, "SRC") {
					res.add(Finding{Kind: "oracle", Where: where, Case: cut(k), Expected: c15ObsOf(op["exp"]).String(),
						Observed: "output " + strconv.Quote(out), Detail: "rendered output is not one of the registered / loaded sources"})
					return
				}
				got.Src = id
			case errors.Is(err, twig.ErrTemplateNotFound):
				got.R = "notfound"
			default:
				got.R = "other"
			}
			res.Evaluations++
			// model-independent: a not-found call changes nothing in the cache
			if got.R == "notfound" {
				if after := names(); after != before {
					res.add(Finding{Kind: "oracle", Where: where, Case: cut(k), Expected: "cached names " + before,
						Observed: "cached names " + after, Detail: "a call that failed with ErrTemplateNotFound changed the set of cached templates"})
					return
				}
			}
			exp := c15ObsOf(op["exp"])
			if c15Same(got, exp) {
				continue
			}
			permitted := false
			if alts, ok := op["alt"].([]interface{}); ok {
				for _, a := range alts {
					if c15Same(got, c15ObsOf(a)) {
						permitted = true
					}
				}
			}
			if permitted {
				res.Hist["permitted-divergence-from-model"]++
				if len(res.Notes) < 20 {
					res.Notes = append(res.Notes, fmt.Sprintf("%s [%s]: engine observed %s, model %s; both permitted by the spec, rest of the history not compared", where, tag, got, exp))
				}
				return
			}
			detail := "Load/Render of " + name + " [" + tag + "]: observation not permitted by the proved spec (cache_allowed)"
			if err != nil {
				detail += "; error: " + c15FirstLine(err.Error())
			}
			res.add(Finding{Kind: "oracle", Where: where, Case: cut(k), Expected: exp.String(), Observed: got.String(), Detail: detail})
			return
		}
	}
}

func c15FirstLine(s string) string {
	if i := strings.IndexByte(s, '\n'); i >= 0 {
		s = s[:i]
	}
	if len(s) > 200 {
		s = s[:200]
	}
	return s
}

// c15IncludedNames: "the source most recently registered under a name" is what every use of the name sees -- also
// the include tag of a template that was rendered before the registration (literal and computed names, a loader
// template replaced by a registration, every registration call).
func c15IncludedNames(res *Result) {
	for _, page := range []string{"[{% include 'part' %}]", "[{% include 'pa' ~ 'rt' %}]", "[{% for i in [1, 2] %}{% include 'part' %}{% endfor %}]",
		"{% extends 'layout' %}{% block b %}{% include 'part' %}{% endblock %}", "[{% import 'part' as p %}{{ p.m() }}]", "[{% from 'part' import m %}{{ m() }}]"} {
		for _, viaLoader := range []bool{false, true} {
			eng := twig.New()
			macro := strings.Contains(page, "import")
			text := func(v string) string {
				if macro {
					return "{% macro m() %}" + v + "{% endmacro %}"
				}
				return v
			}
			if viaLoader {
				eng.RegisterLoader(twig.NewArrayLoader(map[string]string{"part": text("v0")}))
			} else {
				eng.RegisterString("part", text("v0"))
			}
			eng.RegisterString("layout", "[{% block b %}{% endblock %}]")
			if err := eng.RegisterString("page", page); err != nil {
				continue
			}
			c := Case{"stream": "included-names", "page": page, "first version from a loader": viaLoader}
			res.Hist["stream:included-names"]++
			n := 1
			if strings.Contains(page, "for i") {
				n = 2
			}
			step := func(what, v string) bool {
				res.Evaluations++
				want := "[" + strings.Repeat(v, n) + "]"
				got, err := eng.Render("page", map[string]interface{}{})
				if err != nil {
					got = "error: " + err.Error()
				}
				if got != want {
					res.add(Finding{Kind: "oracle", Where: "included-names: " + what, Case: c, Expected: want, Observed: got,
						Detail: "a template that includes / imports a name was rendered, the name was registered again, the template was rendered again"})
					return false
				}
				return true
			}
			if !step("first version", "v0") || !step("again", "v0") {
				continue
			}
			eng.RegisterString("part", text("v1"))
			if !step("after RegisterString", "v1") {
				continue
			}
			if t, err := eng.ParseTemplate(text("v2")); err == nil {
				eng.RegisterTemplate("part", t)
				if !step("after RegisterTemplate", "v2") {
					continue
				}
			}
			o := twig.New()
			o.RegisterString("part", text("v3"))
			if ct, err := o.CompileTemplate("part"); err == nil {
				if eng.RegisterCompiledTemplate(ct) == nil {
					step("after RegisterCompiledTemplate", "v3")
				}
			}
		}
	}
}

// c15CompiledFiles: the compiled-file loader is a timestamp-aware loader like any other: with auto-reload on, a file
// that was written again (its own modification time is later; the time recorded inside it is the same second, or
// earlier: a roll-back) is what the next call sees; with auto-reload off the cached template stays.
func c15CompiledFiles(cases string, res *Result) {
	dir := filepath.Join(filepath.Dir(cases), "c15compiled")
	defer os.RemoveAll(dir)
	for _, auto := range []bool{true, false} {
		os.RemoveAll(dir)
		os.MkdirAll(dir, 0o755)
		save := func(src string, at int64) bool {
			w := twig.New()
			if w.RegisterString("t", src) != nil || twig.NewCompiledLoader(dir).SaveCompiled(w, "t") != nil {
				return false
			}
			files, _ := filepath.Glob(filepath.Join(dir, "t*"))
			for _, f := range files {
				tm := time.Now().Add(time.Duration(at) * time.Second)
				os.Chtimes(f, tm, tm)
			}
			return len(files) > 0
		}
		if !save("one", 0) {
			res.Notes = append(res.Notes, "compiled-files: SaveCompiled did not write a file")
			return
		}
		eng := twig.New()
		eng.RegisterLoader(twig.NewCompiledLoader(dir))
		eng.SetAutoReload(auto)
		c := Case{"stream": "compiled-files", "auto-reload": auto}
		res.Hist["stream:compiled-files"]++
		step := func(what, want string) bool {
			res.Evaluations++
			got, err := eng.Render("t", nil)
			if err != nil {
				got = "error: " + err.Error()
			}
			if got != want {
				res.add(Finding{Kind: "oracle", Where: "compiled-files: " + what, Case: c, Expected: want, Observed: got,
					Detail: "an engine serving a CompiledLoader directory; the compiled file is written again within the same second, its modification time moved forward"})
				return false
			}
			return true
		}
		if !step("first version", "one") {
			continue
		}
		save("two", 30)
		if auto {
			if !step("the file was written again", "two") {
				continue
			}
			save("three", 60)
			step("and again", "three")
		} else {
			step("the file was written again, auto-reload is off", "one")
		}
	}
}
