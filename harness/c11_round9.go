package main

import (
	"fmt"
	"strings"
	"time"

	"github.com/semihalev/twig"
)

type c11Tree struct {
	name string
	kids []*c11Tree
}

func (t *c11Tree) value() map[string]interface{} {
	ks := []interface{}{}
	for _, k := range t.kids {
		ks = append(ks, k.value())
	}
	return map[string]interface{}{"name": t.name, "children": ks}
}

// expected text of 'tree' for node t: what the template says, written out by hand
func (t *c11Tree) expect(only bool) string {
	var sb strings.Builder
	sb.WriteString("<" + t.name)
	n := len(t.kids)
	for i, k := range t.kids {
		fmt.Fprintf(&sb, " %d/%d:", i+1, n)
		sb.WriteString(k.expect(only))
		last := ""
		if i == n-1 {
			last = "!"
		}
		fmt.Fprintf(&sb, ":%d/%d/%d%s", i+1, n, n-i, last)
	}
	sb.WriteString(">")
	return sb.String()
}

func c11MakeTree(depth, width int, tag string) *c11Tree {
	t := &c11Tree{name: tag}
	if depth == 0 {
		return t
	}
	for i := 0; i < width; i++ {
		// widths differ from level to level and from sibling to sibling
		t.kids = append(t.kids, c11MakeTree(depth-1, (width+i)%4, fmt.Sprintf("%s%d", tag, i)))
	}
	return t
}

// c11TemplatesThatIncludeThemselves: a template that includes itself from inside its own loop sees, after the include,
// the loop counters it had before: the inner activation of the same for tag has counters of its own.
func c11TemplatesThatIncludeThemselves(res *Result) {
	res.Hist["stream:c11-includes-itself"]++
	forms := []struct {
		name, src string
		only      bool
	}{
		{"with", "<{{ node.name }}{% for c in node.children %} {{ loop.index }}/{{ loop.length }}:{% include 'tree' with {'node': c} %}:{{ loop.index }}/{{ loop.length }}/{{ loop.revindex }}{% if loop.last %}!{% endif %}{% endfor %}>", false},
		{"with-only", "<{{ node.name }}{% for c in node.children %} {{ loop.index }}/{{ loop.length }}:{% include 'tree' with {'node': c} only %}:{{ loop.index }}/{{ loop.length }}/{{ loop.revindex }}{% if loop.last %}!{% endif %}{% endfor %}>", true},
		{"through-another", "<{{ node.name }}{% for c in node.children %} {{ loop.index }}/{{ loop.length }}:{% include 'hop' with {'n2': c} %}:{{ loop.index }}/{{ loop.length }}/{{ loop.revindex }}{% if loop.last %}!{% endif %}{% endfor %}>", false},
	}
	for _, f := range forms {
		for _, shape := range [][2]int{{1, 2}, {2, 3}, {3, 2}, {4, 1}, {3, 3}} {
			tree := c11MakeTree(shape[0], shape[1], "n")
			e := twig.New()
			if e.RegisterString("tree", f.src) != nil || e.RegisterString("hop", "{% include 'tree' with {'node': n2} %}") != nil {
				continue
			}
			c := Case{"stream": "c11-includes-itself", "form": f.name, "tree": f.src, "depth": shape[0], "width": shape[1]}
			res.Evaluations++
			var got string
			var err error
			if !c08WithTimeout(20*time.Second, func() { got, err = e.Render("tree", map[string]interface{}{"node": tree.value()}) }) {
				res.add(Finding{Kind: "oracle", Where: "c11-includes-itself/" + f.name, Case: c, Expected: "an answer", Observed: "no answer within 20 s"})
				return
			}
			if err != nil {
				got = "error: " + err.Error()
			}
			if want := tree.expect(f.only); got != want {
				res.add(Finding{Kind: "oracle", Where: "c11-includes-itself/" + f.name, Case: c, Expected: want, Observed: got,
					Detail: "after the include of the same template returns, loop.index / loop.length / loop.revindex / loop.last are those of the includer's own loop"})
				return
			}
		}
	}
}

// c11ValuesHandedOver: the values after `with` are expressions evaluated where the include stands, each time it is
// reached: hashes inside hashes, lists of hashes, attribute reads and concatenations among them.
func c11ValuesHandedOver(res *Result) {
	res.Hist["stream:c11-values-handed-over"]++
	const part = "[{{ cfg.size }}|{{ cfg.k }}|{{ cfg.s }}|{{ arr[0].a }}|{{ arr[1] }}|{{ deep.x.y.z }}|{{ flat }}]"
	forms := []struct{ name, main string }{
		{"nested-hash", "{% include 'p' with {'cfg': {'size': n, 'k': o.k, 's': x ~ 'z'}, 'arr': [{'a': n}, x], 'deep': {'x': {'y': {'z': n}}}, 'flat': n} %}"},
		{"nested-hash-only", "{% include 'p' with {'cfg': {'size': n, 'k': o.k, 's': x ~ 'z'}, 'arr': [{'a': n}, x], 'deep': {'x': {'y': {'z': n}}}, 'flat': n} only %}"},
		{"nested-hash-ignore-missing", "{% include 'p' ignore missing with {'cfg': {'size': n, 'k': o.k, 's': x ~ 'z'}, 'arr': [{'a': n}, x], 'deep': {'x': {'y': {'z': n}}}, 'flat': n} %}"},
		{"in-loop", "{% for n in ns %}{% include 'p' with {'cfg': {'size': n, 'k': o.k, 's': x ~ 'z'}, 'arr': [{'a': n}, x], 'deep': {'x': {'y': {'z': n}}}, 'flat': n} %}{% endfor %}"},
		{"after-set", "{% set n = 5 %}{% include 'p' with {'cfg': {'size': n, 'k': o.k, 's': x ~ 'z'}, 'arr': [{'a': n}, x], 'deep': {'x': {'y': {'z': n}}}, 'flat': n} %}{% set n = 6 %}{% include 'p' with {'cfg': {'size': n, 'k': o.k, 's': x ~ 'z'}, 'arr': [{'a': n}, x], 'deep': {'x': {'y': {'z': n}}}, 'flat': n} %}"},
	}
	one := func(n interface{}) string { return fmt.Sprintf("[%v|K|Xz|%v|X|%v|%v]", n, n, n, n) }
	for _, f := range forms {
		e := twig.New()
		if e.RegisterString("p", part) != nil || e.RegisterString("main", f.main) != nil {
			continue
		}
		want := one(3)
		switch f.name {
		case "in-loop":
			want = one(1) + one(2) + one(3)
		case "after-set":
			want = one(5) + one(6)
		}
		c := Case{"stream": "c11-values-handed-over", "form": f.name, "main": f.main, "part": part}
		for i := 0; i < 2; i++ {
			res.Evaluations++
			var got string
			var err error
			if !c08WithTimeout(20*time.Second, func() {
				got, err = e.Render("main", map[string]interface{}{"n": 3, "x": "X", "o": map[string]interface{}{"k": "K"}, "ns": []interface{}{1, 2, 3}})
			}) {
				res.add(Finding{Kind: "oracle", Where: "c11-values-handed-over/" + f.name, Case: c, Expected: want, Observed: "no answer within 20 s"})
				return
			}
			if err != nil {
				got = "error: " + err.Error()
			}
			if got != want {
				res.add(Finding{Kind: "oracle", Where: "c11-values-handed-over/" + f.name, Case: c, Expected: want, Observed: got,
					Detail: "the included template sees the values the with-expressions have where and when the include is reached"})
				break
			}
		}
	}
}

// c11ListsWithRoomToGrow: lists the caller built with spare capacity (make([]interface{}, n, m), append): what an
// included template derives from such a list leaves what the including template derived from it as it was.
func c11ListsWithRoomToGrow(res *Result) {
	mkList := func(vals ...interface{}) []interface{} {
		l := make([]interface{}, 0, 16)
		return append(l, vals...)
	}
	cases := []struct{ name, main, part, want string }{
		{"merge", "{% set card = classes|merge(['card']) %}{% include 'part' %}|{{ card|join(' ') }}|{{ classes|join(' ') }}", "{% set badge = classes|merge(['badge']) %}{{ badge|join(' ') }}", "ui badge|ui card|ui"},
		{"merge-only", "{% set card = classes|merge(['card']) %}{% include 'part' with {'classes': classes} only %}|{{ card|join(' ') }}", "{% set badge = classes|merge(['badge', 'x']) %}{{ badge|join(' ') }}", "ui badge x|ui card"},
		{"merge-function", "{% set card = merge(classes, ['card']) %}{% include 'part' %}|{{ card|join(' ') }}", "{{ merge(classes, ['badge'])|join(' ') }}", "ui badge|ui card"},
		{"grown-in-loop", "{% set acc = classes %}{% for i in [1, 2] %}{% set acc = acc|merge([i]) %}{% endfor %}{% set mine = acc|merge(['mine']) %}{% include 'part' %}|{{ mine|join(' ') }}", "{{ acc|merge(['theirs'])|join(' ') }}", "ui 1 2 theirs|ui 1 2 mine"},
		{"slice-then-merge", "{% set head = classes|slice(0, 1) %}{% set a = head|merge(['a']) %}{% include 'part' %}|{{ a|join(' ') }}|{{ classes|join(' ') }}", "{{ head|merge(['b'])|join(' ') }}", "ui b|ui a|ui"},
		{"two-in-one-template", "{% set a = classes|merge(['a']) %}{% set b = classes|merge(['b']) %}{{ a|join(' ') }}|{{ b|join(' ') }}", "", "ui a|ui b"},
	}
	for _, tc := range cases {
		e := twig.New()
		if e.RegisterString("part", tc.part) != nil || e.RegisterString("main", tc.main) != nil {
			continue
		}
		res.Hist["stream:c11-lists-with-room-to-grow"]++
		for i := 0; i < 2; i++ {
			res.Evaluations++
			got, err := e.Render("main", map[string]interface{}{"classes": mkList("ui")})
			if err != nil {
				got = "error: " + err.Error()
			}
			if got != tc.want {
				res.add(Finding{Kind: "oracle", Where: "c11-lists-with-room-to-grow/" + tc.name, Case: Case{"stream": "c11-lists-with-room-to-grow", "main": tc.main, "part": tc.part}, Expected: tc.want, Observed: got,
					Detail: "classes is a Go slice of length 1 and capacity 16; nothing the included template derives from it changes what the including template holds"})
				break
			}
		}
	}
}
