package main

import (
	"bytes"
	"encoding/gob"
	"encoding/json"
	"fmt"
	"io"
	"os"
	"path/filepath"
	"regexp"
	"runtime"
	"runtime/debug"
	"strconv"
	"strings"
	"time"
	"unicode/utf8"

	"github.com/semihalev/twig"
)

func init() { runners["C16"] = runC16 }

// c16Guard runs f under recover with a watchdog.
func c16Guard(d time.Duration, f func()) (pan interface{}, timedOut bool) {
	done := make(chan interface{}, 1)
	go func() {
		defer func() { done <- recover() }()
		f()
	}()
	t := time.NewTimer(d)
	defer t.Stop()
	select {
	case p := <-done:
		return p, false
	case <-t.C:
		return nil, true
	}
}

type c16Fields struct {
	name, src, ast string
	lm, ct         int64
}

func c16Of(c *twig.CompiledTemplate) c16Fields {
	if len(c.AST) > 1<<26 { // never the case for a generated record; do not copy gigabytes when a broken reader returns them
		return c16Fields{c.Name, c.Source, fmt.Sprintf("<%d bytes>", len(c.AST)), c.LastModified, c.CompileTime}
	}
	return c16Fields{c.Name, c.Source, string(c.AST), c.LastModified, c.CompileTime}
}

func (f c16Fields) String() string {
	clip := func(s string) string {
		if len(s) > 48 {
			return hx(s[:48]) + fmt.Sprintf("..(%d bytes)", len(s))
		}
		return hx(s)
	}
	return fmt.Sprintf("name=%s src=%s lm=%d ct=%d ast=%s", clip(f.name), clip(f.src), f.lm, f.ct, clip(f.ast))
}

func c16Clip(s string) string {
	if len(s) > 160 {
		return hx(s[:160]) + fmt.Sprintf("..(%d bytes)", len(s))
	}
	return hx(s)
}

var c16SafeName = regexp.MustCompile(`^[A-Za-z0-9_][A-Za-z0-9_.-]{0,99}$`)

// engine configurations the compiled form is loaded into (the source engine has the same one)
const c16Configs = 5

func c16Engine(k int) *twig.Engine {
	e := twig.New()
	switch k {
	case 1:
		e.SetStrictVars(true)
	case 2:
		e.SetAutoReload(true)
	case 3:
		e.SetDebug(true)
	case 4:
		e.AddGlobal("g", "G")
		e.AddFilter("shout", func(v interface{}, args ...interface{}) (interface{}, error) {
			return strings.ToUpper(fmt.Sprint(v)) + "!", nil
		})
	}
	return e
}

// c16NewerLoader has one name, other text, and reports a modification time far in the future
type c16NewerLoader struct{ name string }

func (l *c16NewerLoader) Load(n string) (string, error) {
	if n == l.name {
		return "NEWER DECOY", nil
	}
	return "", fmt.Errorf("%w: %s", twig.ErrTemplateNotFound, n)
}
func (l *c16NewerLoader) Exists(n string) bool { return n == l.name }
func (l *c16NewerLoader) GetModifiedTime(n string) (int64, error) {
	return time.Now().Unix() + 86400, nil
}

// c16MutableLoader: one name whose text and modification time the test changes behind the engine
type c16MutableLoader struct {
	name, text string
	mtime      int64
}

func (l *c16MutableLoader) Load(n string) (string, error) {
	if n == l.name {
		return l.text, nil
	}
	return "", fmt.Errorf("%w: %s", twig.ErrTemplateNotFound, n)
}
func (l *c16MutableLoader) Exists(n string) bool                    { return n == l.name }
func (l *c16MutableLoader) GetModifiedTime(n string) (int64, error) { return l.mtime, nil }

// c16CompileAfterChange: the compiled form carries the source the engine would render at that moment -- also when the
// template was loaded before and its source changed behind the engine since (auto-reload on and a later
// modification time; the cache switched off; development mode).
func c16CompileAfterChange(res *Result) {
	for si, set := range []func(e *twig.Engine){
		func(e *twig.Engine) { e.SetAutoReload(true) },
		func(e *twig.Engine) {},
	} {
		for li, late := range []func(e *twig.Engine){
			func(e *twig.Engine) {},
			func(e *twig.Engine) { e.SetCache(false) },
			func(e *twig.Engine) { e.SetDevelopmentMode(true); twig.SetDebugLevel(twig.DebugOff) },
			func(e *twig.Engine) { e.SetAutoReload(true) },
		} {
			if si == 1 && li == 0 {
				continue // cache on, auto-reload off, nothing switched: the cached template rightly stays
			}
			ld := &c16MutableLoader{name: "page", text: "first {{ a }}", mtime: 1000}
			eng := twig.New()
			eng.RegisterLoader(ld)
			set(eng)
			c := Case{"stream": "compile-after-change", "settings": si, "switched afterwards": li}
			res.Hist["stream:compile-after-change"]++
			res.Evaluations++
			if out, err := eng.Render("page", map[string]interface{}{"a": 1}); err != nil || out != "first 1" {
				res.Notes = append(res.Notes, fmt.Sprintf("compile-after-change: first render gives %q %v", out, err))
				continue
			}
			ld.text, ld.mtime = "second {{ a }}", 2000
			late(eng)
			ct, err := eng.CompileTemplate("page")
			if err != nil {
				res.add(Finding{Kind: "oracle", Where: "compile-after-change", Case: c, Expected: "a compiled template", Observed: "error: " + err.Error()})
				continue
			}
			now, rerr := eng.Render("page", map[string]interface{}{"a": 1})
			other := twig.New()
			lerr := other.RegisterCompiledTemplate(ct)
			got, gerr := other.Render("page", map[string]interface{}{"a": 1})
			if rerr != nil || lerr != nil || gerr != nil || got != now || ct.Source != ld.text {
				res.add(Finding{Kind: "oracle", Where: "compile-after-change", Case: c, Expected: fmt.Sprintf("%q (what the engine renders now; source %q)", now, ld.text),
					Observed: fmt.Sprintf("%q (compiled source %q; errors %v %v %v)", got, ct.Source, rerr, lerr, gerr),
					Detail:   "the template was rendered once, its source changed behind the engine, CompileTemplate was called: the compiled form does not render like the source"})
			}
		}
	}
	twig.SetDebugLevel(twig.DebugOff)
}

type c16Out struct {
	out string
	err bool
}

func (o c16Out) String() string {
	if o.err {
		return "error"
	}
	return "ok:" + hx(o.out)
}

func c16Render(e *twig.Engine, name string, ctxJSON []byte) (o c16Out, pan interface{}, hung bool) {
	pan, hung = c16Guard(20*time.Second, func() {
		var ctx map[string]interface{}
		_ = json.Unmarshal(ctxJSON, &ctx)
		s, err := e.Render(name, ctx)
		o = c16Out{s, err != nil}
		if err != nil {
			o.out = ""
		}
	})
	return
}

// C16: compiled templates. Four streams:
//
//	record    - fields + the model's exact serialisation: SerializeCompiledTemplate must produce those bytes
//	            (correspondence) and DeserializeCompiledTemplate must give the fields back (the property's own
//	            oracle); the same source through SaveCompiled / Load of a CompiledLoader when it parses
//	malformed - arbitrary bytes with the model's verdict; a panic or a hang is an oracle failure
//	render    - a source and a context: render from source vs compile -> serialise -> deserialise -> register
//	            on a fresh engine (three routes incl. files) must print the same bytes, on five engine configurations
//	revisions - one name, several sources of equal length and equal timestamps, compiled and loaded one after
//	            the other in this process: each must render like its own source
func runC16(cases string, res *Result) {
	c16CompileAfterChange(res)
	c16FilesOfTemplatesRegisteredUnderOtherNames(cases, res)
	c16FilesThatArriveLater(cases, res)
	c16RelativeNamesSurvive(cases, res)
	c15LoadedAheadOfTime(cases, res)
	twig.SetDebugWriter(io.Discard) // SetDebug(true) on one engine switches the package-wide logger on
	dir := filepath.Join(filepath.Dir(cases), "files")
	os.RemoveAll(dir)
	if err := os.MkdirAll(dir, 0o755); err != nil {
		panic(err)
	}
	defer os.RemoveAll(dir)

	var prevSer []byte
	var prevCopy string
	var prevCase Case
	nfile := 0
	nrender := 0
	truncAccepted := 0
	truncAcceptedEx := ""
	maxAlloc := uint64(0)
	maxAllocIn := ""
	gobOK := 0

	oracle := func(where string, c Case, exp, obs, detail string) {
		res.add(Finding{Kind: "oracle", Where: where, Case: c, Expected: exp, Observed: obs, Detail: detail})
	}
	disagree := func(where string, c Case, exp, obs, detail string) {
		res.add(Finding{Kind: "disagreement", Where: where, Case: c, Expected: exp, Observed: obs, Detail: detail})
	}

	deser := func(where string, c Case, data []byte) (*twig.CompiledTemplate, error, bool) {
		var got *twig.CompiledTemplate
		var err error
		pan, hung := c16Guard(30*time.Second, func() { got, err = twig.DeserializeCompiledTemplate(data) })
		res.Evaluations++
		if hung {
			oracle(where, c, "a result or an error", "no return within 30s", "DeserializeCompiledTemplate hangs")
			return nil, nil, false
		}
		if pan != nil {
			oracle(where, c, "a result or an error", fmt.Sprintf("panic: %v", pan), "DeserializeCompiledTemplate panics")
			return nil, nil, false
		}
		if err == nil && got == nil {
			oracle(where, c, "a result or an error", "nil, nil", "DeserializeCompiledTemplate returns neither")
			return nil, nil, false
		}
		return got, err, true
	}

	record := func(c Case) {
		want := c16Fields{c.hexs("name"), c.hexs("src"), c.hexs("ast"), 0, 0}
		want.lm, _ = strconv.ParseInt(c.str("lm"), 10, 64)
		want.ct, _ = strconv.ParseInt(c.str("ct"), 10, 64)
		model := c.hexs("ser")
		res.Hist["record:"+c.str("tag")]++
		nontrivial := strings.Contains(want.src, "{{") || strings.Contains(want.src, "{%") || want.src == "" || want.name == "" ||
			!utf8.ValidString(want.src) || !utf8.ValidString(want.name) || len(want.src) > 65536 || len(want.name) > 65536
		res.count("record:"+model, nontrivial)
		if len(model) < 400 {
			res.sample(map[string]string{"name": hx(want.name), "source": hx(want.src), "lm": c.str("lm"), "ct": c.str("ct"), "ast": hx(want.ast), "model_bytes": hx(model)}, 8)
		}
		switch {
		case want.src == "":
			res.Hist["source:empty"]++
		case !utf8.ValidString(want.src):
			res.Hist["source:non-utf8"]++
		case len(want.src) > 65536:
			res.Hist["source:>64KB"]++
		}

		ctpl := &twig.CompiledTemplate{Name: want.name, Source: want.src, LastModified: want.lm, CompileTime: want.ct, AST: []byte(want.ast)}
		var ser []byte
		var err error
		snapshot := ""
		pan, hung := c16Guard(30*time.Second, func() {
			ser, err = twig.SerializeCompiledTemplate(ctpl)
			if err == nil {
				// serialise something else right away: the bytes already handed out must stay what they were
				snapshot = string(ser)
				probe := &twig.CompiledTemplate{Name: "\xa5probe", Source: strings.Repeat("\x5a", 64), LastModified: -1, CompileTime: -1, AST: []byte{0xa5}}
				_, _ = twig.SerializeCompiledTemplate(probe)
			}
		})
		res.Evaluations++
		if hung || pan != nil || err != nil {
			oracle("serialize", c, "bytes", fmt.Sprintf("hung=%v panic=%v err=%v", hung, pan, err), "SerializeCompiledTemplate fails on a representable record")
			return
		}
		if string(ser) != snapshot {
			oracle("serialize-aliasing", c, c16Clip(snapshot), c16Clip(string(ser)), "the bytes returned by SerializeCompiledTemplate changed when another template was serialised afterwards")
			ser = []byte(snapshot)
		}
		// the buffer handed out for the previous record must not be rewritten by this call
		if prevSer != nil && string(prevSer) != prevCopy {
			oracle("serialize-aliasing", prevCase, c16Clip(prevCopy), c16Clip(string(prevSer)), "bytes returned by SerializeCompiledTemplate changed during a later call")
		}
		prevSer, prevCopy, prevCase = ser, string(ser), c

		// the property's own oracle: the implementation's round trip reproduces every field
		back, derr, ok := deser("roundtrip", c, ser)
		rtOK := false
		if ok {
			if derr != nil {
				oracle("roundtrip", c, want.String(), "error: "+derr.Error(), "deserialising the bytes just serialised fails")
			} else if got := c16Of(back); got != want {
				oracle("roundtrip", c, want.String(), got.String(), "serialise then deserialise does not reproduce the record")
			} else {
				rtOK = true
			}
		}
		// correspondence: byte-exact with the model, and the model's bytes are read back the same way
		if string(ser) != model {
			if rtOK {
				disagree("serialize-bytes", c, c16Clip(model), c16Clip(string(ser)), "SerializeCompiledTemplate differs from the model's bytes")
			}
			back2, derr2, ok2 := deser("deserialize-model-bytes", c, []byte(model))
			if ok2 && rtOK {
				if derr2 != nil {
					disagree("deserialize-model-bytes", c, want.String(), "error: "+derr2.Error(), "")
				} else if got := c16Of(back2); got != want {
					disagree("deserialize-model-bytes", c, want.String(), got.String(), "")
				}
			}
		}

		// the old gob format is still read (the fallback route of DeserializeCompiledTemplate)
		if len(model) < 4096 {
			var gb bytes.Buffer
			if gob.NewEncoder(&gb).Encode(ctpl) == nil {
				g, gerr, ok := deser("gob-format", c, gb.Bytes())
				if ok {
					if gerr != nil {
						disagree("gob-format", c, want.String(), "error: "+gerr.Error(), "a gob-encoded CompiledTemplate is no longer accepted")
					} else if got := c16Of(g); got != want {
						disagree("gob-format", c, want.String(), got.String(), "a gob-encoded CompiledTemplate decodes to different fields")
					} else {
						gobOK++
					}
				}
			}
		}

		// files through the CompiledLoader: needs a source the parser accepts
		eng := twig.New()
		fname := want.name
		if !c16SafeName.MatchString(fname) {
			nfile++
			fname = "f_" + strconv.Itoa(nfile)
		}
		var rerr error
		pan, hung = c16Guard(30*time.Second, func() { rerr = eng.RegisterString(fname, want.src) })
		if hung || pan != nil {
			res.Hist["file:register-panic-or-hang"]++ // C05's business, not a compiled-template matter
			return
		}
		if rerr != nil {
			res.Hist["file:source-does-not-parse"]++
			return
		}
		c16File(res, c, dir, eng, fname, want.src, oracle)
	}

	malformed := func(c Case) {
		data := c.hexs("data")
		tag := c.str("tag")
		res.Hist["malformed:"+tag]++
		res.count("malformed:"+data, len(data) >= 5 && data[0] == 1)
		if c.str("tag") != "exhaustive-01xy" && c.str("tag") != "exhaustive1" && len(data) < 200 {
			res.sample(map[string]interface{}{"malformed": hx(data), "model_ok": c["ok"], "unmodelled": c["unmodelled"]}, 16)
		}
		// memory: the model says how many bytes the reader asks make() for in total (never more than the
		// input); where a reader without the length checks would ask for 256 MB or more, measure
		naive := c.num("naive")
		var m0 runtime.MemStats
		if naive >= 1<<28 {
			runtime.ReadMemStats(&m0)
		}
		got, err, ok := deser("malformed/"+tag, c, []byte(data))
		if naive >= 1<<28 {
			var m1 runtime.MemStats
			runtime.ReadMemStats(&m1)
			d := m1.TotalAlloc - m0.TotalAlloc
			res.Hist["malformed:allocation-measured"]++
			if d > maxAlloc {
				maxAlloc, maxAllocIn = d, hx(data)
				if len(data) > 40 {
					maxAllocIn = hx(data[:40]) + fmt.Sprintf("..(%d bytes)", len(data))
				}
			}
			if d >= 1<<27 {
				disagree("malformed/"+tag+"/allocation", c, fmt.Sprintf("at most %d bytes requested (model), input of %d bytes", c.num("alloc"), len(data)),
					fmt.Sprintf("%d bytes allocated during the call", d), "the reader allocates from a length prefix without comparing it with the remaining input")
				debug.FreeOSMemory()
			}
		}
		if !ok {
			return
		}
		if b, _ := c["unmodelled"].(bool); b {
			res.Unmodelled++
			if err == nil {
				res.Hist["malformed:unmodelled-accepted-by-gob"]++
				// gob is not modelled here, but one thing cannot come from gob: exactly the non-empty record
				// the binary layout would give if the version byte were not looked at
				if alt, _ := c["alt"].(bool); alt {
					want := c16Fields{c.hexs("alt_name"), c.hexs("alt_src"), c.hexs("alt_ast"), 0, 0}
					want.lm, _ = strconv.ParseInt(c.str("alt_lm"), 10, 64)
					want.ct, _ = strconv.ParseInt(c.str("alt_ct"), 10, 64)
					if c16Of(got) == want {
						disagree("malformed/"+tag, c, "error (version byte is not 1)", "accepted: "+want.String(), "a stream with another version byte is read as the binary format")
					}
				}
			}
			return
		}
		mok, _ := c["ok"].(bool)
		if mok != (err == nil) {
			obs := "accepted: "
			if err != nil {
				obs = "error: " + err.Error()
			} else {
				obs += c16Of(got).String()
			}
			exp := "error"
			if mok {
				exp = "accepted"
			}
			disagree("malformed/"+tag, c, exp, obs, "model and DeserializeCompiledTemplate disagree on whether the stream is valid")
			return
		}
		if mok {
			want := c16Fields{c.hexs("name"), c.hexs("src"), c.hexs("ast"), 0, 0}
			want.lm, _ = strconv.ParseInt(c.str("lm"), 10, 64)
			want.ct, _ = strconv.ParseInt(c.str("ct"), 10, 64)
			if g := c16Of(got); g != want {
				disagree("malformed/"+tag, c, want.String(), g.String(), "accepted with different fields")
				return
			}
			if bo, _ := c["binary_ok"].(bool); !bo {
				res.Hist["malformed:accepted-by-gob-fallback-as-empty-record"]++
				if tag == "truncated" {
					truncAccepted++
					if truncAcceptedEx == "" || len(data) < len(truncAcceptedEx)/2 {
						truncAcceptedEx = hx(data)
					}
				}
			}
		}
	}

	render := func(c Case) {
		src := c.hexs("src")
		ctxJSON, _ := json.Marshal(c["ctx"])
		nrender++
		name := "t_" + strconv.Itoa(nrender) + ".twig"
		res.Hist["render:"+c.str("tag")]++
		res.count("render:"+src+"|"+string(ctxJSON), strings.Contains(src, "{{") || strings.Contains(src, "{%"))
		if c.num("ctxid") == 1 {
			res.sample(map[string]string{"render_source": hx(src)}, 24)
		}
		for k := 0; k < c16Configs; k++ {
			a := c16Engine(k)
			var rerr error
			pan, hung := c16Guard(20*time.Second, func() { rerr = a.RegisterString(name, src) })
			if pan != nil || hung {
				res.Hist["render:register-panic-or-hang"]++
				return
			}
			if rerr != nil {
				res.Hist["render:source-does-not-parse"]++
				return
			}
			ref, pan, hung := c16Render(a, name, ctxJSON)
			if pan != nil || hung {
				res.Hist["render:source-render-panic-or-hang"]++
				return
			}
			if ref.err {
				res.Hist["render:source-render-error"]++
			}
			compiled, cerr := a.CompileTemplate(name)
			res.Evaluations++
			if cerr != nil || compiled == nil {
				oracle("compile", c, "a compiled template", fmt.Sprint("error: ", cerr), "CompileTemplate fails on a registered template")
				return
			}
			if compiled.Name != name || compiled.Source != src {
				oracle("compile", c, hx(name)+" / "+hx(src), hx(compiled.Name)+" / "+hx(compiled.Source), "CompileTemplate does not carry name and source")
				return
			}
			compiled.CompileTime = 1234567890
			want := c16Of(compiled)
			ser, serr := twig.SerializeCompiledTemplate(compiled)
			if serr != nil {
				oracle("compile-serialize", c, "bytes", "error: "+serr.Error(), "")
				return
			}
			back, derr, ok := deser("compile-roundtrip", c, ser)
			if !ok {
				return
			}
			if derr != nil {
				oracle("compile-roundtrip", c, want.String(), "error: "+derr.Error(), "deserialising a compiled template fails")
				return
			}
			if got := c16Of(back); got != want {
				oracle("compile-roundtrip", c, want.String(), got.String(), "serialise then deserialise does not reproduce the compiled template")
				return
			}
			cmp := func(route string, e *twig.Engine, lerr error) {
				res.Evaluations++
				if lerr != nil {
					oracle("render/"+route+"/config"+strconv.Itoa(k), c, ref.String(), "load error: "+lerr.Error(), "the compiled form cannot be loaded on a fresh engine")
					return
				}
				got, pan, hung := c16Render(e, name, ctxJSON)
				if pan != nil || hung {
					oracle("render/"+route+"/config"+strconv.Itoa(k), c, ref.String(), fmt.Sprintf("panic=%v hung=%v", pan, hung), "rendering the compiled form panics or hangs")
					return
				}
				if got != ref {
					oracle("render/"+route+"/config"+strconv.Itoa(k), c, ref.String(), got.String(), "compiled form renders differently from the source")
				}
			}
			b1 := c16Engine(k)
			cmp("RegisterCompiledTemplate", b1, b1.RegisterCompiledTemplate(back))
			b2 := c16Engine(k)
			cmp("LoadFromCompiledData", b2, b2.LoadFromCompiledData(ser))
			// an engine whose loader knows the same name with other text: the registration is what the name stands for,
			// whatever the cache and reload settings are
			if c.num("ctxid") == 0 {
				for di, set := range []func(e *twig.Engine){
					func(e *twig.Engine) {},
					func(e *twig.Engine) { e.SetCache(false) },
					func(e *twig.Engine) { e.SetAutoReload(true) },
					func(e *twig.Engine) { e.SetDevelopmentMode(true); twig.SetDebugLevel(twig.DebugOff) },
				} {
					for li, ld := range []twig.Loader{twig.NewArrayLoader(map[string]string{name: "DECOY"}), &c16NewerLoader{name: name}} {
						b5 := c16Engine(k)
						b5.RegisterLoader(ld)
						set(b5)
						route := fmt.Sprintf("decoy-loader-%d/settings-%d/", li, di)
						res.Hist["render:engine-with-a-loader-that-has-the-name-too"]++
						if (di+li)%2 == 0 {
							cmp(route+"RegisterCompiledTemplate", b5, b5.RegisterCompiledTemplate(back))
						} else {
							cmp(route+"LoadFromCompiledData", b5, b5.LoadFromCompiledData(ser))
						}
					}
				}
				twig.SetDebugLevel(twig.DebugOff)
			}
			if k == 0 || k == 2 {
				ld := twig.NewCompiledLoader(dir)
				if err := ld.SaveCompiled(a, name); err != nil {
					oracle("render/SaveCompiled", c, "file written", "error: "+err.Error(), "SaveCompiled fails")
				} else {
					b3 := c16Engine(k)
					b3.RegisterLoader(twig.NewCompiledLoader(dir))
					cmp("CompiledLoader", b3, nil)
					if c.num("ctxid") == 0 {
						b4 := c16Engine(k)
						cmp("CompiledLoader.LoadAll", b4, twig.NewCompiledLoader(dir).LoadAll(b4))
					}
					os.Remove(filepath.Join(dir, name+".twig.compiled"))
				}
			}
		}
	}

	// revisions: one name compiled again and again with content of the same length and the same timestamps,
	// loaded within this process into one shared engine and into fresh engines; whatever was loaded before,
	// each revision must render like its own source on a fresh engine
	revisions := func(c Case) {
		name := c.str("name")
		lm, _ := strconv.ParseInt(c.str("lm"), 10, 64)
		ct, _ := strconv.ParseInt(c.str("ct"), 10, 64)
		ctxJSON, _ := json.Marshal(c["ctx"])
		revs := c.list("revs")
		sharedPlan := c.list("shared")
		res.Hist["revisions"]++
		key := "revisions:" + name
		for _, r := range revs {
			key += "|" + r.(string)
		}
		res.count(key, len(revs) >= 2)
		res.sample(map[string]interface{}{"revisions_of": name, "sources": revs}, 28)
		shared := c16Engine(0)
		for i, rv := range revs {
			src := unhex(rv.(string))
			a := c16Engine(0)
			var rerr error
			if pan, hung := c16Guard(20*time.Second, func() { rerr = a.RegisterString(name, src) }); pan != nil || hung {
				res.Hist["revisions:register-panic-or-hang"]++
				continue
			}
			if rerr != nil {
				res.Hist["revisions:source-does-not-parse"]++
				continue
			}
			ref, pan, hung := c16Render(a, name, ctxJSON)
			if pan != nil || hung {
				res.Hist["revisions:source-render-panic-or-hang"]++
				continue
			}
			compiled, cerr := a.CompileTemplate(name)
			if cerr != nil || compiled == nil {
				oracle("revisions/compile", c, "a compiled template", fmt.Sprint("error: ", cerr), "CompileTemplate fails on a registered template")
				continue
			}
			compiled.LastModified, compiled.CompileTime = lm, ct
			ser, serr := twig.SerializeCompiledTemplate(compiled)
			if serr != nil {
				oracle("revisions/serialize", c, "bytes", "error: "+serr.Error(), "")
				continue
			}
			back, derr, ok := deser("revisions/roundtrip", c, ser)
			if !ok {
				continue
			}
			if derr != nil || c16Of(back) != c16Of(compiled) {
				oracle("revisions/roundtrip", c, c16Of(compiled).String(), fmt.Sprint(derr), "revision "+strconv.Itoa(i)+" does not survive serialise / deserialise")
				continue
			}
			cmp := func(route string, e *twig.Engine, lerr error) {
				res.Evaluations++
				where := "revisions/" + route
				detail := fmt.Sprintf("revision %d of %s (source %s), loaded after %d earlier revision(s) of the same name, length and timestamps, does not render like its own source", i, name, hx(src), i)
				if lerr != nil {
					oracle(where, c, ref.String(), "load error: "+lerr.Error(), detail)
					return
				}
				got, pan, hung := c16Render(e, name, ctxJSON)
				if pan != nil || hung {
					oracle(where, c, ref.String(), fmt.Sprintf("panic=%v hung=%v", pan, hung), detail)
					return
				}
				if got != ref {
					oracle(where, c, ref.String(), got.String(), detail)
				}
			}
			f1 := c16Engine(0)
			cmp("fresh-engine/RegisterCompiledTemplate", f1, f1.RegisterCompiledTemplate(back))
			f2 := c16Engine(0)
			cmp("fresh-engine/LoadFromCompiledData", f2, f2.LoadFromCompiledData(ser))
			if b, _ := sharedPlan[i].(bool); b || i == len(revs)-1 {
				cmp("shared-engine/LoadFromCompiledData", shared, shared.LoadFromCompiledData(ser))
			}
		}
	}

	readCases(cases, func(c Case) {
		switch c.str("stream") {
		case "record":
			record(c)
		case "malformed":
			malformed(c)
		case "render":
			render(c)
		case "revisions":
			revisions(c)
		}
	})
	res.Exhaustive = []string{"malformed:exhaustive1", "malformed:exhaustive-01xy"}
	if truncAccepted > 0 {
		res.Notes = append(res.Notes, fmt.Sprintf("%d truncated serialisations were accepted (model and implementation agree); shortest: %s", truncAccepted, truncAcceptedEx))
	}
	if maxAlloc > 0 {
		res.Notes = append(res.Notes, fmt.Sprintf("largest allocation measured for one malformed input whose length prefix claims 256 MB or more: %d bytes; input %s", maxAlloc, maxAllocIn))
	}
	res.Notes = append(res.Notes, fmt.Sprintf("%d records also went through the old gob format and came back equal", gobOK))
}

// c16File: SaveCompiled writes a file that Load / Exists / an engine with the loader read back as the same source.
func c16File(res *Result, c Case, dir string, eng *twig.Engine, name, src string, oracle func(where string, c Case, exp, obs, detail string)) {
	ld := twig.NewCompiledLoader(dir)
	t0 := time.Now().Unix()
	var err error
	pan, hung := c16Guard(30*time.Second, func() { err = ld.SaveCompiled(eng, name) })
	res.Evaluations++
	if pan != nil || hung {
		oracle("file/SaveCompiled", c, "file written", fmt.Sprintf("panic=%v hung=%v", pan, hung), "")
		return
	}
	if err != nil {
		oracle("file/SaveCompiled", c, "file written", "error: "+err.Error(), "SaveCompiled fails for a registered template with a plain name")
		return
	}
	t1 := time.Now().Unix()
	res.Hist["file:written"]++
	rd := twig.NewCompiledLoader(dir) // a second loader instance: what is read must not depend on the writer's state
	defer func() {
		if m, _ := filepath.Glob(filepath.Join(dir, name+".*")); len(m) > 0 {
			for _, f := range m {
				os.Remove(f)
			}
		}
	}()
	if !rd.Exists(name) {
		oracle("file/Exists", c, "true", "false", "the file written by SaveCompiled is not found by Exists of a loader on the same directory")
		return
	}
	var got string
	pan, hung = c16Guard(30*time.Second, func() { got, err = rd.Load(name) })
	res.Evaluations++
	if pan != nil || hung {
		oracle("file/Load", c, c16Clip(src), fmt.Sprintf("panic=%v hung=%v", pan, hung), "")
		return
	}
	if err != nil {
		oracle("file/Load", c, c16Clip(src), "error: "+err.Error(), "the file written by SaveCompiled cannot be loaded back")
		return
	}
	if got != src {
		oracle("file/Load", c, c16Clip(src), c16Clip(got), "the file written by SaveCompiled loads back as a different source")
		return
	}
	// the file is a serialisation whose fields are those of the template
	files, _ := filepath.Glob(filepath.Join(dir, name+".*"))
	if len(files) != 1 {
		oracle("file/content", c, "one file", fmt.Sprint(files), "")
		return
	}
	raw, rerr := os.ReadFile(files[0])
	if rerr != nil {
		oracle("file/content", c, "readable file", rerr.Error(), "")
		return
	}
	ct, derr := twig.DeserializeCompiledTemplate(raw)
	res.Evaluations++
	if derr != nil {
		oracle("file/content", c, "a serialised compiled template", "error: "+derr.Error(), "")
		return
	}
	if ct.Name != name || ct.Source != src {
		oracle("file/content", c, hx(name)+" / "+c16Clip(src), hx(ct.Name)+" / "+c16Clip(ct.Source), "file content carries a different name or source")
		return
	}
	if ct.LastModified < t0-5 || ct.LastModified > t1+1 || ct.CompileTime < t0-1 || ct.CompileTime > t1+1 {
		oracle("file/content", c, fmt.Sprintf("timestamps in [%d,%d]", t0, t1), fmt.Sprintf("lm=%d ct=%d", ct.LastModified, ct.CompileTime), "timestamps of the registered template are not the ones in the file")
		return
	}
	re, _ := twig.SerializeCompiledTemplate(ct)
	if !bytes.Equal(re, raw) {
		oracle("file/content", c, c16Clip(string(raw)), c16Clip(string(re)), "re-serialising what the file deserialises to gives different bytes")
	}
	// a second template whose name differs from the first by the loader's own suffix, in the same directory: each
	// name has its own file
	if !strings.Contains(name, "/") {
		other := name + ".twig"
		if strings.HasSuffix(name, ".twig") {
			other = strings.TrimSuffix(name, ".twig")
		}
		if other != "" {
			osrc := "other template " + other + " {{ 2 + 2 }}"
			eo := twig.New()
			if eo.RegisterString(other, osrc) == nil && eo.RegisterString(name, src) == nil {
				d2 := filepath.Join(dir, "pair")
				os.MkdirAll(d2, 0o755)
				e1 := twig.NewCompiledLoader(d2).SaveCompiled(eo, name)
				e2 := twig.NewCompiledLoader(d2).SaveCompiled(eo, other)
				res.Evaluations++
				res.Hist["file:two-names-differing-by-the-suffix"]++
				if e1 == nil && e2 == nil {
					g1, l1 := twig.NewCompiledLoader(d2).Load(name)
					g2, l2 := twig.NewCompiledLoader(d2).Load(other)
					if l1 != nil || l2 != nil || g1 != src || g2 != osrc {
						oracle("file/two names", c, c16Clip(src)+" | "+c16Clip(osrc), fmt.Sprintf("%s (err=%v) | %s (err=%v)", c16Clip(g1), l1, c16Clip(g2), l2),
							"templates "+strconv.Quote(name)+" and "+strconv.Quote(other)+" saved into one directory are not both read back as they were")
					}
				}
				os.RemoveAll(d2)
			}
		}
	}
	// the template changes and is saved again into the same directory (within the same second, and with a loader
	// that reports no time stamps): the file follows the template
	src2 := "second version of " + name + " {{ 1 + 1 }}"
	// an engine with auto-reload that serves the directory through the rewrites below: what it renders is the
	// file as it is now (each rewrite moves the file's modification time forward; the time stamp stored inside
	// the file does not move: same second, or a rollback)
	served := twig.New()
	served.SetAutoReload(true)
	served.RegisterLoader(twig.NewCompiledLoader(dir))
	servedStep := 0
	servedCheck := func(step string, now string) bool {
		servedStep++
		ft := time.Now().Add(time.Duration(10*servedStep) * time.Second)
		for _, f := range files {
			os.Chtimes(f, ft, ft)
		}
		ref := twig.New()
		if ref.RegisterString(name, now) != nil {
			return true
		}
		want, werr := ref.Render(name, map[string]interface{}{"name": "N", "items": []interface{}{1, 2}})
		var gotS string
		var gerr error
		pan, hung := c16Guard(30*time.Second, func() {
			gotS, gerr = served.Render(name, map[string]interface{}{"name": "N", "items": []interface{}{1, 2}})
		})
		res.Evaluations++
		res.Hist["file:served-through-rewrites"]++
		if pan != nil || hung {
			oracle("file/served ("+step+")", c, c16Clip(want), fmt.Sprintf("panic=%v hung=%v", pan, hung), "")
			return false
		}
		if (werr == nil) != (gerr == nil) || (werr == nil && gotS != want) {
			oracle("file/served ("+step+")", c, c16Clip(want)+fmt.Sprintf(" (err=%v)", werr), c16Clip(gotS)+fmt.Sprintf(" (err=%v)", gerr),
				"an engine with auto-reload serving the compiled loader's directory does not render the file as it is now")
			return false
		}
		return true
	}
	if !servedCheck("first version", src) {
		return
	}
	// one loader instance that reads, writes again within the same second, and reads again
	pl := twig.NewCompiledLoader(dir)
	if g, err := pl.Load(name); err == nil && g == src {
		ep := twig.New()
		if ep.RegisterString(name, src2) == nil && pl.SaveCompiled(ep, name) == nil {
			res.Evaluations++
			res.Hist["file:one-loader-instance-rewrites"]++
			if g2, err := pl.Load(name); err != nil || g2 != src2 {
				oracle("file/one loader instance", c, c16Clip(src2), fmt.Sprintf("%s (err=%v)", c16Clip(g2), err),
					"a loader read the file, wrote the changed template into it and read again: what it reads is not the file as it is now")
				return
			}
			ep2 := twig.New()
			if ep2.RegisterString(name, src) == nil && pl.SaveCompiled(ep2, name) == nil {
				if g3, err := pl.Load(name); err != nil || g3 != src {
					oracle("file/one loader instance", c, c16Clip(src), fmt.Sprintf("%s (err=%v)", c16Clip(g3), err), "... and back to the first version")
					return
				}
			}
		}
	}
	for variant, mk := range map[string]func() *twig.Engine{
		"registered again": func() *twig.Engine {
			e := twig.New()
			e.RegisterString(name, src2)
			return e
		},
		"array loader": func() *twig.Engine {
			e := twig.New()
			e.RegisterLoader(twig.NewArrayLoader(map[string]string{name: src2}))
			return e
		},
	} {
		e2 := mk()
		pan, hung = c16Guard(30*time.Second, func() { err = twig.NewCompiledLoader(dir).SaveCompiled(e2, name) })
		res.Evaluations++
		res.Hist["file:saved-again"]++
		if pan != nil || hung || err != nil {
			oracle("file/SaveCompiled again ("+variant+")", c, "file written", fmt.Sprintf("panic=%v hung=%v err=%v", pan, hung, err), "")
			return
		}
		var got2 string
		pan, hung = c16Guard(30*time.Second, func() { got2, err = twig.NewCompiledLoader(dir).Load(name) })
		if pan != nil || hung || err != nil || got2 != src2 {
			oracle("file/Load after the second save ("+variant+")", c, c16Clip(src2), fmt.Sprintf("%s (panic=%v hung=%v err=%v)", c16Clip(got2), pan, hung, err),
				"the template was changed and saved again; the file read back is not the template as it is now")
			return
		}
		if !servedCheck("second version, "+variant, src2) {
			return
		}
		// and back to the first source
		e3 := twig.New()
		e3.RegisterString(name, src)
		if err := twig.NewCompiledLoader(dir).SaveCompiled(e3, name); err == nil {
			if got3, err := twig.NewCompiledLoader(dir).Load(name); err != nil || got3 != src {
				oracle("file/Load after the third save ("+variant+")", c, c16Clip(src), c16Clip(got3), "the file read back is not the template as it is now")
				return
			}
			if !servedCheck("first version again, "+variant, src) {
				return
			}
		}
	}
}
