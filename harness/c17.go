package main

// C17: failures during rendering surface as errors that wrap their cause.
//
// Fault enumeration on the REAL engine. A case (ocaml/c17.ml) is a template set in which every callback site has
// its own registered spy callback. For one case the runner
//
//  1. renders it cleanly and records the sequence of callback invocations (N of them) - compared with the model's
//     trace (correspondence: same callbacks in the same order, same output / error class);
//  2. for every k <= N (cap 40) builds a fresh engine whose k-th callback invocation returns a sentinel error
//     (a counter shared by all registered closures; odd k: the sentinel wrapped with %w, even k: the bare value)
//     and renders with Render and with RenderTo, debug mode off and on. ORACLE (model independent):
//     err != nil, errors.Is(err, sentinel), Render returns ""; RenderTo may have written a prefix but returns
//     the error. For a first invocation of a callback the model's predicted class is compared as well;
//  3. un-registers every invoked callback in turn: the name cannot be resolved at a position that is reached, so
//     the render must fail (oracle: err != nil and ""), class other (correspondence);
//  4. serves the templates through a counting loader (nothing registered) and fails the j-th load, once with a
//     sentinel I/O error (oracle as in 2) and once with a wrapped ErrTemplateNotFound (the template vanished: an
//     error of class not-found, except when every reference to it is an include ... ignore missing);
//  5. dead-sites: raw sources aimed at the two error-discarding code paths that no tokenised template reaches
//     (renderVariableString's filter fallback for a text node with {{ .. }} in a macro body; the items|sort workaround
//     for a loop variable name containing a bar). The hook VerifC17DeadSites parses every template source of EVERY case
//     and reports such node shapes: none may exist (the model leaves the two paths out: Unmodelled). On the raw
//     sources the first callback invocation fails: invoked => error.
//  6. missing:* cases carry a probe callback that is evaluated immediately before an unknown macro / template is
//     looked up: probe invoked => err != nil and "".
//
// No known classes: the three violations found on the pinned tree (x.y is defined and the spaceless tag swallowing a
// failure, Engine.Load reporting a loader failure as not-found) are repaired in /repo (aee56e1, 36660ef, 3206b0f);
// streams regress:* and the loader faults keep their failing inputs as ordinary cases.

import (
	"bytes"
	"errors"
	"fmt"
	"io"
	"io/fs"
	"os"
	"path/filepath"
	"sort"
	"strconv"
	"strings"

	"github.com/semihalev/twig"
)

func init() { runners["C17"] = runC17 }

const c17Cap = 40

var c17Sentinel = errors.New("c17 sentinel failure")

type c17Opts struct {
	failAt      int    // fail the k-th callback invocation (1-based); 0 = none
	bare        bool   // return the sentinel itself instead of wrapping it
	without     string // "kind:name" of a callback that is not registered
	loader      bool   // templates served by the counting loader instead of RegisterString
	loadFailAt  int    // fail the j-th loader call
	loadMissing bool   // ... with a wrapped ErrTemplateNotFound instead of the sentinel
	emptyBefore bool   // a loader that has no template at all registered before the counting loader
	emptyAfter  bool   // ... and after it
	debug       bool
	route       int  // how the callbacks reach the engine: 0 AddFilter/AddFunction/AddTest, 1 RegisterExtension, 2 CreateExtension + Add...ToExtension + AddExtension
	chain       bool // the counting loader inside a ChainLoader, in front of a loader that has every name too (other text)
}

type c17Engine struct {
	eng      *twig.Engine
	opts     c17Opts
	calls    int
	seq      []string
	loads    int
	loadSeq  []string
	failed   string // what was made to fail
	regErr   string
	tpls     map[string]string
	afterErr int   // callback invocations that happened after the injected failure
	mtime    int64 // what GetModifiedTime reports for every template (auto-reload runs)
}

// GetModifiedTime makes the counting loader timestamp aware (used with auto-reload)
func (ce *c17Engine) GetModifiedTime(name string) (int64, error) {
	if _, ok := ce.tpls[name]; !ok {
		return 0, fmt.Errorf("%w: %s", twig.ErrTemplateNotFound, name)
	}
	return ce.mtime, nil
}

func (ce *c17Engine) hit(key string) error {
	ce.calls++
	ce.seq = append(ce.seq, key)
	if ce.failed != "" {
		ce.afterErr++
	}
	if ce.opts.failAt > 0 && ce.calls == ce.opts.failAt {
		ce.failed = key
		if ce.opts.bare {
			return c17Sentinel
		}
		return fmt.Errorf("callback %s: %w", key, c17Sentinel)
	}
	return nil
}

// Loader interface of twig
func (ce *c17Engine) Load(name string) (string, error) {
	ce.loads++
	ce.loadSeq = append(ce.loadSeq, name)
	src, ok := ce.tpls[name]
	if ce.opts.loadFailAt > 0 && ce.loads == ce.opts.loadFailAt && ok {
		ce.failed = "load:" + name
		if ce.opts.loadMissing {
			return "", fmt.Errorf("%w: %s", twig.ErrTemplateNotFound, name)
		}
		return "", fmt.Errorf("read %s: %w", name, c17Sentinel)
	}
	if !ok {
		return "", fmt.Errorf("%w: %s", twig.ErrTemplateNotFound, name)
	}
	return src, nil
}

func (ce *c17Engine) Exists(name string) bool { _, ok := ce.tpls[name]; return ok }

func newC17Engine(c Case, o c17Opts) *c17Engine {
	ce := &c17Engine{eng: twig.New(), opts: o, tpls: map[string]string{}}
	filters, functions, tests := map[string]twig.FilterFunc{}, map[string]twig.FunctionFunc{}, map[string]twig.TestFunc{}
	for _, cu := range c.list("custom") {
		t, _ := cu.([]interface{})
		if len(t) != 3 {
			panic("bad custom entry")
		}
		kind, _ := t[0].(string)
		name, _ := t[1].(string)
		key := kind + ":" + name
		if key == o.without {
			continue
		}
		switch kind {
		case "filter":
			filters[name] = func(value interface{}, args ...interface{}) (interface{}, error) {
				if err := ce.hit(key); err != nil {
					return nil, err
				}
				return value, nil
			}
		case "function":
			functions[name] = func(args ...interface{}) (interface{}, error) {
				if err := ce.hit(key); err != nil {
					return nil, err
				}
				if len(args) > 0 {
					return args[0], nil
				}
				return nil, nil
			}
		case "test":
			tests[name] = func(value interface{}, args ...interface{}) (bool, error) {
				if err := ce.hit(key); err != nil {
					return false, err
				}
				return value != nil, nil
			}
		}
	}
	switch o.route {
	case 1:
		ce.eng.RegisterExtension("c17ext", func(x *twig.CustomExtension) {
			for n, f := range filters {
				x.Filters[n] = f
			}
			for n, f := range functions {
				x.Functions[n] = f
			}
			for n, f := range tests {
				x.Tests[n] = f
			}
		})
	case 2:
		x := ce.eng.CreateExtension("c17ext2")
		for n, f := range filters {
			ce.eng.AddFilterToExtension(x, n, f)
		}
		for n, f := range functions {
			ce.eng.AddFunctionToExtension(x, n, f)
		}
		for n, f := range tests {
			ce.eng.AddTestToExtension(x, n, f)
		}
		ce.eng.AddExtension(x)
	default:
		for n, f := range filters {
			ce.eng.AddFilter(n, f)
		}
		for n, f := range functions {
			ce.eng.AddFunction(n, f)
		}
		for n, f := range tests {
			ce.eng.AddTest(n, f)
		}
	}
	if pol, ok := c["policy"].(map[string]interface{}); ok {
		p := &twig.DefaultSecurityPolicy{AllowedFunctions: map[string]bool{}, AllowedFilters: map[string]bool{}, AllowedTags: map[string]bool{}}
		if fs, ok := pol["filters"].([]interface{}); ok {
			for _, f := range fs {
				s, _ := f.(string)
				p.AllowedFilters[s] = true
			}
		}
		if fs, ok := pol["functions"].([]interface{}); ok {
			for _, f := range fs {
				s, _ := f.(string)
				p.AllowedFunctions[s] = true
			}
		}
		ce.eng.EnableSandbox(p)
	}
	for _, tp := range c.list("tpls") {
		t, _ := tp.([]interface{})
		n, _ := t[0].(string)
		s, _ := t[1].(string)
		name, src := unhex(n), unhex(s)
		ce.tpls[name] = src
		if !o.loader {
			if err := ce.eng.RegisterString(name, src); err != nil && ce.regErr == "" {
				ce.regErr = name + ": " + err.Error()
			}
		}
	}
	if o.loader {
		// further loaders that answer not-found for every name: a failure of one loader stays a failure
		if o.emptyBefore {
			ce.eng.RegisterLoader(twig.NewArrayLoader(map[string]string{}))
		}
		if o.chain {
			stale := map[string]string{}
			for n := range ce.tpls {
				stale[n] = "STALE COPY OF " + n
			}
			ce.eng.RegisterLoader(twig.NewChainLoader([]twig.Loader{twig.NewArrayLoader(map[string]string{}), ce, twig.NewArrayLoader(stale)}))
		} else {
			ce.eng.RegisterLoader(ce)
		}
		if o.emptyAfter {
			ce.eng.RegisterLoader(twig.NewArrayLoader(map[string]string{}))
		}
	}
	return ce
}

type c17Run struct {
	out      string
	err      error
	written  string // RenderTo only
	panicked string
}

func (ce *c17Engine) run(c Case, to bool) (r c17Run) {
	defer func() {
		if p := recover(); p != nil {
			r.panicked = fmt.Sprint(p)
			r.err = fmt.Errorf("panic: %v", p)
		}
		if ce.opts.debug {
			ce.eng.SetDebug(false)
		}
	}()
	if ce.opts.debug {
		twig.SetDebugWriter(io.Discard)
		ce.eng.SetDebug(true)
	}
	ctx := parseContext(c.str("ctx"))
	if to {
		var buf bytes.Buffer
		r.err = ce.eng.RenderTo(&buf, c.str("main"), ctx)
		r.written = buf.String()
		return r
	}
	r.out, r.err = ce.eng.Render(c.str("main"), ctx)
	return r
}

var c17ListedCache = map[string]bool{}

func c17Listed(class string) bool {
	if v, ok := c17ListedCache[class]; ok {
		return v
	}
	v := knownClassListed("C17", class)
	c17ListedCache[class] = v
	return v
}

func c17Pred(f map[string]interface{}) (kind, val string) {
	e, _ := f["pred"].(map[string]interface{})
	if e == nil {
		return "none", ""
	}
	if v, ok := e["out"].(string); ok {
		return "out", unhex(v)
	}
	if v, ok := e["err"].(string); ok {
		return "err", v
	}
	return "skip", ""
}

func c17Variant(to, debug, bare bool) string {
	s := "Render"
	if to {
		s = "RenderTo"
	}
	if debug {
		s += "+debug"
	}
	if bare {
		s += "+bare"
	}
	return s
}

func runC17(cases string, res *Result) {
	c17UnreadableFile(cases, res)
	c17ApplyAroundNothing(res)
	c17DamagedCompiledFiles(cases, res)
	c17MacroResultsKeptInVariables(res)
	known := map[string]*Finding{}
	knownSize := map[string]int{}
	readCases(cases, func(c Case) {
		stream := c.str("stream")
		res.Hist["stream:"+stream]++
		key := c.str("main") + "|" + c.str("ctx") + "|" + fmt.Sprint(c["tpls"])
		if k := c.str("kinds"); k != "" {
			for _, x := range strings.Split(k, ",") {
				res.Hist["node:"+x]++
			}
		}
		c["readable"] = evalCaseSources(c)
		size := len(fmt.Sprint(c["tpls"]))
		caseKnown := c.str("known")

		fail := func(kind, where, expected, observed, detail string, knownClass string) {
			f := Finding{Kind: kind, Where: stream + "/" + where, Case: c, Expected: expected, Observed: observed, Detail: detail}
			if kind == "oracle" && knownClass != "" {
				if c17Listed(knownClass) {
					res.Hist["known:"+knownClass]++
					if known[knownClass] == nil || size < knownSize[knownClass] {
						f.Known = knownClass
						known[knownClass] = &f
						knownSize[knownClass] = size
					}
					return
				}
				res.Hist["unlisted:"+knownClass]++
				f.Detail += " [class " + knownClass + ": not a listed known finding]"
			}
			res.add(f)
		}

		// ---- 0. the node shapes that reach the two unreachable discard sites must not exist
		for tn, src := range evalCaseSources(c) {
			bars, texts, perr := twig.VerifC17DeadSites(src)
			if perr == nil && (len(bars) > 0 || len(texts) > 0) {
				fail("disagreement", "dead-site/shape-exists", "no variable name containing | and no text node containing {{ .. }}",
					fmt.Sprintf("template %s: names %q, text nodes %q", tn, bars, texts),
					"the parser built a node that reaches renderVariableString / the items|sort workaround, which drop a filter's error; the model leaves those paths out", "")
			}
		}
		if b, _ := c["raw"].(bool); b {
			res.count(key, false)
			ce := newC17Engine(c, c17Opts{failAt: 1})
			if ce.regErr != "" {
				res.Hist["dead-sites:parse-error"]++
				return
			}
			for _, to := range []bool{false, true} {
				ce = newC17Engine(c, c17Opts{failAt: 1})
				r := ce.run(c, to)
				res.Evaluations++
				if ce.failed == "" {
					res.Hist["dead-sites:no-callback-invoked"]++
					continue
				}
				res.Hist["dead-sites:callback-invoked"]++
				if r.err == nil {
					fail("oracle", "dead-site/swallowed", "err != nil: the callback "+ce.failed+" was invoked and failed",
						"nil error, output "+strconv.Quote(r.out+r.written), c.str("scenario"), "")
				} else if r.panicked == "" && !errors.Is(r.err, c17Sentinel) {
					fail("oracle", "dead-site/cause-lost", "errors.Is(err, sentinel)", "false; err = "+r.err.Error(), c.str("scenario"), "")
				}
			}
			return
		}

		// ---- 1. clean run
		clean := newC17Engine(c, c17Opts{})
		if clean.regErr != "" {
			res.count(key, false)
			fail("disagreement", "register", "a template set that parses", "parse error", clean.regErr, "")
			return
		}
		cr := clean.run(c, false)
		res.Evaluations++
		n := clean.calls
		res.count(key, n >= 2)
		res.Hist["clean:"+classifyError(cr.err)]++
		if n > c17Cap {
			res.Hist["invocations:>cap"]++
		} else {
			res.Hist["invocations:"+strconv.Itoa(n/5*5)+"+"]++
		}
		res.sample(map[string]interface{}{"templates": evalCaseSources(c), "ctx": c.str("ctx"), "invocations": n,
			"clean": evalObserved(cr.out, classifyError(cr.err))}, 6)
		cleanSeq := append([]string(nil), clean.seq...)

		modelOK := false
		if kind, val := evalExpectation(c); kind != "skip" {
			modelOK = true
			exp := "out:" + hx(val)
			if kind == "err" {
				exp = "err:" + val
			}
			obs := evalObserved(cr.out, classifyError(cr.err))
			if exp != obs {
				fail("disagreement", "clean", exp, obs, fmt.Sprint(cr.err), "")
				modelOK = false
			}
			var want []string
			for _, x := range c.list("ctrace") {
				s, _ := x.(string)
				want = append(want, s)
			}
			if modelOK && strings.Join(want, " ") != strings.Join(cleanSeq, " ") {
				fail("disagreement", "clean/invocation-order", strings.Join(want, " "), strings.Join(cleanSeq, " "),
					"the callbacks are not invoked in the order of the model's trace", "")
				modelOK = false
			}
		} else {
			res.Unmodelled++
		}

		// ---- 5. probe cases: an unknown macro / template behind a probe
		if p := c.str("probe"); p != "" {
			hits := 0
			for _, s := range cleanSeq {
				if s == p {
					hits++
				}
			}
			res.Hist["probe-reached:"+strconv.FormatBool(hits > 0)]++
			if hits > 0 {
				for _, to := range []bool{false, true} {
					ce := newC17Engine(c, c17Opts{})
					r := ce.run(c, to)
					res.Evaluations++
					if r.err == nil {
						fail("oracle", "unknown-name", "an error: the probe before the lookup of the unknown name was evaluated",
							"nil error, output "+strconv.Quote(r.out+r.written), c17Variant(to, false, false), "")
						return
					}
					if !to && r.out != "" {
						fail("oracle", "unknown-name", `Render returns "" with the error`, strconv.Quote(r.out), r.err.Error(), "")
						return
					}
					if want := c.str("expect_class"); want != "" && classifyError(r.err) != want {
						fail("disagreement", "unknown-name/class", want, classifyError(r.err), r.err.Error(), "")
					}
				}
			}
			return
		}
		if want := c.str("expect_class"); want != "" {
			// a fixed scenario that must fail by itself (the sandbox refusing the spaceless filter)
			if cr.err == nil {
				fail("oracle", "scenario", "an error of class "+want, "nil error, output "+strconv.Quote(cr.out), c.str("scenario"), caseKnown)
			} else if classifyError(cr.err) != want {
				fail("disagreement", "scenario/class", want, classifyError(cr.err), cr.err.Error(), "")
			}
		}

		// ---- 2. the k-th invocation fails
		preds := map[int]map[string]interface{}{}
		for _, f := range c.list("faults") {
			m, _ := f.(map[string]interface{})
			if m != nil {
				k, _ := m["k"].(float64)
				preds[int(k)] = m
			}
		}
		limit := n
		if limit > c17Cap {
			limit = c17Cap
		}
		for k := 1; k <= limit; k++ {
			bare := k%2 == 0
			for _, v := range []struct{ to, debug bool }{{false, false}, {true, false}, {false, true}, {true, true}} {
				ce := newC17Engine(c, c17Opts{failAt: k, bare: bare, debug: v.debug, route: (k + idxOfBool(v.to) + 2*idxOfBool(v.debug)) % 3})
				r := ce.run(c, v.to)
				res.Evaluations++
				res.Hist["fault-runs"]++
				variant := fmt.Sprintf("k=%d of %d (%s) %s", k, n, cleanSeq[k-1], c17Variant(v.to, v.debug, bare))
				if ce.failed == "" {
					fail("disagreement", "fault/not-reached", "invocation "+strconv.Itoa(k)+" happens as in the clean run", "it did not", variant, "")
					break
				}
				if r.panicked != "" {
					fail("oracle", "fault/panic", "an error wrapping the sentinel", "panic: "+r.panicked, variant, "")
					break
				}
				if r.err == nil {
					fail("oracle", "fault/swallowed", "err != nil and errors.Is(err, sentinel)",
						"nil error, output "+strconv.Quote(r.out+r.written), variant+": the failure of the callback was replaced by output", caseKnown)
					break
				}
				if !errors.Is(r.err, c17Sentinel) {
					fail("oracle", "fault/cause-lost", "errors.Is(err, sentinel)", "false; err = "+r.err.Error(), variant, caseKnown)
					break
				}
				if !v.to && r.out != "" {
					fail("oracle", "fault/partial-output", `Render returns "" with the error`, strconv.Quote(r.out), variant, "")
					break
				}
				if ce.afterErr > 0 {
					fail("disagreement", "fault/continued", "no callback is invoked after the failing one",
						strconv.Itoa(ce.afterErr)+" more invocations", variant, "")
					break
				}
				if v.to && !strings.HasPrefix(cr.out, r.written) && cr.err == nil {
					res.Hist["renderto-written-not-a-prefix"]++
				}
				if !v.to && !v.debug && modelOK {
					if m := preds[k]; m != nil {
						if pk, pv := c17Pred(m); pk == "err" && pv != "sentinel:1" {
							fail("disagreement", "fault/model-class", "err:"+pv, "err:sentinel", variant, "")
						} else if pk == "out" && caseKnown == "" {
							fail("disagreement", "fault/model-swallows", "out:"+hx(pv), "err:sentinel", variant+": the model predicts that this failure is swallowed", "")
						}
					}
				}
			}
		}

		// ---- 3. every invoked callback un-registered in turn
		upred := map[string]map[string]interface{}{}
		for _, f := range c.list("unreg") {
			m, _ := f.(map[string]interface{})
			if m != nil {
				ev, _ := m["ev"].(string)
				upred[ev] = m
			}
		}
		seenName := map[string]bool{}
		var names []string
		for _, s := range cleanSeq {
			if !seenName[s] {
				seenName[s] = true
				names = append(names, s)
			}
		}
		if len(names) > c17Cap {
			names = names[:c17Cap]
		}
		for _, name := range names {
			if upred[name] == nil {
				continue // the generator leaves out a callback that shadows a core one: without it the name still resolves
			}
			for _, to := range []bool{false, true} {
				ce := newC17Engine(c, c17Opts{without: name})
				r := ce.run(c, to)
				res.Evaluations++
				res.Hist["unregistered-runs"]++
				variant := "without " + name + " " + c17Variant(to, false, false)
				if r.err == nil {
					fail("oracle", "unknown-name/swallowed", "an error: "+name+" cannot be resolved at a position that is reached",
						"nil error, output "+strconv.Quote(r.out+r.written), variant, caseKnown)
					break
				}
				if !to && r.out != "" {
					fail("oracle", "unknown-name/partial-output", `Render returns "" with the error`, strconv.Quote(r.out), variant, "")
					break
				}
				if !to && modelOK {
					if m := upred[name]; m != nil {
						if pk, pv := c17Pred(m); pk == "err" && pv != classifyError(r.err) {
							fail("disagreement", "unknown-name/class", "err:"+pv, "err:"+classifyError(r.err), variant+" "+r.err.Error(), "")
						} else if pk == "out" && caseKnown == "" {
							fail("disagreement", "unknown-name/model-swallows", "out:"+hx(pv), "err:"+classifyError(r.err), variant, "")
						}
					}
				}
			}
		}

		// ---- 4. loader faults
		if cr.err != nil && stream != "c17-shape" {
			return
		}
		lclean := newC17Engine(c, c17Opts{loader: true})
		lr := lclean.run(c, false)
		res.Evaluations++
		if classifyError(lr.err) != classifyError(cr.err) || lr.out != cr.out {
			fail("disagreement", "loader/clean", evalObserved(cr.out, classifyError(cr.err)), evalObserved(lr.out, classifyError(lr.err)),
				"the same template set served by a loader renders differently from the registered one", "")
			return
		}
		ignOnly, ignMixed := map[string]bool{}, map[string]bool{}
		for _, x := range c.list("ign_only") {
			s, _ := x.(string)
			ignOnly[s] = true
		}
		for _, x := range c.list("ign_mixed") {
			s, _ := x.(string)
			ignMixed[s] = true
		}
		loads := append([]string(nil), lclean.loadSeq...)
		ll := len(loads)
		if ll > c17Cap {
			ll = c17Cap
		}
		for j := 1; j <= ll; j++ {
			tname := loads[j-1]
			if _, ok := lclean.tpls[tname]; !ok {
				continue // a template nobody has: nothing to fail
			}
			for _, to := range []bool{false, true} {
				// next to the failing loader: none, one before, one after, both (loaders that have nothing)
				eb, ea := (j+idxOfBool(to))%4 == 1 || (j+idxOfBool(to))%4 == 3, (j+idxOfBool(to))%4 >= 2
				variant := fmt.Sprintf("load %d of %d (%s) %s empty-loader-before=%v after=%v", j, len(loads), tname, c17Variant(to, false, false), eb, ea)
				// (a) an I/O failure of the loader
				chain := (j/4+idxOfBool(to))%2 == 1
				if chain {
					variant += " inside-a-ChainLoader-in-front-of-a-loader-with-other-copies"
					res.Hist["loader-fault-runs-inside-a-ChainLoader"]++
				}
				ce := newC17Engine(c, c17Opts{loader: true, loadFailAt: j, emptyBefore: eb, emptyAfter: ea, chain: chain})
				if eb || ea {
					res.Hist["loader-fault-runs-with-further-empty-loaders"]++
				}
				r := ce.run(c, to)
				res.Evaluations++
				res.Hist["loader-fault-runs"]++
				if ce.failed != "" {
					if r.err == nil {
						fail("oracle", "loader/swallowed", "err != nil and errors.Is(err, sentinel)",
							"nil error, output "+strconv.Quote(r.out+r.written), variant+": the loader's failure was replaced by output", "")
					} else if !errors.Is(r.err, c17Sentinel) {
						fail("oracle", "loader/cause-lost", "errors.Is(err, sentinel)", "false; err = "+r.err.Error(), variant, "")
					} else if !to && r.out != "" {
						fail("oracle", "loader/partial-output", `Render returns "" with the error`, strconv.Quote(r.out), variant, "")
					}
				}
				// (a') the same failure at a reload: every template is cached by a first render, then reports a later
				// modification time (auto-reload on), and the j-th re-read fails
				if !eb && !ea {
					ce = newC17Engine(c, c17Opts{loader: true})
					ce.eng.SetAutoReload(true)
					ce.mtime = 100
					first := ce.run(c, to)
					if first.err == nil && ce.loads >= j {
						ce.mtime = 200
						ce.loads, ce.loadSeq, ce.failed = 0, nil, ""
						ce.opts.loadFailAt = j
						r2 := ce.run(c, to)
						res.Evaluations++
						res.Hist["loader-fault-at-reload-runs"]++
						if ce.failed != "" {
							if r2.err == nil {
								fail("oracle", "loader/reload-failure-swallowed", "err != nil and errors.Is(err, sentinel)",
									"nil error, output "+strconv.Quote(r2.out+r2.written), variant+" (at a reload under auto-reload): the loader's failure was replaced by the stale template", "")
							} else if !errors.Is(r2.err, c17Sentinel) {
								fail("oracle", "loader/reload-cause-lost", "errors.Is(err, sentinel)", "false; err = "+r2.err.Error(), variant+" (at a reload)", "")
							}
						}
					}
				}
				// (b) the template vanished: not-found from the loader
				ce = newC17Engine(c, c17Opts{loader: true, loadFailAt: j, loadMissing: true})
				r = ce.run(c, to)
				res.Evaluations++
				if ce.failed != "" {
					if ignMixed[tname] {
						// referenced with and without ignore missing: which reference made this load is not visible here
						res.Hist["loader-missing-mixed-references"]++
					} else if ignOnly[tname] {
						res.Hist["loader-missing-tolerated"]++
						if r.err != nil {
							fail("disagreement", "loader/ignore-missing", "no error: every reference to "+tname+" says ignore missing", "err:"+classifyError(r.err), variant+" "+r.err.Error(), "")
						}
					} else if r.err == nil {
						fail("oracle", "loader/missing-swallowed", "an error of class not-found: "+tname+" is referenced without ignore missing and no loader has it",
							"nil error, output "+strconv.Quote(r.out+r.written), variant, "")
					} else if !errors.Is(r.err, twig.ErrTemplateNotFound) {
						fail("oracle", "loader/missing-cause-lost", "errors.Is(err, ErrTemplateNotFound)", "false; err = "+r.err.Error(), variant, "")
					} else if !to && r.out != "" {
						fail("oracle", "loader/partial-output", `Render returns "" with the error`, strconv.Quote(r.out), variant, "")
					}
				}
			}
		}
	})
	ks := make([]string, 0, len(known))
	for k := range known {
		ks = append(ks, k)
	}
	sort.Strings(ks)
	for _, k := range ks {
		res.add(*known[k])
	}
	res.Notes = append(res.Notes,
		"fault enumeration: every callback invocation of the clean run (cap 40 per case) fails once per variant Render / RenderTo x debug off / on; the sentinel is wrapped for odd k and bare for even k",
		"loader faults: the same set served by a counting loader, j-th load failing with an I/O error and with a wrapped ErrTemplateNotFound")
}

func idxOfBool(b bool) int {
	if b {
		return 1
	}
	return 0
}

// c17UnreadableFile: a loader failure that is not "not found" -- a file that exists and cannot be read (a directory
// stands where it should be) -- ends the render with an error whose cause can be found with errors.As, is not
// ErrTemplateNotFound, and is not turned into empty output by ignore missing; directly, included, imported, extended.
func c17UnreadableFile(cases string, res *Result) {
	root := filepath.Join(filepath.Dir(cases), "c17fs")
	os.RemoveAll(root)
	defer os.RemoveAll(root)
	os.MkdirAll(filepath.Join(root, "broken.twig"), 0o755)
	files := map[string]string{
		"inc.twig": "A{% include 'broken.twig' %}B", "inc_ign.twig": "A{% include 'broken.twig' ignore missing %}B",
		"ext.twig": "{% extends 'broken.twig' %}{% block b %}x{% endblock %}", "imp.twig": "A{% import 'broken.twig' as m %}B",
		"from.twig": "A{% from 'broken.twig' import m %}B", "loop.twig": "{% for i in [1, 2] %}{{ i }}{% include 'broken.twig' ignore missing %}{% endfor %}",
		"rel.twig": "A{% include './broken.twig' ignore missing %}B",
	}
	// the same through relative names from a sub-directory, next to root-level templates of the same base names
	// (a fallback to the name as written would find those)
	os.MkdirAll(filepath.Join(root, "sub", "broken.twig"), 0o755)
	files["sub/rel_inc.twig"] = "A{% include './broken.twig' %}B"
	files["sub/rel_inc_ign.twig"] = "A{% include './broken.twig' ignore missing %}B"
	files["sub/rel_ext.twig"] = "{% extends './bad.twig' %}{% block b %}x{% endblock %}"
	files["sub/rel_imp.twig"] = "A{% import './bad.twig' as m %}B"
	files["sub/rel_loop.twig"] = "{% for i in [1, 2] %}{% include './bad.twig' %}{% endfor %}"
	files["sub/bad.twig"] = "x{% if %}y"
	files["bad.twig"] = "ROOT COPY {% block b %}{% endblock %}"
	for n, s := range files {
		os.WriteFile(filepath.Join(root, n), []byte(s), 0o644)
	}
	delete(files, "sub/bad.twig")
	delete(files, "bad.twig")
	for _, chain := range []bool{false, true} {
		eng := twig.New()
		var ld twig.Loader = twig.NewFileSystemLoader([]string{root})
		if chain {
			ld = twig.NewChainLoader([]twig.Loader{twig.NewArrayLoader(map[string]string{}), ld})
		}
		eng.RegisterLoader(ld)
		names := []string{"broken.twig"}
		for n := range files {
			names = append(names, n)
		}
		sort.Strings(names)
		for _, n := range names {
			c := Case{"stream": "c17-unreadable-file", "template": n, "inside a ChainLoader": chain}
			res.Hist["stream:c17-unreadable-file"]++
			res.Evaluations++
			out, err := eng.Render(n, map[string]interface{}{})
			var pe *fs.PathError
			switch {
			case err == nil:
				res.add(Finding{Kind: "oracle", Where: "c17-unreadable-file/" + n, Case: c, Expected: "an error that wraps the read failure", Observed: "nil error, output " + strconv.Quote(out),
					Detail: "a loader failure was replaced by output"})
			case out != "":
				res.add(Finding{Kind: "oracle", Where: "c17-unreadable-file/" + n, Case: c, Expected: `"" with the error`, Observed: strconv.Quote(out), Detail: "partial output next to the error"})
			case errors.Is(err, twig.ErrTemplateNotFound):
				res.add(Finding{Kind: "oracle", Where: "c17-unreadable-file/" + n, Case: c, Expected: "an error other than template-not-found", Observed: err.Error(),
					Detail: "a file that exists and cannot be read is reported as a missing template"})
			case strings.Contains(n, "rel_ext") || strings.Contains(n, "rel_imp") || strings.Contains(n, "rel_loop"):
				// the cause here is the parse error of sub/bad.twig: an error that is not a template-not-found (checked above)
			case !errors.As(err, &pe):
				res.add(Finding{Kind: "oracle", Where: "c17-unreadable-file/" + n, Case: c, Expected: "errors.As(err, *fs.PathError)", Observed: err.Error(),
					Detail: "the cause of the loader's failure cannot be found in the error chain"})
			}
		}
	}
}

// c17ApplyAroundNothing: an apply block whose body renders to nothing still applies its filter: a filter that does not
// exist, or that always fails, ends the render with an error (the callback's own error in the chain), at top level, in
// an included template inside a loop, in a block of an inherited parent.
func c17ApplyAroundNothing(res *Result) {
	sentinel := errors.New("c17: this filter always fails")
	bodies := []string{"", "{% if nope %}x{% endif %}", "{% for i in [] %}x{% endfor %}", "{{ nope }}", "{# nothing #}", "{% set q = 1 %}"}
	for _, filter := range []string{"nosuchfilter", "alwaysfails"} {
		for bi, body := range bodies {
			apply := "{% apply " + filter + " %}" + body + "{% endapply %}"
			for wi, w := range []map[string]string{
				{"main": "X" + apply + "Y"},
				{"main": "[{% for i in [1, 2] %}{% include 'p' %}{% endfor %}]", "p": apply},
				{"main": "{% extends 'base' %}", "base": "<{% block k %}" + apply + "{% endblock %}>"},
				{"main": "{% macro m() %}" + apply + "{% endmacro %}({{ m() }})"},
			} {
				eng := twig.New()
				eng.AddFilter("alwaysfails", func(v interface{}, _ ...interface{}) (interface{}, error) {
					return nil, fmt.Errorf("alwaysfails: %w", sentinel)
				})
				ok := true
				for n, s := range w {
					if eng.RegisterString(n, s) != nil {
						ok = false
					}
				}
				if !ok {
					continue
				}
				c := Case{"stream": "c17-apply-around-nothing", "filter": filter, "body": body, "templates": w}
				res.Hist["stream:c17-apply-around-nothing"]++
				res.Evaluations++
				out, err := eng.Render("main", map[string]interface{}{})
				where := fmt.Sprintf("c17-apply-around-nothing/%s/body%d/shape%d", filter, bi, wi)
				switch {
				case err == nil:
					res.add(Finding{Kind: "oracle", Where: where, Case: c, Expected: "a non-nil error", Observed: "nil error, output " + strconv.Quote(out),
						Detail: "the filter of an apply block does not exist or fails; the render returned output"})
				case out != "":
					res.add(Finding{Kind: "oracle", Where: where, Case: c, Expected: `"" with the error`, Observed: strconv.Quote(out), Detail: "partial output next to the error"})
				case filter == "alwaysfails" && !errors.Is(err, sentinel):
					res.add(Finding{Kind: "oracle", Where: where, Case: c, Expected: "errors.Is(err, the filter's error)", Observed: err.Error(), Detail: "the cause is not in the error chain"})
				}
			}
		}
	}
}
