package main

// Shared runner code for every property built on the evaluator model (Model/Eval.v): C09 here, C06, C10,
// C11, C12, C17 elsewhere. The OCaml side is ocaml/evalgen.ml.
//
// A case (one JSON line) is
//   {stream, tpls: [[name-hex, src-hex]...], main, ctx: value-string, custom: [[kind, name, behaviour]...],
//    policy: "none" | {filters: [...], functions: [...]}, exp: {out: hex} | {err: class} | {skip: why},
//    trace: [...], spy: {"kind:name": count}}
//
// Value grammar (DESIGN Appendix A.2 extended by f<dec>):
//   n | b0 | b1 | i<dec> | f<dec> | s<hex> | L<tag>(v ...) | M<tag>(k v ...) | S<ty>(name-hex v ...) | P(v) | P() | O<id>
//   list tags: any -> []interface{}, str -> []string, int -> []int, arr -> [n]interface{}
//   map tags:  any -> map[string]interface{}, ss -> map[string]string, is -> map[int]string, si -> map[string]int
//   f<dec> is a float64 with that integral value; S<ty> a struct built with reflect.StructOf whose fields
//   (exported names) have type interface{}; P(v) a pointer to v, P() a nil *int; O<id> a func().
//
// Custom callbacks: kind filter | function | test, behaviour id | fail:<n> | const:<value>.
//   id    filter: returns the filtered value; function: its first argument or nil; test: value != nil
//   fail  returns the sentinel error evalSentinel(n) (wrapped once, so that the check is errors.Is and not ==)
//   const returns the value (a test returns its truth as a bool constant b0/b1)
// Every call is counted under "kind:name".
//
// Error classes: none | not-found (errors.Is ErrTemplateNotFound) | security (errors.As *SecurityViolation) |
// sentinel:<n> (errors.Is evalSentinel(n)) | parse (message prefix, last resort) | panic | other.

import (
	"errors"
	"fmt"
	"hash/fnv"
	"io"
	"os"
	"path/filepath"
	"reflect"
	"sort"
	"strconv"
	"strings"
	"time"

	"github.com/semihalev/twig"
)

// ---------------------------------------------------------------- values

type valParser struct {
	s string
	i int
}

func (p *valParser) fail(msg string) {
	panic(fmt.Sprintf("value grammar: %s at %d in %q", msg, p.i, p.s))
}

func (p *valParser) skipSpaces() {
	for p.i < len(p.s) && p.s[p.i] == ' ' {
		p.i++
	}
}

func (p *valParser) word() string {
	j := p.i
	for j < len(p.s) && p.s[j] != ' ' && p.s[j] != '(' && p.s[j] != ')' {
		j++
	}
	w := p.s[p.i:j]
	p.i = j
	return w
}

func (p *valParser) items() []interface{} {
	if p.i >= len(p.s) || p.s[p.i] != '(' {
		p.fail("expected (")
	}
	p.i++
	var out []interface{}
	for {
		p.skipSpaces()
		if p.i >= len(p.s) {
			p.fail("unclosed (")
		}
		if p.s[p.i] == ')' {
			p.i++
			return out
		}
		out = append(out, p.value())
	}
}

// rawHexOrValue is used for struct field names: a bare hex word
func (p *valParser) hexWord() string {
	p.skipSpaces()
	return unhex(p.word())
}

func (p *valParser) value() interface{} {
	p.skipSpaces()
	if p.i >= len(p.s) {
		p.fail("empty value")
	}
	c := p.s[p.i]
	p.i++
	switch c {
	case 'n':
		return nil
	case 'b':
		w := p.word()
		return w == "1"
	case 'i':
		n, err := strconv.Atoi(p.word())
		if err != nil {
			p.fail("bad int")
		}
		return n
	case 'f':
		n, err := strconv.Atoi(p.word())
		if err != nil {
			p.fail("bad float")
		}
		return float64(n)
	case 's':
		return unhex(p.word())
	case 'L':
		tag := p.word()
		xs := p.items()
		switch tag {
		case "any":
			if xs == nil {
				return []interface{}{}
			}
			return xs
		case "str":
			out := make([]string, len(xs))
			for i, x := range xs {
				out[i], _ = x.(string)
			}
			return out
		case "int":
			out := make([]int, len(xs))
			for i, x := range xs {
				out[i], _ = x.(int)
			}
			return out
		case "arr":
			var e interface{}
			arr := reflect.New(reflect.ArrayOf(len(xs), reflect.TypeOf(&e).Elem())).Elem()
			for i, x := range xs {
				if x != nil {
					arr.Index(i).Set(reflect.ValueOf(x))
				}
			}
			return arr.Interface()
		}
		p.fail("unknown list tag " + tag)
	case 'M':
		tag := p.word()
		xs := p.items()
		if len(xs)%2 != 0 {
			p.fail("odd number of map items")
		}
		switch tag {
		case "any":
			m := make(map[string]interface{}, len(xs)/2)
			for i := 0; i+1 < len(xs); i += 2 {
				k, _ := xs[i].(string)
				m[k] = xs[i+1]
			}
			return m
		case "ss":
			m := make(map[string]string, len(xs)/2)
			for i := 0; i+1 < len(xs); i += 2 {
				k, _ := xs[i].(string)
				m[k], _ = xs[i+1].(string)
			}
			return m
		case "is":
			m := make(map[int]string, len(xs)/2)
			for i := 0; i+1 < len(xs); i += 2 {
				k, _ := xs[i].(int)
				m[k], _ = xs[i+1].(string)
			}
			return m
		case "si":
			m := make(map[string]int, len(xs)/2)
			for i := 0; i+1 < len(xs); i += 2 {
				k, _ := xs[i].(string)
				m[k], _ = xs[i+1].(int)
			}
			return m
		}
		p.fail("unknown map tag " + tag)
	case 'S':
		p.word() // type id: the layout is given by the fields
		if p.i >= len(p.s) || p.s[p.i] != '(' {
			p.fail("expected ( after S")
		}
		p.i++
		var names []string
		var vals []interface{}
		for {
			p.skipSpaces()
			if p.i >= len(p.s) {
				p.fail("unclosed S(")
			}
			if p.s[p.i] == ')' {
				p.i++
				break
			}
			names = append(names, p.hexWord())
			vals = append(vals, p.value())
		}
		var e interface{}
		it := reflect.TypeOf(&e).Elem()
		fields := make([]reflect.StructField, len(names))
		for i, n := range names {
			fields[i] = reflect.StructField{Name: n, Type: it}
		}
		sv := reflect.New(reflect.StructOf(fields)).Elem()
		for i, v := range vals {
			if v != nil {
				sv.Field(i).Set(reflect.ValueOf(v))
			}
		}
		return sv.Interface()
	case 'P':
		xs := p.items()
		if len(xs) == 0 {
			return (*int)(nil)
		}
		if xs[0] == nil {
			var e interface{}
			return &e
		}
		pv := reflect.New(reflect.TypeOf(xs[0]))
		pv.Elem().Set(reflect.ValueOf(xs[0]))
		return pv.Interface()
	case 'O':
		p.word()
		return func() {}
	}
	p.fail("unknown value kind " + string(c))
	return nil
}

// parseValue reads one value of the case-file grammar.
func parseValue(s string) interface{} {
	p := &valParser{s: s}
	v := p.value()
	p.skipSpaces()
	if p.i != len(p.s) {
		p.fail("trailing input")
	}
	return v
}

// parseContext reads the context of a case: a Many(...) value.
func parseContext(s string) map[string]interface{} {
	if s == "" {
		return map[string]interface{}{}
	}
	m, ok := parseValue(s).(map[string]interface{})
	if !ok {
		panic("context is not a map[string]interface{}: " + s)
	}
	return m
}

// ---------------------------------------------------------------- sentinel errors

type evalSentinelError struct{ n int }

func (e *evalSentinelError) Error() string { return "sentinel " + strconv.Itoa(e.n) }

var evalSentinels = map[int]*evalSentinelError{}

// evalSentinel returns THE error value number n.
func evalSentinel(n int) error {
	if e, ok := evalSentinels[n]; ok {
		return e
	}
	e := &evalSentinelError{n}
	evalSentinels[n] = e
	return e
}

// classifyError projects an error to its class.
func classifyError(err error) string {
	if err == nil {
		return "none"
	}
	if errors.Is(err, twig.ErrTemplateNotFound) {
		return "not-found"
	}
	var sv *twig.SecurityViolation
	if errors.As(err, &sv) {
		return "security"
	}
	for n, s := range evalSentinels {
		if errors.Is(err, s) {
			return "sentinel:" + strconv.Itoa(n)
		}
	}
	msg := err.Error()
	if strings.HasPrefix(msg, "parsing error") || strings.HasPrefix(msg, "tokenization error") ||
		strings.Contains(msg, "parsing error:") || strings.Contains(msg, "tokenization error:") {
		return "parse"
	}
	return "other"
}

// ---------------------------------------------------------------- engine of a case

type evalEngine struct {
	eng   *twig.Engine
	spy   map[string]int // "kind:name" -> calls
	regOK bool
	regEr string // first registration (parse) error, with the template name
}

func evalTruth(v interface{}) bool { return v != nil }

// newEvalEngine builds the engine of a case: templates registered in order, custom callbacks, policy.
func newEvalEngine(c Case) *evalEngine {
	ee := &evalEngine{eng: twig.New(), spy: map[string]int{}, regOK: true}
	if evalEngineTweak != nil {
		evalEngineTweak(ee.eng)
	}
	// the callbacks reach the engine by one of three routes, chosen by the case's content (so a replay takes the same):
	// AddFilter / AddFunction / AddTest, RegisterExtension with a configuration function, or CreateExtension +
	// Add...ToExtension + AddExtension
	filters, functions, tests := map[string]twig.FilterFunc{}, map[string]twig.FunctionFunc{}, map[string]twig.TestFunc{}
	defer func() {
		if len(filters)+len(functions)+len(tests) == 0 {
			return
		}
		h := fnv.New32a()
		h.Write([]byte(fmt.Sprint(c["tpls"], c["custom"])))
		switch h.Sum32() % 3 {
		case 0:
		case 1:
			ee.eng.RegisterExtension("verif_ext", func(x *twig.CustomExtension) {
				for n, f := range filters {
					x.Filters[n] = f
				}
				for n, f := range functions {
					x.Functions[n] = f
				}
				for n, f := range tests {
					x.Tests[n] = f
				}
			})
		default:
			x := ee.eng.CreateExtension("verif_ext2")
			for n, f := range filters {
				ee.eng.AddFilterToExtension(x, n, f)
			}
			for n, f := range functions {
				ee.eng.AddFunctionToExtension(x, n, f)
			}
			for n, f := range tests {
				ee.eng.AddTestToExtension(x, n, f)
			}
			ee.eng.AddExtension(x)
		}
	}()
	direct := func() bool {
		h := fnv.New32a()
		h.Write([]byte(fmt.Sprint(c["tpls"], c["custom"])))
		return h.Sum32()%3 == 0
	}()
	for _, cu := range c.list("custom") {
		t, _ := cu.([]interface{})
		if len(t) != 3 {
			panic("bad custom entry")
		}
		kind, _ := t[0].(string)
		name, _ := t[1].(string)
		beh, _ := t[2].(string)
		key := kind + ":" + name
		ee.spy[key] = 0
		var failErr error
		var constVal interface{}
		isConst := false
		if strings.HasPrefix(beh, "fail:") {
			n, _ := strconv.Atoi(beh[5:])
			failErr = evalSentinel(n)
		} else if strings.HasPrefix(beh, "const:") {
			constVal = parseValue(beh[6:])
			isConst = true
		}
		switch kind {
		case "filter":
			f := func(value interface{}, args ...interface{}) (interface{}, error) {
				ee.spy[key]++
				if failErr != nil {
					return nil, fmt.Errorf("filter %s: %w", name, failErr)
				}
				if isConst {
					return constVal, nil
				}
				return value, nil
			}
			if direct {
				ee.eng.AddFilter(name, f)
			} else {
				filters[name] = f
			}
		case "function":
			f := func(args ...interface{}) (interface{}, error) {
				ee.spy[key]++
				if failErr != nil {
					return nil, fmt.Errorf("function %s: %w", name, failErr)
				}
				if isConst {
					return constVal, nil
				}
				if len(args) > 0 {
					return args[0], nil
				}
				return nil, nil
			}
			if direct {
				ee.eng.AddFunction(name, f)
			} else {
				functions[name] = f
			}
		case "test":
			f := func(value interface{}, args ...interface{}) (bool, error) {
				ee.spy[key]++
				if failErr != nil {
					return false, fmt.Errorf("test %s: %w", name, failErr)
				}
				if isConst {
					b, _ := constVal.(bool)
					return b, nil
				}
				return evalTruth(value), nil
			}
			if direct {
				ee.eng.AddTest(name, f)
			} else {
				tests[name] = f
			}
		default:
			panic("unknown custom kind " + kind)
		}
	}
	if pol, ok := c["policy"].(map[string]interface{}); ok {
		p := &twig.DefaultSecurityPolicy{AllowedFunctions: map[string]bool{}, AllowedFilters: map[string]bool{},
			AllowedTags: map[string]bool{}}
		if fs, ok := pol["filters"].([]interface{}); ok {
			for _, f := range fs {
				s, _ := f.(string)
				p.AllowedFilters[s] = true
			}
		}
		if fs, ok := pol["functions"].([]interface{}); ok {
			for _, f := range fs {
				s, _ := f.(string)
				p.AllowedFunctions[s] = true
			}
		}
		ee.eng.EnableSandbox(p)
	}
	var compiledRef, compiledDecoy *twig.Engine
	var decoyNames []string
	for _, tp := range c.list("tpls") {
		t, _ := tp.([]interface{})
		if len(t) != 2 {
			panic("bad tpls entry")
		}
		n, _ := t[0].(string)
		s, _ := t[1].(string)
		name, src := unhex(n), unhex(s)
		var err error
		switch evalRegisterRoute {
		case "parsed":
			var t *twig.Template
			if t, err = ee.eng.ParseTemplate(src); err == nil {
				ee.eng.RegisterTemplate(name, t)
			}
		case "compiled-shared":
			if compiledRef == nil {
				compiledRef, compiledDecoy = twig.New(), twig.New()
			}
			if err = compiledRef.RegisterString(name, src); err == nil {
				var ct *twig.CompiledTemplate
				if ct, err = compiledRef.CompileTemplate(name); err == nil {
					// the same compiled object goes to another engine first, whose templates of these names are others
					if compiledDecoy.RegisterCompiledTemplate(ct) == nil {
						decoyNames = append(decoyNames, name)
					}
					err = ee.eng.RegisterCompiledTemplate(ct)
				}
			}
		default:
			err = ee.eng.RegisterString(name, src)
		}
		if err != nil && ee.regOK {
			ee.regOK = false
			ee.regEr = name + ": " + err.Error()
		}
	}
	for _, n := range decoyNames {
		compiledDecoy.RegisterString(n, "DECOY:"+n)
	}
	return ee
}

// evalVariantBudget bounds how many times a run renders a case again by other routes / on an engine with a past (each
// costs several engines): the first cases of every stream get the variants, the long tail of a thorough or search
// run does not.
var evalVariantBudget = 60000

// evalAbort is set when a render did not come back within the watchdog: a goroutine is then still running inside the
// engine (and may end the process when its stack gives out), so the runners stop reading cases and write what they have.
var evalAbort bool

// renderGuarded is render under a watchdog of 30 s; class "hang" when it did not come back.
func (ee *evalEngine) renderGuarded(name string, ctx map[string]interface{}) (out string, class string, detail string) {
	if !c08WithTimeout(30*time.Second, func() { out, class, detail = ee.render(name, ctx) }) {
		evalAbort = true
		return "", "hang", "no answer within 30 s"
	}
	return
}

// evalAfterHistory renders the case's main template, twice, on an engine that has a past: every template name of the
// case was registered before with other text and rendered, a template that does not parse was refused, a template
// whose constructs fail halfway was rendered, and names in other letter cases were seen. It describes the first
// outcome that differs from (out, class); "" when none does.
func evalAfterHistory(c Case, ctx map[string]interface{}, prepare func(*evalEngine), out, class string) string {
	if evalVariantBudget <= 0 {
		return ""
	}
	evalVariantBudget--
	names := evalCaseSources(c)
	evalEngineTweak = func(e *twig.Engine) {
		for n := range names {
			if e.RegisterString(n, "OLD:"+n+"{% block b %}old{% endblock %}{% macro m() %}old{% endmacro %}{{ 1 }}") == nil {
				e.Render(n, map[string]interface{}{})
			}
		}
		e.RegisterString("zz-does-not-parse", "lead {{ }} {% if %}")
		e.RegisterString("zz-fails", "{% spaceless %}<a> x </a> {% apply upper %}p{{ zznosuchfn() }}{% endapply %}{% endspaceless %}")
		e.Render("zz-fails", map[string]interface{}{})
		e.RegisterString("zz-other-case", "{{ X }}{{ V }}{{ A }}{{ LOOP }}{{ I }}{{ ITEM }}{% set ACC = 1 %}")
		e.Render("zz-other-case", map[string]interface{}{})
	}
	ee := newEvalEngine(c)
	evalEngineTweak = nil
	if !ee.regOK {
		if class == "parse" {
			return ""
		}
		return "on an engine that held other templates under these names before: does not register: " + ee.regEr
	}
	if prepare != nil {
		prepare(ee)
	}
	// every other template of the case is rendered on its own first (a layout before the page that extends it, a
	// partial before the page that includes it), with this context and with an empty one
	var others []string
	for n := range names {
		if n != c.str("main") {
			others = append(others, n)
		}
	}
	sort.Strings(others)
	for _, n := range others {
		if _, cl, _ := ee.renderGuarded(n, ctx); cl == "hang" {
			return "rendering " + n + " of the case on its own: no answer within 30 s"
		}
		ee.renderGuarded(n, map[string]interface{}{})
		if evalAbort {
			return "rendering " + n + " of the case on its own with an empty context: no answer within 30 s"
		}
	}
	for i := 1; i <= 2; i++ {
		out2, class2, _ := ee.renderGuarded(c.str("main"), ctx)
		if out2 != out || class2 != class {
			return fmt.Sprintf("on an engine with a past (other templates under these names, a refused template, a failed render, the other templates of the case rendered on their own), render %d: ", i) + evalObserved(out2, class2) + " instead of " + evalObserved(out, class)
		}
	}
	return ""
}

// evalRegisterRoute, when set, is the way newEvalEngine hands the case's templates to the engine: "parsed" is
// ParseTemplate followed by RegisterTemplate, "compiled-shared" compiles each template once on another engine and
// registers that one compiled object first with a third engine (which then gets other templates under the same
// names) and then with the engine under test.
var evalRegisterRoute string

// evalByOtherRoutes renders the case's main template on engines that received the templates by each of the other
// routes and describes the first outcome that differs from (out, class); "" when none does.
func evalByOtherRoutes(c Case, ctx map[string]interface{}, prepare func(*evalEngine), out, class string) string {
	if evalVariantBudget <= 0 {
		return ""
	}
	evalVariantBudget--
	for _, route := range []string{"parsed", "compiled-shared"} {
		evalRegisterRoute = route
		ee := newEvalEngine(c)
		evalRegisterRoute = ""
		var out2, class2 string
		if !ee.regOK {
			out2, class2 = "", "parse"
		} else {
			if prepare != nil {
				prepare(ee)
			}
			out2, class2, _ = ee.renderGuarded(c.str("main"), ctx)
		}
		if out2 != out || class2 != class {
			return "with the templates handed over by route " + route + ": " + evalObserved(out2, class2) + " instead of " + evalObserved(out, class)
		}
	}
	// the other entry points that render a registered template: Engine.RenderTo, and Template.Render / RenderTo on
	// the handle Engine.Load returns
	ee := newEvalEngine(c)
	if !ee.regOK {
		return ""
	}
	if prepare != nil {
		prepare(ee)
	}
	for _, ep := range []string{"Engine.RenderTo", "Load + Template.Render", "Load + Template.RenderTo"} {
		var out2, class2 string
		ok := c08WithTimeout(30*time.Second, func() {
			defer func() {
				if r := recover(); r != nil {
					out2, class2 = "", "panic"
				}
			}()
			var err error
			var sb strings.Builder
			switch ep {
			case "Engine.RenderTo":
				err = ee.eng.RenderTo(&sb, c.str("main"), ctx)
				out2 = sb.String()
			default:
				var t *twig.Template
				if t, err = ee.eng.Load(c.str("main")); err == nil {
					if ep == "Load + Template.Render" {
						out2, err = t.Render(ctx)
					} else {
						err = t.RenderTo(&sb, ctx)
						out2 = sb.String()
					}
				}
			}
			class2 = "none"
			if err != nil {
				out2, class2 = "", classifyError(err)
			}
		})
		if !ok {
			evalAbort = true
			return "through " + ep + ": no answer within 30 s"
		}
		if out2 != out || class2 != class {
			return "through " + ep + ": " + evalObserved(out2, class2) + " instead of " + evalObserved(out, class)
		}
	}
	return ""
}

// render renders template name with ctx; a panic is reported as class "panic".
func (ee *evalEngine) render(name string, ctx map[string]interface{}) (out string, class string, detail string) {
	defer func() {
		if r := recover(); r != nil {
			out, class, detail = "", "panic", fmt.Sprint(r)
		}
	}()
	o, err := ee.eng.Render(name, ctx)
	if err != nil {
		return "", classifyError(err), err.Error()
	}
	return o, "none", ""
}

// runEvalCase executes the real engine on one case: output, error class, calls per custom callback.
// A template of the set that does not parse gives class "parse" (the printer of evalgen.ml only writes
// sources that parse; anything else is a finding of its own).
// evalEngineTweak, when set, configures every engine newEvalEngine creates before anything is registered (engine
// settings a property says nothing about must not matter to it)
var evalEngineTweak func(*twig.Engine)

// evalSettings: engine settings no property of the evaluator speaks about
var evalSettings = []struct {
	name string
	set  func(*twig.Engine)
}{
	{"SetDebug(true)", func(e *twig.Engine) { twig.SetDebugWriter(io.Discard); e.SetDebug(true) }},
	{"SetCache(false)", func(e *twig.Engine) { e.SetCache(false) }},
	{"SetDevelopmentMode(true)", func(e *twig.Engine) { twig.SetDebugWriter(io.Discard); e.SetDevelopmentMode(true) }},
	{"SetAutoReload(true)", func(e *twig.Engine) { e.SetAutoReload(true) }},
}

// evalUnderSettings renders the case's main template with the given context on engines configured with each of
// evalSettings (prepare, when not nil, gives the engine whatever the caller gave its own) and describes the first
// outcome that differs from (out, class); "" when none does.
func evalUnderSettings(c Case, ctx map[string]interface{}, prepare func(*evalEngine), out, class string) string {
	for _, v := range evalSettings {
		evalEngineTweak = v.set
		ee := newEvalEngine(c)
		evalEngineTweak = nil
		var out2, class2 string
		if !ee.regOK {
			out2, class2 = "", "parse"
		} else {
			if prepare != nil {
				prepare(ee)
			}
			out2, class2, _ = ee.renderGuarded(c.str("main"), ctx)
		}
		twig.SetDebugLevel(twig.DebugOff)
		if out2 != out || class2 != class {
			return "on an engine with " + v.name + ": " + evalObserved(out2, class2) + " instead of " + evalObserved(out, class)
		}
	}
	return ""
}

func runEvalCase(c Case) (out string, errClass string, spyCounts map[string]int, detail string) {
	ee := newEvalEngine(c)
	if !ee.regOK {
		return "", "parse", ee.spy, ee.regEr
	}
	out, errClass, detail = ee.render(c.str("main"), parseContext(c.str("ctx")))
	return out, errClass, ee.spy, detail
}

// evalExpectation is the model's prediction carried by the case: kind "out" | "err" | "skip".
func evalExpectation(c Case) (kind string, val string) {
	e, _ := c["exp"].(map[string]interface{})
	if v, ok := e["out"].(string); ok {
		return "out", unhex(v)
	}
	if v, ok := e["err"].(string); ok {
		return "err", v
	}
	if v, ok := e["skip"].(string); ok {
		return "skip", v
	}
	return "skip", "missing"
}

// evalObserved renders the observable of a run as one string: "out:<hex>" or "err:<class>".
func evalObserved(out, class string) string {
	if class == "none" {
		return "out:" + hx(out)
	}
	return "err:" + class
}

// evalCompare compares the engine with the model's prediction (output bytes | error class, and the number of
// calls of every custom callback). ok is false with a description when they differ; skipped when the model
// did not cover the case.
func evalCompare(c Case) (ok bool, skipped bool, expected, observed, detail string) {
	kind, val := evalExpectation(c)
	if kind == "skip" {
		return true, true, "", "", val
	}
	out, class, spy, det := runEvalCase(c)
	observed = evalObserved(out, class)
	if kind == "out" {
		expected = "out:" + hx(val)
	} else {
		expected = "err:" + val
	}
	if expected != observed {
		return false, false, expected, observed, det
	}
	if want, ok := c["spy"].(map[string]interface{}); ok {
		for k, v := range want {
			n, _ := v.(float64)
			if spy[k] != int(n) {
				return false, false, expected + " calls " + k + "=" + strconv.Itoa(int(n)),
					observed + " calls " + k + "=" + strconv.Itoa(spy[k]), "callback invocation count differs"
			}
		}
	}
	return true, false, expected, observed, det
}

// evalCaseSources returns the template sources of a case in readable form (for findings).
func evalCaseSources(c Case) map[string]string {
	m := map[string]string{}
	for _, tp := range c.list("tpls") {
		t, _ := tp.([]interface{})
		if len(t) == 2 {
			n, _ := t[0].(string)
			s, _ := t[1].(string)
			m[unhex(n)] = unhex(s)
		}
	}
	return m
}

// knownClassListed reports whether KNOWN_FINDINGS.txt lists `finding: property=<prop> class=<class> ...`.
// A runner tags a failure with a known class only when the class is listed: an unlisted class is an ordinary
// failing input (also when a replay file is re-run). The file is looked for in $VERIF_ROOT, in the directories
// above the executable (work/<ID>/bin/runner), and in /verif.
func knownClassListed(prop, class string) bool {
	var roots []string
	if r := os.Getenv("VERIF_ROOT"); r != "" {
		roots = append(roots, r)
	}
	if exe, err := os.Executable(); err == nil {
		d := filepath.Dir(exe)
		for i := 0; i < 6 && d != "/" && d != "."; i++ {
			roots = append(roots, d)
			d = filepath.Dir(d)
		}
	}
	roots = append(roots, "/verif")
	for _, r := range roots {
		b, err := os.ReadFile(filepath.Join(r, "KNOWN_FINDINGS.txt"))
		if err != nil {
			continue
		}
		for _, line := range strings.Split(string(b), "\n") {
			line = strings.TrimSpace(line)
			if strings.HasPrefix(line, "finding:") && strings.Contains(line, "property="+prop+" ") &&
				strings.Contains(line, "class="+class+" ") {
				return true
			}
		}
		return false
	}
	return false
}
