package main

// C18Counter has methods with pointer receivers that write to the receiver (a counter, a memoising getter): called
// on a value the caller holds by value, they may only ever write to a copy.
type C18Counter struct {
	N     int
	Memo  string
	Label string
}

func (c *C18Counter) Next() int { c.N++; return c.N }
func (c *C18Counter) Cached() string {
	if c.Memo == "" {
		c.Memo = "computed-" + c.Label
	}
	return c.Memo
}
func (c C18Counter) Plain() string { return "plain-" + c.Label }

type C18Holder struct {
	Name string
	C    C18Counter
	Cs   []C18Counter
}

func c18MethodsThatWrite(res *Result) {
	mk := func() map[string]interface{} {
		return map[string]interface{}{
			"xs":    []C18Counter{{Label: "a"}, {Label: "b"}, {Label: "c"}},
			"arr":   [2]C18Counter{{Label: "p"}, {Label: "q"}},
			"byKey": map[string]C18Counter{"k": {Label: "k"}},
			"one":   C18Counter{Label: "one"},
			"hs":    []C18Holder{{Name: "h0", C: C18Counter{Label: "hc"}, Cs: []C18Counter{{Label: "hcs"}}}},
			"h":     C18Holder{Name: "h", C: C18Counter{Label: "c"}, Cs: []C18Counter{{Label: "cs0"}, {Label: "cs1"}}},
			"data":  map[string]interface{}{"items": []C18Counter{{Label: "n0"}, {Label: "n1"}}, "list": []interface{}{C18Counter{Label: "i0"}}},
		}
	}
	var tpls []string
	for _, m := range []string{"Next", "Cached", "Plain"} {
		tpls = append(tpls,
			"{{ xs[0]."+m+" }}{{ xs[1]."+m+" }}", "{% set p = xs[1] %}{{ p."+m+" }}{{ p."+m+" }}", "{{ xs[2]."+m+"() }}",
			"{% for x in xs %}{{ x."+m+" }}{% endfor %}", "{{ (xs|first)."+m+" }}{{ (xs|last)."+m+" }}", "{% for x in xs|slice(0, 2) %}{{ x."+m+" }}{% endfor %}",
			"{% for x in xs|reverse %}{{ x."+m+" }}{% endfor %}", "{{ arr[0]."+m+" }}{{ arr[1]."+m+" }}", "{% for x in arr %}{{ x."+m+" }}{% endfor %}",
			"{{ byKey.k."+m+" }}{{ byKey['k']."+m+" }}", "{% for k, x in byKey %}{{ x."+m+" }}{% endfor %}", "{{ one."+m+" }}{{ one."+m+" }}",
			"{{ hs[0].C."+m+" }}{{ hs[0].Cs[0]."+m+" }}", "{% set hh = hs[0] %}{{ hh.C."+m+" }}", "{{ h.C."+m+" }}{{ h.Cs[1]."+m+" }}{% for x in h.Cs %}{{ x."+m+" }}{% endfor %}",
			"{{ data.items[0]."+m+" }}{% set q = data.items[1] %}{{ q."+m+" }}", "{{ data.list[0]."+m+" }}", "{% for x in data.items %}{{ x."+m+" }}{% endfor %}",
			"{% set ys = xs %}{{ ys[0]."+m+" }}", "{{ attribute(xs[0], '"+m+"') }}", "{% include 'part' with {'x': xs[0]} %}", "{% for i in 0..2 %}{{ xs[i]."+m+" }}{% endfor %}")
	}
	c18Family(res, "methods-that-write", mk, map[string]string{"part": "{{ x.Next }}{{ x.Cached }}"}, tpls)
}
