package main

import (
	"errors"
	"fmt"
	"os"
	"path/filepath"
	"strconv"

	"github.com/semihalev/twig"
)

// c17DamagedCompiledFiles: a compiled file that is there but cannot be decoded is a loader failure, not a missing
// template: the render fails (also through `include ... ignore missing`), the error is not ErrTemplateNotFound.
func c17DamagedCompiledFiles(cases string, res *Result) {
	dir := filepath.Join(filepath.Dir(cases), "c17damaged")
	defer os.RemoveAll(dir)
	damages := []struct {
		name string
		do   func(b []byte) []byte
	}{
		{"cut to half", func(b []byte) []byte { return b[:len(b)/2] }},
		{"cut to 5 bytes", func(b []byte) []byte { return b[:5] }},
		{"emptied", func(b []byte) []byte { return nil }},
		{"other text", func(b []byte) []byte { return []byte("this is not a compiled template at all, it is just some text") }},
	}
	pages := []struct{ name, src string }{
		{"direct", ""},
		{"include", "[{% include 'nav' %}]"},
		{"include-ignore-missing", "[{% include 'nav' ignore missing %}]"},
		{"include-ignore-missing-in-loop", "[{% for i in [1, 2] %}{% include 'nav' ignore missing %}{% endfor %}]"},
		{"extends", "{% extends 'nav' %}"},
		{"import", "{% import 'nav' as n %}x"},
	}
	for _, dm := range damages {
		os.RemoveAll(dir)
		os.MkdirAll(dir, 0o755)
		a := twig.New()
		a.RegisterString("nav", "<nav>{{ v }}</nav>")
		if twig.NewCompiledLoader(dir).SaveCompiled(a, "nav") != nil {
			return
		}
		files, _ := filepath.Glob(filepath.Join(dir, "nav*"))
		if len(files) != 1 {
			return
		}
		b, _ := os.ReadFile(files[0])
		os.WriteFile(files[0], dm.do(b), 0o644)
		for _, pg := range pages {
			for _, chain := range []bool{false, true} {
				eng := twig.New()
				if chain {
					eng.RegisterLoader(twig.NewChainLoader([]twig.Loader{twig.NewCompiledLoader(dir)}))
				} else {
					eng.RegisterLoader(twig.NewCompiledLoader(dir))
				}
				name := "nav"
				if pg.src != "" {
					name = "page"
					if eng.RegisterString("page", pg.src) != nil {
						continue
					}
				}
				c := Case{"stream": "c17-damaged-compiled-files", "damage": dm.name, "page": pg.src, "through a chain loader": chain}
				res.Hist["stream:c17-damaged-compiled-files"]++
				res.Evaluations++
				out, err := eng.Render(name, map[string]interface{}{"v": 1})
				where := "c17-damaged-compiled-files/" + dm.name + "/" + pg.name
				switch {
				case err == nil:
					res.add(Finding{Kind: "oracle", Where: where, Case: c, Expected: "a non-nil error", Observed: "nil error, output " + strconv.Quote(out),
						Detail: "the compiled file of nav exists and cannot be decoded; the render returned output"})
				case out != "":
					res.add(Finding{Kind: "oracle", Where: where, Case: c, Expected: `"" with the error`, Observed: strconv.Quote(out)})
				case errors.Is(err, twig.ErrTemplateNotFound):
					res.add(Finding{Kind: "oracle", Where: where, Case: c, Expected: "an error that does not match ErrTemplateNotFound (the template is there)", Observed: err.Error()})
				}
			}
		}
	}
}

// c17MacroResultsKeptInVariables: a macro whose body fails fails the render also when the call is first kept in a
// variable (set, do) and printed from there.
func c17MacroResultsKeptInVariables(res *Result) {
	sentinel := errors.New("c17: this function always fails")
	const forms = "{% macro field(n) %}<input name=\"{{ n }}\" value=\"{{ lookup(n) }}\">{% endmacro %}{% macro outer(n) %}{% set inner = _self.field(n) %}({{ inner }}){% endmacro %}"
	mains := []string{
		"{% import 'forms' as f %}{% set mail = f.field('email') %}<form>{{ mail }}</form>",
		"{% from 'forms' import field %}{% set mail = field('email') %}<form>{{ mail }}</form>",
		"{% from 'forms' import field %}{% for n in ['a', 'b'] %}{% set cell = field(n) %}<td>{{ cell }}</td>{% endfor %}",
		"{% import 'forms' as f %}{% do mail = f.field('email') %}<form>{{ mail }}</form>",
		forms + "{% set mail = field('email') %}<form>{{ mail }}</form>",
		forms + "{% set mail = _self.field('email') %}<form>{{ mail|raw }}</form>",
		"{% import 'forms' as f %}{% set a = f.field('x') %}{% set b = a %}<form>{{ b }}</form>",
		"{% import 'forms' as f %}<form>{{ f.outer('email') }}</form>",
		"{% import 'forms' as f %}{% set mail = f.field('email') %}{% include 'shows' with {'m': mail} %}",
	}
	for mi, main := range mains {
		eng := twig.New()
		eng.AddFunction("lookup", func(_ ...interface{}) (interface{}, error) { return nil, fmt.Errorf("lookup: %w", sentinel) })
		if eng.RegisterString("forms", forms) != nil || eng.RegisterString("shows", "<shown>{{ m }}</shown>") != nil || eng.RegisterString("main", main) != nil {
			continue
		}
		c := Case{"stream": "c17-macro-results-kept-in-variables", "main": main, "forms": forms}
		res.Hist["stream:c17-macro-results-kept-in-variables"]++
		res.Evaluations++
		out, err := eng.Render("main", map[string]interface{}{})
		where := fmt.Sprintf("c17-macro-results-kept-in-variables/%d", mi)
		switch {
		case err == nil:
			res.add(Finding{Kind: "oracle", Where: where, Case: c, Expected: "a non-nil error", Observed: "nil error, output " + strconv.Quote(out),
				Detail: "the body of the macro calls a function that fails; the macro's result is printed from a variable"})
		case out != "":
			res.add(Finding{Kind: "oracle", Where: where, Case: c, Expected: `"" with the error`, Observed: strconv.Quote(out)})
		case !errors.Is(err, sentinel):
			res.add(Finding{Kind: "oracle", Where: where, Case: c, Expected: "errors.Is(err, the function's error)", Observed: err.Error()})
		}
	}
}
