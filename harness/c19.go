package main

import (
	"fmt"
	"math/big"
	"reflect"
	"sort"
	"strconv"
	"strings"
	"unicode"
	"unicode/utf8"

	"github.com/semihalev/twig"
)

func init() { runners["C19"] = runC19 }

// C19: built-in filters. Every case is executed twice on the real code:
//   (a) the registered filter function (CoreExtension.GetFilters) is called directly on Go values built from
//       the case, and the canonical form of the result (with its Go representation) is compared with the
//       model's prediction;
//   (b) a template {{ v|f(a0, a1) }} (lists joined with a separator that cannot occur, maps printed as
//       key/value pairs in key order) is rendered and its output compared with the prediction.
// Independently of the model, the defining equation of each filter is checked on the implementation
// itself (the oracle): idempotence, involution, ordered permutation, the index rule, exact arithmetic...

const c19Sep = "\x1f"

var c19Filters = (&twig.CoreExtension{}).GetFilters()

// c19Add keeps the first findings of every class (kind, place, known class) and only counts the rest,
// so that one frequent failure (an array in every cell of the slice grid) does not crowd the others
// out of the bounded list the result file keeps
var c19Seen = map[string]int{}

func c19Add(res *Result, f Finding) {
	key := f.Kind + "|" + f.Where + "|" + f.Known
	c19Seen[key]++
	res.Hist["finding:"+key]++
	if c19Seen[key] <= 2 || f.Kind == "known" {
		res.add(f)
		return
	}
	switch f.Kind {
	case "oracle":
		res.OracleFails++
	default:
		res.Disagreements++
	}
}

// ---------------------------------------------------------------- values

type c19Parser struct {
	s string
	i int
}

func (p *c19Parser) fail(msg string) {
	panic(fmt.Sprintf("c19: bad value %q at %d: %s", p.s, p.i, msg))
}

func (p *c19Parser) token() string {
	j := p.i
	for j < len(p.s) && p.s[j] != ' ' && p.s[j] != '(' && p.s[j] != ')' {
		j++
	}
	t := p.s[p.i:j]
	p.i = j
	return t
}

func (p *c19Parser) skip() {
	for p.i < len(p.s) && p.s[p.i] == ' ' {
		p.i++
	}
}

// value parses one value of the grammar of ocaml/c19.ml into the Go value with that representation
func (p *c19Parser) value() interface{} {
	p.skip()
	if p.i >= len(p.s) {
		p.fail("eof")
	}
	c := p.s[p.i]
	switch c {
	case 'n':
		p.i++
		return nil
	case 'b':
		t := p.token()
		return t == "b1"
	case 'i', 'j', 'd':
		t := p.token()
		z, err := strconv.ParseInt(t[1:], 10, 64)
		if err != nil {
			p.fail(err.Error())
		}
		switch c {
		case 'i':
			return int(z)
		case 'j':
			return z
		default:
			return float64(z)
		}
	case 'f':
		t := p.token()
		f, err := strconv.ParseFloat(t[1:], 64)
		if err != nil {
			p.fail(err.Error())
		}
		return f
	case 's':
		t := p.token()
		return unhex(t[1:])
	case 'L':
		p.i++
		tag := p.token()
		if p.i >= len(p.s) || p.s[p.i] != '(' {
			p.fail("expected (")
		}
		p.i++
		var xs []interface{}
		for {
			p.skip()
			if p.i < len(p.s) && p.s[p.i] == ')' {
				p.i++
				break
			}
			xs = append(xs, p.value())
		}
		return c19List(tag, xs)
	case 'M':
		p.i++
		tag := p.token()
		if p.i >= len(p.s) || p.s[p.i] != '(' {
			p.fail("expected (")
		}
		p.i++
		var ks, vs []interface{}
		for {
			p.skip()
			if p.i < len(p.s) && p.s[p.i] == ')' {
				p.i++
				break
			}
			ks = append(ks, p.value())
			vs = append(vs, p.value())
		}
		return c19Map(tag, ks, vs)
	}
	p.fail("unknown value")
	return nil
}

func c19Parse(s string) interface{} {
	p := &c19Parser{s: s}
	v := p.value()
	return v
}

func c19List(tag string, xs []interface{}) interface{} {
	switch tag {
	case "a":
		out := make([]interface{}, len(xs))
		copy(out, xs)
		return out
	case "s":
		out := make([]string, len(xs))
		for i, x := range xs {
			out[i] = x.(string)
		}
		return out
	case "i":
		out := make([]int, len(xs))
		for i, x := range xs {
			out[i] = x.(int)
		}
		return out
	case "r":
		// [n]interface{}
		at := reflect.ArrayOf(len(xs), reflect.TypeOf((*interface{})(nil)).Elem())
		arr := reflect.New(at).Elem()
		for i, x := range xs {
			if x != nil {
				arr.Index(i).Set(reflect.ValueOf(x))
			}
		}
		return arr.Interface()
	}
	panic("c19: list tag " + tag)
}

func c19Map(tag string, ks, vs []interface{}) interface{} {
	switch tag {
	case "a":
		m := map[string]interface{}{}
		for i := range ks {
			m[ks[i].(string)] = vs[i]
		}
		return m
	case "ss":
		m := map[string]string{}
		for i := range ks {
			m[ks[i].(string)] = vs[i].(string)
		}
		return m
	case "is":
		m := map[int]string{}
		for i := range ks {
			m[ks[i].(int)] = vs[i].(string)
		}
		return m
	case "si":
		m := map[string]int{}
		for i := range ks {
			m[ks[i].(string)] = vs[i].(int)
		}
		return m
	}
	panic("c19: map tag " + tag)
}

// c19Canon is the canonical text of a result value: integers of every representation (integral floats
// included) print alike, containers print their Go representation
func c19Canon(v interface{}) string {
	if v == nil {
		return "n"
	}
	switch x := v.(type) {
	case bool:
		if x {
			return "b1"
		}
		return "b0"
	case int:
		return "i" + strconv.Itoa(x)
	case int64:
		return "i" + strconv.FormatInt(x, 10)
	case float64:
		if x == float64(int64(x)) && x > -1e18 && x < 1e18 {
			return "i" + strconv.FormatInt(int64(x), 10)
		}
		return "f" + strconv.FormatFloat(x, 'f', -1, 64)
	case string:
		return "s" + hx(x)
	}
	rv := reflect.ValueOf(v)
	switch rv.Kind() {
	case reflect.Slice, reflect.Array:
		tag := "?" + rv.Type().String()
		switch v.(type) {
		case []interface{}:
			tag = "a"
		case []string:
			tag = "s"
		case []int:
			tag = "i"
		default:
			if rv.Kind() == reflect.Array && rv.Type().Elem().Kind() == reflect.Interface {
				tag = "r"
			}
		}
		parts := make([]string, rv.Len())
		for i := range parts {
			parts[i] = c19Canon(rv.Index(i).Interface())
		}
		return "L" + tag + "(" + strings.Join(parts, " ") + ")"
	case reflect.Map:
		tag := "?" + rv.Type().String()
		switch v.(type) {
		case map[string]interface{}:
			tag = "a"
		case map[string]string:
			tag = "ss"
		case map[int]string:
			tag = "is"
		case map[string]int:
			tag = "si"
		}
		keys := rv.MapKeys()
		sort.Slice(keys, func(i, j int) bool { return c19Text(keys[i].Interface()) < c19Text(keys[j].Interface()) })
		parts := make([]string, 0, 2*len(keys))
		for _, k := range keys {
			parts = append(parts, c19Canon(k.Interface()), c19Canon(rv.MapIndex(k).Interface()))
		}
		return "M" + tag + "(" + strings.Join(parts, " ") + ")"
	}
	return fmt.Sprintf("?%T", v)
}

// c19Text is the text of a scalar, written here independently of the engine's toString
func c19Text(v interface{}) string {
	switch x := v.(type) {
	case nil:
		return ""
	case string:
		return x
	case int:
		return strconv.Itoa(x)
	case int64:
		return strconv.FormatInt(x, 10)
	case float64:
		return strconv.FormatFloat(x, 'f', -1, 64)
	case bool:
		if x {
			return "true"
		}
		return "false"
	}
	return fmt.Sprintf("%v", v)
}

// ---------------------------------------------------------------- running the real code

// direct call of the registered filter; result class ok / err / panic
func c19Call(f string, v interface{}, args []interface{}) (res interface{}, class string, detail string) {
	defer func() {
		if r := recover(); r != nil {
			res, class, detail = nil, "panic", fmt.Sprint(r)
		}
	}()
	fn, ok := c19Filters[f]
	if !ok {
		return nil, "err", "no such filter"
	}
	out, err := fn(v, args...)
	if err != nil {
		return nil, "err", err.Error()
	}
	return out, "ok", ""
}

func c19CallCanon(f string, v interface{}, args []interface{}) string {
	out, class, _ := c19Call(f, v, args)
	if class != "ok" {
		return class
	}
	return "ok:" + c19Canon(out)
}

type c19Engine struct {
	eng  *twig.Engine
	have map[string]bool
}

func (e *c19Engine) render(src string, ctx map[string]interface{}) (out string, class string, detail string) {
	defer func() {
		if r := recover(); r != nil {
			out, class, detail = "", "panic", fmt.Sprint(r)
		}
	}()
	name := "t:" + src
	if !e.have[name] {
		if err := e.eng.RegisterString(name, src); err != nil {
			return "", "err", "register: " + err.Error()
		}
		e.have[name] = true
	}
	o, err := e.eng.Render(name, ctx)
	if err != nil {
		return "", "err", err.Error()
	}
	return o, "ok", ""
}

func c19ArgList(n int) string {
	if n == 0 {
		return ""
	}
	names := make([]string, n)
	for i := range names {
		names[i] = "a" + strconv.Itoa(i)
	}
	return "(" + strings.Join(names, ", ") + ")"
}

// c19ArgListComputed: every argument written as a filter expression that yields the argument itself
// (default replaces the empty and the undefined by its own argument: x|default(x) is x)
func c19ArgListComputed(args []interface{}) string {
	if len(args) == 0 {
		return ""
	}
	names := make([]string, len(args))
	for i := range names {
		a := "a" + strconv.Itoa(i)
		names[i] = a
		if !c19Empty(args[i]) && args[i] != false {
			names[i] = a + "|default(" + a + ")"
		}
	}
	return "(" + strings.Join(names, ", ") + ")"
}

func c19TemplateComputed(f string, v interface{}, args []interface{}, proj string) string {
	call := "v|" + f + c19ArgListComputed(args)
	if !c19Empty(v) && v != false {
		call = "(v|default(v))|" + f + c19ArgListComputed(args)
	}
	switch proj {
	case "list":
		return "{{ " + call + "|join(sep|default(sep)) }}"
	case "map":
		return "{% for k, x in " + call + " %}{{ k }}{{ sep }}{{ x }}{{ sep }}{% endfor %}"
	}
	return "{{ " + call + " }}"
}

func c19Template(f string, nargs int, proj string) string {
	call := "v|" + f + c19ArgList(nargs)
	switch proj {
	case "list":
		return "{{ " + call + "|join(sep) }}"
	case "map":
		return "{% for k, x in " + call + " %}{{ k }}{{ sep }}{{ x }}{{ sep }}{% endfor %}"
	}
	return "{{ " + call + " }}"
}

// ---------------------------------------------------------------- the runner

func runC19(cases string, res *Result) {
	eng := &c19Engine{eng: twig.New(), have: map[string]bool{}}
	c19CheckCaseHypotheses(res)
	c19LiteralBaseChains(res)
	c19ChainsStepByStep(res)
	c19AbsAtTheEdges(res)
	c19FractionalIndexes(res)
	readCases(cases, func(c Case) {
		stream := c.str("stream")
		f := c.str("f")
		res.Hist["stream:"+stream]++
		nt, _ := c["nt"].(bool)
		res.count(fmt.Sprint(c["f"], c["filter"], c["v"], c["args"]), nt)
		if res.Hist["stream:"+stream] <= 2 {
			res.sample(c, 60)
		}
		switch f {
		case "observe":
			c19Observe(eng, c, res)
		case "observe-go":
			c19ObserveGo(eng, c, res)
		case "joinsplit":
			c19JoinSplit(eng, c, res)
		case "dec":
			c19Decimal(eng, c, res)
		case "casetable":
			c19CaseTable(c, res)
		case "derive":
			c19Derive(eng, c, res)
		default:
			c19Generic(eng, c, res)
		}
	})
	res.Exhaustive = []string{"slice-grid", "default-table", "case-hypotheses"}
}

func c19Args(c Case) []interface{} {
	var args []interface{}
	for _, a := range c.list("args") {
		args = append(args, c19Parse(a.(string)))
	}
	return args
}

// generic case: one filter call, prediction exp, optional template projection, and the filter's law
func c19Generic(eng *c19Engine, c Case, res *Result) {
	f := c.str("f")
	vs := c.str("v")
	var v interface{}
	undefined := vs == "u"
	if !undefined {
		v = c19Parse(vs)
	}
	args := c19Args(c)
	exp := c.str("exp")

	// (a) direct call
	res.Evaluations++
	out, class, detail := c19Call(f, v, args)
	got := class
	if class == "ok" {
		got = "ok:" + c19Canon(out)
	}
	lawMsg := ""
	if class == "panic" {
		lawMsg = "the filter panicked: " + detail
	} else if class == "ok" {
		lawMsg = c19Law(f, v, args, out, c)
	}
	if lawMsg != "" {
		c19Add(res, Finding{Kind: "oracle", Where: f + "/law", Case: c, Expected: exp, Observed: got, Detail: lawMsg})
	} else if exp != "unmod" && c19NormMerge(f, got) != c19NormMerge(f, exp) {
		c19Add(res, Finding{Kind: "disagreement", Where: f + "/direct", Case: c, Expected: exp, Observed: got, Detail: detail})
	}
	if exp == "unmod" {
		res.Unmodelled++
	}
	// (a') the same numbers held in other Go number types: the laws hold alike
	if v2 := c19OtherKinds(v); v2 != nil && (f == "sort" || f == "reverse" || f == "first" || f == "last" || f == "length" || f == "join" || f == "slice" || f == "merge") {
		res.Evaluations++
		res.Hist["other-number-kinds"]++
		out2, class2, detail2 := c19Call(f, v2, args)
		msg := ""
		if class2 == "panic" {
			msg = "the filter panicked: " + detail2
		} else if class2 == "ok" {
			msg = c19Law(f, v2, args, out2, c)
		} else if class == "ok" {
			msg = "fails on the same numbers held in other Go number types: " + detail2
		}
		if msg != "" {
			c19Add(res, Finding{Kind: "oracle", Where: f + "/law (int32, int64, uint8, float32 elements)", Case: c, Expected: exp, Observed: class2, Detail: msg})
		}
	}

	// (b) through a template
	proj := c.str("proj")
	if proj == "" || proj == "none" || exp == "unmod" {
		return
	}
	ctx := map[string]interface{}{"sep": c19Sep}
	if !undefined {
		ctx["v"] = v
	}
	for i, a := range args {
		ctx["a"+strconv.Itoa(i)] = a
	}
	res.Evaluations++
	want := c.hexs("out")
	o, rclass, rdetail := eng.render(c19Template(f, len(args), proj), ctx)
	if o == "-0" && (f == "round" || f == "abs") {
		o = "0" // the sign of a floating-point zero; exact arithmetic has one zero
	}
	if rclass != "ok" || o != want {
		kind := "disagreement"
		if rclass == "panic" {
			kind = "oracle"
		}
		c19Add(res, Finding{Kind: kind, Where: f + "/template", Case: c, Expected: hx(want), Observed: rclass + ":" + hx(o), Detail: "template " + c19Template(f, len(args), proj) + " " + rdetail})
	}
	// the same call with every operand and argument computed by a filter of its own
	if !undefined && (len(args) > 0 || proj == "list") {
		res.Evaluations++
		res.Hist["arguments-computed-by-filters"]++
		o2, rclass2, rdetail2 := eng.render(c19TemplateComputed(f, v, args, proj), ctx)
		if o2 == "-0" && (f == "round" || f == "abs") {
			o2 = "0"
		}
		if rclass2 != rclass || o2 != o {
			c19Add(res, Finding{Kind: "oracle", Where: f + "/computed-arguments", Case: c, Expected: rclass + ":" + hx(o), Observed: rclass2 + ":" + hx(o2),
				Detail: "template " + c19TemplateComputed(f, v, args, proj) + " differs from " + c19Template(f, len(args), proj) + " " + rdetail2})
		}
	}
}

// the Go type of the map merge returns is not something the property speaks about (the entries are):
// the map tag of a merge result is dropped before comparing
func c19NormMerge(f, canon string) string {
	if f != "merge" || !strings.HasPrefix(canon, "ok:M") {
		return canon
	}
	if i := strings.IndexByte(canon, '('); i >= 0 {
		return "ok:M" + canon[i:]
	}
	return canon
}

// ---------------------------------------------------------------- the laws, checked on the implementation

func c19IsNumber(x interface{}) (float64, bool) {
	switch n := x.(type) {
	case int:
		return float64(n), true
	case int64:
		return float64(n), true
	case float64:
		return n, true
	}
	rv := reflect.ValueOf(x)
	switch rv.Kind() {
	case reflect.Int8, reflect.Int16, reflect.Int32:
		return float64(rv.Int()), true
	case reflect.Uint, reflect.Uint8, reflect.Uint16, reflect.Uint32, reflect.Uint64:
		return float64(rv.Uint()), true
	case reflect.Float32:
		return rv.Float(), true
	}
	return 0, false
}

// c19OtherKinds: the same numbers in other Go number types (a list that came from typed data, from JSON decoders with
// UseNumber off, from database drivers ...); nil when v is not an untyped list of ints
func c19OtherKinds(v interface{}) []interface{} {
	xs, ok := v.([]interface{})
	if !ok || len(xs) == 0 {
		return nil
	}
	out := make([]interface{}, len(xs))
	for i, x := range xs {
		n, ok := x.(int)
		if !ok {
			return nil
		}
		switch i % 5 {
		case 0:
			out[i] = int32(n)
		case 1:
			out[i] = int64(n)
		case 2:
			if n >= 0 && n < 256 {
				out[i] = uint8(n)
			} else {
				out[i] = int16(n)
			}
		case 3:
			out[i] = float32(n)
		default:
			out[i] = n
		}
	}
	return out
}

func c19Elems(v interface{}) ([]interface{}, bool) {
	if v == nil {
		return nil, false
	}
	rv := reflect.ValueOf(v)
	if rv.Kind() != reflect.Slice && rv.Kind() != reflect.Array {
		return nil, false
	}
	out := make([]interface{}, rv.Len())
	for i := range out {
		out[i] = rv.Index(i).Interface()
	}
	return out, true
}

func c19CanonList(xs []interface{}) []string {
	out := make([]string, len(xs))
	for i, x := range xs {
		out[i] = c19Canon(x)
	}
	return out
}

func c19SameStrings(a, b []string) bool {
	if len(a) != len(b) {
		return false
	}
	for i := range a {
		if a[i] != b[i] {
			return false
		}
	}
	return true
}

// Twig's index rule, written here from the documentation of the slice filter
func c19SliceRule(n, start int, length *int) (int, int) {
	s := start
	if s < 0 {
		s = n + s
		if s < 0 {
			s = 0
		}
	}
	if s > n {
		s = n
	}
	e := n
	if length != nil {
		if *length >= 0 {
			e = s + *length
			if e > n || e < s {
				e = n
			}
		} else {
			e = n + *length
			if e < s {
				e = s
			}
		}
	}
	return s, e
}

func c19AsInt(x interface{}) (int, bool) {
	switch n := x.(type) {
	case int:
		return n, true
	case int64:
		return int(n), true
	case float64:
		return int(n), true
	case bool:
		if n {
			return 1, true
		}
		return 0, true
	case string:
		i, err := strconv.Atoi(n)
		return i, err == nil
	}
	return 0, false
}

func c19Runes(s string) []string {
	var out []string
	for _, r := range s {
		out = append(out, string(r))
	}
	return out
}

// c19Law returns a message when the defining equation of the filter fails on this call
func c19Law(f string, v interface{}, args []interface{}, out interface{}, c Case) string {
	switch f {
	case "upper", "lower", "capitalize", "trim":
		again, class, _ := c19Call(f, out, args)
		if class != "ok" || c19Canon(again) != c19Canon(out) {
			return f + " is not idempotent: applying it to its own result gives " + class + ":" + c19Canon(again)
		}
	case "reverse":
		if s, ok := v.(string); ok {
			o, _ := out.(string)
			if utf8.RuneCountInString(o) != utf8.RuneCountInString(s) {
				return "reverse changed the number of code points"
			}
			back, class, _ := c19Call(f, out, nil)
			want := string([]rune(s))
			if class != "ok" || back != want {
				return "reverse twice does not give back the string (with invalid bytes replaced by U+FFFD)"
			}
			return ""
		}
		if xs, ok := c19Elems(v); ok {
			ys, ok2 := c19Elems(out)
			if !ok2 || len(xs) != len(ys) {
				return "reverse changed the length of the list"
			}
			for i := range xs {
				if c19Canon(xs[i]) != c19Canon(ys[len(ys)-1-i]) {
					return "reverse: element " + strconv.Itoa(i) + " is not at the mirrored position"
				}
			}
			back, class, _ := c19Call(f, out, nil)
			bs, _ := c19Elems(back)
			if class != "ok" || !c19SameStrings(c19CanonList(bs), c19CanonList(xs)) {
				return "reverse twice does not give back the list"
			}
		}
	case "sort":
		xs, ok := c19Elems(v)
		if !ok {
			return ""
		}
		ys, ok2 := c19Elems(out)
		if !ok2 {
			return "sort of a list is not a list"
		}
		a, b := c19CanonList(xs), c19CanonList(ys)
		sort.Strings(a)
		bb := append([]string(nil), b...)
		sort.Strings(bb)
		if !c19SameStrings(a, bb) {
			return "sort: the result is not a permutation of the input"
		}
		allNum := true
		for _, x := range xs {
			if _, ok := c19IsNumber(x); !ok {
				allNum = false
			}
		}
		for i := 0; i+1 < len(ys); i++ {
			if allNum {
				p, _ := c19IsNumber(ys[i])
				q, _ := c19IsNumber(ys[i+1])
				if p > q {
					return fmt.Sprintf("sort: numbers out of order: %v before %v", ys[i], ys[i+1])
				}
			} else if c19Text(ys[i]) > c19Text(ys[i+1]) {
				return fmt.Sprintf("sort: %q before %q", c19Text(ys[i]), c19Text(ys[i+1]))
			}
		}
	case "slice":
		if len(args) == 0 {
			return ""
		}
		start, ok := c19AsInt(args[0])
		if !ok {
			return ""
		}
		var lp *int
		if len(args) > 1 && args[1] != nil {
			l, ok := c19AsInt(args[1])
			if !ok {
				return ""
			}
			lp = &l
		}
		if s, ok := v.(string); ok {
			rs := c19Runes(s)
			from, to := c19SliceRule(len(rs), start, lp)
			if want := strings.Join(rs[from:to], ""); out != want {
				return "slice of a string differs from Twig's index rule on its code points: want " + hx(want)
			}
			return ""
		}
		if xs, ok := c19Elems(v); ok {
			ys, ok2 := c19Elems(out)
			from, to := c19SliceRule(len(xs), start, lp)
			if !ok2 || !c19SameStrings(c19CanonList(xs[from:to]), c19CanonList(ys)) {
				return fmt.Sprintf("slice of a list differs from Twig's index rule: want items [%d,%d)", from, to)
			}
		}
	case "default":
		if len(args) == 0 {
			return ""
		}
		empty := c19Empty(v)
		if e, has := c["empty"].(bool); has && e != empty {
			return "the specification's table of empty values differs from the runner's"
		}
		want := c19Canon(v)
		if empty {
			want = c19Canon(args[0])
		}
		if c19Canon(out) != want {
			if empty {
				return "default did not replace an empty value"
			}
			return "default replaced a value that is not empty"
		}
	case "merge":
		if xs, ok := c19Elems(v); ok {
			want := c19CanonList(xs)
			for _, a := range args {
				if ys, ok := c19Elems(a); ok {
					want = append(want, c19CanonList(ys)...)
				}
			}
			ys, _ := c19Elems(out)
			if !c19SameStrings(want, c19CanonList(ys)) {
				return "merge of lists is not their concatenation"
			}
			return ""
		}
		if v != nil && reflect.ValueOf(v).Kind() == reflect.Map {
			want := map[string]string{}
			add := func(m interface{}) {
				rv := reflect.ValueOf(m)
				for _, k := range rv.MapKeys() {
					want[c19Text(k.Interface())] = c19Canon(rv.MapIndex(k).Interface())
				}
			}
			add(v)
			for _, a := range args {
				if a != nil && reflect.ValueOf(a).Kind() == reflect.Map {
					add(a)
				}
			}
			if out == nil || reflect.ValueOf(out).Kind() != reflect.Map {
				return "merge of maps is not a map"
			}
			got := map[string]string{}
			rv := reflect.ValueOf(out)
			for _, k := range rv.MapKeys() {
				got[c19Text(k.Interface())] = c19Canon(rv.MapIndex(k).Interface())
			}
			if !reflect.DeepEqual(want, got) {
				return fmt.Sprintf("merge of maps: later maps do not win, or entries are lost: want %v got %v", want, got)
			}
		}
	case "keys":
		if v == nil || reflect.ValueOf(v).Kind() != reflect.Map {
			return ""
		}
		ks, ok := c19Elems(out)
		if !ok {
			return "keys of a map is not a list"
		}
		seen := map[string]int{}
		for _, k := range ks {
			seen[c19Text(k)]++
		}
		rv := reflect.ValueOf(v)
		if len(ks) != rv.Len() {
			return "keys: the number of keys differs from the size of the map"
		}
		for _, k := range rv.MapKeys() {
			if seen[c19Text(k.Interface())] != 1 {
				return "keys: key " + c19Text(k.Interface()) + " does not occur exactly once"
			}
		}
	case "abs", "round", "number_format":
		if z, ok := c19IsNumber(v); ok && z == float64(int64(z)) {
			return c19NumberLaw(f, big.NewRat(int64(z), 1), args, c19Text(out))
		}
	}
	return ""
}

// the empty values: nil, the empty string, false, a list or map without entries (written from the
// documentation of Twig's empty test; numbers are never empty)
func c19Empty(v interface{}) bool {
	switch x := v.(type) {
	case nil:
		return true
	case string:
		return x == ""
	case bool:
		return !x
	}
	rv := reflect.ValueOf(v)
	switch rv.Kind() {
	case reflect.Slice, reflect.Array, reflect.Map:
		return rv.Len() == 0
	}
	return false
}

// ---------------------------------------------------------------- exact arithmetic (math/big)

func c19Pow10(n int) *big.Int { return new(big.Int).Exp(big.NewInt(10), big.NewInt(int64(n)), nil) }

// x rounded at p places by the method, as an exact rational
func c19ExactRound(x *big.Rat, p int, method string) *big.Rat {
	sh := new(big.Rat)
	if p >= 0 {
		sh.SetInt(c19Pow10(p))
	} else {
		sh.SetFrac(big.NewInt(1), c19Pow10(-p))
	}
	y := new(big.Rat).Mul(x, sh)
	fl := new(big.Int).Div(y.Num(), y.Denom())
	var k *big.Int
	switch method {
	case "floor":
		k = fl
	case "ceil", "ceiling":
		k = fl
		if new(big.Rat).SetInt(fl).Cmp(y) != 0 {
			k = new(big.Int).Add(fl, big.NewInt(1))
		}
	default:
		ay := new(big.Rat).Abs(y)
		ay.Add(ay, big.NewRat(1, 2))
		k = new(big.Int).Div(ay.Num(), ay.Denom())
		if y.Sign() < 0 {
			k.Neg(k)
		}
	}
	return new(big.Rat).Quo(new(big.Rat).SetInt(k), sh)
}

// shortest decimal text of an exact rational with a power-of-ten denominator
func c19RatText(x *big.Rat) string {
	if x.IsInt() {
		return x.Num().String()
	}
	s := x.FloatString(30)
	s = strings.TrimRight(s, "0")
	return strings.TrimSuffix(s, ".")
}

func c19Group(digits, sep string) string {
	if sep == "" {
		return digits
	}
	var b strings.Builder
	for i := 0; i < len(digits); i++ {
		if i > 0 && (len(digits)-i)%3 == 0 {
			b.WriteString(sep)
		}
		b.WriteByte(digits[i])
	}
	return b.String()
}

func c19ExactNumberFormat(x *big.Rat, d int, point, sep string) string {
	if d < 0 {
		d = 0
	}
	y := c19ExactRound(x, d, "common")
	s := new(big.Rat).Abs(y).FloatString(d)
	ip, fp := s, ""
	if i := strings.IndexByte(s, '.'); i >= 0 {
		ip, fp = s[:i], s[i+1:]
	}
	r := c19Group(ip, sep)
	if y.Sign() < 0 {
		r = "-" + r
	}
	if d > 0 {
		r += point + fp
	}
	return r
}

func c19StrArg(args []interface{}, i int, dflt string) string {
	if i < len(args) {
		if s, ok := args[i].(string); ok {
			return s
		}
	}
	return dflt
}

// what exact arithmetic demands of abs / round / number_format for the exact input x
func c19ExactNumber(f string, x *big.Rat, args []interface{}) (string, bool) {
	switch f {
	case "abs":
		return c19RatText(new(big.Rat).Abs(x)), true
	case "round":
		p := 0
		if len(args) > 0 {
			if n, ok := c19AsInt(args[0]); ok {
				p = n
			}
		}
		method := "common"
		if len(args) > 1 {
			if m, ok := args[1].(string); ok {
				method = strings.ToLower(m)
			}
		}
		return c19RatText(c19ExactRound(x, p, method)), true
	case "number_format":
		d := 0
		if len(args) > 0 {
			if n, ok := c19AsInt(args[0]); ok {
				d = n
			}
		}
		return c19ExactNumberFormat(x, d, c19StrArg(args, 1, "."), c19StrArg(args, 2, ",")), true
	}
	return "", false
}

func c19NumberLaw(f string, x *big.Rat, args []interface{}, got string) string {
	want, ok := c19ExactNumber(f, x, args)
	if got == "-0" && f != "number_format" {
		got = "0"
	}
	if ok && got != want {
		return f + " differs from exact decimal arithmetic: want " + want + " got " + got
	}
	return ""
}

// decimal inputs: the engine's answer is compared with exact arithmetic; where binary floating point is
// known to differ (the case says so and carries the value binary64 gives) the difference is reported as
// the listed known finding only when the engine gives exactly that value
func c19Decimal(eng *c19Engine, c Case, res *Result) {
	f := c.str("filter")
	stream := c.str("stream")
	v := c19Parse(c.str("v")).(float64)
	args := c19Args(c)
	demanded := c.hexs("demanded")
	binary := c.hexs("binary")
	x := new(big.Rat).SetFrac(big.NewInt(int64(c.num("m"))), c19Pow10(c.num("sc")))
	// the demanded value is recomputed here with math/big, independently of the model
	if want, ok := c19ExactNumber(f, x, args); ok && want != demanded {
		c19Add(res, Finding{Kind: "disagreement", Where: f + "/spec-vs-big", Case: c, Expected: want, Observed: demanded, Detail: "the extracted specification and math/big disagree about exact arithmetic"})
		return
	}
	ctx := map[string]interface{}{"v": v, "sep": c19Sep}
	for i, a := range args {
		ctx["a"+strconv.Itoa(i)] = a
	}
	res.Evaluations++
	got, class, detail := eng.render(c19Template(f, len(args), "scalar"), ctx)
	if got == "-0" && f != "number_format" {
		got = "0"
	}
	// the same number written as a literal in the template
	if m, sc := c.num("m"), c.num("sc"); sc >= 0 && sc <= 15 && class == "ok" {
		neg := m < 0
		if neg {
			m = -m
		}
		digits := strconv.Itoa(m)
		for len(digits) <= sc {
			digits = "0" + digits
		}
		lit := digits
		if sc > 0 {
			lit = digits[:len(digits)-sc] + "." + digits[len(digits)-sc:]
		}
		if neg {
			lit = "(-" + lit + ")"
		}
		tpl := strings.Replace(c19Template(f, len(args), "scalar"), "{{ v|", "{{ "+lit+"|", 1)
		res.Evaluations++
		res.Hist["decimal-written-as-a-literal"]++
		gl, lclass, _ := eng.render(tpl, ctx)
		if gl == "-0" && f != "number_format" {
			gl = "0"
		}
		if lclass != "ok" || gl != got {
			c19Add(res, Finding{Kind: "oracle", Where: f + "/decimal-literal", Case: c, Expected: got, Observed: lclass + ":" + gl,
				Detail: "the number written as the literal " + lit + " in the template gives another result than the same number handed over in the context: " + tpl})
			return
		}
	}
	// the same through the direct call
	out, dclass, _ := c19Call(f, v, args)
	direct := c19Text(out)
	if direct == "-0" && f != "number_format" {
		direct = "0"
	}
	if class == "ok" && dclass == "ok" && direct != got {
		c19Add(res, Finding{Kind: "oracle", Where: f + "/decimal", Case: c, Expected: got, Observed: direct, Detail: "the filter gives different results when called directly and through a template"})
		return
	}
	switch {
	case class == "ok" && got == demanded:
	case class == "ok" && strings.HasPrefix(stream, "known:") && got == binary:
		c19Add(res, Finding{Kind: "known", Known: strings.TrimPrefix(stream, "known:"), Where: f + "/decimal", Case: c, Expected: demanded, Observed: got})
	default:
		c19Add(res, Finding{Kind: "oracle", Where: f + "/decimal", Case: c, Expected: demanded, Observed: class + ":" + got,
			Detail: "differs from exact decimal arithmetic (binary64 mirror predicted " + binary + ") " + detail})
	}
}

// ---------------------------------------------------------------- length = what first, last, slice and for see

func c19Observe(eng *c19Engine, c Case, res *Result) {
	v := c19Parse(c.str("v"))
	// model predictions
	for _, q := range [][2]string{{"length", "len"}, {"first", "first"}, {"last", "last"}} {
		res.Evaluations++
		got := c19CallCanon(q[0], v, nil)
		if got == "panic" {
			c19Add(res, Finding{Kind: "oracle", Where: q[0] + "/observe", Case: c, Observed: got, Detail: "the filter panicked"})
		} else if exp := c.str(q[1]); exp != "unmod" && got != exp {
			c19Add(res, Finding{Kind: "disagreement", Where: q[0] + "/observe", Case: c, Expected: exp, Observed: got})
		}
	}
	res.Evaluations++
	if got, exp := c19CallCanon("slice", v, []interface{}{0}), c.str("all"); got == "panic" {
		c19Add(res, Finding{Kind: "oracle", Where: "slice/observe", Case: c, Observed: got, Detail: "the filter panicked"})
	} else if exp != "unmod" && got != exp {
		c19Add(res, Finding{Kind: "disagreement", Where: "slice/observe", Case: c, Expected: exp, Observed: got})
	}
	c19ObserveLaw(eng, v, c, res)
}

// the law on the implementation: the count of length is the number of iterations of a for loop, of the
// items slice(0) returns, and first / last exist exactly when it is positive
func c19ObserveLaw(eng *c19Engine, v interface{}, c Case, res *Result) {
	ctx := map[string]interface{}{"v": v, "sep": c19Sep}
	lenOut, lclass, _ := c19Call("length", v, nil)
	if lclass != "ok" {
		return
	}
	n, _ := lenOut.(int)
	res.Evaluations++
	loop, class, detail := eng.render("{% for x in v %}{{ x }}{{ sep }}{% endfor %}", ctx)
	if class != "ok" {
		c19Add(res, Finding{Kind: "oracle", Where: "for/observe", Case: c, Observed: class, Detail: "for loop over a value that has a length failed: " + detail})
		return
	}
	iters := strings.Count(loop, c19Sep)
	if iters != n {
		c19Add(res, Finding{Kind: "oracle", Where: "length/law", Case: c, Expected: strconv.Itoa(iters), Observed: strconv.Itoa(n), Detail: "length differs from the number of items a for loop visits"})
	}
	if want, has := c["loop"]; has {
		ws := want.([]interface{})
		parts := make([]string, len(ws))
		for i, w := range ws {
			parts[i] = unhex(w.(string)) + c19Sep
		}
		if strings.Join(parts, "") != loop {
			c19Add(res, Finding{Kind: "disagreement", Where: "for/observe", Case: c, Expected: hx(strings.Join(parts, "")), Observed: hx(loop)})
		}
	}
	if v == nil {
		return
	}
	isMap := reflect.ValueOf(v).Kind() == reflect.Map
	if all, class, _ := c19Call("slice", v, []interface{}{0}); class == "ok" {
		cnt := -1
		if s, ok := all.(string); ok {
			cnt = utf8.RuneCountInString(s)
		} else if xs, ok := c19Elems(all); ok {
			cnt = len(xs)
		}
		if cnt != n {
			c19Add(res, Finding{Kind: "oracle", Where: "length/law", Case: c, Expected: strconv.Itoa(cnt), Observed: strconv.Itoa(n), Detail: "length differs from the number of items slice(0) returns"})
		}
	}
	items := strings.Split(strings.TrimSuffix(loop, c19Sep), c19Sep)
	if first, class, _ := c19Call("first", v, nil); class == "ok" && n > 0 {
		want := items[0]
		if s, ok := v.(string); ok { // first keeps the bytes, the loop variable is re-encoded
			_, w := utf8.DecodeRuneInString(s)
			want = s[:w]
		}
		if c19Text(first) != want {
			c19Add(res, Finding{Kind: "oracle", Where: "first/law", Case: c, Expected: hx(want), Observed: hx(c19Text(first)), Detail: "first is not the first item a for loop visits"})
		}
	}
	if last, class, _ := c19Call("last", v, nil); class == "ok" && n > 0 && !isMap {
		want := items[len(items)-1]
		if s, ok := v.(string); ok {
			_, w := utf8.DecodeLastRuneInString(s)
			want = s[len(s)-w:]
		}
		if c19Text(last) != want {
			c19Add(res, Finding{Kind: "oracle", Where: "last/law", Case: c, Expected: hx(want), Observed: hx(c19Text(last)), Detail: "last is not the last item a for loop visits"})
		}
	}
}

// ---------------------------------------------------------------- join then split

func c19JoinSplit(eng *c19Engine, c Case, res *Result) {
	v := c19Parse(c.str("v"))
	args := c19Args(c)
	stream := c.str("stream")
	res.Evaluations++
	joined, class, detail := c19Call("join", v, args)
	if got := "ok:" + c19Canon(joined); class != "ok" || got != c.str("joined") {
		c19Add(res, Finding{Kind: "disagreement", Where: "join/joinsplit", Case: c, Expected: c.str("joined"), Observed: class + ":" + got, Detail: detail})
		return
	}
	out, class, detail := c19Call("split", joined, args)
	got := class
	if class == "ok" {
		got = "ok:" + c19Canon(out)
	}
	demanded := c.str("demanded")
	exp := c.str("exp")
	// through a template as well
	ctx := map[string]interface{}{"v": v, "a0": args[0], "sep": c19Sep}
	tout, tclass, _ := eng.render("{{ v|join(a0)|split(a0)|join(sep) }}", ctx)
	switch {
	case got == demanded:
		xs, _ := c19Elems(v)
		parts := make([]string, len(xs))
		for i, x := range xs {
			parts[i] = c19Text(x)
		}
		if tclass != "ok" || tout != strings.Join(parts, c19Sep) {
			c19Add(res, Finding{Kind: "oracle", Where: "joinsplit/template", Case: c, Expected: hx(strings.Join(parts, c19Sep)), Observed: tclass + ":" + hx(tout), Detail: "join then split through a template does not restore the list"})
		}
	case strings.HasPrefix(stream, "known:") && got == exp:
		c19Add(res, Finding{Kind: "known", Known: strings.TrimPrefix(stream, "known:"), Where: "joinsplit", Case: c, Expected: demanded, Observed: got})
	default:
		c19Add(res, Finding{Kind: "oracle", Where: "joinsplit/law", Case: c, Expected: demanded, Observed: got, Detail: "join followed by split with the same separator does not restore the list of separator-free strings " + detail})
	}
}

// ---------------------------------------------------------------- case mapping

// the hypotheses of the idempotence theorems, for every code point, against Go's unicode package
func c19CheckCaseHypotheses(res *Result) {
	isSpace := func(r rune) bool { return unicode.IsSpace(r) }
	scalar := func(r rune) bool { return r >= 0 && (r < 0xD800 || (r >= 0xE000 && r < 0x110000)) }
	fails := map[string][]string{}
	note := func(k string, c rune) {
		if len(fails[k]) < 8 {
			fails[k] = append(fails[k], fmt.Sprintf("U+%04X", c))
		}
		res.Hist["case-hypothesis-fails:"+k]++
	}
	for c := rune(0); c < 0x110000; c++ {
		u, l := unicode.ToUpper(c), unicode.ToLower(c)
		if unicode.ToUpper(u) != u {
			note("up(up c) = up c", c)
		}
		if unicode.ToLower(l) != l {
			note("low(low c) = low c", c)
		}
		if scalar(c) && (!scalar(u) || !scalar(l)) {
			note("up and low map scalar values to scalar values", c)
		}
		if isSpace(u) != isSpace(c) || isSpace(l) != isSpace(c) {
			note("up and low preserve being white space", c)
		}
		// not needed by any theorem; reported for information
		if unicode.ToUpper(unicode.ToLower(u)) != u {
			res.Hist["case-info:up(low(up c)) != up c"]++
		}
		if unicode.ToLower(unicode.ToUpper(l)) != l {
			res.Hist["case-info:low(up(low c)) != low c"]++
		}
	}
	res.Evaluations += 0x110000
	res.Hist["stream:case-hypotheses"] = 0x110000
	for k, cs := range fails {
		c19Add(res, Finding{Kind: "oracle", Where: "case-hypotheses", Case: map[string]interface{}{"hypothesis": k, "code_points": cs},
			Detail: "a hypothesis of the idempotence theorems (C19_upper_idempotent, C19_lower_idempotent, C19_capitalize_idempotent) does not hold of Go's unicode.ToUpper / ToLower"})
	}
	// the model of unicode.IsSpace is a fixed list: compared exhaustively through the trim filter's behaviour is not
	// possible, so it is compared here by its definition
	for c := rune(0); c < 0x110000; c++ {
		want := c == 32 || (c >= 9 && c <= 13) || c == 0x85 || c == 0xA0 || c == 0x1680 || (c >= 0x2000 && c <= 0x200a) ||
			c == 0x2028 || c == 0x2029 || c == 0x202f || c == 0x205f || c == 0x3000
		if unicode.IsSpace(c) != want {
			c19Add(res, Finding{Kind: "disagreement", Where: "is-space", Case: map[string]interface{}{"code_point": fmt.Sprintf("U+%04X", c)}, Detail: "flt_is_space differs from unicode.IsSpace"})
			break
		}
	}
}

// the case mapping the generator used for its predictions
func c19CaseTable(c Case, res *Result) {
	for _, e := range c.list("table") {
		t := e.([]interface{})
		cp, u, l := rune(t[0].(float64)), rune(t[1].(float64)), rune(t[2].(float64))
		res.Evaluations++
		if unicode.ToUpper(cp) != u || unicode.ToLower(cp) != l {
			c19Add(res, Finding{Kind: "disagreement", Where: "case-table", Case: map[string]interface{}{"code_point": fmt.Sprintf("U+%04X", cp)},
				Detail: "the case table of ocaml/c19.ml differs from Go's unicode package"})
		}
	}
}

// ---------------------------------------------------------------- several values derived from one base

// withCap rebuilds a []interface{} with spare capacity, as a list built by append in Go code has
func c19WithCap(v interface{}, extra int) interface{} {
	if xs, ok := v.([]interface{}); ok {
		out := make([]interface{}, len(xs), len(xs)+extra)
		copy(out, xs)
		return out
	}
	return v
}

// c19Derive computes x1 = xj|f(args) ... step by step and looks at every value only after all were computed:
// each must still be what it was when it was computed (the oracle: a filter's result is a function of its
// inputs, so computing another value from the same source cannot change it) and what the model predicts.
// Done twice: by calling the filter functions, and through {% set %} in a template.
func c19Derive(eng *c19Engine, c Case, res *Result) {
	exp := c.list("exp")
	outs := c.list("outs")
	steps := c.list("steps")
	cap := c.num("cap")
	vals := []interface{}{c19WithCap(c19Parse(c.str("v")), cap)}
	snap := []string{c19Canon(vals[0])}
	ctx := map[string]interface{}{"sep": c19Sep, "sep2": "\x1e", "x0": c19WithCap(c19Parse(c.str("v")), cap)}
	var tpl strings.Builder
	for i, st := range steps {
		m := st.(map[string]interface{})
		f := m["f"].(string)
		src := int(m["src"].(float64))
		var args []interface{}
		var names []string
		for k, a := range m["args"].([]interface{}) {
			as := a.(string)
			if strings.HasPrefix(as, "r") {
				j, _ := strconv.Atoi(as[1:])
				args = append(args, vals[j])
				names = append(names, "x"+strconv.Itoa(j))
			} else {
				name := fmt.Sprintf("a%d_%d", i+1, k)
				args = append(args, c19Parse(as))
				ctx[name] = c19Parse(as)
				names = append(names, name)
			}
		}
		res.Evaluations++
		out, class, detail := c19Call(f, vals[src], args)
		if class != "ok" {
			c19Add(res, Finding{Kind: "oracle", Where: "derive/" + f, Case: c, Observed: class, Detail: fmt.Sprintf("step %d failed: %s", i+1, detail)})
			return
		}
		vals = append(vals, out)
		snap = append(snap, c19Canon(out))
		call := ""
		if len(names) > 0 {
			call = "(" + strings.Join(names, ", ") + ")"
		}
		fmt.Fprintf(&tpl, "{%% set x%d = x%d|%s%s %%}", i+1, src, f, call)
	}
	for i := range vals {
		now := c19Canon(vals[i])
		if now != snap[i] {
			c19Add(res, Finding{Kind: "oracle", Where: "derive/aliasing", Case: c, Expected: snap[i], Observed: now,
				Detail: fmt.Sprintf("value x%d changed after it was computed: a later filter call wrote into it", i)})
			return
		}
		if i < len(exp) && c19TextCanon(vals[i]) != exp[i].(string) {
			c19Add(res, Finding{Kind: "disagreement", Where: "derive/direct", Case: c, Expected: exp[i].(string), Observed: c19TextCanon(vals[i]), Detail: fmt.Sprintf("value x%d", i)})
			return
		}
	}
	// through a template
	want := make([]string, len(outs))
	for i := range vals {
		fmt.Fprintf(&tpl, "{{ x%d|join(sep) }}{{ sep2 }}", i)
		if i < len(outs) {
			want[i] = unhex(outs[i].(string))
		}
	}
	res.Evaluations++
	o, class, detail := eng.render(tpl.String(), ctx)
	got := strings.Split(strings.TrimSuffix(o, "\x1e"), "\x1e")
	if class != "ok" || len(got) != len(want) {
		c19Add(res, Finding{Kind: "disagreement", Where: "derive/template", Case: c, Observed: class + ":" + hx(o), Detail: tpl.String() + " " + detail})
		return
	}
	for i := range want {
		if got[i] != want[i] {
			// the value each step computed is a function of its inputs (proved of the model); the template printed
			// something else for a value that the direct calls, one at a time, computed as predicted
			c19Add(res, Finding{Kind: "oracle", Where: "derive/template", Case: c, Expected: hx(want[i]), Observed: hx(got[i]),
				Detail: fmt.Sprintf("x%d printed after all values were computed is not what its own step computes: %s", i, tpl.String())})
			return
		}
	}
}

// c19TextCanon is the representation of a list and the text of its items (items that sort as equal may come
// in any order: null and the empty string, 1 and '1')
func c19TextCanon(v interface{}) string {
	xs, ok := c19Elems(v)
	if !ok {
		return c19Canon(v)
	}
	canon := c19Canon(v)
	parts := make([]string, len(xs))
	for i, x := range xs {
		parts[i] = hx(c19Text(x))
	}
	return canon[:strings.IndexByte(canon, '(')] + "(" + strings.Join(parts, " ") + ")"
}

// ---------------------------------------------------------------- values of Go's own shapes

type c19NamedStr string
type c19NamedInt int

// c19GoShapes: values as a Go program hands them over (typed slices, arrays, byte slices, maps with int,
// interface and named keys): the sentences "length equals the number of elements that first, last, slice
// and a for loop observe" and "keys lists every key once" speak about these as much as about []interface{}.
func c19GoShapes() []interface{} {
	return []interface{}{
		[]byte("hello"), []byte("h\u00e9llo"), []byte{0xff, 0x41, 0xc3}, []byte{},
		[]string{"\u00e9", "b", "\u20ac"}, []int{3, 1, 2}, [3]int{7, 8, 9}, [0]int{}, []float64{1.5, 2.5}, []rune("h\u00e9"),
		[]bool{true, false, true}, []interface{}{"\u00e9", 1.5, nil}, [][]int{{1}, {2, 3}}, []c19NamedStr{"p", "q"},
		[]c19NamedInt{4, 5, 6}, []uint8{1, 2, 3}, []int64{1 << 40, 2}, []map[string]int{{"a": 1}, {"b": 2}},
		"h\u00e9llo", "\xffA", "\u20ac", "",
		map[string]int{"b": 2, "a": 1}, map[int]string{2: "x", 10: "y", 1: "z"}, map[int]int{},
		map[interface{}]string{1: "int", "1": "str"}, map[interface{}]interface{}{true: 1, "true": 2, 2: 3, 2.5: 4},
		map[interface{}]int{int64(7): 1, 7: 2, "7": 3}, map[c19NamedStr]int{"k": 1, "j": 2}, map[c19NamedInt]string{3: "c", 1: "a"},
		map[float64]string{1.5: "a", 0.5: "b"}, map[bool]int{true: 1, false: 0}, map[string]interface{}{"x": nil, "y": []int{1}},
		map[[2]int]string{{1, 2}: "a", {0, 5}: "b"},
	}
}

func c19ObserveGo(eng *c19Engine, c Case, res *Result) {
	for i, v := range c19GoShapes() {
		cc := Case{"stream": c.str("stream"), "f": "observe-go", "shape": fmt.Sprintf("%d: %T %v", i, v, v)}
		res.Hist[fmt.Sprintf("go-shape:%T", v)]++
		res.count(fmt.Sprintf("observe-go %d", i), true)
		for _, f := range []string{"length", "first", "last", "keys"} {
			if _, class, detail := c19Call(f, v, nil); class == "panic" {
				c19Add(res, Finding{Kind: "oracle", Where: f + "/observe-go", Case: cc, Observed: class, Detail: "the filter panicked: " + detail})
			}
		}
		c19ObserveLaw(eng, v, cc, res)
		rv := reflect.ValueOf(v)
		if rv.Kind() != reflect.Map {
			continue
		}
		// keys lists every key once: as Go values, against the map's own keys
		res.Evaluations++
		out, class, detail := c19Call("keys", v, nil)
		if class != "ok" {
			c19Add(res, Finding{Kind: "oracle", Where: "keys/observe-go", Case: cc, Observed: class, Detail: "keys of a map failed: " + detail})
			continue
		}
		ks, ok := c19Elems(out)
		if !ok {
			c19Add(res, Finding{Kind: "oracle", Where: "keys/observe-go", Case: cc, Observed: fmt.Sprintf("%T", out), Detail: "keys of a map is not a list"})
			continue
		}
		seen := map[interface{}]int{}
		for _, k := range ks {
			seen[k]++
		}
		msg := ""
		if len(ks) != rv.Len() {
			msg = fmt.Sprintf("keys lists %d keys of a map with %d entries", len(ks), rv.Len())
		}
		for _, mk := range rv.MapKeys() {
			if n := seen[mk.Interface()]; n != 1 && msg == "" {
				msg = fmt.Sprintf("keys lists the key %#v %d times", mk.Interface(), n)
			}
		}
		if msg != "" {
			c19Add(res, Finding{Kind: "oracle", Where: "keys/law", Case: cc, Expected: "every key once", Observed: fmt.Sprint(ks), Detail: msg})
		}
		// and the for loop visits as many entries, with the same keys as text
		loop, lclass, _ := eng.render("{% for k, x in v %}{{ k }}{{ sep }}{% endfor %}", map[string]interface{}{"v": v, "sep": c19Sep})
		if lclass == "ok" {
			texts := make([]string, len(ks))
			for j, k := range ks {
				texts[j] = c19Text(k) + c19Sep
			}
			got := strings.Split(strings.TrimSuffix(loop, c19Sep), c19Sep)
			want := strings.Split(strings.TrimSuffix(strings.Join(texts, ""), c19Sep), c19Sep)
			sort.Strings(got)
			sort.Strings(want)
			if !c19SameStrings(got, want) {
				c19Add(res, Finding{Kind: "oracle", Where: "keys/law", Case: cc, Expected: fmt.Sprint(got), Observed: fmt.Sprint(want), Detail: "the keys a for loop visits differ from the keys filter's"})
			}
		}
	}
}

// c19LiteralBaseChains: filter chains whose operand is a literal and whose arguments come from the context, one
// parsed template evaluated again and again with other arguments (and inside a loop): every time the result is
// that of the same chain over a context variable holding the literal's value.
func c19LiteralBaseChains(res *Result) {
	type chain struct{ lit, rest string }
	chains := []chain{
		{"'abcdef'", "|slice(s, l)|upper"}, {"'abcdef'", "|slice(s)|upper|lower"}, {"[1, 2, 3, 4, 5]", "|slice(s, l)|join(',')"}, {"'a,b,c'", "|split(sep)|join('+')"},
		{"''", "|default(d)|upper"}, {"[1, 2]", "|merge(xs)|length"}, {"2.567", "|round(p)|abs"}, {"'x'", "|default(d)|replace(d, 'R')|upper"}, {"'  pad  '", "|trim|slice(s)|capitalize"},
		{"[3, 1, 2]", "|sort|slice(s, l)|join"}, {"'abc'", "|upper|slice(s, l)"}, {"1234.5", "|number_format(p)|length"},
	}
	ctxs := []map[string]interface{}{}
	for s := -3; s <= 4; s++ {
		for l := -2; l <= 3; l++ {
			ctxs = append(ctxs, map[string]interface{}{"s": s, "l": l, "sep": []string{",", "b", ""}[(s+3)%3], "d": []string{"D", "", "x"}[(l+2)%3], "xs": make([]interface{}, (s+3)%4), "p": (s + 3) % 4})
		}
	}
	for _, ch := range chains {
		eng := twig.New()
		a, b, c := "{{ "+ch.lit+ch.rest+" }}", "{% set v = "+ch.lit+" %}{{ v"+ch.rest+" }}", "{% for i in [1, 2] %}{{ "+ch.lit+ch.rest+" }};{% endfor %}"
		if eng.RegisterString("a", a) != nil || eng.RegisterString("b", b) != nil || eng.RegisterString("c", c) != nil {
			continue
		}
		res.Hist["stream:literal-base-chains"]++
		res.count("literal-base-chains/"+ch.lit+ch.rest, true)
		for _, ctx := range ctxs {
			res.Evaluations += 3
			oa, ea := eng.Render("a", ctx)
			ob, eb := eng.Render("b", ctx)
			oc, ec := eng.Render("c", ctx)
			if (ea == nil) != (eb == nil) || (ea == nil && oa != ob) || (ea == nil) != (ec == nil) || (ea == nil && oc != oa+";"+oa+";") {
				res.add(Finding{Kind: "oracle", Where: "literal-base-chains", Case: Case{"stream": "literal-base-chains", "tpl": a, "ctx": fmt.Sprint(ctx)},
					Expected: fmt.Sprintf("%q (err=%v), the chain over a variable that holds the literal", ob, eb), Observed: fmt.Sprintf("%q (err=%v); in a loop %q (err=%v)", oa, ea, oc, ec),
					Detail: "one parsed template evaluated with many argument values: the chain over the literal stopped following its arguments"})
				break
			}
		}
	}
}
