package main

import (
	"bytes"
	"encoding/json"
	"errors"
	"fmt"
	"os"
	"os/exec"
	"runtime"
	"sort"
	"strconv"
	"strings"

	"github.com/semihalev/twig"
)

func init() { runners["C01"] = runC01 }

// C01: every history is executed in this process twice -- "plain" (pools poisoned only where the history has
// a poison operation) and "poisoned" (twig.VerifPoisonPools before every operation: the executable reuse
// oracle) -- on real twig.Engines with in-memory loaders.
//
// Oracle (the property itself, model independent): the result of every Render / Load (output bytes, or the
// error class none / not-found / other) equals the result of the same call on freshly created engines that
// were given only the registrations and cache settings of the history so far, after the pools were emptied;
// for a sample of histories the same reference is also computed in a fresh process (the runner re-executes
// itself with a fifth argument --pristine). After every operation the heap invariant of Model/Pool.v is checked
// on the real heap through the hooks: no object that sits in a pool is reachable from a template an engine
// holds, and no object sits in the pools twice. At the end of a history every output string obtained earlier
// must still read what it read when it was returned.
// Correspondence: every result is also compared with the prediction of the extracted pool machine.
// Two more, informational passes over a sample (modes strict-fields, strict-maps) put garbage also where only the
// release side of the code guarantees cleanliness (FunctionNode.moduleExpr; the bare map pools of render.go);
// their differences are reported as notes and counters, not as failures: the code cannot produce those states.

type c01Op struct {
	Kind string
	K0   int // position in the history as generated: the poison seed of the operation (kept by shrinking)
	E, N int
	Src  string
	Vars map[string]interface{}
	Exp  string
	Raw  interface{}
	// attr: struct type, passed as pointer, object template; flood: number of attribute names
	Ty, Tpl, Cnt int
	Ptr          bool
}

type c01Hist struct {
	Engines int
	Store   []c01Op // E, N, Src
	Ops     []c01Op
}

type c01Loader struct{ files map[string]string }

func (l *c01Loader) Load(name string) (string, error) {
	if s, ok := l.files[name]; ok {
		return s, nil
	}
	return "", fmt.Errorf("%w: %s", twig.ErrTemplateNotFound, name)
}
func (l *c01Loader) Exists(name string) bool { _, ok := l.files[name]; return ok }

// Four struct types of the same shape (the attribute cache is keyed by type and name): Owner has a pointer receiver,
// Kind a value receiver, Balance is a field.
type c01AcctA struct {
	owner   string
	Balance int
}
type c01AcctB struct {
	owner   string
	Balance int
}
type c01AcctC struct {
	owner   string
	Balance int
}
type c01AcctD struct {
	owner   string
	Balance int
}

func (a *c01AcctA) Owner() string { return a.owner }
func (a c01AcctA) Kind() string   { return "k" + a.owner }
func (a *c01AcctB) Owner() string { return a.owner }
func (a c01AcctB) Kind() string   { return "k" + a.owner }
func (a *c01AcctC) Owner() string { return a.owner }
func (a c01AcctC) Kind() string   { return "k" + a.owner }
func (a *c01AcctD) Owner() string { return a.owner }
func (a c01AcctD) Kind() string   { return "k" + a.owner }

type c01Filler struct{ X int }

func c01Object(ty int, ptr bool) interface{} {
	owner, bal := "bob"+strconv.Itoa(ty), 5+ty
	switch ty % 4 {
	case 0:
		if ptr {
			return &c01AcctA{owner, bal}
		}
		return c01AcctA{owner, bal}
	case 1:
		if ptr {
			return &c01AcctB{owner, bal}
		}
		return c01AcctB{owner, bal}
	case 2:
		if ptr {
			return &c01AcctC{owner, bal}
		}
		return c01AcctC{owner, bal}
	}
	if ptr {
		return &c01AcctD{owner, bal}
	}
	return c01AcctD{owner, bal}
}

// the object templates every engine of a history is given at creation (part of its configuration)
var c01ObjectTemplates = []string{
	"{{ a.Owner }}|{{ a.Balance }}|{{ a.Kind }}",
	"{{ a.Balance }}{% if a.Owner %}Y{% else %}N{% endif %}",
	"{{ a.Owner }}",
}

type c01DenyAll struct{}

func (c01DenyAll) IsFunctionAllowed(string) bool { return false }
func (c01DenyAll) IsFilterAllowed(string) bool   { return false }
func (c01DenyAll) IsTagAllowed(string) bool      { return false }

func c01Name(n int) string { return "t" + strconv.Itoa(n) }

// what a render / load / attr operation is applied to, for reports
func c01Target(o c01Op) string {
	if o.Kind == "attr" {
		return fmt.Sprintf("object template o%d with a %T", o.Tpl%len(c01ObjectTemplates), c01Object(o.Ty, o.Ptr))
	}
	return c01Name(o.N)
}

func c01Decode(c Case) c01Hist {
	h := c01Hist{Engines: c.num("engines")}
	if h.Engines < 1 {
		h.Engines = 1
	}
	geti := func(m map[string]interface{}, f string) int { v, _ := m[f].(float64); return int(v) }
	for _, raw := range c.list("store") {
		m, _ := raw.(map[string]interface{})
		s, _ := m["src"].(string)
		h.Store = append(h.Store, c01Op{E: geti(m, "e"), N: geti(m, "n"), Src: unhex(s)})
	}
	for i, raw := range c.list("ops") {
		m, _ := raw.(map[string]interface{})
		o := c01Op{Raw: raw, E: geti(m, "e"), N: geti(m, "n"), K0: i}
		if _, ok := m["k0"]; ok {
			o.K0 = geti(m, "k0")
		}
		o.Kind, _ = m["op"].(string)
		o.Exp, _ = m["exp"].(string)
		o.Ty, o.Tpl, o.Cnt = geti(m, "ty"), geti(m, "tpl"), geti(m, "cnt")
		o.Ptr, _ = m["ptr"].(bool)
		if s, ok := m["src"].(string); ok {
			o.Src = unhex(s)
		}
		if vs, ok := m["vars"].([]interface{}); ok {
			o.Vars = map[string]interface{}{}
			for _, p := range vs {
				if pr, ok := p.([]interface{}); ok && len(pr) == 2 {
					x, _ := pr[0].(float64)
					v, _ := pr[1].(float64)
					o.Vars["v"+strconv.Itoa(int(x))] = int(v)
				}
			}
		}
		h.Ops = append(h.Ops, o)
	}
	return h
}

func c01Engines(h *c01Hist) []*twig.Engine {
	es := make([]*twig.Engine, h.Engines)
	for i := range es {
		e := twig.New()
		e.AddFilter("verifboom", func(v interface{}, args ...interface{}) (interface{}, error) {
			return nil, errors.New("verifboom: this filter always fails")
		})
		e.AddFilter("verifid", func(v interface{}, args ...interface{}) (interface{}, error) { return v, nil })
		// a security policy that allows nothing is installed but the sandbox is off: it only bites in a context
		// whose sandboxed flag is set, which no generated template does
		e.EnableSandbox(c01DenyAll{})
		e.DisableSandbox()
		ld := &c01Loader{files: map[string]string{}}
		for _, s := range h.Store {
			if s.E == i {
				ld.files[c01Name(s.N)] = s.Src
			}
		}
		e.RegisterLoader(ld)
		c01Loaders[e] = ld
		for k, src := range c01ObjectTemplates {
			if err := e.RegisterString("o"+strconv.Itoa(k), src); err != nil {
				panic("c01: object template does not parse: " + err.Error())
			}
		}
		es[i] = e
	}
	return es
}

func c01Class(out string, err error) string {
	switch {
	case err == nil:
		return "out:" + hx(out)
	case errors.Is(err, twig.ErrTemplateNotFound):
		return "err:notfound"
	default:
		return "err:other"
	}
}

func c01LoadClass(err error) string {
	switch {
	case err == nil:
		return "ok"
	case errors.Is(err, twig.ErrTemplateNotFound):
		return "err:notfound"
	default:
		return "err:other"
	}
}

// c01Exec performs one operation; the result is "" for operations without one. A panic is a result too.
func c01Exec(es []*twig.Engine, o c01Op, poisonSeed int64) (res string, out string) {
	defer func() {
		if r := recover(); r != nil {
			res = "panic:" + c01First(fmt.Sprint(r))
		}
	}()
	if o.E >= len(es) {
		return "", ""
	}
	e := es[o.E]
	switch o.Kind {
	case "register":
		if err := e.RegisterString(c01Name(o.N), o.Src); err != nil {
			return "err", ""
		}
		return "ok", ""
	case "parse":
		_, _ = e.ParseTemplate(o.Src)
	case "load":
		_, err := e.Load(c01Name(o.N))
		return c01LoadClass(err), ""
	case "render":
		// a private copy of the context: C18 is about the caller's data, not this property
		ctx := map[string]interface{}{}
		for k, v := range o.Vars {
			ctx[k] = v
		}
		s, err := e.Render(c01Name(o.N), ctx)
		return c01Class(s, err), s
	case "togglecache":
		e.SetCache(!e.IsCacheEnabled())
	case "gc":
		runtime.GC()
		runtime.GC()
	case "poison":
		twig.VerifPoisonPools(poisonSeed)
	case "attr":
		s, err := e.Render("o"+strconv.Itoa(o.Tpl%len(c01ObjectTemplates)), map[string]interface{}{"a": c01Object(o.Ty, o.Ptr)})
		return c01Class(s, err), s
	case "alias":
		// the template held under name n also registered under a second name
		if t, err := e.Load(c01Name(o.N)); err == nil {
			e.RegisterTemplate(c01Name(o.Tpl), t)
		}
	case "handle":
		// the caller keeps what Load returns
		if t, err := e.Load(c01Name(o.N)); err == nil {
			c01Handles[c01HandleKey(e, o.N)] = t
		} else {
			delete(c01Handles, c01HandleKey(e, o.N))
		}
	case "renderalias", "renderhandle":
		ctx := map[string]interface{}{}
		for k, v := range o.Vars {
			ctx[k] = v
		}
		if o.Kind == "renderalias" {
			s, err := e.Render(c01Name(o.N), ctx)
			return c01Class(s, err), s
		}
		t := c01Handles[c01HandleKey(e, o.N)]
		if t == nil {
			return "no-handle", ""
		}
		s, err := t.Render(ctx)
		return c01Class(s, err), s
	case "store":
		// a template arrives later: in the loader the engine has had from the start, or in a loader registered now
		if o.Ptr {
			e.RegisterLoader(&c01Loader{files: map[string]string{c01Name(o.N): o.Src}})
		} else if ld := c01Loaders[e]; ld != nil {
			ld.files[c01Name(o.N)] = o.Src
		}
	case "addcallback":
		// this engine (and no other) gets a filter that shadows a built-in one, a function and a test of its own
		tag := "ovr" + strconv.Itoa(o.E)
		e.AddFilter("upper", func(v interface{}, _ ...interface{}) (interface{}, error) { return tag, nil })
		e.AddFunction("c01fn", func(_ ...interface{}) (interface{}, error) { return "fn" + tag, nil })
		e.AddTest("c01t", func(v interface{}, _ ...interface{}) (bool, error) { return true, nil })
	case "flood":
		// another engine renders another template: enough distinct (type, attribute) pairs to roll the
		// process-wide attribute cache over
		var sb strings.Builder
		for i := 0; i < o.Cnt; i++ {
			sb.WriteString("{{ a.f" + strconv.Itoa(i) + " }}")
		}
		fe := twig.New()
		if err := fe.RegisterString("flood", sb.String()); err == nil {
			_, _ = fe.Render("flood", map[string]interface{}{"a": c01Filler{X: 1}})
		}
	}
	return "", ""
}

func c01IsConfig(o c01Op) bool {
	return o.Kind == "register" || o.Kind == "togglecache" || o.Kind == "alias" || o.Kind == "handle" || o.Kind == "store" || o.Kind == "addcallback"
}

// handles kept by the caller, per engine and name
var c01Handles = map[string]*twig.Template{}

// the loader each engine of the current history was created with (operation "store" adds to it later)
var c01Loaders = map[*twig.Engine]*c01Loader{}

func c01Forget(es []*twig.Engine) {
	for _, e := range es {
		delete(c01Loaders, e)
	}
}

func c01HandleKey(e *twig.Engine, n int) string { return fmt.Sprintf("%p/%d", e, n) }

// operations whose result is compared with the pristine reference
func c01HasResult(o c01Op) bool {
	return o.Kind == "render" || o.Kind == "load" || o.Kind == "attr" || o.Kind == "renderalias" || o.Kind == "renderhandle"
}

// c01Pristine: the result of operation h.Ops[k] (a render or a load) on freshly created engines that are given
// the registrations and cache settings of h.Ops[:k], with every pool emptied first.
func c01Pristine(h *c01Hist, k int) string {
	twig.VerifDrainPools()
	twig.VerifAttrCacheReset() // the other process-wide state: the attribute cache of render.go
	es := c01Engines(h)
	defer c01Forget(es)
	for _, o := range h.Ops[:k] {
		if c01IsConfig(o) {
			c01Exec(es, o, 0)
		}
	}
	r, _ := c01Exec(es, h.Ops[k], 0)
	return r
}

// the request of a fresh-process reference: the history as decoded, and which operation to answer
type c01Request struct {
	Hist c01Hist
	K    int
}

// c01PristineMain runs in the re-executed runner: argv = runner C01 <request> <out> --pristine. It writes the
// result string to <request>.answer (main writes its usual, empty result file to <out>).
func c01PristineMain(reqPath string) {
	b, err := os.ReadFile(reqPath)
	if err != nil {
		fmt.Fprintln(os.Stderr, "c01 pristine:", err)
		os.Exit(2)
	}
	var rq c01Request
	if err := json.Unmarshal(b, &rq); err != nil {
		fmt.Fprintln(os.Stderr, "c01 pristine:", err)
		os.Exit(2)
	}
	// JSON turned the integer context values into float64
	for i := range rq.Hist.Ops {
		for k, v := range rq.Hist.Ops[i].Vars {
			if f, ok := v.(float64); ok {
				rq.Hist.Ops[i].Vars[k] = int(f)
			}
		}
	}
	// nothing has been parsed or rendered in this process: no draining, no poisoning
	es := c01Engines(&rq.Hist)
	for _, o := range rq.Hist.Ops[:rq.K] {
		if c01IsConfig(o) {
			c01Exec(es, o, 0)
		}
	}
	r, _ := c01Exec(es, rq.Hist.Ops[rq.K], 0)
	if err := os.WriteFile(reqPath+".answer", []byte(r), 0o644); err != nil {
		fmt.Fprintln(os.Stderr, "c01 pristine:", err)
		os.Exit(2)
	}
}

func c01FreshProcess(h *c01Hist, k int, dir string) (string, error) {
	rq := c01Request{Hist: *h, K: k}
	// Raw is only for reports
	rq.Hist.Ops = append([]c01Op(nil), h.Ops...)
	for i := range rq.Hist.Ops {
		rq.Hist.Ops[i].Raw = nil
	}
	b, _ := json.Marshal(rq)
	req := dir + "/c01-pristine-request.json"
	if err := os.WriteFile(req, b, 0o644); err != nil {
		return "", err
	}
	os.Remove(req + ".answer")
	cmd := exec.Command(os.Args[0], "C01", req, dir+"/c01-pristine-result.json", "--pristine")
	var stderr bytes.Buffer
	cmd.Stderr = &stderr
	if err := cmd.Run(); err != nil {
		return "", fmt.Errorf("%v: %s", err, c01First(stderr.String()))
	}
	a, err := os.ReadFile(req + ".answer")
	return string(a), err
}

func c01First(s string) string {
	if i := strings.IndexByte(s, '\n'); i >= 0 {
		s = s[:i]
	}
	if len(s) > 160 {
		s = s[:160]
	}
	return s
}

// c01HeapCheck: the invariant of Model/Pool.v on the real heap. Returns "" or what is wrong.
func c01HeapCheck(es []*twig.Engine) string {
	pooled := twig.VerifPooledPointers()
	where := map[uintptr]string{}
	names := make([]string, 0, len(pooled))
	for n := range pooled {
		names = append(names, n)
	}
	sort.Strings(names)
	for _, n := range names {
		for _, a := range pooled[n] {
			if w, dup := where[a]; dup {
				return fmt.Sprintf("the same object sits in the pools twice (%s and %s)", w, n)
			}
			where[a] = n
		}
	}
	for i, e := range es {
		for _, a := range twig.VerifCachedNodePointers(e) {
			if w, ok := where[a]; ok {
				return fmt.Sprintf("a node reachable from a template held by engine %d sits in %s", i, w)
			}
		}
	}
	return ""
}

type c01Failure struct {
	AtEnd    bool // found when the history was over (an earlier output changed): later operations matter
	K        int
	Kind     string // "oracle" | "disagreement"
	Expected string
	Observed string
	Detail   string
}

// c01Run executes the history in one mode and returns the first failure of the property's oracle (or of the
// correspondence with the model, when withModel is set and the oracle holds everywhere).
func c01Run(h *c01Hist, mode string, seed int64, refs map[int]string, withModel bool, evals *int) *c01Failure {
	// the pristine references are computed before the run, not in between its operations: computing one empties the
	// pools, which must not happen to the state the history itself builds up
	for k, o := range h.Ops {
		if c01HasResult(o) {
			if _, ok := refs[k]; !ok {
				refs[k] = c01Pristine(h, k)
			}
		}
	}
	// every run starts from empty pools: a failure then depends on the history alone and can be shrunk and replayed
	// (what happened "earlier in the process" is the operations of the history: other templates, other engines,
	// failing renders, parses, explicit poison operations)
	twig.VerifDrainPools()
	twig.VerifAttrCacheReset()
	es := c01Engines(h)
	defer c01Forget(es)
	type kept struct {
		k        int
		s, first string
	}
	var outs []kept
	var dis *c01Failure
	for k, o := range h.Ops {
		switch mode {
		case "poisoned":
			twig.VerifPoisonPools(seed + int64(o.K0))
		case "strict":
			twig.VerifPoisonPoolsStrict(seed + int64(o.K0))
		case "strict-fields":
			twig.VerifPoisonPoolsWith(seed+int64(o.K0), true, false)
		case "strict-maps":
			twig.VerifPoisonPoolsWith(seed+int64(o.K0), false, true)
		}
		got, out := c01Exec(es, o, seed+int64(o.K0))
		if c01HasResult(o) {
			*evals++
			ref := refs[k]
			if got != ref {
				return &c01Failure{K: k, Kind: "oracle", Expected: ref, Observed: got,
					Detail: fmt.Sprintf("%s of %s on engine %d in mode %q differs from the same call on freshly created engines holding only the registrations (pristine reference)", o.Kind, c01Target(o), o.E, mode)}
			}
			if (o.Kind == "render" || o.Kind == "attr") && strings.HasPrefix(got, "out:") {
				// an independent copy of the bytes, to be compared with the string itself at the end
				outs = append(outs, kept{k, out, string(append([]byte(nil), out...))})
			}
		}
		if withModel && dis == nil && o.Exp != "" && !strings.HasPrefix(o.Exp, "unmodelled") && got != o.Exp {
			dis = &c01Failure{K: k, Kind: "disagreement", Expected: o.Exp, Observed: got,
				Detail: fmt.Sprintf("%s of %s on engine %d: the pool machine predicts another result; the pristine reference agrees with the engine", o.Kind, c01Name(o.N), o.E)}
		}
		if msg := c01HeapCheck(es); msg != "" {
			return &c01Failure{K: k, Kind: "oracle", Expected: "no pooled object reachable from a held template, no object pooled twice", Observed: msg,
				Detail: fmt.Sprintf("heap invariant of Model/Pool.v violated after operation %d (%s) in mode %q", k, o.Kind, mode)}
		}
	}
	for _, kp := range outs {
		if kp.s != kp.first {
			return &c01Failure{AtEnd: true, K: kp.k, Kind: "oracle", Expected: "out:" + hx(kp.first), Observed: "out:" + hx(kp.s),
				Detail: fmt.Sprintf("the string returned by the render at operation %d changed after it was returned (its bytes are shared with a pooled buffer), mode %q", kp.k, mode)}
		}
	}
	return dis
}

func c01Sub(h *c01Hist, keep []bool) *c01Hist {
	s := &c01Hist{Engines: h.Engines, Store: h.Store}
	for i, o := range h.Ops {
		if keep[i] {
			s.Ops = append(s.Ops, o)
		}
	}
	return s
}

// c01Cut drops the operations after the failing one, unless the failure was found at the end of the history.
func c01Cut(h *c01Hist, f *c01Failure) *c01Hist {
	if f.AtEnd || f.K+1 >= len(h.Ops) {
		return h
	}
	return &c01Hist{Engines: h.Engines, Store: h.Store, Ops: h.Ops[:f.K+1]}
}

// c01Shrink: greedy deletion of operations (and of loader templates) while some oracle failure remains.
func c01Shrink(h *c01Hist, mode string, seed int64) (*c01Hist, *c01Failure) {
	fails := func(x *c01Hist) *c01Failure {
		n := 0
		f := c01Run(x, mode, seed, map[int]string{}, false, &n)
		if f != nil && f.Kind == "oracle" {
			return f
		}
		return nil
	}
	cur := h
	best := fails(cur)
	if best == nil {
		return h, nil // not reproducible in isolation: reported unshrunk
	}
	cur = c01Cut(h, best)
	for round := 0; round < 4; round++ {
		changed := false
		for i := len(cur.Ops) - 1; i >= 0; i-- {
			keep := make([]bool, len(cur.Ops))
			for j := range keep {
				keep[j] = j != i
			}
			cand := c01Sub(cur, keep)
			if len(cand.Ops) == 0 {
				continue
			}
			if f := fails(cand); f != nil {
				cur, best, changed = c01Cut(cand, f), f, true
				if i > len(cur.Ops) {
					i = len(cur.Ops)
				}
			}
		}
		for i := len(cur.Store) - 1; i >= 0; i-- {
			cand := &c01Hist{Engines: cur.Engines, Ops: cur.Ops}
			cand.Store = append(append([]c01Op(nil), cur.Store[:i]...), cur.Store[i+1:]...)
			if f := fails(cand); f != nil {
				cur, best, changed = c01Cut(cand, f), f, true
			}
		}
		if !changed {
			break
		}
	}
	return cur, best
}

// c01CaseOf renders a (shrunk) history as a case the runner can replay; predictions are dropped, since they
// belong to the original operation list.
func c01CaseOf(h *c01Hist, stream string) Case {
	var ops []interface{}
	for _, o := range h.Ops {
		m := map[string]interface{}{"op": o.Kind, "k0": o.K0}
		switch o.Kind {
		case "register", "parse":
			m["e"], m["src"], m["text"] = o.E, hx(o.Src), o.Src
			if o.Kind == "register" {
				m["n"] = o.N
			}
		case "load", "render":
			m["e"], m["n"] = o.E, o.N
			if o.Kind == "render" {
				var vs []interface{}
				keys := make([]string, 0, len(o.Vars))
				for k := range o.Vars {
					keys = append(keys, k)
				}
				sort.Strings(keys)
				for _, k := range keys {
					x, _ := strconv.Atoi(strings.TrimPrefix(k, "v"))
					vs = append(vs, []interface{}{x, o.Vars[k]})
				}
				m["vars"] = vs
			}
		case "togglecache":
			m["e"] = o.E
		case "attr":
			m["e"], m["ty"], m["ptr"], m["tpl"] = o.E, o.Ty, o.Ptr, o.Tpl
			m["text"] = c01ObjectTemplates[o.Tpl%len(c01ObjectTemplates)] + fmt.Sprintf("  with a = %T", c01Object(o.Ty, o.Ptr))
		case "flood":
			m["cnt"] = o.Cnt
		}
		ops = append(ops, m)
	}
	var st []interface{}
	for _, s := range h.Store {
		st = append(st, map[string]interface{}{"e": s.E, "n": s.N, "src": hx(s.Src), "text": s.Src})
	}
	return Case{"stream": stream, "engines": h.Engines, "len": len(h.Ops), "nt": true, "store": st, "ops": ops}
}

func runC01(cases string, res *Result) {
	if len(os.Args) > 4 && os.Args[4] == "--pristine" {
		c01PristineMain(cases)
		return
	}
	if len(os.Args) > 4 && os.Args[4] == "--probe" {
		c01ProbeMain(cases)
		return
	}
	// one P: a drain then sees every pooled object (see the hook file)
	runtime.GOMAXPROCS(1)
	dir := "."
	if i := strings.LastIndexByte(cases, '/'); i >= 0 {
		dir = cases[:i]
	}
	res.Notes = append(res.Notes, fmt.Sprintf("pools known to the hooks: %d", len(twig.VerifPoolNames())))
	idx := 0
	strictDiffs, strictRuns, fresh := 0, 0, 0
	c01ManyNames(res)
	c01HeldResults(res)
	c01PoliciesOfTheirOwn(res)
	c01BodiesThatFailHalfway(res)
	c01SettingsSwitchedBackAndForth(res)
	c10ParentsNamedRelatively(cases, res)
	readCases(cases, func(c Case) {
		if c.str("k") == "probes" {
			runC01Probes(c, res, dir)
			return
		}
		idx++
		h := c01Decode(c)
		key, _ := json.Marshal([]interface{}{c["store"], c["ops"], c["engines"]})
		nt, _ := c["nt"].(bool)
		res.count(string(key), nt)
		stream := c.str("stream")
		res.Hist["stream:"+stream]++
		res.Hist["engines:"+strconv.Itoa(h.Engines)]++
		switch l := len(h.Ops); {
		case l <= 10:
			res.Hist["len:3-10"]++
		case l <= 25:
			res.Hist["len:11-25"]++
		default:
			res.Hist["len:26+"]++
		}
		for _, o := range h.Ops {
			res.Hist["op:"+o.Kind]++
			if o.Kind == "attr" {
				if o.Ptr {
					res.Hist["attr:pointer"]++
				} else {
					res.Hist["attr:value"]++
				}
			}
			if o.Kind == "render" {
				switch {
				case strings.HasPrefix(o.Exp, "out:"):
					res.Hist["render:ok"]++
				case strings.HasPrefix(o.Exp, "unmodelled"):
					res.Unmodelled++
				default:
					res.Hist["render:"+o.Exp]++
				}
			}
		}
		if stream == "fixed" {
			res.sample(c, 3)
		} else {
			res.sample(c, 6)
		}
		seed := int64(idx) * 1000
		if v, ok := c["poison_seed"].(float64); ok {
			seed = int64(v) // a replayed case carries the seed it failed with
		}
		refs := map[int]string{}
		report := func(mode string, f *c01Failure) {
			small, sf := h2(&h), f
			if f.Kind == "oracle" {
				if sh, shf := c01Shrink(&h, mode, seed); shf != nil {
					small, sf = sh, shf
				}
			}
			cc := c01CaseOf(small, stream)
			cc["mode"] = mode
			cc["poison_seed"] = seed
			cc["shrunk_from_len"] = len(h.Ops)
			res.add(Finding{Kind: sf.Kind, Where: fmt.Sprintf("history %d, mode %s, op %d", idx, mode, sf.K), Case: cc,
				Expected: sf.Expected, Observed: sf.Observed, Detail: sf.Detail})
		}
		for _, mode := range []string{"plain", "poisoned"} {
			if f := c01Run(&h, mode, seed, refs, true, &res.Evaluations); f != nil {
				report(mode, f)
				return
			}
		}
		// a replayed (shrunk) case says in which mode it failed; modes above cover it
		// fresh-process reference for a sample: the last render of the history
		if stream == "fixed" || idx%8 == 0 {
			for k := len(h.Ops) - 1; k >= 0; k-- {
				if !c01HasResult(h.Ops[k]) || h.Ops[k].Kind == "load" {
					continue
				}
				a, err := c01FreshProcess(&h, k, dir)
				fresh++
				if err != nil {
					res.Notes = append(res.Notes, "fresh-process reference could not run: "+err.Error())
				} else if a != refs[k] {
					res.add(Finding{Kind: "oracle", Where: fmt.Sprintf("history %d, op %d", idx, k), Case: c,
						Expected: a, Observed: refs[k], Detail: "the render in this process differs from the same render in a fresh process"})
				}
				break
			}
		}
		// informational: garbage also where only the release side of the code guarantees cleanliness
		if idx%4 == 0 {
			strictRuns++
			for _, mode := range []string{"strict-fields", "strict-maps"} {
				n := 0
				if f := c01Run(&h, mode, seed, refs, false, &n); f != nil && f.Kind == "oracle" {
					res.Hist[mode+"-histories-differing"]++
					strictDiffs++
					if res.Hist[mode+"-histories-differing"] <= 2 {
						res.Notes = append(res.Notes, fmt.Sprintf("%s poison (not a state the code can produce itself), history %d op %d: expected %s observed %s", mode, idx, f.K, f.Expected, f.Observed))
					}
				}
			}
			// what the strict poison left behind must not reach the histories that follow
			twig.VerifDrainPools()
		}
	})
	res.Hist["fresh-process-references"] = fresh
	res.Hist["strict-poison-histories"] = strictRuns
	_ = strictDiffs
	// a probe of its own for the one release-only field: a plain function call takes its FunctionNode from the pool
	{
		probe := c01Hist{Engines: 1, Ops: []c01Op{
			{Kind: "register", N: 0, Src: "{{ max(1, 2) }}"}, {Kind: "render", K0: 1, N: 0}, {Kind: "render", K0: 2, N: 0}}}
		n := 0
		for _, mode := range []string{"poisoned", "strict-fields"} {
			f := c01Run(&probe, mode, 424242, map[int]string{}, false, &n)
			msg := "same as pristine"
			if f != nil {
				msg = fmt.Sprintf("op %d: expected %s observed %s", f.K, f.Expected, f.Observed)
				if mode == "poisoned" {
					res.add(Finding{Kind: "oracle", Where: "function-call probe, mode poisoned", Case: c01CaseOf(&probe, "probe"),
						Expected: f.Expected, Observed: f.Observed, Detail: f.Detail})
				}
			}
			res.Notes = append(res.Notes, fmt.Sprintf("probe {{ max(1, 2) }} rendered twice, mode %s: %s", mode, msg))
			twig.VerifDrainPools()
		}
	}
	twig.VerifDrainPools()
}

func h2(h *c01Hist) *c01Hist { return h }

// c01ManyNames: an engine that has seen more than a thousand names (registered and loaded) still renders every one
// of them, and what they extend, include and import, as an engine that holds only those templates would.
func c01ManyNames(res *Result) {
	c := Case{"stream": "many-names"}
	res.Hist["stream:many-names"]++
	fail := func(where, want, got string) {
		res.add(Finding{Kind: "oracle", Where: "many-names/" + where, Case: c, Expected: want, Observed: got,
			Detail: "history: layout, footer and lib registered from strings, then 1300 pages served by a loader rendered one after the other, then 1300 more names registered from strings"})
	}
	render := func(e *twig.Engine, name string) string {
		out, err := e.Render(name, map[string]interface{}{"v": "V"})
		if err != nil {
			return "error: " + c01First(err.Error())
		}
		return out
	}
	eng := twig.New()
	eng.RegisterString("layout", "<{% block body %}default{% endblock %}|{% include 'footer' %}>")
	eng.RegisterString("footer", "foot{{ v }}")
	eng.RegisterString("lib", "{% macro m(x) %}[{{ x }}]{% endmacro %}")
	pages := map[string]string{}
	for i := 0; i < 1300; i++ {
		pages[fmt.Sprintf("page_%04d", i)] = fmt.Sprintf("{%% extends 'layout' %%}{%% block body %%}{%% import 'lib' as L %%}p%d{{ L.m(v) }}{%% endblock %%}", i)
	}
	eng.RegisterLoader(twig.NewArrayLoader(pages))
	for i := 0; i < 1300; i++ {
		res.Evaluations++
		name := fmt.Sprintf("page_%04d", i)
		want := fmt.Sprintf("<p%d[V]|footV>", i)
		if got := render(eng, name); got != want {
			fail("page "+name+" (the "+strconv.Itoa(i+1)+"th name of the engine)", want, got)
			return
		}
	}
	for _, name := range []string{"layout", "footer", "page_0000", "page_0999", "page_1299"} {
		res.Evaluations++
		want := map[string]string{"layout": "<default|footV>", "footer": "footV", "page_0000": "<p0[V]|footV>", "page_0999": "<p999[V]|footV>", "page_1299": "<p1299[V]|footV>"}[name]
		if got := render(eng, name); got != want {
			fail("again "+name, want, got)
			return
		}
	}
	e2 := twig.New()
	for i := 0; i < 1300; i++ {
		if err := e2.RegisterString(fmt.Sprintf("s_%04d", i), fmt.Sprintf("s%d{{ v }}", i)); err != nil {
			fail("RegisterString", "no error", err.Error())
			return
		}
	}
	for _, i := range []int{0, 1, 99, 100, 650, 1299} {
		res.Evaluations++
		if got, want := render(e2, fmt.Sprintf("s_%04d", i)), fmt.Sprintf("s%dV", i); got != want {
			fail(fmt.Sprintf("registered name s_%04d after 1300 registrations", i), want, got)
			return
		}
	}
}

// c01HeldResults: what a call returned stays what it was while later calls run: the serialised forms of several
// templates held together, then loaded into another engine; a *Template registered with a second engine, or under a
// second name in another directory, leaves its first registration rendering as before.
func c01HeldResults(res *Result) {
	fail := func(where, want, got, detail string) {
		res.add(Finding{Kind: "oracle", Where: "held-results/" + where, Case: Case{"stream": "held-results", "scenario": where}, Expected: want, Observed: got, Detail: detail})
	}
	res.Hist["stream:held-results"]++
	// (1) serialised forms
	a := twig.New()
	srcs := map[string]string{"one": "first {{ v }} " + strings.Repeat("a", 40), "two": "second {{ v|upper }} " + strings.Repeat("b", 30), "three": "{% for i in [1, 2] %}third{{ i }}{% endfor %}"}
	names := []string{"one", "two", "three"}
	blobs := map[string][]byte{}
	for round := 0; round < 3; round++ {
		for _, n := range names {
			a.RegisterString(n, srcs[n])
			t, err := a.Load(n)
			if err != nil {
				return
			}
			b, err := t.SaveCompiled()
			if err != nil {
				fail("SaveCompiled", "bytes", err.Error(), "")
				return
			}
			blobs[n] = b // kept as returned: no copy
		}
		b2 := twig.New()
		for _, n := range names {
			res.Evaluations++
			if err := b2.LoadFromCompiledData(blobs[n]); err != nil {
				fail("serialised forms of several templates", "loads", "error: "+err.Error(), "three templates serialised one after the other, the results held, then loaded into another engine: "+n)
				return
			}
		}
		for _, n := range names {
			want, _ := a.Render(n, map[string]interface{}{"v": "x"})
			got, err := b2.Render(n, map[string]interface{}{"v": "x"})
			if err != nil {
				got = "error: " + err.Error()
			}
			if got != want {
				fail("serialised forms of several templates", want, got, "the serialised form of "+n+" changed while the forms of the other templates were made")
				return
			}
		}
	}
	// (2) one template object, two engines
	mk := func(tag, mark string) *twig.Engine {
		e := twig.New()
		e.AddGlobal("site", tag)
		e.AddFilter("deco", func(v interface{}, _ ...interface{}) (interface{}, error) { return fmt.Sprint(v) + mark, nil })
		e.RegisterString("footer", "["+tag+" footer]")
		return e
	}
	shop, blog := mk("shop", "!"), mk("blog", "?")
	shop.RegisterString("page", "{{ site }}: {{ 'hello'|upper|deco }} {% include 'footer' %}")
	before, _ := shop.Render("page", map[string]interface{}{})
	if t, err := shop.Load("page"); err == nil {
		blog.RegisterTemplate("page", t)
		blog.Render("page", map[string]interface{}{})
		res.Evaluations++
		after, err := shop.Render("page", map[string]interface{}{})
		if err != nil {
			after = "error: " + err.Error()
		}
		if after != before {
			fail("a template object registered with a second engine", before, after, "the first engine renders the template differently after RegisterTemplate(name, sameObject) on another engine")
		}
	}
	// (2b) the same source text parsed by two engines with ParseTemplate: each gets a template of its own
	const src = "{{ site }}: {{ 'hello'|upper|deco }} {% include 'footer' %}"
	for round := 0; round < 2; round++ {
		e1, e2 := mk("one", "!"), mk("two", "?")
		t1, err1 := e1.ParseTemplate(src)
		t2, err2 := e2.ParseTemplate(src)
		if err1 == nil && err2 == nil {
			res.Evaluations += 2
			o1, _ := t1.Render(map[string]interface{}{})
			o2, _ := t2.Render(map[string]interface{}{})
			if o1 != "one: HELLO! [one footer]" || o2 != "two: HELLO? [two footer]" {
				fail("one source parsed by two engines", "one: HELLO! [one footer] / two: HELLO? [two footer]", o1+" / "+o2,
					"ParseTemplate of the same text on a second engine gives a template that renders with the first engine's globals, filters or templates")
			}
			e3 := twig.New() // an engine that lacks the filter and the footer: the same text must fail there
			if t3, err := e3.ParseTemplate(src); err == nil {
				res.Evaluations++
				if o3, err3 := t3.Render(map[string]interface{}{}); err3 == nil {
					fail("one source parsed by an engine that lacks what it uses", "an error (no filter deco, no template footer)", o3, "")
				}
			}
		}
	}
	// (3) a second name in another directory
	ld := twig.NewArrayLoader(map[string]string{"mail/letter.twig": "Dear {{ v }} {% include './footer.twig' %}", "mail/footer.twig": "-- the mail team", "web/footer.twig": "-- the web site"})
	e3 := twig.New()
	e3.RegisterLoader(ld)
	first, ferr := e3.Render("mail/letter.twig", map[string]interface{}{"v": "x"})
	if t, err := e3.Load("mail/letter.twig"); err == nil && ferr == nil {
		e3.RegisterTemplate("web/letter.twig", t)
		e3.Render("web/letter.twig", map[string]interface{}{"v": "x"})
		res.Evaluations++
		again, err := e3.Render("mail/letter.twig", map[string]interface{}{"v": "x"})
		if err != nil {
			again = "error: " + err.Error()
		}
		if again != first {
			fail("a second name in another directory", first, again, "the first name renders differently after the same template object was registered under a second name")
		}
	}
}
