package main

import (
	"github.com/semihalev/twig"
)

// C20Account / C20Ledger / C20Till are types no other stream looks attributes up on: the first lookup of each
// (type, name) pair of the process happens where the stream says.
type C20Account struct{ owner, token string }

func (a *C20Account) Owner() string { return a.owner }
func (a C20Account) Token() string  { return a.token }
func (a *C20Account) Hits() int     { return 7 }

type C20Ledger struct{ owner, token string }

func (a *C20Ledger) Owner() string { return a.owner }
func (a C20Ledger) Token() string  { return a.token }
func (a *C20Ledger) Hits() int     { return 7 }

type C20Till struct {
	Name         string
	owner, token string
}

func (a *C20Till) Owner() string { return a.owner }
func (a C20Till) Token() string  { return a.token }
func (a *C20Till) Hits() int     { return 7 }

// c20FieldsOnly is a policy with the optional hooks a policy might grow: whatever it answers for sandboxed templates
// is no business of templates rendered outside the sandbox.
type c20FieldsOnly struct{}

func (c20FieldsOnly) IsFunctionAllowed(string) bool                    { return true }
func (c20FieldsOnly) IsFilterAllowed(string) bool                      { return true }
func (c20FieldsOnly) IsTagAllowed(string) bool                         { return true }
func (c20FieldsOnly) IsMethodAllowed(obj interface{}, m string) bool   { return false }
func (c20FieldsOnly) IsPropertyAllowed(obj interface{}, p string) bool { return false }
func (c20FieldsOnly) IsAttributeAllowed(obj interface{}, a string) bool {
	return false
}

// c20AfterSandboxedLookups: the first lookup of a method happens inside a sandboxed include (under a restrictive
// policy); renders outside the sandbox, on this or another engine, get the method's value all the same, and the same
// in the opposite order.
func c20AfterSandboxedLookups(res *Result) {
	const widget = "{{ acct.Owner }}/{{ acct.Token }}/{{ acct.Hits }}"
	const want = "ann/s3cr3t/7"
	type order struct {
		name string
		mk   func() (val, ptr interface{})
	}
	orders := []order{
		{"sandboxed first (pointer), then outside", func() (interface{}, interface{}) { a := &C20Account{"ann", "s3cr3t"}; return *a, a }},
		{"sandboxed first (another type), outside on another engine", func() (interface{}, interface{}) { a := &C20Ledger{"ann", "s3cr3t"}; return *a, a }},
		{"outside first, then sandboxed, then outside", func() (interface{}, interface{}) { a := &C20Till{"till", "ann", "s3cr3t"}; return *a, a }},
	}
	for oi, o := range orders {
		_, ptr := o.mk()
		sb := twig.New()
		sb.EnableSandbox(c20FieldsOnly{})
		sb.RegisterString("widget", widget)
		sb.RegisterString("page", "[{% include 'widget' sandboxed %}]")
		sb.RegisterString("plain", widget)
		out := twig.New()
		out.RegisterString("plain", widget)
		c := Case{"stream": "after-sandboxed-lookups", "order": o.name, "tpl": widget}
		res.Hist["stream:after-sandboxed-lookups"]++
		check := func(where string, e *twig.Engine) bool {
			res.Evaluations++
			got, err := e.Render("plain", map[string]interface{}{"acct": ptr})
			if err != nil {
				got = "error: " + err.Error()
			}
			if got != want {
				res.add(Finding{Kind: "oracle", Where: "after-sandboxed-lookups/" + where, Case: c, Expected: want, Observed: got,
					Detail: "x.Method outside a sandbox is the method's value, whatever was looked up inside a sandbox before (" + o.name + ")"})
				return false
			}
			return true
		}
		if oi == 2 && !check("before anything", out) {
			continue
		}
		sb.Render("page", map[string]interface{}{"acct": ptr}) // whatever the sandbox makes of it
		if !check("same engine, outside the sandbox", sb) {
			continue
		}
		check("another engine", out)
	}
}

// c20AfterPrefixOperators: x.a after not, - and + is the attribute of x, to which the operator is then applied.
func c20AfterPrefixOperators(res *Result) {
	type C20Flags struct {
		Banned bool
		Delta  int
		Rate   float64
		Tags   []string
	}
	ctx := map[string]interface{}{
		"p":   C20Flags{Banned: false, Delta: 5, Rate: 1.5, Tags: []string{"a"}},
		"pp":  &C20Flags{Banned: true, Delta: -3, Rate: -2.5},
		"m":   map[string]interface{}{"banned": false, "delta": 4, "inner": map[string]interface{}{"flag": true, "n": 2}},
		"ms":  map[string]int{"delta": 6},
		"one": 1,
		"acc": &C20Till{"till", "ann", "tok"},
	}
	cases := [][2]string{
		{"{% if not p.Banned %}ok{% else %}banned{% endif %}", "ok"}, {"{% if not pp.Banned %}ok{% else %}banned{% endif %}", "banned"}, {"{% if not m.banned %}ok{% else %}banned{% endif %}", "ok"},
		{"{{ -p.Delta }}", "-5"}, {"{{ -pp.Delta }}", "3"}, {"{{ -m.delta }}", "-4"}, {"{{ -ms.delta }}", "-6"}, {"{{ +p.Delta }}", "5"}, {"{{ one + -pp.Delta }}", "4"}, {"{{ one - -p.Delta }}", "6"},
		{"{{ -p.Rate }}", "-1.5"}, {"{{ -pp.Rate * 2 }}", "5"}, {"{{ not m.inner.flag ? 'off' : 'on' }}", "on"}, {"{{ -m.inner.n }}", "-2"}, {"{{ not p.Tags ? 'none' : 'some' }}", "some"},
		{"{{ not acc.Name ? 'anon' : 'named' }}", "named"}, {"{{ not acc.Owner ? 'nobody' : 'owned' }}", "owned"}, {"{% if not (p.Banned) and not pp.Banned %}a{% else %}b{% endif %}", "b"},
		{"{{ (-p.Delta)|abs }}", "5"}, {"{% set d = -p.Delta %}{{ d }}", "-5"},
		{"{% for i in [1] %}{{ -pp.Delta + i }}{% endfor %}", "4"}, {"{{ not not p.Banned ? 'y' : 'n' }}", "n"}, {"{{ - - p.Delta }}", "5"},
	}
	eng := twig.New()
	for _, tc := range cases {
		res.Evaluations++
		res.Hist["stream:after-prefix-operators"]++
		if err := eng.RegisterString("t", tc[0]); err != nil {
			res.Hist["after-prefix-operators: does not parse"]++
			continue
		}
		got, err := eng.Render("t", ctx)
		if err != nil {
			got = "error: " + err.Error()
		}
		if got != tc[1] {
			res.add(Finding{Kind: "oracle", Where: "after-prefix-operators", Case: Case{"stream": "after-prefix-operators", "tpl": tc[0]}, Expected: tc[1], Observed: got,
				Detail: "the attribute is read from the value the name stands for; the prefix operator applies to what was read"})
		}
	}
}
