package main

import (
	"fmt"

	"github.com/semihalev/twig"
)

// C20Account / C20Ledger / C20Till are types no other stream looks attributes up on: the first lookup of each
// (type, name) pair of the process happens where the stream says.
type C20Account struct{ owner, token string }

func (a *C20Account) Owner() string { return a.owner }
func (a C20Account) Token() string  { return a.token }
func (a *C20Account) Hits() int     { return 7 }

type C20Ledger struct{ owner, token string }

func (a *C20Ledger) Owner() string { return a.owner }
func (a C20Ledger) Token() string  { return a.token }
func (a *C20Ledger) Hits() int     { return 7 }

type C20Till struct {
	Name         string
	owner, token string
}

func (a *C20Till) Owner() string { return a.owner }
func (a C20Till) Token() string  { return a.token }
func (a *C20Till) Hits() int     { return 7 }

// c20FieldsOnly is a policy with the optional hooks a policy might grow: whatever it answers for sandboxed templates
// is no business of templates rendered outside the sandbox.
type c20FieldsOnly struct{}

func (c20FieldsOnly) IsFunctionAllowed(string) bool                    { return true }
func (c20FieldsOnly) IsFilterAllowed(string) bool                      { return true }
func (c20FieldsOnly) IsTagAllowed(string) bool                         { return true }
func (c20FieldsOnly) IsMethodAllowed(obj interface{}, m string) bool   { return false }
func (c20FieldsOnly) IsPropertyAllowed(obj interface{}, p string) bool { return false }
func (c20FieldsOnly) IsAttributeAllowed(obj interface{}, a string) bool {
	return false
}

// c20AfterSandboxedLookups: the first lookup of a method happens inside a sandboxed include (under a restrictive
// policy); renders outside the sandbox, on this or another engine, get the method's value all the same, and the same
// in the opposite order.
func c20AfterSandboxedLookups(res *Result) {
	const widget = "{{ acct.Owner }}/{{ acct.Token }}/{{ acct.Hits }}"
	const want = "ann/s3cr3t/7"
	type order struct {
		name string
		mk   func() (val, ptr interface{})
	}
	orders := []order{
		{"sandboxed first (pointer), then outside", func() (interface{}, interface{}) { a := &C20Account{"ann", "s3cr3t"}; return *a, a }},
		{"sandboxed first (another type), outside on another engine", func() (interface{}, interface{}) { a := &C20Ledger{"ann", "s3cr3t"}; return *a, a }},
		{"outside first, then sandboxed, then outside", func() (interface{}, interface{}) { a := &C20Till{"till", "ann", "s3cr3t"}; return *a, a }},
	}
	for oi, o := range orders {
		_, ptr := o.mk()
		sb := twig.New()
		sb.EnableSandbox(c20FieldsOnly{})
		sb.RegisterString("widget", widget)
		sb.RegisterString("page", "[{% include 'widget' sandboxed %}]")
		sb.RegisterString("plain", widget)
		out := twig.New()
		out.RegisterString("plain", widget)
		c := Case{"stream": "after-sandboxed-lookups", "order": o.name, "tpl": widget}
		res.Hist["stream:after-sandboxed-lookups"]++
		check := func(where string, e *twig.Engine) bool {
			res.Evaluations++
			got, err := e.Render("plain", map[string]interface{}{"acct": ptr})
			if err != nil {
				got = "error: " + err.Error()
			}
			if got != want {
				res.add(Finding{Kind: "oracle", Where: "after-sandboxed-lookups/" + where, Case: c, Expected: want, Observed: got,
					Detail: "x.Method outside a sandbox is the method's value, whatever was looked up inside a sandbox before (" + o.name + ")"})
				return false
			}
			return true
		}
		if oi == 2 && !check("before anything", out) {
			continue
		}
		sb.Render("page", map[string]interface{}{"acct": ptr}) // whatever the sandbox makes of it
		if !check("same engine, outside the sandbox", sb) {
			continue
		}
		check("another engine", out)
	}
}

// c20AfterPrefixOperators: x.a after not, - and + is the attribute of x, to which the operator is then applied.
func c20AfterPrefixOperators(res *Result) {
	type C20Flags struct {
		Banned bool
		Delta  int
		Rate   float64
		Tags   []string
	}
	ctx := map[string]interface{}{
		"p":   C20Flags{Banned: false, Delta: 5, Rate: 1.5, Tags: []string{"a"}},
		"pp":  &C20Flags{Banned: true, Delta: -3, Rate: -2.5},
		"m":   map[string]interface{}{"banned": false, "delta": 4, "inner": map[string]interface{}{"flag": true, "n": 2}},
		"ms":  map[string]int{"delta": 6},
		"one": 1,
		"acc": &C20Till{"till", "ann", "tok"},
	}
	cases := [][2]string{
		{"{% if not p.Banned %}ok{% else %}banned{% endif %}", "ok"}, {"{% if not pp.Banned %}ok{% else %}banned{% endif %}", "banned"}, {"{% if not m.banned %}ok{% else %}banned{% endif %}", "ok"},
		{"{{ -p.Delta }}", "-5"}, {"{{ -pp.Delta }}", "3"}, {"{{ -m.delta }}", "-4"}, {"{{ -ms.delta }}", "-6"}, {"{{ +p.Delta }}", "5"}, {"{{ one + -pp.Delta }}", "4"}, {"{{ one - -p.Delta }}", "6"},
		{"{{ -p.Rate }}", "-1.5"}, {"{{ -pp.Rate * 2 }}", "5"}, {"{{ not m.inner.flag ? 'off' : 'on' }}", "on"}, {"{{ -m.inner.n }}", "-2"}, {"{{ not p.Tags ? 'none' : 'some' }}", "some"},
		{"{{ not acc.Name ? 'anon' : 'named' }}", "named"}, {"{{ not acc.Owner ? 'nobody' : 'owned' }}", "owned"}, {"{% if not (p.Banned) and not pp.Banned %}a{% else %}b{% endif %}", "b"},
		{"{{ (-p.Delta)|abs }}", "5"}, {"{% set d = -p.Delta %}{{ d }}", "-5"},
		{"{% for i in [1] %}{{ -pp.Delta + i }}{% endfor %}", "4"}, {"{{ not not p.Banned ? 'y' : 'n' }}", "n"}, {"{{ - - p.Delta }}", "5"},
	}
	eng := twig.New()
	for _, tc := range cases {
		res.Evaluations++
		res.Hist["stream:after-prefix-operators"]++
		if err := eng.RegisterString("t", tc[0]); err != nil {
			res.Hist["after-prefix-operators: does not parse"]++
			continue
		}
		got, err := eng.Render("t", ctx)
		if err != nil {
			got = "error: " + err.Error()
		}
		if got != tc[1] {
			res.add(Finding{Kind: "oracle", Where: "after-prefix-operators", Case: Case{"stream": "after-prefix-operators", "tpl": tc[0]}, Expected: tc[1], Observed: got,
				Detail: "the attribute is read from the value the name stands for; the prefix operator applies to what was read"})
		}
	}
}

// two types of one shape, so that one can be looked up by a lenient engine first and the other not
type C20ShapeA struct{ Name string }
type C20ShapeB struct{ Name string }
type C20ShapeC struct{ Name string }
type C20ShapeD struct{ Name string }

// c20StrictAndLenientEngines: whatever SetStrictVars(true) makes of a member that does not exist, it makes the same of
// it for a type some other engine looked the member up on before and for a type nobody has looked at.
func c20StrictAndLenientEngines(res *Result) {
	tpls := []string{"[{{ x.Nope }}]", "[{{ x.Nope|default('d') }}]", "[{% if x.Nope %}y{% else %}n{% endif %}]", "[{{ x.Name }}{{ x.nope }}]", "[{{ x.Nope.Deeper }}]"}
	outcome := func(e *twig.Engine, name string, v interface{}) string {
		out, err := e.Render(name, map[string]interface{}{"x": v})
		if err != nil {
			return "error"
		}
		return "out:" + out
	}
	for ti, src := range tpls {
		res.Hist["stream:strict-and-lenient-engines"]++
		lenient := twig.New()
		lenient.RegisterString("t", src)
		strict := twig.New()
		strict.SetStrictVars(true)
		strict.RegisterString("t", src)
		var seen, fresh, seenP, freshP interface{}
		if ti%2 == 0 {
			seen, fresh, seenP, freshP = C20ShapeA{"n"}, C20ShapeB{"n"}, &C20ShapeC{"n"}, &C20ShapeD{"n"}
		} else {
			seen, fresh, seenP, freshP = C20ShapeB{"n"}, C20ShapeA{"n"}, &C20ShapeD{"n"}, &C20ShapeC{"n"}
		}
		outcome(lenient, "t", seen)
		outcome(lenient, "t", seenP)
		res.Evaluations += 4
		a, b := outcome(strict, "t", seen), outcome(strict, "t", fresh)
		ap, bp := outcome(strict, "t", seenP), outcome(strict, "t", freshP)
		c := Case{"stream": "strict-and-lenient-engines", "tpl": src}
		if a != b || ap != bp {
			res.add(Finding{Kind: "oracle", Where: "strict-and-lenient-engines", Case: c, Expected: "the same outcome for two types of one shape: " + b + " / " + bp, Observed: a + " / " + ap,
				Detail: "the first type was looked up by an engine without strict variables before; the answer depends on which types were looked up earlier"})
			continue
		}
		// the same engine, switched to strict after it served a lenient request
		e := twig.New()
		e.RegisterString("t", src)
		type local1 struct{ Name string }
		type local2 struct{ Name string }
		outcome(e, "t", local1{"n"})
		e.SetStrictVars(true)
		if x, y := outcome(e, "t", local1{"n"}), outcome(e, "t", local2{"n"}); x != y {
			res.add(Finding{Kind: "oracle", Where: "strict-and-lenient-engines/switched", Case: c, Expected: y, Observed: x,
				Detail: "one engine, SetStrictVars(true) called after a first render: a type rendered before and a type of the same shape not rendered before"})
		}
	}
}

// C20Sequence hands out 1, 2, 3, ...: every evaluation of x.Next is a call.
type C20Sequence struct{ n int }

func (s *C20Sequence) Next() int { s.n++; return s.n }

type C20Cart struct{ Items []int }

func (c *C20Cart) Total() int {
	t := 0
	for _, i := range c.Items {
		t += i
	}
	return t
}
func (c *C20Cart) Count() int { return len(c.Items) }

// c20MethodsAreCalledEachTime: x.Method on a pointer is the value the method returns now: at every evaluation within a
// render, and in the next render after the caller changed the value the pointer points to.
func c20MethodsAreCalledEachTime(res *Result) {
	e := twig.New()
	e.RegisterString("row", "{{ ids.Next }}")
	e.RegisterString("summary", "{{ cart.Total }}/{{ cart.Count }}")
	cases := []struct{ name, src, want string }{
		{"three reads", "{{ ids.Next }}-{{ ids.Next }}-{{ ids.Next }}", "1-2-3"},
		{"in a loop", "{% for f in ['name', 'mail', 'city'] %}{{ f }}-{{ ids.Next }} {% endfor %}", "name-1 mail-2 city-3 "},
		{"through includes", "{% include 'row' %}{% include 'row' %}{{ ids.Next }}", "123"},
		{"set and condition", "{% set a = ids.Next %}{% if ids.Next == 2 %}two{% endif %}{{ a }}{{ ids.Next }}", "two13"},
	}
	for _, tc := range cases {
		res.Hist["stream:methods-are-called-each-time"]++
		res.Evaluations++
		if e.RegisterString("t", tc.src) != nil {
			continue
		}
		got, err := e.Render("t", map[string]interface{}{"ids": &C20Sequence{}})
		if err != nil {
			got = "error: " + err.Error()
		}
		if got != tc.want {
			res.add(Finding{Kind: "oracle", Where: "methods-are-called-each-time/" + tc.name, Case: Case{"stream": "methods-are-called-each-time", "tpl": tc.src}, Expected: tc.want, Observed: got,
				Detail: "ids is a pointer whose method Next returns 1, 2, 3, ...: each x.Next in the template is the value of a call"})
		}
	}
	// across renders: the caller's cart changes between two renders of one page
	e.RegisterString("page", "{{ cart.Total }}/{{ cart.Count }} {% include 'summary' %}")
	cart := &C20Cart{Items: []int{10}}
	for round := 0; round < 3; round++ {
		for _, items := range [][]int{{10}, {10, 10}, {5, 5, 5}, {}} {
			cart.Items = items
			want := fmt.Sprintf("%d/%d %d/%d", cart.Total(), cart.Count(), cart.Total(), cart.Count())
			res.Evaluations++
			got, err := e.Render("page", map[string]interface{}{"cart": cart})
			if err != nil {
				got = "error: " + err.Error()
			}
			if got != want {
				res.add(Finding{Kind: "oracle", Where: "methods-are-called-each-time/across renders", Case: Case{"stream": "methods-are-called-each-time", "tpl": "{{ cart.Total }}/{{ cart.Count }} {% include 'summary' %}", "items": fmt.Sprint(items)},
					Expected: want, Observed: got, Detail: "the same *Cart is handed to successive renders; its items changed in between"})
				return
			}
		}
	}
}
