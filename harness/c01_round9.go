package main

import (
	"errors"
	"fmt"
	"io"
	"runtime/debug"
	"strings"

	"github.com/semihalev/twig"
)

// c01PoliciesOfTheirOwn: an engine that edits the default policy it was given changes nothing for another engine
// that asked for a default policy of its own, nor for one created afterwards.
func c01PoliciesOfTheirOwn(res *Result) {
	res.Hist["stream:policies-of-their-own"]++
	fail := func(where, want, got, detail string) {
		res.add(Finding{Kind: "oracle", Where: "policies/" + where, Case: Case{"stream": "policies-of-their-own", "scenario": where}, Expected: want, Observed: got, Detail: detail})
	}
	parts := map[string]string{
		"upper":     "{{ v|upper }}",
		"striptags": "{{ v|striptags }}",
		"range":     "{% for i in range(1, 3) %}{{ i }}{% endfor %}",
		"iftag":     "{% if v %}yes{% endif %}",
		"apply":     "{% apply upper %}{{ v }}{% endapply %}",
		"maxfn":     "{{ max(1, 2) }}",
	}
	names := []string{"upper", "striptags", "range", "iftag", "apply", "maxfn"}
	mk := func() (*twig.Engine, *twig.DefaultSecurityPolicy) {
		e := twig.New()
		p := twig.NewDefaultSecurityPolicy()
		e.EnableSandbox(p)
		for _, n := range names {
			e.RegisterString("part-"+n, parts[n])
			e.RegisterString("page-"+n, "[{% include 'part-"+n+"' sandboxed %}]")
		}
		return e, p
	}
	obs := func(e *twig.Engine) map[string]string {
		m := map[string]string{}
		for _, n := range names {
			res.Evaluations++
			out, err := e.Render("page-"+n, map[string]interface{}{"v": "<b>x</b>"})
			m[n] = c01Class(out, err) + ":" + out
		}
		return m
	}
	a, pa := mk()
	b, _ := mk()
	before := obs(b)
	obs(a)
	// engine a's owner tightens and loosens a's policy in place
	pa.AllowedFilters["upper"] = false
	pa.AllowedFilters["striptags"] = true
	pa.AllowedFunctions["range"] = false
	delete(pa.AllowedFunctions, "max")
	pa.AllowedTags["if"] = false
	pa.AllowedTags["apply"] = true
	obs(a)
	after := obs(b)
	c, _ := mk()
	later := obs(c)
	for _, n := range names {
		if after[n] != before[n] {
			fail("another engine's policy edited in place", before[n], after[n], "engine B (own NewDefaultSecurityPolicy) renders "+parts[n]+" through a sandboxed include differently after engine A's policy maps were edited")
		}
		if later[n] != before[n] {
			fail("an engine created after another's policy was edited", before[n], later[n], "a new engine with a new default policy renders "+parts[n]+" through a sandboxed include differently from the first one")
		}
	}
}

// c01BodiesThatFailHalfway: a construct whose body wrote something and then failed leaves nothing behind for the next
// render of a construct of the same kind, on this or another engine.
func c01BodiesThatFailHalfway(res *Result) {
	res.Hist["stream:bodies-that-fail-halfway"]++
	fail := func(where, want, got, detail string) {
		res.add(Finding{Kind: "oracle", Where: "failed-bodies/" + where, Case: Case{"stream": "bodies-that-fail-halfway", "scenario": where}, Expected: want, Observed: got, Detail: detail})
	}
	old := debug.SetGCPercent(-1) // pooled objects stay where a failed render left them
	defer debug.SetGCPercent(old)
	wraps := [][3]string{
		{"spaceless", "{% spaceless %}", "{% endspaceless %}"},
		{"apply", "{% apply upper %}", "{% endapply %}"},
		{"apply-spaceless", "{% apply spaceless %}", "{% endapply %}"},
		{"block", "{% block b %}", "{% endblock %}"},
		{"for", "{% for q in [1] %}", "{% endfor %}"},
		{"if", "{% if true %}", "{% endif %}"},
		{"setcapture", "{% set cap %}", "{% endset %}{{ cap }}"},
		{"autoescape", "{% autoescape %}", "{% endautoescape %}"},
		{"nested", "{% spaceless %}{% apply lower %}{% for q in [1, 2] %}", "{% endfor %}{% endapply %}{% endspaceless %}"},
	}
	boom := errors.New("boom")
	mk := func() *twig.Engine {
		e := twig.New()
		e.AddFunction("boom", func(args ...interface{}) (interface{}, error) { return nil, boom })
		return e
	}
	ctx := func() map[string]interface{} {
		return map[string]interface{}{"v": "Val", "items": []interface{}{"a", "b"}}
	}
	failing := []string{"{{ boom() }}", "{{ v|nosuchfilter }}", "{% include 'absent-part' %}"}
	for _, w := range wraps {
		good := "<p> start </p>  <i> " + w[1] + "<a> LEFT-{{ v }} </a>   <b> {{ items|join('-') }} </b>" + w[2] + " </i> end"
		e := mk()
		if err := e.RegisterString("good", good); err != nil {
			continue // a construct this version does not know
		}
		want, err := e.Render("good", ctx())
		if err != nil {
			continue
		}
		for fi, f := range failing {
			bad := "<p> start </p>  <i> " + w[1] + "<a> PARTIAL-{{ v }} </a>   <b> " + f + " </b>" + w[2] + " </i> end"
			if err := e.RegisterString(fmt.Sprintf("bad%d", fi), bad); err != nil {
				continue
			}
			for rep := 0; rep < 3; rep++ {
				res.Evaluations++
				if out, err := e.Render(fmt.Sprintf("bad%d", fi), ctx()); err == nil {
					_ = out // whether this one fails is C17's business
					continue
				}
				got, err := e.Render("good", ctx())
				if err != nil {
					got = "error: " + err.Error()
				}
				if got != want {
					fail(w[0]+" after a body that failed", want, got, "the same engine renders the good template differently after "+bad+" failed")
					break
				}
				// the same through RenderTo, and through the template handles
				var sink, sb strings.Builder
				e.RenderTo(&sink, fmt.Sprintf("bad%d", fi), ctx())
				if t, lerr := e.Load(fmt.Sprintf("bad%d", fi)); lerr == nil {
					t.Render(ctx())
					t.RenderTo(&sink, ctx())
				}
				err = e.RenderTo(&sb, "good", ctx())
				got = sb.String()
				if err != nil {
					got = "error: " + err.Error()
				}
				if got != want {
					fail(w[0]+" through RenderTo after a RenderTo that failed", want, got, "the same engine writes something else for the good template after RenderTo of "+bad+" failed")
					break
				}
				if t, lerr := e.Load("good"); lerr == nil {
					sb.Reset()
					err = t.RenderTo(&sb, ctx())
					got = sb.String()
					if err != nil {
						got = "error: " + err.Error()
					}
					if got != want {
						fail(w[0]+" through Template.RenderTo after renders that failed", want, got, "")
						break
					}
				}
				o := mk()
				o.RegisterString("good", good)
				sb.Reset()
				if oerr := o.RenderTo(&sb, "good", ctx()); oerr != nil || sb.String() != want {
					fail(w[0]+" on another engine through RenderTo after renders that failed", want, sb.String(), "a new engine writes something else for the good template after "+bad+" failed elsewhere")
					break
				}
				got, err = o.Render("good", ctx())
				if err != nil {
					got = "error: " + err.Error()
				}
				if got != want {
					fail(w[0]+" on another engine after a body that failed", want, got, "a new engine renders the good template differently after "+bad+" failed elsewhere")
					break
				}
			}
		}
	}
}

// c01SettingsSwitchedBackAndForth: an engine whose settings were switched off and on again renders what a new engine
// with the same registrations and the same final settings renders: directly registered templates, loader templates,
// compiled ones, and pages that include / extend / import them.
func c01SettingsSwitchedBackAndForth(res *Result) {
	res.Hist["stream:settings-switched-back-and-forth"]++
	fail := func(where, want, got, detail string) {
		res.add(Finding{Kind: "oracle", Where: "settings-switched/" + where, Case: Case{"stream": "settings-switched-back-and-forth", "scenario": where}, Expected: want, Observed: got, Detail: detail})
	}
	build := func() *twig.Engine {
		e := twig.New()
		e.RegisterLoader(twig.NewArrayLoader(map[string]string{"page": "{% extends 'layout' %}{% block body %}{% include 'footer' %}{% import 'lib' as l %}{{ l.m(v) }}{% endblock %}", "layout": "<{% block body %}{% endblock %}>"}))
		e.RegisterString("footer", "[footer {{ v }}]")
		e.RegisterString("lib", "{% macro m(x) %}({{ x }}){% endmacro %}")
		if t, err := e.ParseTemplate("parsed {{ v }}"); err == nil {
			e.RegisterTemplate("parsed", t)
		}
		o := twig.New()
		o.RegisterString("compiled", "compiled {{ v }}")
		if ct, err := o.CompileTemplate("compiled"); err == nil {
			e.RegisterCompiledTemplate(ct)
		}
		return e
	}
	names := []string{"page", "footer", "parsed", "compiled", "lib"}
	obs := func(e *twig.Engine) string {
		s := ""
		for _, n := range names {
			out, err := e.Render(n, map[string]interface{}{"v": "V"})
			s += n + "=" + c01Class(out, err) + ":" + out + ";"
		}
		return s
	}
	want := obs(build())
	toggles := []struct {
		name string
		do   func(e *twig.Engine)
	}{
		{"SetCache(false); SetCache(true)", func(e *twig.Engine) { e.SetCache(false); e.SetCache(true) }},
		{"SetCache(false); render; SetCache(true)", func(e *twig.Engine) { e.SetCache(false); obs(e); e.SetCache(true) }},
		{"SetDevelopmentMode(true); SetDevelopmentMode(false)", func(e *twig.Engine) {
			twig.SetDebugWriter(io.Discard)
			e.SetDevelopmentMode(true)
			obs(e)
			e.SetDevelopmentMode(false)
			twig.SetDebugLevel(twig.DebugOff)
		}},
		{"SetAutoReload(true); SetAutoReload(false)", func(e *twig.Engine) { e.SetAutoReload(true); obs(e); e.SetAutoReload(false) }},
		{"SetDebug(true); SetDebug(false)", func(e *twig.Engine) {
			twig.SetDebugWriter(io.Discard)
			e.SetDebug(true)
			obs(e)
			e.SetDebug(false)
			twig.SetDebugLevel(twig.DebugOff)
		}},
		{"SetCache(true) twice", func(e *twig.Engine) { e.SetCache(true); e.SetCache(true) }},
		{"SetStrictVars(true); SetStrictVars(false)", func(e *twig.Engine) { e.SetStrictVars(true); e.SetStrictVars(false) }},
		{"EnableSandbox; DisableSandbox", func(e *twig.Engine) { e.EnableSandbox(twig.NewDefaultSecurityPolicy()); e.DisableSandbox() }},
	}
	for _, tg := range toggles {
		for _, renderedBefore := range []bool{false, true} {
			e := build()
			if renderedBefore {
				obs(e)
			}
			tg.do(e)
			res.Evaluations += len(names)
			if got := obs(e); got != want {
				fail(tg.name, want, got, fmt.Sprintf("rendered before the switches: %v; a new engine with the same registrations renders the expected output", renderedBefore))
				break
			}
		}
	}
}
