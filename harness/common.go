// Correspondence runner (DESIGN.md 2.5): executes the real implementation on the cases written by
// the OCaml driver and reports where the projected observables differ from the model's prediction,
// and where the property's own oracle fails.
package main

import (
	"bufio"
	"crypto/sha1"
	"encoding/hex"
	"encoding/json"
	"fmt"
	"os"
	"sort"
)

type Case map[string]interface{}

func (c Case) str(k string) string {
	if v, ok := c[k].(string); ok {
		return v
	}
	return ""
}
func (c Case) hexs(k string) string {
	b, err := hex.DecodeString(c.str(k))
	if err != nil {
		panic(fmt.Sprintf("bad hex in field %s: %v", k, err))
	}
	return string(b)
}
func (c Case) num(k string) int {
	if v, ok := c[k].(float64); ok {
		return int(v)
	}
	return 0
}
func (c Case) list(k string) []interface{} {
	if v, ok := c[k].([]interface{}); ok {
		return v
	}
	return nil
}

func hx(s string) string { return hex.EncodeToString([]byte(s)) }

func unhex(s string) string {
	b, err := hex.DecodeString(s)
	if err != nil {
		panic("bad hex: " + s)
	}
	return string(b)
}

// Finding is one disagreement (model vs implementation) or one failure of the property's oracle.
type Finding struct {
	Kind     string      `json:"kind"` // "disagreement" | "oracle"
	Where    string      `json:"where"`
	Case     interface{} `json:"case"`
	Expected string      `json:"expected,omitempty"`
	Observed string      `json:"observed,omitempty"`
	Detail   string      `json:"detail,omitempty"`
	Known    string      `json:"known,omitempty"` // class key of a listed known finding, if attributed
}

type Result struct {
	Property      string         `json:"property"`
	Evaluations   int            `json:"evaluations"`
	Cases         int            `json:"cases"`
	Distinct      int            `json:"distinct"`
	Nontrivial    int            `json:"distinct_nontrivial"`
	Unmodelled    int            `json:"unmodelled"`
	Disagreements int            `json:"disagreements"`
	OracleFails   int            `json:"oracle_failures"`
	KnownHits     int            `json:"known_finding_hits"`
	Findings      []Finding      `json:"findings"`
	Samples       []interface{}  `json:"samples"`
	Hist          map[string]int `json:"hist"`
	Exhaustive    []string       `json:"exhaustive_streams,omitempty"`
	Notes         []string       `json:"notes,omitempty"`
	seen          map[[20]byte]bool
	ntseen        map[[20]byte]bool
}

func newResult(id string) *Result {
	return &Result{Property: id, Hist: map[string]int{}, seen: map[[20]byte]bool{}, ntseen: map[[20]byte]bool{}}
}

// count registers one case: key identifies it for distinctness, nontrivial by the property's rule.
func (r *Result) count(key string, nontrivial bool) {
	r.Cases++
	h := sha1.Sum([]byte(key))
	if !r.seen[h] {
		r.seen[h] = true
		r.Distinct++
	}
	if nontrivial && !r.ntseen[h] {
		r.ntseen[h] = true
		r.Nontrivial++
	}
}

func (r *Result) add(f Finding) {
	switch f.Kind {
	case "oracle":
		r.OracleFails++
	case "known":
		r.KnownHits++
		for _, g := range r.Findings {
			if g.Kind == "known" && g.Known == f.Known {
				return // one representative per class is enough
			}
		}
	default:
		r.Disagreements++
	}
	// oracle failures first, keep the smallest few of each kind
	// keep a bounded number of each kind, so that oracle failures are never crowded out by disagreements
	n := 0
	for _, g := range r.Findings {
		if g.Kind == f.Kind {
			n++
		}
	}
	if n < 25 || f.Kind == "known" {
		r.Findings = append(r.Findings, f)
	}
}

func (r *Result) sample(c interface{}, max int) {
	if len(r.Samples) < max {
		r.Samples = append(r.Samples, c)
	}
}

func (r *Result) write(path string) {
	sort.SliceStable(r.Findings, func(i, j int) bool { return r.Findings[i].Kind > r.Findings[j].Kind })
	if r.Findings == nil {
		r.Findings = []Finding{}
	}
	b, _ := json.MarshalIndent(r, "", " ")
	if err := os.WriteFile(path, b, 0o644); err != nil {
		fmt.Fprintln(os.Stderr, "runner:", err)
		os.Exit(2)
	}
}

func readCases(path string, f func(Case)) {
	fh, err := os.Open(path)
	if err != nil {
		fmt.Fprintln(os.Stderr, "runner:", err)
		os.Exit(2)
	}
	defer fh.Close()
	sc := bufio.NewScanner(fh)
	sc.Buffer(make([]byte, 1<<20), 1<<28)
	for sc.Scan() {
		line := sc.Bytes()
		if len(line) == 0 {
			continue
		}
		var c Case
		if err := json.Unmarshal(line, &c); err != nil {
			fmt.Fprintln(os.Stderr, "runner: bad case line:", err)
			os.Exit(2)
		}
		f(c)
	}
}
