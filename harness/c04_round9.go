package main

import (
	"fmt"
	"runtime/debug"

	"github.com/semihalev/twig"
)

// c04AfterTemplatesThatDoNotParse: a template parsed after one that was refused has all of its literal text, from
// its first byte: through a loader on the same engine, through RegisterString, and through one Parser value.
func c04AfterTemplatesThatDoNotParse(res *Result) {
	old := debug.SetGCPercent(-1)
	defer debug.SetGCPercent(old)
	bads := []string{"lead {{ }} tail", "lead {{ 1 + }} tail", "lead text {% if a %}x{% endfor %} tail", "aa {# c #} bb {% nosuchtag %} cc", "{{ a }}{{ b }}{{ c }}{{ }}",
		"one {% for i in %}x{% endfor %}", "{% if a %}never closed", "text {% endif %}", "a {{ (1 + 2 }} b", "{% set %}", "x {{ a b }} y", "{% block a %}{% block a %}{% endblock %}{% endblock %}{{ }}"}
	goods := []struct{ src, want string }{
		{"First literal text, {# a comment #}then {{ v }} and the rest.", "First literal text, then V and the rest."},
		{"{# leading comment #}Lead{{ v }}", "LeadV"},
		{"{{ v }} starts with a print tag, then text", "V starts with a print tag, then text"},
		{"plain text only, no tag at all", "plain text only, no tag at all"},
		{"a{% if v %}b{% endif %}c{% for i in [1, 2] %}d{% endfor %}e", "abcdde"},
	}
	fail := func(where, bad, good, want, got string) {
		res.add(Finding{Kind: "oracle", Where: "after-templates-that-do-not-parse/" + where, Case: Case{"stream": "after-templates-that-do-not-parse", "refused first": bad, "src": good},
			Expected: want, Observed: got, Detail: "the literal text of a template is all there, whatever was refused before it (" + where + ")"})
	}
	for bi, bad := range bads {
		for gi, g := range goods {
			res.Hist["stream:after-templates-that-do-not-parse"]++
			// (1) a loader serves both
			ld := twig.NewArrayLoader(map[string]string{"bad": bad, "good": g.src, "page": bad})
			eng := twig.New()
			eng.RegisterLoader(ld)
			if _, err := eng.Render("bad", nil); err == nil {
				continue // this one parses after all
			}
			res.Evaluations++
			got, err := eng.Render("good", map[string]interface{}{"v": "V"})
			if err != nil {
				got = "error: " + err.Error()
			}
			if got != g.want {
				fail("a loader's templates", bad, g.src, g.want, got)
				return
			}
			// (2) the refused template is repaired in the loader and loaded again
			eng.Render("page", nil)
			ld.SetTemplate("page", g.src)
			res.Evaluations++
			got, err = eng.Render("page", map[string]interface{}{"v": "V"})
			if err != nil {
				got = "error: " + err.Error()
			}
			if got != g.want {
				fail("a loader's template, repaired", bad, g.src, g.want, got)
				return
			}
			// (3) RegisterString on one engine
			e2 := twig.New()
			e2.RegisterString("bad", bad)
			if e2.RegisterString("good", g.src) == nil {
				res.Evaluations++
				got, err = e2.Render("good", map[string]interface{}{"v": "V"})
				if err != nil {
					got = "error: " + err.Error()
				}
				if got != g.want {
					fail("RegisterString", bad, g.src, g.want, got)
					return
				}
			}
			// (4) one Parser value
			if (bi+gi)%2 == 0 {
				p := &twig.Parser{}
				p.Parse(bad)
				node, err := p.Parse(g.src)
				res.Evaluations++
				if err != nil {
					fail("one Parser value", bad, g.src, "parses", "error: "+err.Error())
					return
				}
				e3 := twig.New()
				t := e3.NewTemplate("t", g.src, node)
				got, err = t.Render(map[string]interface{}{"v": "V"})
				if err != nil {
					got = "error: " + err.Error()
				}
				if got != g.want {
					fail("one Parser value", bad, g.src, g.want, got)
					return
				}
			}
		}
	}
}

// c04TemplatesStillHeld: a template object somebody still holds (a handle from Load, a second name) renders its own
// text after its name was given to another template, and after other templates were parsed.
func c04TemplatesStillHeld(res *Result) {
	old := debug.SetGCPercent(-1)
	defer debug.SetGCPercent(old)
	const first, second, third = "First text {{ v }} of the first template.", "Second {{ v }}, other text.", "{% for i in [1, 2] %}third{{ i }} {% endfor %}elsewhere"
	const wantFirst = "First text V of the first template."
	fail := func(where, want, got string) {
		res.add(Finding{Kind: "oracle", Where: "templates-still-held/" + where, Case: Case{"stream": "templates-still-held", "scenario": where, "src": first}, Expected: want, Observed: got,
			Detail: "a template that is still reachable renders its own literal text"})
	}
	ctx := func() map[string]interface{} { return map[string]interface{}{"v": "V"} }
	elsewhere := func() {
		o := twig.New()
		o.RegisterString("x", third)
		o.Render("x", ctx())
	}
	check := func(where string, f func() (string, error)) bool {
		for i := 0; i < 3; i++ {
			res.Evaluations++
			var got string
			var err error
			if !c08WithTimeout(10e9, func() { got, err = f() }) {
				fail(where, wantFirst, "no answer within 10 s")
				return false
			}
			if err != nil {
				got = "error: " + err.Error()
			}
			if got != wantFirst {
				fail(fmt.Sprintf("%s (render %d)", where, i+1), wantFirst, got)
				return false
			}
			elsewhere()
		}
		return true
	}
	res.Hist["stream:templates-still-held"]++
	// a handle from Load, the name re-registered
	for _, route := range []string{"RegisterString", "loader"} {
		e := twig.New()
		if route == "loader" {
			e.RegisterLoader(twig.NewArrayLoader(map[string]string{"page": first}))
		} else {
			e.RegisterString("page", first)
		}
		h, err := e.Load("page")
		if err != nil {
			continue
		}
		e.RegisterString("page", second)
		if !check("a handle from Load ("+route+"), the name registered again", func() (string, error) { return h.Render(ctx()) }) {
			return
		}
		if got, _ := e.Render("page", ctx()); got != "Second V, other text." {
			fail("the name registered again", "Second V, other text.", got)
			return
		}
	}
	// a second name, the first name re-registered
	e := twig.New()
	e.RegisterString("page", first)
	if h, err := e.Load("page"); err == nil {
		e.RegisterTemplate("alias", h)
		e.RegisterString("page", second)
		if !check("a second name, the first registered again", func() (string, error) { return e.Render("alias", ctx()) }) {
			return
		}
	}
	// the same object registered again under its name
	e = twig.New()
	e.RegisterString("page", first)
	if h, err := e.Load("page"); err == nil {
		e.RegisterTemplate("page", h)
		e.RegisterTemplate("page", h)
		if !check("the same object registered again under its name", func() (string, error) { return e.Render("page", ctx()) }) {
			return
		}
	}
	// a parsed template registered, replaced, still held
	e = twig.New()
	if t, err := e.ParseTemplate(first); err == nil {
		e.RegisterTemplate("page", t)
		e.RegisterString("page", second)
		check("a parsed template, its name given to another", func() (string, error) { return t.Render(ctx()) })
	}
}
