package main

import (
	"errors"
	"fmt"
	"os"
	"path/filepath"
	"regexp"
	"sort"
	"strconv"
	"strings"

	"github.com/semihalev/twig"
)

func init() { runners["C11"] = runC11 }

// C11: an include renders in the right scope and never changes the includer's state.
//
// Every case (ocaml/c11.ml) is a chain of templates main -> t1 -> ... each hosting one include of the next, and
// carries
//
//	spec    the output / error class predicted by Spec/IncludeSpec.v c11_render_template (the reference)
//	exp     the prediction of the faithful model Model/Eval.v
//	checks  by construction, independent of both: per view region <I<k>|...|> the marker values it must and must
//	        not contain; expect_regions: the regions of a successful rendering; oclass: the error class
//
// Oracles of the property itself (model independent), evaluated on the engine's output:
//
//	O1  every probe <P<k>a|...|> printed before an include equals the probe <P<k>b|...|> printed after it
//	    (variables, loop.index, the includer's macro, a block), occurrence by occurrence
//	O2  a view contains every marker the included template must be able to read and none it must not
//	    (only hides the includer's variables; with adds / overrides; with values computed in the includer)
//	O3  the error class is the one the construction gives: ignore missing on a missing named template is empty
//	    output and no error, a not-found raised inside an existing included template is an error, every other
//	    failure is reported; a successful rendering shows every expected region
//
// A failure of an oracle is a failing input of the property ("oracle"). An output that passes the oracles but is
// not the specification's is a "disagreement" (with the reference specification: also a failing input), and so is
// a case on which the faithful model and the specification differ. Cases tagged regress=sandboxed-inherits and the
// stream c11-regress exercise the defect repaired by 7d45909 (sandboxed without only copied only the own map of
// the includer).
// Stream c11-loader: templates come from an ArrayLoader and one of them does not parse (no model prediction).

var (
	c11ProbeRe = regexp.MustCompile(`(?s)<P(\d+)([ab])\|(.*?)\|>`)
	c11ViewRe  = regexp.MustCompile(`(?s)<I(\d+)\|(.*?)\|>`)
	c11OnlyRe  = regexp.MustCompile(`\{%-?\s*include\b[^%]*\bonly\b`)
)

// c11Oracles returns "" when the three oracles hold on (out, class), else what fails.
func c11Oracles(c Case, out, class string) string {
	want := c.str("oclass")
	if want != "" {
		ok := class == want
		if want == "parse" {
			ok = class == "parse" || class == "other" // reported as a failure; the text is not compared
		}
		if !ok {
			return fmt.Sprintf("O3 error class: the construction gives %q, the engine %q", want, class)
		}
	}
	if class != "none" {
		return ""
	}
	if oo, ok := c["oout"].(string); ok && oo != "" {
		if unhex(oo) != out {
			return fmt.Sprintf("O3 output: the construction gives %q, the engine %q", unhex(oo), out)
		}
	}
	// O1
	type pair struct{ a, b []string }
	probes := map[string]*pair{}
	for _, m := range c11ProbeRe.FindAllStringSubmatch(out, -1) {
		p := probes[m[1]]
		if p == nil {
			p = &pair{}
			probes[m[1]] = p
		}
		if m[2] == "a" {
			p.a = append(p.a, m[3])
		} else {
			p.b = append(p.b, m[3])
		}
	}
	ids := make([]string, 0, len(probes))
	for id := range probes {
		ids = append(ids, id)
	}
	sort.Strings(ids)
	for _, id := range ids {
		p := probes[id]
		if len(p.a) != len(p.b) {
			return fmt.Sprintf("O1 probe %s: %d before, %d after", id, len(p.a), len(p.b))
		}
		for i := range p.a {
			if p.a[i] != p.b[i] {
				return fmt.Sprintf("O1 probe %s occurrence %d: before the include %q, after it %q", id, i+1, p.a[i], p.b[i])
			}
		}
	}
	// O2
	views := map[string][]string{}
	for _, m := range c11ViewRe.FindAllStringSubmatch(out, -1) {
		views["I"+m[1]] = append(views["I"+m[1]], m[2])
	}
	seen := map[string]bool{}
	for id := range views {
		seen[id] = true
	}
	for id, p := range probes {
		if len(p.a) > 0 {
			seen["P"+id+"a"] = true
		}
		if len(p.b) > 0 {
			seen["P"+id+"b"] = true
		}
	}
	for _, r := range c.list("expect_regions") {
		if s, _ := r.(string); s != "" && !seen[s] {
			return fmt.Sprintf("O3 region %s is missing from a successful rendering", s)
		}
	}
	for _, ch := range c.list("checks") {
		m, _ := ch.(map[string]interface{})
		region, _ := m["region"].(string)
		for i, v := range views[region] {
			if must, ok := m["must"].([]interface{}); ok {
				for _, x := range must {
					if s, _ := x.(string); s != "" && !strings.Contains(v, s) {
						return fmt.Sprintf("O2 view %s occurrence %d does not show %s (readable there by the property): %q", region, i+1, s, v)
					}
				}
			}
			if mustnot, ok := m["mustnot"].([]interface{}); ok {
				for _, x := range mustnot {
					if s, _ := x.(string); s != "" && strings.Contains(v, s) {
						return fmt.Sprintf("O2 view %s occurrence %d shows %s (hidden there by the property): %q", region, i+1, s, v)
					}
				}
			}
		}
	}
	return ""
}

// c11RunLoader renders main with the templates served by an ArrayLoader.
func c11RunLoader(c Case) (out, class, detail string) {
	defer func() {
		if r := recover(); r != nil {
			out, class, detail = "", "panic", fmt.Sprint(r)
		}
	}()
	eng := twig.New()
	eng.EnableSandbox(&twig.DefaultSecurityPolicy{AllowedFunctions: map[string]bool{}, AllowedFilters: map[string]bool{}, AllowedTags: map[string]bool{}})
	srcs := map[string]string{}
	for _, tp := range c.list("loader") {
		t, _ := tp.([]interface{})
		if len(t) == 2 {
			n, _ := t[0].(string)
			s, _ := t[1].(string)
			srcs[unhex(n)] = unhex(s)
		}
	}
	eng.RegisterLoader(twig.NewArrayLoader(srcs))
	o, err := eng.Render(c.str("main"), map[string]interface{}{})
	if err != nil {
		return "", classifyError(err), err.Error()
	}
	return o, "none", ""
}

// c11RunCase is runEvalCase with the function tick() counting the template renderings of the case: more than any
// generated case needs fails the rendering (templates that include each other without end under a changed engine
// are reported with their input instead of exhausting the stack).
func c11RunCase(c Case) (out string, errClass string, spyCounts map[string]int, detail string) {
	return c11RunCaseWith(c, false)
}

// withGlobals: every variable of the render context also exists as an engine global with another value. A global is
// a default for names the templates do not have: the including template's variable (and the render context's)
// must hide it in the included templates as well, so the output must not change.
func c11RunCaseWith(c Case, withGlobals bool) (out string, errClass string, spyCounts map[string]int, detail string) {
	ee := newEvalEngine(c)
	if !ee.regOK {
		return "", "parse", ee.spy, ee.regEr
	}
	if withGlobals {
		for k := range parseContext(c.str("ctx")) {
			ee.eng.AddGlobal(k, "GLOBAL-"+k)
		}
	}
	ticks := 0
	ee.eng.AddFunction("tick", func(args ...interface{}) (interface{}, error) {
		ee.spy["function:tick"]++
		ticks++
		if ticks > 400 {
			return nil, errors.New("c11: runaway rendering (more than 400 template renderings in one case)")
		}
		return "", nil
	})
	out, errClass, detail = ee.render(c.str("main"), parseContext(c.str("ctx")))
	return out, errClass, ee.spy, detail
}

// c11Replaced: an include renders the template the name stands for at that point -- also when that template was
// registered again, by any of the registration calls, between two renders of the same including template.
func c11Replaced(res *Result) {
	forms := []struct{ name, main string }{
		{"plain", "a[{% include 'part' %}]b"},
		{"computed-name", "a[{% include 'pa' ~ 'rt' %}]b"},
		{"with-only", "a[{% include 'part' with {'v': 1} only %}]b"},
		{"with", "a[{% include 'part' with {'v': 2} %}]b"},
		{"ignore-missing", "a[{% include 'part' ignore missing %}]b"},
		{"loop", "a{% for i in [1, 2] %}[{% include 'part' %}]{% endfor %}b"},
		{"block", "a{% block x %}[{% include 'part' %}]{% endblock %}b"},
		{"through-include", "a{% include 'mid' %}b"},
		{"computed-name-double-quotes", "a[{% include \"pa\" ~ \"rt\" %}]b"},
		{"computed-name-three-parts", "{% set m = 'ar' %}a[{% include 'p' ~ m ~ 't' %}]b"},
		{"computed-name-with", "a[{% include 'pa' ~ 'rt' with {'v': 2} %}]b"},
		{"conditional-name", "a[{% include true ? 'part' : 'nothere' %}]b"},
	}
	type reg struct {
		name string
		do   func(e *twig.Engine, src string) error
	}
	regs := []reg{
		{"RegisterString", func(e *twig.Engine, src string) error { return e.RegisterString("part", src) }},
		{"RegisterTemplate", func(e *twig.Engine, src string) error {
			t, err := e.ParseTemplate(src)
			if err != nil {
				return err
			}
			e.RegisterTemplate("part", t)
			return nil
		}},
		{"LoadFromCompiledData", func(e *twig.Engine, src string) error {
			o := twig.New()
			if err := o.RegisterString("part", src); err != nil {
				return err
			}
			ct, err := o.CompileTemplate("part")
			if err != nil {
				return err
			}
			data, err := twig.SerializeCompiledTemplate(ct)
			if err != nil {
				return err
			}
			return e.LoadFromCompiledData(data)
		}},
		{"RegisterCompiledTemplate", func(e *twig.Engine, src string) error {
			o := twig.New()
			if err := o.RegisterString("part", src); err != nil {
				return err
			}
			ct, err := o.CompileTemplate("part")
			if err != nil {
				return err
			}
			return e.RegisterCompiledTemplate(ct)
		}},
	}
	for _, f := range forms {
		for _, rg := range regs {
			eng := twig.New()
			c := Case{"stream": "c11-replaced", "form": f.name, "main": f.main, "registration": rg.name}
			res.Hist["stream:c11-replaced"]++
			if err := eng.RegisterString("main", f.main); err != nil {
				res.Hist["c11-replaced: form does not parse"]++
				break
			}
			eng.RegisterString("mid", "[{% include 'part' %}]")
			n := 1
			if f.name == "loop" {
				n = 2
			}
			for step, body := range []string{"ONE", "TWO{{ v }}", "THREE", "ONE"} {
				var err error
				if step == 0 {
					err = eng.RegisterString("part", body)
				} else {
					err = rg.do(eng, body)
				}
				if err != nil {
					res.Notes = append(res.Notes, "c11-replaced: "+rg.name+" fails: "+err.Error())
					break
				}
				// what the name stands for now: a direct render of it with the context the include gives it
				vctx := map[string]interface{}{}
				if f.name == "with-only" {
					vctx["v"] = 1
				} else if f.name == "with" || f.name == "computed-name-with" {
					vctx["v"] = 2
				}
				direct, derr := eng.Render("part", vctx)
				if derr != nil {
					break
				}
				want := "a" + strings.Repeat("["+direct+"]", n) + "b"
				for again := 0; again < 2; again++ {
					res.Evaluations++
					got, err := eng.Render("main", map[string]interface{}{})
					if err != nil {
						got = "error: " + err.Error()
					}
					if got != want {
						res.add(Finding{Kind: "oracle", Where: "c11-replaced " + f.name + " after " + rg.name, Case: c, Expected: want, Observed: got,
							Detail: fmt.Sprintf("history: the included template registered %d times under one name, the including template rendered after each; registration %d", step+1, step+1)})
						break
					}
				}
			}
		}
	}
}

func c11Pred(c Case, key string) string {
	e, _ := c[key].(map[string]interface{})
	if v, ok := e["out"].(string); ok {
		return "out:" + v
	}
	if v, ok := e["err"].(string); ok {
		return "err:" + v
	}
	return ""
}

// c11Appears: `ignore missing` turns a template that does not exist into empty output -- at that render. When the
// template exists at a later render (the loader has gained it) the include renders it, whatever was rendered before;
// and the other way round. Forms: in a loop, in a block, static and computed names, next to a plain include.
func c11Appears(res *Result) {
	forms := []struct{ name, main string }{
		{"top", "a[{% include 'opt' ignore missing %}]b"},
		{"computed-name", "a[{% include 'o' ~ 'pt' ignore missing %}]b"},
		{"loop", "a{% for i in [1, 2] %}[{% include 'opt' ignore missing %}]{% endfor %}b"},
		{"block", "a{% block x %}[{% include 'opt' ignore missing %}]{% endblock %}b"},
		{"with", "a[{% include 'opt' ignore missing with {'v': 1} %}]b"},
		{"through-include", "a{% include 'mid' %}b"},
	}
	for _, f := range forms {
		for _, cache := range []bool{true, false} {
			ld := twig.NewArrayLoader(map[string]string{"main": f.main, "mid": "[{% include 'opt' ignore missing %}]"})
			eng := twig.New()
			eng.RegisterLoader(ld)
			eng.SetCache(cache)
			c := Case{"stream": "c11-appears", "form": f.name, "main": f.main, "cache": cache}
			res.Hist["stream:c11-appears"]++
			step := func(what, want string) bool {
				res.Evaluations++
				got, err := eng.Render("main", map[string]interface{}{})
				obs := got
				if err != nil {
					obs = "error: " + err.Error()
				}
				if obs != want {
					res.add(Finding{Kind: "oracle", Where: "c11-appears " + f.name + " (" + what + ")", Case: c, Expected: want, Observed: obs,
						Detail: "history: render while 'opt' does not exist, the loader gains 'opt', render, 'opt' changes, render"})
					return false
				}
				return true
			}
			empty := strings.ReplaceAll(strings.ReplaceAll(f.main, "{% include 'opt' ignore missing %}", ""), "{% include 'o' ~ 'pt' ignore missing %}", "")
			_ = empty
			n := 1
			if f.name == "loop" {
				n = 2
			}
			want := func(body string) string { return "a" + strings.Repeat("["+body+"]", n) + "b" }
			if !step("the template does not exist", want("")) || !step("again", want("")) {
				continue
			}
			ld.SetTemplate("opt", "OPT")
			if !step("the loader has gained the template", want("OPT")) {
				continue
			}
			step("again", want("OPT"))
		}
	}
}

func runC11(cases string, res *Result) {
	c11Appears(res)
	c11Replaced(res)
	c11Unreadable(cases, res)
	readCases(cases, func(c Case) {
		if evalAbort {
			return // a render did not come back: see renderGuarded
		}
		stream := c.str("stream")
		res.Hist["stream:"+stream]++
		key := c.str("main") + "|" + c.str("ctx") + "|" + fmt.Sprint(c["tpls"]) + fmt.Sprint(c["loader"]) + fmt.Sprint(c["policy"])
		depth := c.num("depth")
		combos := c.list("combos")
		nontrivial := depth >= 2
		for _, x := range combos {
			s, _ := x.(string)
			res.Hist["options:"+s]++
			if s != "w0i0o0s0" {
				nontrivial = true
			}
		}
		for _, x := range c.list("places") {
			s, _ := x.(string)
			res.Hist["place:"+s]++
		}
		for _, x := range c.list("forms") {
			s, _ := x.(string)
			res.Hist["name:"+s]++
		}
		res.Hist["leaf:"+c.str("leaf")]++
		res.Hist[fmt.Sprintf("depth:%d", depth)]++
		if rg := c.str("regress"); rg != "" {
			res.Hist["regress:"+rg]++
		}
		res.count(key, nontrivial)

		var out, class, det string
		var spy map[string]int
		if stream == "c11-loader" {
			out, class, det = c11RunLoader(c)
			c["readable"] = map[string]string{}
			for _, tp := range c.list("loader") {
				t, _ := tp.([]interface{})
				if len(t) == 2 {
					n, _ := t[0].(string)
					s, _ := t[1].(string)
					c["readable"].(map[string]string)[unhex(n)] = unhex(s)
				}
			}
		} else {
			out, class, spy, det = c11RunCase(c)
			c["readable"] = evalCaseSources(c)
			res.Hist["under-other-engine-settings"]++
			prep := func(ee *evalEngine) {
				ee.eng.AddFunction("tick", func(args ...interface{}) (interface{}, error) { return "", nil })
			}
			if msg := evalUnderSettings(c, parseContext(c.str("ctx")), prep, out, class); msg != "" {
				res.add(Finding{Kind: "oracle", Where: stream + "/settings", Case: c, Expected: evalObserved(out, class), Observed: msg,
					Detail: "engine settings that have nothing to do with include change what the template renders"})
				return
			}
			if msg := evalAfterHistory(c, parseContext(c.str("ctx")), prep, out, class); msg != "" {
				res.add(Finding{Kind: "oracle", Where: stream + "/history", Case: c, Expected: evalObserved(out, class), Observed: msg,
					Detail: "what the engine did before changes what the including template renders"})
				return
			}
			res.Hist["by-other-routes"]++
			if msg := evalByOtherRoutes(c, parseContext(c.str("ctx")), prep, out, class); msg != "" {
				res.add(Finding{Kind: "oracle", Where: stream + "/routes", Case: c, Expected: evalObserved(out, class), Observed: msg,
					Detail: "the way the templates reached the engine changes what the including template renders"})
				return
			}
		}
		res.Evaluations++
		res.Hist["class:"+class]++
		observed := evalObserved(out, class)
		hasOnly := false // `only` hides the including template's variables: the globals are then what the included template reads
		for _, x := range combos {
			if s, _ := x.(string); strings.Contains(s, "o1") {
				hasOnly = true
			}
		}
		if srcs, ok := c["readable"].(map[string]string); ok {
			for _, src := range srcs {
				if c11OnlyRe.MatchString(src) {
					hasOnly = true
				}
			}
		}
		if stream != "c11-loader" && !hasOnly && len(parseContext(c.str("ctx"))) > 0 {
			o2, c2, _, _ := c11RunCaseWith(c, true)
			res.Evaluations++
			res.Hist["with-shadowed-globals"]++
			if obs2 := evalObserved(o2, c2); obs2 != observed {
				res.add(Finding{Kind: "oracle", Where: stream + " " + c.str("leaf") + " shadowed-globals", Case: c, Expected: observed, Observed: obs2,
					Detail: "every variable of the render context was also registered as an engine global with another value: a template of the chain reads the global instead of the variable"})
				return
			}
		}
		res.sample(map[string]interface{}{"templates": c["readable"], "ctx": c.str("ctx"), "observed": observed}, 6)

		spec := c11Pred(c, "spec")
		model := c11Pred(c, "exp")

		why := c11Oracles(c, out, class)
		if len(why) > 400 {
			why = why[:400] + "..."
		}
		if why != "" {
			res.add(Finding{Kind: "oracle", Where: stream, Case: c, Expected: spec, Observed: observed,
				Detail: why + " (model says " + model + ") " + det})
			return
		}
		if spec == "" {
			if e, _ := c["exp"].(map[string]interface{}); e != nil {
				if s, ok := e["skip"].(string); ok && s != "constructed" {
					res.Unmodelled++
					res.Hist["skip:"+s]++
				}
			}
			return
		}
		if observed != spec {
			res.add(Finding{Kind: "disagreement", Where: stream, Case: c, Expected: spec, Observed: observed,
				Detail: "engine differs from Spec/IncludeSpec.v c11_render_template (model says " + model + ") " + det})
			return
		}
		if model != "" && model != spec {
			res.add(Finding{Kind: "disagreement", Where: stream + "/model", Case: c, Expected: spec, Observed: model,
				Detail: "the faithful model differs from the specification; the engine renders what the specification demands"})
			return
		}
		if want, ok := c["spy"].(map[string]interface{}); ok && model == observed {
			for k, v := range want {
				n, _ := v.(float64)
				if spy[k] != int(n) {
					res.add(Finding{Kind: "disagreement", Where: stream + "/calls", Case: c,
						Expected: fmt.Sprintf("%s called %d times", k, int(n)), Observed: fmt.Sprintf("%d times", spy[k])})
					return
				}
			}
		}
	})
	// last: a render that does not end leaves a goroutine behind; the results so far are complete
	if evalAbort {
		return
	}
	c11ValuesHandedOver(res)
	c11ListsWithRoomToGrow(res)
	c11AliasesOfTheIncluder(res)
	c11TemplatesThatIncludeThemselves(res)
}

// c11Unreadable: `ignore missing` is about templates that do not exist. An entry that exists and cannot be read (here:
// a directory where the file should be, which no file mode changes) is "every other failure": reported, and not as
// a missing template.
func c11Unreadable(cases string, res *Result) {
	root := filepath.Join(filepath.Dir(cases), "c11fs")
	os.RemoveAll(root)
	defer os.RemoveAll(root)
	second := filepath.Join(root, "second")
	os.MkdirAll(filepath.Join(root, "first", "part.twig"), 0o755) // a directory named like the template
	os.MkdirAll(second, 0o755)
	os.WriteFile(filepath.Join(root, "first", "main.twig"), []byte("a[{% include 'part.twig' ignore missing %}]b"), 0o644)
	os.WriteFile(filepath.Join(root, "first", "plain.twig"), []byte("a[{% include 'part.twig' %}]b"), 0o644)
	os.WriteFile(filepath.Join(root, "first", "gone.twig"), []byte("a[{% include 'nothere.twig' ignore missing %}]b"), 0o644)
	// the same through relative names, and a template that exists and does not parse
	os.MkdirAll(filepath.Join(root, "first", "sub", "dir.twig"), 0o755)
	os.WriteFile(filepath.Join(root, "first", "sub", "bad.twig"), []byte("x{% if %}y"), 0o644)
	os.WriteFile(filepath.Join(root, "first", "sub", "rel_bad.twig"), []byte("a[{% include './bad.twig' ignore missing %}]b"), 0o644)
	os.WriteFile(filepath.Join(root, "first", "sub", "rel_dir.twig"), []byte("a[{% include './dir.twig' ignore missing %}]b"), 0o644)
	os.WriteFile(filepath.Join(root, "first", "sub", "rel_up.twig"), []byte("a[{% include '../part.twig' ignore missing %}]b"), 0o644)
	os.WriteFile(filepath.Join(root, "first", "sub", "rel_computed.twig"), []byte("a[{% include './' ~ 'bad.twig' ignore missing %}]b"), 0o644)
	os.WriteFile(filepath.Join(root, "first", "abs_bad.twig"), []byte("a[{% include 'sub/bad.twig' ignore missing %}]b"), 0o644)
	type mkLoader func() twig.Loader
	first := filepath.Join(root, "first")
	loaders := []mkLoader{
		func() twig.Loader { return twig.NewFileSystemLoader([]string{first}) },
		func() twig.Loader { return twig.NewFileSystemLoader([]string{first, second}) },
		// the same loader inside chains: in front of a loader that has nothing, behind one, in front of a compiled-file loader
		func() twig.Loader {
			return twig.NewChainLoader([]twig.Loader{twig.NewFileSystemLoader([]string{first}), twig.NewArrayLoader(map[string]string{})})
		},
		func() twig.Loader {
			return twig.NewChainLoader([]twig.Loader{twig.NewArrayLoader(map[string]string{}), twig.NewFileSystemLoader([]string{first})})
		},
		func() twig.Loader {
			return twig.NewChainLoader([]twig.Loader{twig.NewFileSystemLoader([]string{first}), twig.NewCompiledLoader(second)})
		},
	}
	for _, mk := range loaders {
		eng := twig.New()
		eng.RegisterLoader(mk())
		for _, name := range []string{"main.twig", "plain.twig", "sub/rel_bad.twig", "sub/rel_dir.twig", "sub/rel_up.twig", "sub/rel_computed.twig", "abs_bad.twig"} {
			c := Case{"stream": "c11-unreadable", "template": name, "loader": fmt.Sprintf("%T", mk())}
			res.Hist["stream:c11-unreadable"]++
			res.Evaluations++
			out, err := eng.Render(name, map[string]interface{}{})
			switch {
			case err == nil:
				res.add(Finding{Kind: "oracle", Where: "c11-unreadable/" + name, Case: c, Expected: "an error: the included entry exists and cannot be read", Observed: "output " + strconv.Quote(out),
					Detail: "a template that exists but cannot be read was turned into empty output"})
			case errors.Is(err, twig.ErrTemplateNotFound) && name != "plain.twig":
				res.add(Finding{Kind: "oracle", Where: "c11-unreadable/" + name, Case: c, Expected: "an error other than template-not-found", Observed: err.Error(),
					Detail: "a template that exists but cannot be read is reported as missing (which ignore missing would then hide)"})
			}
		}
		res.Evaluations++
		if out, err := eng.Render("gone.twig", map[string]interface{}{}); err != nil || out != "a[]b" {
			res.add(Finding{Kind: "oracle", Where: "c11-unreadable/gone.twig", Case: Case{"stream": "c11-unreadable", "template": "gone.twig"}, Expected: "a[]b",
				Observed: fmt.Sprintf("%q err=%v", out, err), Detail: "a template that does not exist under ignore missing"})
		}
	}
}
