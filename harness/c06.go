package main

import (
	"fmt"
	"io"
	"sort"

	"github.com/semihalev/twig"
)

func init() { runners["C06"] = runC06 }

// C06: a sandboxed include can never run a filter or function the policy forbids.
//
// A case is a template set (main includes sb0 with the keyword sandboxed), a context, custom spy callbacks and a
// security policy, with the prediction of the evaluator model (Model/Eval.v: outcome, calls per callback) and, written
// down by the generator from the construction of the case alone:
//
//	forbidden_inside   the spy callbacks the policy forbids and that occur inside the sandbox only
//	must_fail          some name that is unconditionally evaluated inside the sandbox is forbidden
//	outside            every forbidden name of the case stands in the includer, outside the sandboxed include
//
// Oracle (independent of the model):
//
//  1. a forbidden_inside callback was invoked at all                                  -> the sandbox ran a forbidden callback
//  2. must_fail and the render did not end in a security violation                    -> a forbidden name was reached and not refused
//  3. outside and the render ended in a security violation                            -> the includer was refused something
//
// Everything else (output bytes, error class, number of calls of every callback) is compared with the model: a
// difference there is a disagreement.
var c06Settings = []struct {
	name string
	set  func(*twig.Engine)
}{
	{"SetDebug(true)", func(e *twig.Engine) { twig.SetDebugWriter(io.Discard); e.SetDebug(true) }},
	{"SetCache(false)", func(e *twig.Engine) { e.SetCache(false) }},
	{"SetDevelopmentMode(true)", func(e *twig.Engine) { twig.SetDebugWriter(io.Discard); e.SetDevelopmentMode(true) }},
}

// c06ForeignTemplates: a *Template built by another engine (one without a policy, or with a laxer one) and handed to
// this engine with RegisterTemplate is confined by THIS engine's policy when it is rendered below a sandboxed include:
// included, extended, imported.
func c06ForeignTemplates(res *Result) {
	type spies struct{ filter, function int }
	mk := func(s *spies, strict bool) *twig.Engine {
		e := twig.New()
		e.AddFilter("spy", func(v interface{}, _ ...interface{}) (interface{}, error) { s.filter++; return v, nil })
		e.AddFunction("spyfn", func(a ...interface{}) (interface{}, error) { s.function++; return "f", nil })
		if strict {
			e.EnableSandbox(&twig.DefaultSecurityPolicy{AllowedFilters: map[string]bool{"upper": true}, AllowedFunctions: map[string]bool{"parent": true, "m": true},
				AllowedTags: map[string]bool{}})
		}
		return e
	}
	inner := map[string]string{
		"filter": "<{{ x|spy }}>", "function": "<{{ spyfn(1) }}>", "for-sequence": "{% for i in xs|spy %}{{ i }}{% endfor %}",
		"layout": "L({{ x|spy }}{% block b %}{% endblock %})", "library": "{% set t = spyfn(2) %}{% macro m() %}{{ 'q'|spy }}{% endmacro %}",
	}
	mains := []struct{ name, inner, sb0 string }{
		{"included", "filter", "{% include 'foreign' %}"}, {"included-function", "function", "{% include 'foreign' %}"}, {"included-only", "for-sequence", "{% include 'foreign' with {'xs': xs} only %}"},
		{"direct", "filter", ""}, {"extended", "layout", "{% extends 'foreign' %}{% block b %}c{% endblock %}"}, {"imported", "library", "{% import 'foreign' as L %}{{ L.m() }}"},
		{"from-imported", "library", "{% from 'foreign' import m %}{{ m() }}"},
	}
	for _, laxPolicy := range []bool{false, true} {
		for _, m := range mains {
			var sa, sb spies
			a, b := mk(&sa, false), mk(&sb, true)
			if laxPolicy {
				a.EnableSandbox(&twig.DefaultSecurityPolicy{AllowedFilters: map[string]bool{"spy": true, "upper": true}, AllowedFunctions: map[string]bool{"spyfn": true, "parent": true, "m": true}, AllowedTags: map[string]bool{}})
			}
			t, err := a.ParseTemplate(inner[m.inner])
			if err != nil {
				continue
			}
			b.RegisterTemplate("foreign", t)
			if m.sb0 == "" {
				b.RegisterString("main", "[{% include 'foreign' sandboxed %}]")
			} else {
				b.RegisterString("sb0", m.sb0)
				b.RegisterString("main", "[{% include 'sb0' sandboxed %}]")
			}
			c := Case{"stream": "c06-foreign-templates", "route": m.name, "the other engine has a laxer policy": laxPolicy, "foreign": inner[m.inner], "sb0": m.sb0}
			res.Hist["stream:c06-foreign-templates"]++
			res.Evaluations++
			out, rerr := b.Render("main", map[string]interface{}{"x": "v", "xs": []interface{}{1, 2}})
			if sa.filter+sa.function+sb.filter+sb.function > 0 {
				res.add(Finding{Kind: "oracle", Where: "c06-foreign-templates/" + m.name, Case: c, Expected: "no spy invoked: this engine's policy allows neither",
					Observed: fmt.Sprintf("filter spy %d times, function spyfn %d times; output %q err %v", sa.filter+sb.filter, sa.function+sb.function, out, rerr),
					Detail:   "a template object parsed by another engine, registered here with RegisterTemplate and rendered below a sandboxed include, ran a callback this engine's policy forbids"})
			} else if rerr == nil {
				res.add(Finding{Kind: "oracle", Where: "c06-foreign-templates/" + m.name, Case: c, Expected: "a security violation", Observed: fmt.Sprintf("output %q, no error", out)})
			}
		}
	}
}

func runC06(cases string, res *Result) {
	c06ForeignTemplates(res)
	c06SwitchedOffAndOn(res)
	c06RenderedOutsideFirst(res)
	c06LongTemplates(res)
	readCases(cases, func(c Case) {
		stream := c.str("stream")
		res.Hist["stream:"+stream]++
		key := c.str("main") + "|" + c.str("ctx") + "|" + fmt.Sprint(c["tpls"]) + "|" + fmt.Sprint(c["policy"])
		pos := c.str("pos")
		// non-trivial: the forbidden name below at least one level of nesting, or not in head position
		nontrivial := c.num("depth") >= 1 || (pos != "" && pos != "print")
		res.count(key, nontrivial)
		if pos != "" {
			res.Hist["pos:"+pos]++
		}
		if p := c.str("pol"); p != "" {
			res.Hist["policy:"+p]++
		}
		if t := c.str("target"); t != "" {
			res.Hist["target:"+t]++
		}
		res.Hist[fmt.Sprintf("nesting-depth:%d", c.num("depth"))]++
		for _, s := range c.list("nest") {
			if n, ok := s.(string); ok {
				res.Hist["step:"+n]++
			}
		}

		kind, val := evalExpectation(c)
		if kind == "skip" && stream == "c06-rand" {
			// outside the model (for instance a block nested in a block of the same name, on which the engine recurses
			// without end: property C05); the generated sets carry no construction facts, so there is nothing to check
			res.Unmodelled++
			res.Hist["skip:"+val]++
			return
		}
		out, class, spy, det := runEvalCase(c)
		res.Evaluations++
		observed := evalObserved(out, class)
		// the sandbox ends with the include: a template rendered afterwards on the same engine, outside any sandbox, may use
		// every name the policy forbids (also when the sandboxed render failed)
		if c06After(c) {
			res.Hist["render-after-the-sandboxed-one"]++
			res.Evaluations++
			if msg := c06RenderAfter(c); msg != "" {
				res.add(Finding{Kind: "oracle", Where: stream + "/after", Case: c, Expected: "a later top-level render on the same engine uses forbidden names freely",
					Observed: msg, Detail: "history: the case's main template (with its sandboxed include), then {{ x|spy }}{{ spyfn(n) }}{{ x|upper }} at the top level of another template"})
				return
			}
		}
		// engine settings that say nothing about the sandbox do not open or close it: the same case on an engine in debug
		// mode, without cache, in development mode
		for _, v := range c06Settings {
			evalEngineTweak = v.set
			out2, class2, spy2, _ := runEvalCase(c)
			evalEngineTweak = nil
			twig.SetDebugLevel(twig.DebugOff)
			res.Evaluations++
			res.Hist["setting:"+v.name]++
			if out2 != out || class2 != class || fmt.Sprint(spy2) != fmt.Sprint(spy) {
				res.add(Finding{Kind: "oracle", Where: stream + "/" + v.name, Case: c, Expected: observed + " " + fmt.Sprint(spy),
					Observed: evalObserved(out2, class2) + " " + fmt.Sprint(spy2), Detail: "the same templates, context and policy on an engine with " + v.name + " behave differently"})
				return
			}
		}
		res.Hist["class:"+class]++
		c["readable"] = evalCaseSources(c)
		res.sample(map[string]interface{}{"templates": evalCaseSources(c), "policy": c["policy"], "observed": observed}, 6)

		model := ""
		switch kind {
		case "out":
			model = "out:" + hx(val)
		case "err":
			model = "err:" + val
		}
		mustFail, _ := c["must_fail"].(bool)
		outside, _ := c["outside"].(bool)

		// ---- oracle 1: a forbidden callback that occurs inside the sandbox only was invoked
		for _, k := range c.list("forbidden_inside") {
			name, _ := k.(string)
			if spy[name] > 0 {
				res.add(Finding{Kind: "oracle", Where: stream + "/" + pos, Case: c, Expected: name + " called 0 times (the policy forbids it)",
					Observed: fmt.Sprintf("%s called %d times; %s", name, spy[name], observed),
					Detail:   "a callback the security policy forbids was invoked while rendering through include ... sandboxed " + det})
				return
			}
		}
		// ---- oracle 2: a forbidden name is reached inside the sandbox: the render must fail with the security class
		if mustFail && class != "security" {
			f := Finding{Kind: "oracle", Where: stream + "/" + pos, Case: c, Expected: "err:security (reached and forbidden: " + fmt.Sprint(c["forbidden_reached"]) + ")",
				Observed: observed, Detail: "a forbidden name is evaluated inside the sandbox and the render did not end in a security violation " + det}
			res.add(f)
			return
		}
		// ---- oracle 3: the includer keeps its permissions
		if outside && class == "security" {
			res.add(Finding{Kind: "oracle", Where: stream + "/" + pos, Case: c, Expected: "no security violation: every forbidden name stands outside the sandboxed include",
				Observed: observed, Detail: "the including template was refused a filter or function " + det})
			return
		}

		// ---- the model
		if stream == "c06-rand" && class == "parse" {
			// a template of a generated set that the parser refuses (for instance a block nested in a block of the
			// same name, a parse error since the repair of the unbounded recursion): not a sandbox matter
			res.Hist["rand:unparsable-set"]++
			return
		}
		if kind == "skip" {
			res.Unmodelled++
			res.Hist["skip:"+val]++
			return
		}
		if model != observed {
			res.add(Finding{Kind: "disagreement", Where: stream + "/" + pos, Case: c, Expected: model, Observed: observed, Detail: det})
			return
		}
		if want, ok := c["spy"].(map[string]interface{}); ok {
			keys := make([]string, 0, len(want))
			for k := range want {
				keys = append(keys, k)
			}
			sort.Strings(keys)
			for _, k := range keys {
				n, _ := want[k].(float64)
				if spy[k] != int(n) {
					res.add(Finding{Kind: "disagreement", Where: stream + "/" + pos + "/calls", Case: c,
						Expected: fmt.Sprintf("%s called %d times", k, int(n)), Observed: fmt.Sprintf("%d times (%s)", spy[k], observed)})
					return
				}
			}
		}
	})
}

// c06After: every eighth case by content (the check costs two more renders)
func c06After(c Case) bool {
	n := 0
	for _, ch := range c.str("main") + fmt.Sprint(c["pos"]) + fmt.Sprint(c["nest"]) + fmt.Sprint(c["pol"]) {
		n += int(ch)
	}
	return n%4 == 0 || c.str("stream") == "c06-samename"
}

// c06RenderAfter: a fresh engine for the case, its main template rendered twice, then a plain template that uses the spies
func c06RenderAfter(c Case) string {
	ee := newEvalEngine(c)
	if !ee.regOK {
		return ""
	}
	// the callbacks of the case may not include these: register neutral ones under other names
	ee.eng.AddFilter("afterf", func(v interface{}, a ...interface{}) (interface{}, error) { return v, nil })
	ee.eng.AddFunction("afterfn", func(a ...interface{}) (interface{}, error) { return "fn", nil })
	if err := ee.eng.RegisterString("zz_after", "<{{ 'a'|afterf }}{{ afterfn() }}{{ 'b'|upper }}{{ max(1, 2) }}>"); err != nil {
		return ""
	}
	ctx := parseContext(c.str("ctx"))
	ee.render(c.str("main"), ctx)
	for i := 0; i < 3; i++ {
		out, class, det := ee.render("zz_after", map[string]interface{}{})
		if class != "none" || out != "<afnB2>" {
			return fmt.Sprintf("render %d after the sandboxed one: class %s output %q %s", i+1, class, out, det)
		}
		ee.render(c.str("main"), ctx)
	}
	return ""
}
