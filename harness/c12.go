package main

import (
	"fmt"
	"strings"

	"github.com/semihalev/twig"
)

func init() { runners["C12"] = runC12 }

// C12: macros bind arguments positionally with defaults, alike however they are reached.
//
// A case is a scenario (ocaml/c12.ml): a library of macro definitions, and five main templates that reach the same
// macro with the same arguments from the same call site in the five ways (local, _self, import, from, from-as). All of
// them are rendered on ONE engine, with the first context and then with the second (so that anything a call leaves
// behind in the cached templates shows in the second round). Checks:
//
//	reference   every render against the proved specification carried by the case (Spec/MacroSpec.v c12_render_template;
//	            the faithful model Model/Eval.v is carried too and must say the same): a difference is a failing input
//	O1 paths    model independent: the five outputs (from the site marker @S@ on) or error classes of a context are equal
//	O2 probes   model independent: what the caller prints of its own variables before the call (@A@...@B@) and after it
//	            (@C@...@D@) is equal, occurrence by occurrence
//	decl        stream c12-decl: the engine's own tokens of a macro tag never put a NAME with a parenthesis behind the
//	            tag name (the combined-token declaration parser of parse_macro.go stays unreachable)
//
// Cases of a known class (the engine violates path independence there; the model predicts exactly how) are reported
// under that class; the class suppresses O1 only, and only when KNOWN_FINDINGS.txt lists it.
func runC12(cases string, res *Result) {
	c12Relibrary(res)
	c12NamesThatCollide(res)
	c12DefaultsAreExpressions(res)
	c12AfterAFailedImport(res)
	c12MacrosReachedFromIncludes(res)
	c12CallsSeveralMacrosDeep(res)
	firstKnown := map[string]*Finding{}
	knownSize := map[string]int{}
	evalVariantBudget = 14000
	readCases(cases, func(c Case) {
		if evalAbort {
			return
		}
		stream := c.str("stream")
		res.Hist["stream:"+stream]++
		res.Hist["site:"+c.str("site")]++
		key := fmt.Sprint(c["tpls"]) + "|" + fmt.Sprint(c["ctxs"])
		res.count(key, c.num("nargs") > 0 || c.str("site") != "top")
		if k := c.str("kinds"); k != "" {
			for _, x := range strings.Split(k, ",") {
				res.Hist["node:"+x]++
			}
		}
		c["readable"] = evalCaseSources(c)
		if c["selfcontained"] == true {
			// every macro of the case is within the hypotheses of the theorem C12_paths_agree (decided by the extracted c12_env_okb)
			res.Hist["theorem-covered:C12_paths_agree"]++
		}

		ee := newEvalEngine(c)
		if g, ok := c["globals"].(map[string]interface{}); ok {
			for name, v := range g {
				s, _ := v.(string)
				ee.eng.AddGlobal(name, parseValue(s))
			}
		}
		mains := c.list("mains")
		ctxs := c.list("ctxs")
		spec, _ := c["spec"].([]interface{})
		model, _ := c["model"].([]interface{})
		agree, _ := c["agree"].([]interface{})
		known := c.str("known")

		if !ee.regOK {
			res.add(Finding{Kind: "disagreement", Where: stream + "/register", Case: c, Expected: "every template of the case parses", Observed: "err:parse", Detail: ee.regEr})
			return
		}
		if c["decl"] == true {
			c12CheckDeclTokens(c, res)
		}

		expOf := func(tab []interface{}, ci, mi int) (string, bool) {
			if ci >= len(tab) {
				return "", false
			}
			row, _ := tab[ci].([]interface{})
			if mi >= len(row) {
				return "", false
			}
			e, _ := row[mi].(map[string]interface{})
			if v, ok := e["out"].(string); ok {
				return "out:" + v, true
			}
			if v, ok := e["err"].(string); ok {
				return "err:" + v, true
			}
			if v, ok := e["skip"].(string); ok {
				res.Hist["skip:"+v]++
			}
			return "", false
		}

		for ci, cx := range ctxs {
			cs, _ := cx.(string)
			var observed []string
			pathsPredictedEqual := true
			if ci < len(agree) {
				pathsPredictedEqual, _ = agree[ci].(bool)
			}
			refOK := true
			for mi, mn := range mains {
				main, _ := mn.(string)
				out, class, det := ee.render(main, parseContext(cs))
				res.Evaluations++
				res.Hist["class:"+class]++
				if ci == 0 && known == "" && !evalAbort {
					// the same call on engines with other settings, with the templates handed over by other routes and entry
					// points, and on an engine with a past
					prep := func(e2 *evalEngine) {
						if g, ok := c["globals"].(map[string]interface{}); ok {
							for name, v := range g {
								s, _ := v.(string)
								e2.eng.AddGlobal(name, parseValue(s))
							}
						}
					}
					c["main"] = main
					msg := evalUnderSettings(c, parseContext(cs), prep, out, class)
					if msg == "" {
						msg = evalByOtherRoutes(c, parseContext(cs), prep, out, class)
					}
					if msg == "" {
						msg = evalAfterHistory(c, parseContext(cs), prep, out, class)
					}
					delete(c, "main")
					res.Hist["under-settings-routes-history"]++
					if msg != "" {
						res.add(Finding{Kind: "oracle", Where: stream + "/variants/" + main, Case: c, Expected: evalObserved(out, class), Observed: msg,
							Detail: "settings, registration routes, entry points and earlier use of the engine have nothing to do with how a macro is reached"})
						return
					}
				}
				obs := evalObserved(out, class)
				// O1 compares the call site: from the marker @S@ on (the defining template prints the library's own text first)
				if k := strings.Index(out, "@S@"); class == "none" && k >= 0 {
					observed = append(observed, evalObserved(out[k:], class))
				} else {
					observed = append(observed, obs)
				}
				where := fmt.Sprintf("%s/ctx%d/%s", stream, ci+1, main)

				want, have := expOf(spec, ci, mi)
				mwant, mhave := expOf(model, ci, mi)
				if !have {
					res.Unmodelled++
				}
				if have && mhave && want != mwant {
					res.add(Finding{Kind: "disagreement", Where: where + "/model-vs-spec", Case: c, Expected: want, Observed: mwant,
						Detail: "the extracted model and the extracted specification differ (they are proved equal: the extraction or the generator is broken)"})
				}
				if have && want != obs {
					refOK = false
					res.add(Finding{Kind: "disagreement", Where: where, Case: c, Expected: want, Observed: obs,
						Detail: "engine differs from Spec/MacroSpec.v c12_render_template on template " + main + " (round " + fmt.Sprint(ci+1) + " on the same engine) " + det})
				}
				// O2: the caller's probes
				if class == "none" {
					if msg := c12Probes(out); msg != "" {
						res.add(Finding{Kind: "oracle", Where: where + "/probes", Case: c, Expected: "caller's variables unchanged by the call", Observed: msg,
							Detail: "what the caller prints of its own variables differs before and after the macro call in template " + main})
					}
				}
			}
			// O1: the five paths
			same := true
			for _, o := range observed {
				if o != observed[0] {
					same = false
				}
			}
			if !same {
				small := c
				exp := "the same output through " + fmt.Sprint(mains)
				obs := strings.Join(observed, " | ")
				if known != "" && !pathsPredictedEqual && refOK {
					size := len(fmt.Sprint(c["tpls"]))
					if firstKnown[known] == nil || size < knownSize[known] {
						knownSize[known] = size
						f := &Finding{Kind: "oracle", Where: stream + "/paths", Case: small, Expected: exp, Observed: obs,
							Detail: "the call forms disagree; the faithful model predicts exactly these outputs (Properties/C12.v, the refuted statements)"}
						if knownClassListed("C12", known) {
							f.Known = known
							res.Hist["known:"+known]++
						} else {
							f.Detail = "class " + known + " (not a listed known finding): " + f.Detail
							res.Hist["unlisted:"+known]++
						}
						firstKnown[known] = f
					}
				} else {
					res.add(Finding{Kind: "oracle", Where: fmt.Sprintf("%s/ctx%d/paths", stream, ci+1), Case: small, Expected: exp, Observed: obs,
						Detail: "the same macro with the same arguments from the same call site gives different results depending on how it is reached"})
				}
			}
		}
		res.sample(map[string]interface{}{"templates": evalCaseSources(c), "ctxs": ctxs, "site": c.str("site")}, 6)
	})
	for _, f := range firstKnown {
		res.add(*f)
	}
}

// c12Probes compares the caller's probe blocks: a block @A@...@B@ printed before a call with the block @C@...@D@
// printed after it. Blocks nest like the call sites do (a site inside an included template stands between the
// includer's two blocks), so they are matched with a stack; a closing block without partner (the one a loop site prints
// behind the loop) is ignored.
func c12Probes(out string) string {
	var stack []string
	rest := out
	for {
		ia := strings.Index(rest, "@A@")
		ic := strings.Index(rest, "@C@")
		if ia < 0 && ic < 0 {
			return ""
		}
		if ia >= 0 && (ic < 0 || ia < ic) {
			j := strings.Index(rest[ia:], "@B@")
			if j < 0 {
				return "unterminated @A@ block"
			}
			stack = append(stack, rest[ia+3:ia+j])
			rest = rest[ia+j+3:]
			continue
		}
		j := strings.Index(rest[ic:], "@D@")
		if j < 0 {
			return "unterminated @C@ block"
		}
		after := rest[ic+3 : ic+j]
		rest = rest[ic+j+3:]
		if len(stack) == 0 {
			continue
		}
		before := stack[len(stack)-1]
		stack = stack[:len(stack)-1]
		if before != after {
			return fmt.Sprintf("before the call %q, after it %q", before, after)
		}
	}
}

// c12CheckDeclTokens tokenises the sources of a c12-decl case with the engine's own tokenizers and checks the
// token behind the tag name of every macro tag.
func c12CheckDeclTokens(c Case, res *Result) {
	for name, src := range evalCaseSources(c) {
		for _, large := range []bool{false, true} {
			tk := twig.GetTokenizer(src, 0)
			var toks []twig.Token
			var err error
			if large {
				toks, err = tk.TokenizeOptimized()
			} else {
				toks, err = tk.TokenizeHtmlPreserving()
			}
			if err != nil {
				res.add(Finding{Kind: "disagreement", Where: "c12-decl/tokenize", Case: c, Expected: "tokens", Observed: "error", Detail: name + ": " + err.Error()})
				twig.ReleaseTokenizer(tk)
				continue
			}
			seen := 0
			for i := 0; i+1 < len(toks); i++ {
				if toks[i].Type == twig.TOKEN_NAME && toks[i].Value == "macro" && i > 0 &&
					(toks[i-1].Type == twig.TOKEN_BLOCK_START || toks[i-1].Type == twig.TOKEN_BLOCK_START_TRIM) {
					seen++
					nx := toks[i+1]
					res.Hist["decl:macro-tags"]++
					if nx.Type == twig.TOKEN_NAME && strings.Contains(nx.Value, "(") {
						res.Hist["decl:combined-token"]++
						res.add(Finding{Kind: "disagreement", Where: "c12-decl/combined-token", Case: c,
							Expected: "a NAME token without a parenthesis behind the tag name macro (C12_combined_declaration_unreachable)",
							Observed: fmt.Sprintf("NAME %q", nx.Value),
							Detail:   "the combined-token declaration parser of parse_macro.go is reachable: it has to be modelled and compared with the token path"})
					}
				}
			}
			if seen == 0 {
				res.add(Finding{Kind: "disagreement", Where: "c12-decl/tokenize", Case: c, Expected: "a macro tag", Observed: "none found", Detail: name})
			}
			twig.ReleaseTokenizer(tk)
		}
	}
}

// c12Relibrary: the call forms agree at every render, also when what a library offers changed since the last one:
// a library that hands on macros of another library which is registered again, a library whose definitions stand
// under a condition on a global that is changed, a library registered again itself. Every form must give what a
// freshly built engine with the same templates and globals gives.
func c12Relibrary(res *Result) {
	const page = "{% import 'forms' as f %}{% from 'forms' import field %}{% from 'forms' import field as g %}A:{{ f.field('x') }}|B:{{ field('x') }}|C:{{ g('x') }}|D:{{ f.own('y') }}"
	type world struct {
		base, forms string
		compact     interface{}
	}
	worlds := []world{
		{"{% macro field(n, t = 'text') %}<1 {{ n }} {{ t }}>{% endmacro %}", "{% from 'base' import field %}{% macro own(z) %}[own {{ z }}]{% endmacro %}", nil},
		{"{% macro field(n, t = 'mail') %}<2 {{ n }}/{{ t }}>{% endmacro %}", "{% from 'base' import field %}{% macro own(z) %}[own {{ z }}]{% endmacro %}", nil},
		{"{% macro field(n, t = 'mail') %}<2 {{ n }}/{{ t }}>{% endmacro %}", "{% from 'base' import field %}{% macro own(z, w = 'W') %}[own2 {{ z }}{{ w }}]{% endmacro %}", nil},
		{"{% macro field(n) %}<3 {{ n }}>{% endmacro %}", "{% if compact %}{% macro field(n) %}<c {{ n }}>{% endmacro %}{% else %}{% macro field(n) %}<w {{ n }}>{% endmacro %}{% endif %}{% macro own(z) %}[own {{ z }}]{% endmacro %}", true},
		{"{% macro field(n) %}<3 {{ n }}>{% endmacro %}", "{% if compact %}{% macro field(n) %}<c {{ n }}>{% endmacro %}{% else %}{% macro field(n) %}<w {{ n }}>{% endmacro %}{% endif %}{% macro own(z) %}[own {{ z }}]{% endmacro %}", false},
		{"{% macro field(n, t = 'text') %}<1 {{ n }} {{ t }}>{% endmacro %}", "{% from 'base' import field %}{% macro own(z) %}[own {{ z }}]{% endmacro %}", nil},
	}
	apply := func(e *twig.Engine, w world, prev *world) error {
		if prev == nil || prev.base != w.base {
			if err := e.RegisterString("base", w.base); err != nil {
				return err
			}
		}
		if prev == nil || prev.forms != w.forms {
			if err := e.RegisterString("forms", w.forms); err != nil {
				return err
			}
		}
		if w.compact != nil {
			e.AddGlobal("compact", w.compact)
		}
		return nil
	}
	render := func(e *twig.Engine) string {
		out, err := e.Render("page", map[string]interface{}{})
		if err != nil {
			return "error: " + err.Error()
		}
		return out
	}
	shared := twig.New()
	if err := shared.RegisterString("page", page); err != nil {
		res.Notes = append(res.Notes, "c12-relibrary: page does not parse: "+err.Error())
		return
	}
	var prev *world
	for i := range worlds {
		w := worlds[i]
		res.Hist["stream:c12-relibrary"]++
		res.Evaluations++
		c := Case{"stream": "c12-relibrary", "step": i, "base": w.base, "forms": w.forms, "compact": w.compact, "page": page}
		fresh := twig.New()
		fresh.RegisterString("page", page)
		if err := apply(fresh, w, nil); err != nil {
			res.Hist["c12-relibrary: world does not parse"]++
			continue
		}
		if err := apply(shared, w, prev); err != nil {
			continue
		}
		prev = &worlds[i]
		want := render(fresh)
		for again := 0; again < 2; again++ {
			if got := render(shared); got != want {
				res.add(Finding{Kind: "oracle", Where: fmt.Sprintf("c12-relibrary/step %d", i), Case: c, Expected: want, Observed: got,
					Detail: "an engine whose libraries changed since its last render and a freshly built engine with the same templates and globals disagree (A import-as, B from, C from-as, D the library's own macro)"})
				return
			}
		}
		// the forms of one macro agree with each other
		parts := strings.Split(want, "|")
		if len(parts) == 4 && !strings.HasPrefix(want, "error") {
			a, b, cc := strings.TrimPrefix(parts[0], "A:"), strings.TrimPrefix(parts[1], "B:"), strings.TrimPrefix(parts[2], "C:")
			if a != b || b != cc {
				res.add(Finding{Kind: "oracle", Where: fmt.Sprintf("c12-relibrary/step %d/forms", i), Case: c, Expected: "one output for the three forms", Observed: want,
					Detail: "import-as, from and from-as give different output for one macro on a freshly built engine"})
				return
			}
		}
	}
}

// c12NamesThatCollide: a parameter that is null and carries the name of a macro stays null (in conditions, tests and
// defaults, through every call form); an import made by an included template under the name of one of the includer's
// macros leaves the includer's macro what it was.
func c12NamesThatCollide(res *Result) {
	lib := "{% macro label(text) %}<label>{{ text }}</label>{% endmacro %}" +
		"{% macro field(name, label) %}{% if label %}[has label]{% endif %}{{ name }}|{{ label is null ? 'null' : 'not null' }}|{{ label|default('none') }}|{{ label ? 'T' : 'F' }}{% endmacro %}"
	forms := []struct{ name, src string }{
		{"local", lib + "{{ field('n') }}/{{ field('n', null) }}/{{ field('n', 'L') }}"},
		{"self", lib + "{{ _self.field('n') }}/{{ _self.field('n', null) }}/{{ _self.field('n', 'L') }}"},
		{"import", "{% import 'lib' as f %}{{ f.field('n') }}/{{ f.field('n', null) }}/{{ f.field('n', 'L') }}"},
		{"from", "{% from 'lib' import field %}{{ field('n') }}/{{ field('n', null) }}/{{ field('n', 'L') }}"},
		{"from-alias", "{% from 'lib' import field as g %}{{ g('n') }}/{{ g('n', null) }}/{{ g('n', 'L') }}"},
		{"from-both", "{% from 'lib' import field, label %}{{ field('n') }}/{{ field('n', null) }}/{{ field('n', 'L') }}"},
	}
	const want = "n|null|none|F/n|null|none|F/[has label]n|not null|L|T"
	for _, f := range forms {
		eng := twig.New()
		eng.RegisterString("lib", lib)
		res.Hist["stream:c12-names-that-collide"]++
		res.Evaluations++
		c := Case{"stream": "c12-names-that-collide", "scenario": "null parameter named like a macro", "form": f.name, "tpl": f.src}
		if err := eng.RegisterString("t", f.src); err != nil {
			res.add(Finding{Kind: "oracle", Where: "c12-names-that-collide/" + f.name, Case: c, Detail: "parse: " + err.Error()})
			continue
		}
		got, err := eng.Render("t", map[string]interface{}{})
		if err != nil {
			got = "error: " + err.Error()
		}
		if got != want {
			res.add(Finding{Kind: "oracle", Where: "c12-names-that-collide/null-parameter/" + f.name, Case: c, Expected: want, Observed: got,
				Detail: "macro field(name, label) next to a macro label(text): the parameter label, unset or passed null, must be null in the body"})
		}
	}
	// text in a macro body that looks like a print tag and is escaped: literal for every call form, parameters named like it or not
	elib := "{% macro cell(name) %}<td data-bind=\"\\{{ name }}\">{{ name }}</td>{# c #}\\{{ item.title }}|\\{% if name %}{% endmacro %}"
	ewant := "<td data-bind=\"{{ name }}\">qty</td>{{ item.title }}|{% if name %}"
	for _, f := range []struct{ name, src string }{
		{"local", elib + "{{ cell('qty') }}"}, {"self", elib + "{{ _self.cell('qty') }}"}, {"import", "{% import 'elib' as f %}{{ f.cell('qty') }}"},
		{"from", "{% from 'elib' import cell %}{{ cell('qty') }}"}, {"from-alias", "{% from 'elib' import cell as c %}{{ c('qty') }}"},
		{"in-loop", "{% from 'elib' import cell %}{% for i in [1] %}{{ cell('qty') }}{% endfor %}"},
	} {
		eng := twig.New()
		eng.RegisterString("elib", elib)
		res.Hist["stream:c12-names-that-collide"]++
		res.Evaluations++
		c := Case{"stream": "c12-names-that-collide", "scenario": "escaped delimiters in a macro body", "form": f.name, "tpl": f.src}
		if err := eng.RegisterString("t", f.src); err != nil {
			continue
		}
		got, err := eng.Render("t", map[string]interface{}{"item": map[string]interface{}{"title": "T"}})
		if err != nil {
			got = "error: " + err.Error()
		}
		if got != ewant {
			res.add(Finding{Kind: "oracle", Where: "c12-names-that-collide/escaped-text/" + f.name, Case: c, Expected: ewant, Observed: got,
				Detail: "escaped delimiters in the body of a macro are text; the macro's output differs from that text with the argument put in the one real print tag"})
		}
	}
	// an included template imports under the includer's macro name
	parts := map[string]string{
		"lib":         "{% macro badge(t, n = 0) %}<span class=\"{{ n }}\">{{ t }}</span>{% endmacro %}{% macro other(t) %}({{ t }}){% endmacro %}",
		"part-from":   "{% from 'lib' import badge %}p:{{ badge('p', 1) }}",
		"part-alias":  "{% from 'lib' import other as badge %}p:{{ badge('p') }}",
		"part-macro":  "{% macro badge(t) %}own{{ t }}{% endmacro %}p:{{ badge('p') }}",
		"part-import": "{% import 'lib' as badge %}p:{{ badge.other('p') }}",
	}
	for _, part := range []string{"part-from", "part-alias", "part-macro", "part-import"} {
		for _, inc := range []string{"{% include '$' %}", "{% include '$' with {'x': 1} %}", "{% for i in [1, 2] %}{% include '$' %}{% endfor %}", "{% include '$' only %}"} {
			eng := twig.New()
			for n, s := range parts {
				eng.RegisterString(n, s)
			}
			src := "{% macro badge(t, n = 9) %}[{{ t }}#{{ n }}]{% endmacro %}" + "{{ badge('a', 1) }}|" + strings.ReplaceAll(inc, "$", part) + "|{{ badge('b', 2) }}{{ _self.badge('c') }}"
			c := Case{"stream": "c12-names-that-collide", "scenario": "import inside an included template", "included": part, "tpl": src}
			res.Hist["stream:c12-names-that-collide"]++
			res.Evaluations++
			if err := eng.RegisterString("t", src); err != nil {
				continue
			}
			got, err := eng.Render("t", map[string]interface{}{})
			if err != nil {
				got = "error: " + err.Error()
			}
			if !strings.HasPrefix(got, "[a#1]|") || !strings.HasSuffix(got, "|[b#2][c#9]") {
				res.add(Finding{Kind: "oracle", Where: "c12-names-that-collide/include/" + part, Case: c, Expected: "[a#1]|...|[b#2][c#9]", Observed: got,
					Detail: "the includer's own macro badge, called directly and through _self after the include, is no longer the includer's"})
			}
		}
	}
}
