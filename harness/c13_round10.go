package main

import (
	"strings"

	"github.com/semihalev/twig"
)

// c13DashesOnTemplatesThatAreNotWellFormed: the dash never changes whether a template parses: a template with a stray
// closing or middle tag, an unclosed construct or a misplaced tag is accepted or refused alike with and without dashes
// on any of its tags.
func c13DashesOnTemplatesThatAreNotWellFormed(res *Result) {
	shapes := []string{
		"a {% endif %} b", "a {% else %} b", "a {% endfor %} b", "a {% endblock %} b", "a {% elseif x %} b", "a {% endmacro %} b", "a {% endapply %} b", "a {% endspaceless %} b", "a {% endset %} b",
		"a {% if x %} b", "a {% for i in xs %} b", "a {% block k %} b", "a {% if x %} b {% endfor %} c", "a {% for i in xs %} b {% endif %} c", "a {% if x %} b {% else %} c {% else %} d {% endif %} e",
		"a {% if x %} b {% endif %} c {% endif %} d", "a {% for i in xs %} b {% else %} c {% endfor %} d {% endfor %} e", "a {% block k %} b {% endblock %} c {% endblock %} d", "a {{ x }} b {% endif %} c",
		"a {% if x %} b {% endif %} c", "a {% for i in xs %} b {% else %} c {% endfor %} d", "{% endif %}", "{% else %}x", "x{% endverbatim %}y", "a {% nosuchtag %} b", "a {% macro m() %} b",
	}
	variants := func(src string) []string {
		// every tag of the template gets the dash on the left, on the right, on both; and all tags at once
		var out []string
		out = append(out, strings.ReplaceAll(src, "{%", "{%-"), strings.ReplaceAll(src, "%}", "-%}"), strings.ReplaceAll(strings.ReplaceAll(src, "{%", "{%-"), "%}", "-%}"),
			strings.ReplaceAll(strings.ReplaceAll(src, "{{", "{{-"), "}}", "-}}"))
		n := strings.Count(src, "{%")
		for k := 0; k < n; k++ {
			for _, side := range []string{"l", "r", "lr"} {
				var sb strings.Builder
				rest, idx := src, 0
				for {
					i := strings.Index(rest, "{%")
					if i < 0 {
						sb.WriteString(rest)
						break
					}
					j := strings.Index(rest[i:], "%}")
					if j < 0 {
						sb.WriteString(rest)
						break
					}
					tag := rest[i : i+j+2]
					if idx == k {
						if strings.Contains(side, "l") {
							tag = "{%-" + tag[2:]
						}
						if strings.Contains(side, "r") {
							tag = tag[:len(tag)-2] + "-%}"
						}
					}
					sb.WriteString(rest[:i] + tag)
					rest = rest[i+j+2:]
					idx++
				}
				out = append(out, sb.String())
			}
		}
		return out
	}
	parses := func(src string) bool {
		e := twig.New()
		return e.RegisterString("t", src) == nil
	}
	for _, src := range shapes {
		res.Hist["stream:dashes-on-templates-that-are-not-well-formed"]++
		for _, pad := range []string{"", strings.Repeat("padding text ", 400)} {
			base := pad + src
			want := parses(base)
			for _, v := range variants(src) {
				res.Evaluations++
				if got := parses(pad + v); got != want {
					res.add(Finding{Kind: "oracle", Where: "dashes-on-templates-that-are-not-well-formed", Case: Case{"stream": "dashes-on-templates-that-are-not-well-formed", "without dashes": src, "with dashes": v, "bytes of text in front": len(pad)},
						Expected: map[bool]string{true: "parses", false: "is refused"}[want] + ", as without the dashes", Observed: map[bool]string{true: "parses", false: "is refused"}[got]})
					return
				}
			}
		}
	}
}
