(* tiny string helpers (no Str dependency) *)
let replace_all (s : string) (pat : string) (rep : string) : string =
  let n = String.length s and m = String.length pat in
  if m = 0 then s else begin
    let b = Buffer.create n in
    let i = ref 0 in
    while !i < n do
      if !i + m <= n && String.sub s !i m = pat then (Buffer.add_string b rep; i := !i + m)
      else (Buffer.add_char b s.[!i]; incr i)
    done;
    Buffer.contents b
  end
let contains (s : string) (pat : string) : bool =
  let n = String.length s and m = String.length pat in
  let rec go i = i + m <= n && (String.sub s i m = pat || go (i + 1)) in
  m = 0 || go 0
