(* main_cNN.exe <ID> --seed S --tier quick|thorough --out FILE : writes the case file for one property.
   One executable per property (generated main_cNN.ml), so that a generator that does not compile only affects its own property. *)
let main (run : seed:int -> tier:string -> out_channel -> unit) =
  Util.check_bytes ();
  let id = ref "" and seed = ref 1 and tier = ref "quick" and out = ref "" in
  let rec args = function
    | "--seed" :: s :: r -> seed := int_of_string s; args r
    | "--tier" :: t :: r -> tier := t; args r
    | "--out" :: o :: r -> out := o; args r
    | x :: r -> id := x; args r
    | [] -> () in
  args (List.tl (Array.to_list Sys.argv));
  let oc = if !out = "" then stdout else open_out_bin !out in
  run ~seed:!seed ~tier:!tier oc;
  close_out oc
