(* C13 cases: templates built from a catalogue covering every tag kind, with every delimiter given a
   dash or not and the neighbouring text given leading / trailing whitespace; the dash-free,
   hand-trimmed counterpart is computed by the extracted strip_dashes. *)
open Util
open Model
open Lexgen

type piece = T of string | V of string | B of string | C of string    (* text, print tag content, block tag content, comment *)

let catalogue : (string * piece list) array = [|
  "print",     [ T "x"; V " a "; T "y"; V " b|upper "; T "z" ];
  "if-else",   [ B " if a "; T "yes"; B " else "; T "no"; B " endif " ];
  "elseif",    [ T "s"; B " if c "; T "1"; B " elseif a "; T "2"; B " else "; T "3"; B " endif "; T "e" ];
  "for-else",  [ B " for i in items "; T "<"; V " i "; T ">"; B " else "; T "none"; B " endfor " ];
  "for-empty", [ B " for i in [] "; T "x"; B " else "; T "none"; B " endfor "; T "." ];
  "set",       [ T "p"; B " set z = a "; T "q"; V " z " ];
  "block",     [ T "["; B " block b "; T "body "; V " a "; B " endblock "; T "]" ];
  "extends",   [ B " extends 'base' "; B " block b "; T "child "; V " a "; B " endblock " ];
  "include",   [ T "i:"; B " include 'inc' "; T ":after" ];
  "include-w", [ B " include 'inc' with {'a': 'W'} only "; T "." ];
  "macro",     [ B " macro m(x) "; T "["; V " x "; T "]"; B " endmacro "; T "call:"; V " m(a) " ];
  "import",    [ B " import 'macros' as mm "; T "r:"; V " mm.hi(a) " ];
  "from",      [ B " from 'macros' import hi "; T "r:"; V " hi(a) " ];
  "apply",     [ T "u:"; B " apply upper "; T "abc "; V " a "; B " endapply "; T ":v" ];
  "spaceless", [ B " spaceless "; T "<p> "; T "<b>x</b> "; T "</p>"; B " endspaceless " ];
  "verbatim",  [ T "v:"; B " verbatim "; T "{{ a }} raw "; B " endverbatim "; T ":w" ];
  "verbatim+", [ B " verbatim "; T " {{ a }} "; B " endverbatim "; T " x "; V " a "; T " y "; B " if a "; T " z "; B " endif "; T " ." ];
  "verbatim2", [ T "1 "; B " verbatim "; T "r"; B " endverbatim "; T " 2 "; B " verbatim "; T "s"; B " endverbatim "; T " 3 "; V " b "; T " 4" ];
  "do",        [ T "d"; B " do 1 + 2 "; T "t" ];
  "nested",    [ B " for i in items "; B " if i == 1 "; T "one"; B " else "; V " i "; B " endif "; T ","; B " endfor " ];
  "comment",   [ T "a "; V " a "; T " "; T "b" ];
  (* nothing between the delimiters (and their dashes) and the content: a digit, a name, a string, a bracket *)
  "tight-print", [ T "total: "; V "7"; T " . "; V "a"; T " , "; V "7 "; T " ; "; V " 7"; T " : "; V "a|upper"; T " ! "; V "'q'"; T " ? "; V "(7)"; T " / "; V "[7][0]" ];
  "tight-block", [ T "s "; B "if a"; T " yes "; B "else"; T " no "; B "endif"; T " e "; B "set z = 7"; T " "; V "z"; T " f" ];
  "tight-for",   [ B "for i in items"; T " < "; V "i"; T " > "; B "endfor"; T " ." ];
  (* comments next to dashed tags and between a text and a tag: they are nothing, on either side of a dash *)
  "comment-left",  [ T "<div> "; C " left "; V " a "; T " "; C " right "; T " </div>" ];
  "comment-between", [ T "x "; V " a "; C " c "; T "\n y "; C "c2"; B " if a "; T " in "; C " c3 "; B " endif "; T " z" ];
  "comment-only-gap", [ V " a "; C " gap "; V " b "; T " "; C ""; T " "; V " a " ];
  "comment-in-block", [ B " block b "; C " note "; T " body "; C " note2 "; B " endblock "; T " tail" ];
  (* bodies that are nothing but whitespace, under filters that make something of the empty text *)
  "apply-blank",   [ T "["; B " apply length "; T ""; B " endapply "; T "]"; B " apply json_encode "; T " "; B " endapply "; T "." ];
  "apply-blank-chain", [ T "("; B " apply upper "; T ""; B " endapply "; T ")"; B " apply title "; T ""; B " endapply "; T "/"; B " spaceless "; T " "; B " endspaceless "; T ";" ];
  "blank-bodies",  [ B " if a "; T ""; B " else "; T ""; B " endif "; T "|"; B " for i in items "; T ""; B " endfor "; T "|"; B " block b "; T ""; B " endblock "; T "." ];
  (* print tags whose value is whitespace or has whitespace at its ends, directly next to dashed tags: the dash removes
     template text, never what a tag prints *)
  "literal-print", [ T "x"; V " a "; V " ' ' "; V " b "; V " '  pad  ' "; B " if a "; V " ' in ' "; B " endif "; V " \"\\t\" "; V " a "; T "y" ];
  "literal-print-2", [ V " ' lead' "; V " a "; V " 'trail ' "; B " for i in items "; V " ' ' "; V " i "; B " endfor "; V " ' ' ~ ' ' "; V " sp "; V " a " ];
  (* letters whose code point, cut to one byte, is that of a blank, tab, CR or LF (U+0420, U+010D, U+4E0D, U+4E0A, U+2020,
     U+0109, U+0220), at the edges of the texts next to the tags *)
  "letters-like-blanks", [ T "\xd0\xa0"; V " a "; T "\xd0\xa0\xd0\xbe\xd1\x81 \xc4\x8d"; V " b "; T "\xe4\xb8\x8d\xe4\xb8\x8a\xe2\x80\xa0"; B " if a "; T "\xe2\x80\xa0x\xe4\xb8\x8a"; B " endif ";
                           T "\xc4\x8d"; V " a "; T "\xc4\x89\xc8\xa0" ];
  (* a do tag that is no assignment, with assignments, defaults and with-hashes in the tags that follow *)
  "do-then-assignments", [ T "s "; B " do 1 + 2 "; T " "; B " set y = 7 "; V " y "; B " do a "; B " macro m(p = 1) "; T "m"; B " endmacro "; B " do m(2) "; B " include 'inc' with {'a': 'W'} only "; T " ." ];
  (* the closing tag repeats the block's name *)
  "block-named", [ T "[ "; B " block b "; T " body "; V " a "; T " "; B " endblock b "; T " ]" ];
  "block-named-ext", [ B " extends 'base' "; B " block b "; T " child "; V " a "; T " "; B " endblock b " ];
|]

(* whitespace the dash removes, and whitespace-like bytes it must leave alone (no-break space, form
   feed, vertical tab, NEL, ideographic space, U+2028) *)
let ws_more = Array.append ws_choices [| "\xc2\xa0"; " \xc2\xa0 "; "\x0c"; "\x0b "; "\xc2\x85"; "\xe3\x80\x80"; "\n\xe2\x80\xa8"; "\x00 "; " \x1f" |]

let run ~seed ~tier oc =
  let r = mk_rng seed in
  let n = if tier = "thorough" then 30000 else 2500 in
  for caseno = 1 to n do
    let name, pieces = catalogue.((caseno - 1) mod Array.length catalogue) in
    let dense = rint r 3 = 0 in
    let ndash = ref 0 and nws = ref 0 in
    (* optional whitespace-only or padded text between consecutive tags *)
    let pieces = List.concat_map (fun p ->
      match p with
      | T s ->
          let l = pick r ws_more and t = pick r ws_more in
          if l <> "" || t <> "" then incr nws;
          [ T (l ^ s ^ t) ]
      | C _ as p -> [ p ]
      | p -> if rint r 4 = 0 then [ p; T (pick r [| " "; "\n"; "\t \n"; " . " |]) ] else [ p ]) pieces in
    let segs = List.map (fun p ->
      let dl = rint r (if dense then 2 else 4) = 0 and dr = rint r (if dense then 2 else 4) = 0 in
      (match p with T _ | C _ -> () | _ -> (if dl then incr ndash); (if dr then incr ndash));
      match p with
      | T s -> SText (b s)
      | C c -> STag (OComment, b c, false)
      | V c -> STag ((if dl then OVarT else OVar), b c, dr)
      | B c -> STag ((if dl then OBlockT else OBlock), b c, dr)) pieces in
    let segs = merge_texts segs in
    if roundtrips segs then begin
      let src = unparse segs in
      let stripped = strip_dashes false segs in
      let src' = unparse stripped in
      let fields, _ = lex_json src in
      emit oc (Ob ([ "stream", JS name; "src", JS (hexb src); "stripped", JS (hexb src'); "ndash", JI !ndash; "nws", JI !nws ] @ fields))
    end
  done
