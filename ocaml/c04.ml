(* C04 cases: (1) every string over a small scanner alphabet up to a length bound, (2) random byte
   strings with embedded tags, (3) segment-structured templates of text, comments, print tags and
   verbatim blocks with the predicted output. *)
open Util
open Model
open Lexgen

let alphabet = [| "{"; "}"; "%"; "#"; "-"; "\\"; " "; "a"; "\n"; "\x80" |]

let emit_src oc stream (src : string) extra =
  let fields, _ = lex_json (b src) in
  emit oc (Ob ([ "stream", JS stream; "src", JS (hex src) ] @ fields @ extra))

let rec all_strings k f prefix =
  if k = 0 then f prefix
  else Array.iter (fun a -> all_strings (k - 1) f (prefix ^ a)) alphabet

let gen_segments r =
  let n = 1 + rint r 7 in
  let segs = ref [] in
  for _ = 1 to n do
    let s =
      match rint r 10 with
      | 0 | 1 | 2 | 3 -> SText (b (gen_text r ~maxparts:5))
      | 4 | 5 -> STag (OComment, b (pick r [| ""; " c "; "{{ a }}"; "{% if x %}"; " # } "; "\xff{"; " {# nested "; "a\nb";
                                              (* quotes without a partner: a comment is not an expression *)
                                              " it's "; " isn't "; " 5\" wide "; "'"; "\""; " '}} "; " \"%} x"; " {{ 'a }} " |]), false)
      | _ ->
          let name = pick r [| "a"; "b"; "c"; "d"; "zz" |] in
          let sp1 = pick r [| ""; " "; "  "; "\n" |] and sp2 = pick r [| ""; " "; "\t" |] in
          let k = if rint r 4 = 0 then OVarT else OVar in
          let tr = rint r 4 = 0 in
          (* a plain opener must not be followed directly by a dash, nor a plain closer preceded by one *)
          STag (k, b ((if sp1 = "" && k = OVar then " " else sp1) ^ name ^ (if sp2 = "" && not tr then "" else sp2)), tr)
    in
    segs := s :: !segs
  done;
  merge_texts (List.rev !segs)

let predicted_output (ts : otok list) : string option =
  let buf = Buffer.create 64 in
  let ok = ref true in
  List.iter (fun t ->
    match t with
    | OText s -> Buffer.add_string buf (string_of_bytes s)
    | OEsc k -> Buffer.add_string buf (string_of_bytes (pattern k))
    | OTag (OComment, _, _) -> ()
    | OTag ((OVar | OVarT), c, _) -> Buffer.add_string buf (ctx_value (String.trim (string_of_bytes c)))
    | OTag _ -> ok := false) (ws_control false ts);
  if !ok then Some (Buffer.contents buf) else None

let run ~seed ~tier oc =
  let r = mk_rng seed in
  let maxlen = if tier = "thorough" then 6 else 5 in
  for k = 0 to maxlen do all_strings k (fun s -> emit_src oc "exhaustive" s []) "" done;
  (* random byte strings with embedded delimiters *)
  let n = if tier = "thorough" then 20000 else 2000 in
  for _ = 1 to n do
    let parts = 1 + rint r 12 in
    let buf = Buffer.create 64 in
    for _ = 1 to parts do
      match rint r 6 with
      | 0 -> Buffer.add_string buf (pick r [| "{{"; "{{-"; "{%"; "{%-"; "{#"; "}}"; "-}}"; "%}"; "-%}"; "#}"; "\\{{"; "\\{%"; "\\" |])
      | 1 -> Buffer.add_string buf (pick r [| " a "; " b|upper "; "if a"; "endif"; "verbatim"; "endverbatim"; "-"; " - " |])
      | 2 -> Buffer.add_char buf (Char.chr (rint r 256))
      | _ -> Buffer.add_string buf (pick r text_alphabet)
    done;
    emit_src oc "random" (Buffer.contents buf) []
  done;
  (* segment-structured templates with the predicted output *)
  let m = if tier = "thorough" then 20000 else 2500 in
  let made = ref 0 and tries = ref 0 in
  while !made < m && !tries < 20 * m do
    incr tries;
    let segs = gen_segments r in
    if roundtrips segs then begin
      incr made;
      let src = string_of_bytes (unparse segs) in
      match lex_small (unparse segs) with
      | LexOk ts ->
          (match predicted_output ts with
           | Some out -> emit_src oc "segments" src [ "out", JS (hex out); "nseg", JI (List.length segs) ]
           | None -> emit_src oc "segments" src [])
      | _ -> ()
    end
  done;
  (* the same kind of templates behind more than 4096 bytes of text with lone braces, so that the
     large-template tokenizer is the one the engine uses *)
  let ml = if tier = "thorough" then 2000 else 120 in
  let made = ref 0 and tries = ref 0 in
  while !made < ml && !tries < 20 * ml do
    incr tries;
    let filler = String.concat "" (List.init (480 + rint r 60) (fun i -> pick r [| "body { color: red } "; "lorem ipsum dolor sit amet, "; "if (a) { b } % c # d - "; "<p class=\"x\">\n"; "} else { "; "50% off # now \\ then " |])) in
    let segs = merge_texts (SText (b filler) :: gen_segments r) in
    if roundtrips segs then begin
      match lex_small (unparse segs) with
      | LexOk ts ->
          (match predicted_output ts with
           | Some out -> incr made; emit oc (Ob [ "stream", JS "segments-large"; "src", JS (hexb (unparse segs)); "lex", JS "skip"; "out", JS (hex out) ])
           | None -> ())
      | _ -> ()
    end
  done;
  (* verbatim bodies in several enclosing constructs; oracle only (two contexts, no context data) *)
  let nv = if tier = "thorough" then 4000 else 400 in
  for _ = 1 to nv do
    let parts = 1 + rint r 6 in
    let buf = Buffer.create 64 in
    for _ = 1 to parts do
      Buffer.add_string buf (pick r [| "{{ a }}"; "{{ b|upper }}"; "{% if a %}Y{% endif %}"; "{# c #}"; "{{ items|first }}"; "{{ a ~ b }}";
                                       " lit "; "<p>"; "{% for i in items %}{{ i }}{% endfor %}"; "{{ d }}"; "\xc3\xa9"; "{ x }"; "{%- set q = a -%}"; "{{- a -}}";
                                       (* the closing and opening tags of other constructs, and of other template languages, are text here *)
                                       "{% endraw %}{{ a }}"; "{% raw %}{{ b }}"; "{% endblock %}{{ a }}"; "{% endif %}"; "{% endfor %}{{ d }}"; "{% endmacro %}"; "{% else %}{{ a }}";
                                       "{% verbatim %}"; "{% endverbatimx %}{{ a }}"; "{% end verbatim %}{{ b }}"; "{% extends a %}"; "{% include a %}"; "{% endapply %}{{ a }}";
                                       "{% endspaceless %}"; "{% endautoescape %}{{ a }}"; "{% endcomment %}"; "{{ '{% endverbatim' }}" |])
    done;
    let body = "VB1" ^ Buffer.contents buf ^ "VB2" in
    let v = pick r [| "{% verbatim %}"; "{%- verbatim -%}"; "{% verbatim -%}" |] ^ body ^ pick r [| "{% endverbatim %}"; "{%- endverbatim %}"; "{% endverbatim -%}" |] in
    let src = match rint r 7 with
      | 0 -> "{% if 1 %}" ^ v ^ "{% endif %}"
      | 1 -> "{% for i in [1, 2] %}" ^ v ^ "{% endfor %}"
      | 2 -> "{% block blk %}" ^ v ^ "{% endblock %}"
      | 3 -> "{% macro m(a, b) %}" ^ v ^ "{% endmacro %}{{ m('ARGVAL1', 'ARGVAL2') }}"
      | 4 -> "{% macro m(a) %}{% if a %}" ^ v ^ "{% endif %}{% endmacro %}{{ _self.m('ARGVAL1') }}"
      | 5 -> "{% set a = 'CTXVAL9' %}" ^ v
      | _ -> "pre " ^ v ^ " post" in
    emit oc (Ob [ "stream", JS "verbatim"; "src", JS (hex src); "lex", JS "n/a"; "body_marker", JS (hex "VB1"); "body_end", JS (hex "VB2") ])
  done;
  (* literal text that looks like tags (escaped openers with everything a tag has behind them, lone braces) inside the
     constructs a text can stand in -- a called macro above all: it is text there too; nothing in it is evaluated, so
     the output is the same for every context and holds no context or argument data *)
  let nl = if tier = "thorough" then 3000 else 300 in
  for _ = 1 to nl do
    let parts = 1 + rint r 4 in
    let buf = Buffer.create 64 in
    for _ = 1 to parts do
      Buffer.add_string buf (pick r [| "\\{{ a }}"; "\\{{ b|upper }}"; "\\{% if a %}"; "\\{# c #}"; "\\{{- a -}}"; " lit "; "<p>"; "{ a }"; "{ {a} }"; "} }"; "% }"; "\\{{ a"; "x\\{{ items|first }}y";
                                       "\\{{ a ~ b }} and \\{{ d }}" |])
    done;
    let v = "EO1" ^ Buffer.contents buf ^ "EO2" in
    (* what the text is once the escaping backslashes are gone (the listed known finding): every other byte stays *)
    let v' = List.fold_left (fun acc (a, b) -> Str_compat.replace_all acc a b) v [ ("\\{{", "{{"); ("\\{%", "{%"); ("\\{#", "{#") ] in
    let (src, exact) = match rint r 8 with
      | 0 -> ("{% if 1 %}" ^ v ^ "{% endif %}", v')
      | 1 -> ("{% for i in [1, 2] %}" ^ v ^ "{% endfor %}", v' ^ v')
      | 2 -> ("{% block blk %}" ^ v ^ "{% endblock %}", v')
      | 3 | 4 -> ("{% macro m(a, b) %}" ^ v ^ "{% endmacro %}{{ m('ARGVAL1', 'ARGVAL2') }}", v')
      | 5 -> ("{% macro m(a) %}{% if a %}" ^ v ^ "{% endif %}{% endmacro %}{{ _self.m('ARGVAL1') }}", v')
      | 6 -> ("{% set a = 'CTXVAL9' %}" ^ v, v')
      | _ -> ("pre " ^ v ^ " post", "pre " ^ v' ^ " post") in
    emit oc (Ob [ "stream", JS "literal-in-construct"; "src", JS (hex src); "lex", JS "n/a"; "body_marker", JS (hex "EO1"); "exact", JS (hex exact) ])
  done;
  (* the listed known finding: a backslash directly before an opener *)
  List.iter (fun (src, out) -> emit_src oc "known:backslash-before-opener" src [ "out", JS (hex out); "demanded", JS (hex src) ])
    [ "a\\{{ x }}b", "a{{ x }}b"; "\\{% if %}", "{% if %}"; "x\\{# c #}y", "x{# c #}y"; "p \\{{- q", "p {{- q" ]
