(* C06 case generation: sandbox confinement.
   A case is a template set whose template main includes sb0 with the keyword sandboxed; below that boundary a chain
   of up to three nesting steps (include, include only, include with, nested sandboxed include, extends, import + module
   call, from-import + call, local macro call, parent(), the top level of an imported / from-imported template) leads to ONE syntactic position holding the target name: a spy
   filter, a spy function, a built-in filter or a built-in function. The policy of the case decides whether the target
   and the names the nesting itself needs (macro names, parent, helper filters) are allowed:
     none       nothing is allowed
     spies      only the spy callbacks are allowed (the built-in targets and every macro call are forbidden)
     allbut     everything the case uses except the target (the forbidden name is reached through allowed constructs)
     all        everything the case uses (what the policy allows keeps working)
   Every case carries the model's prediction (outcome, trace, calls per spy) and, independently of the model, what the
   construction of the case says: the names that are unconditionally evaluated inside the sandbox (reached), hence
   must_fail = one of them is forbidden, and the spies that are forbidden while used inside the sandbox only.
   Streams:
     c06-pos      every position x nesting x policy x target (exhaustive up to a nesting length, random above)
     c06-unreach  positions that are NOT evaluated (untaken branches, unused defaults, short circuits, overridden
                  blocks): a forbidden name there refuses nothing
     c06-names    near misses of the allowed names (other case, extension, prefix, long name): refused
     c06-outside  forbidden names before, after and in the arguments of the sandboxed include, in the includer:
                  never refused
     c06-rand     generated template sets with a policy and sandboxed includes (model against engine)
     c06-swallow  the two places that swallowed the violation before aee56e1 / 36660ef (spaceless tag, x.a is defined):
                  an ordinary regression stream now, a render that succeeds there is an oracle failure *)
open Util
module M = Model
module G = Evalgen

let bs = G.bs
let lit_str = G.lit_str and lit_int = G.lit_int and var = G.var
let text s = M.NText (bs s)
let print e = M.NPrint e
let filt e f args = M.EFilter (e, bs f, args)
let call f args = M.ECall (bs f, args)
let hash kvs = M.EHash (List.map (fun (k, v) -> (lit_str k, v)) kvs)
let include_ ?(withs = None) ?(only = false) ?(sandboxed = false) name = M.NInclude (name, withs, false, only, sandboxed)

(* ---------------------------------------------------------------- targets and policies *)
type target = { tkind : string; tname : string; custom : bool }
let t_spy = { tkind = "filter"; tname = "spy"; custom = true }
let t_spyfn = { tkind = "function"; tname = "spyfn"; custom = true }
let t_upper = { tkind = "filter"; tname = "upper"; custom = false }
let t_max = { tkind = "function"; tname = "max"; custom = false }
let targets = [ t_spy; t_spyfn; t_upper; t_max ]

(* callbacks: spy / spyfn are used INSIDE the sandbox only, spyo / spyfno by the includer only, spya / spyfna are helpers
   inside (always allowed by every policy but none) *)
let customs = [
  { G.ckind = "filter"; G.cname = "spy"; G.cb = M.CbId }; { G.ckind = "filter"; G.cname = "spyo"; G.cb = M.CbId };
  { G.ckind = "filter"; G.cname = "spya"; G.cb = M.CbId };
  { G.ckind = "function"; G.cname = "spyfn"; G.cb = M.CbId }; { G.ckind = "function"; G.cname = "spyfno"; G.cb = M.CbId };
  { G.ckind = "function"; G.cname = "spyfna"; G.cb = M.CbId };
  { G.ckind = "test"; G.cname = "spyt"; G.cb = M.CbId };
  (* near misses of the allowed names: another case, an extension, a prefix, a long name *)
  { G.ckind = "filter"; G.cname = "Spy"; G.cb = M.CbId }; { G.ckind = "filter"; G.cname = "spy2"; G.cb = M.CbId };
  { G.ckind = "filter"; G.cname = "sp"; G.cb = M.CbId }; { G.ckind = "filter"; G.cname = "spy_long_filter_name_x"; G.cb = M.CbId };
  { G.ckind = "filter"; G.cname = "UPPER"; G.cb = M.CbId };
  { G.ckind = "function"; G.cname = "Spyfn"; G.cb = M.CbId }; { G.ckind = "function"; G.cname = "spyfn2"; G.cb = M.CbId };
  { G.ckind = "function"; G.cname = "spyf"; G.cb = M.CbId }; { G.ckind = "function"; G.cname = "spyfn_long_function_name"; G.cb = M.CbId } ]
let near_misses = [ { tkind = "filter"; tname = "Spy"; custom = true }; { tkind = "filter"; tname = "spy2"; custom = true };
                    { tkind = "filter"; tname = "sp"; custom = true }; { tkind = "filter"; tname = "spy_long_filter_name_x"; custom = true };
                    { tkind = "filter"; tname = "UPPER"; custom = true };
                    { tkind = "function"; tname = "Spyfn"; custom = true }; { tkind = "function"; tname = "spyfn2"; custom = true };
                    { tkind = "function"; tname = "spyf"; custom = true }; { tkind = "function"; tname = "spyfn_long_function_name"; custom = true } ]

let builtin_filters = [ "upper"; "lower"; "default"; "join"; "length"; "reverse"; "raw"; "escape"; "e"; "trim"; "first"; "last";
                        "keys"; "sort"; "slice"; "capitalize"; "title"; "abs"; "spaceless"; "merge"; "nl2br"; "count" ]
let builtin_functions = [ "range"; "max"; "min"; "length"; "merge"; "parent"; "count" ]

(* ---------------------------------------------------------------- building one case *)
type build = {
  mutable tpls : (string * M.node list) list;
  mutable reached : (string * string) list;    (* (kind, name) unconditionally evaluated inside the sandbox *)
  mutable used : (string * string) list;       (* every name written inside the sandbox *)
  mutable n : int;
}
let fresh b prefix = b.n <- b.n + 1; Printf.sprintf "%s%d" prefix b.n
let reach b k n = b.reached <- (k, n) :: b.reached; b.used <- (k, n) :: b.used
let mention b k n = b.used <- (k, n) :: b.used
let add_tpl b name nodes = b.tpls <- b.tpls @ [ (name, nodes) ]

(* the target applied to a scalar (x = 'v', n = 3) / to the list xs *)
let e_target b ?(reached = true) (t : target) ~(seq : bool) : M.expr =
  (if reached then reach else mention) b t.tkind t.tname;
  match t.tkind, seq with
  | "filter", false -> filt (var "x") t.tname []
  | "filter", true -> filt (var "xs") t.tname []
  | _, false -> if t.custom then call t.tname [ var "x" ] else call t.tname [ var "n"; lit_int 1 ]
  | _, true -> call t.tname [ var "xs" ]

exception Skip

(* a position: the nodes that hold the target, written into the current template *)
let positions = [
  "print"; "chain-first"; "chain-middle"; "chain-last"; "chain-first-of-two-spies"; "filter-arg"; "function-arg"; "if-cond"; "elseif-cond";
  "for-seq"; "for-seq-chain-first"; "for-seq-chain-last"; "for-seq-array"; "for-body"; "set-value"; "include-name"; "include-with";
  "macro-arg"; "macro-default"; "array-elem"; "hash-value"; "cond-branch"; "test-arg"; "apply-tag"; "apply-body"; "do-tag";
  "block-body"; "parent-body"; "spaceless-body"; "concat-operand"; "defined-operand"; "item-index"; "attr-base"; "module-call-arg";
  "nested-filter-arg-chain"; "if-body"; "not-operand" ]

let position (b : build) (p : string) (t : target) : M.node list =
  let et ?(seq = false) () = e_target b t ~seq in
  let is_filter = t.tkind = "filter" in
  let need_filter () = if not is_filter then raise Skip in
  let need_custom () = if not t.custom then raise Skip in
  let helper_f n = reach b "filter" n and helper_fn n = reach b "function" n in
  match p with
  | "print" -> [ print (et ()) ]
  | "chain-first" -> need_filter (); helper_f "lower"; reach b t.tkind t.tname; [ print (filt (filt (var "x") t.tname []) "lower" []) ]
  | "chain-middle" -> need_filter (); helper_f "lower"; helper_f "trim"; reach b t.tkind t.tname;
    [ print (filt (filt (filt (var "x") "trim" []) t.tname []) "lower" []) ]
  | "chain-last" -> need_filter (); helper_f "trim"; reach b t.tkind t.tname; [ print (filt (filt (var "x") "trim" []) t.tname []) ]
  | "chain-first-of-two-spies" -> need_filter (); helper_f "spya"; reach b t.tkind t.tname;
    [ print (filt (filt (var "x") t.tname []) "spya" []) ]
  | "filter-arg" -> helper_f "default"; [ print (filt (var "undefinedvar") "default" [ et () ]) ]
  | "function-arg" -> helper_fn "spyfna"; [ print (call "spyfna" [ et () ]) ]
  | "if-cond" -> [ M.NIf ([ (et (), [ text "T" ]) ], Some [ text "F" ]) ]
  | "elseif-cond" -> [ M.NIf ([ (M.ELit (M.LBool false), [ text "A" ]); (et (), [ text "B" ]) ], None) ]
  | "for-seq" -> need_custom (); [ M.NFor (None, bs "i", et ~seq:true (), [ print (var "i") ], None) ]
  | "for-seq-chain-first" -> need_filter (); need_custom (); helper_f "reverse"; reach b t.tkind t.tname;
    [ M.NFor (None, bs "i", filt (filt (var "xs") t.tname []) "reverse" [], [ print (var "i") ], None) ]
  | "for-seq-chain-last" -> need_filter (); need_custom (); helper_f "reverse"; reach b t.tkind t.tname;
    [ M.NFor (None, bs "i", filt (filt (var "xs") "reverse" []) t.tname [], [ print (var "i") ], None) ]
  | "for-seq-array" -> [ M.NFor (None, bs "i", M.EArr [ et (); lit_int 7 ], [ print (var "i") ], None) ]
  | "for-body" -> [ M.NFor (None, bs "i", M.EArr [ lit_int 1; lit_int 2 ], [ print (et ()); text "," ], None) ]
  | "set-value" -> [ M.NSet (bs "y", et ()); print (var "y") ]
  | "include-name" ->
    need_custom ();
    reach b t.tkind t.tname;
    let name = if is_filter then filt (lit_str "leaf") t.tname [] else call t.tname [ lit_str "leaf" ] in
    [ include_ name ]
  | "include-with" -> [ include_ ~withs:(Some (hash [ ("q", et ()) ])) (lit_str "leafq") ]
  | "macro-arg" ->
    let m = fresh b "pm" in
    reach b "function" m;
    [ M.NMacro (bs m, [ (bs "a", None) ], [ text "["; print (var "a"); text "]" ]); print (call m [ et () ]) ]
  | "macro-default" ->
    let m = fresh b "pd" in
    reach b "function" m;
    [ M.NMacro (bs m, [ (bs "a", Some (et ())) ], [ text "["; print (var "a"); text "]" ]); print (call m []) ]
  | "array-elem" -> helper_f "join"; [ print (filt (M.EArr [ lit_int 1; et () ]) "join" [ lit_str "," ]) ]
  | "hash-value" -> [ M.NSet (bs "h", hash [ ("k", et ()) ]); print (M.EAttr (var "h", bs "k")) ]
  | "cond-branch" -> [ print (M.ECond (M.ELit (M.LBool true), et (), lit_int 1)) ]
  | "test-arg" -> [ M.NIf ([ (M.ETest (lit_int 1, bs "same_as", [ et () ], false), [ text "S" ]) ], Some [ text "D" ]) ]
  | "apply-tag" -> need_filter (); reach b t.tkind t.tname; [ M.NApply (bs t.tname, [], [ text "body "; print (var "x") ]) ]
  | "apply-body" -> helper_f "lower"; [ M.NApply (bs "lower", [], [ text "B"; print (et ()) ]) ]
  | "do-tag" -> [ M.NDo (et ()); text "done" ]
  | "block-body" -> [ M.NBlock (bs (fresh b "bp"), [ print (et ()) ]) ]
  | "parent-body" ->
    let child = fresh b "pc" and base = fresh b "pb" and k = fresh b "bk" in
    helper_fn "parent";
    add_tpl b base [ text "<"; M.NBlock (bs k, [ text "P"; print (et ()) ]); text ">" ];
    add_tpl b child [ M.NExtends (lit_str base); M.NBlock (bs k, [ text "C"; print (call "parent" []) ]) ];
    [ include_ (lit_str child) ]
  | "spaceless-body" -> helper_f "spaceless"; [ M.NSpaceless [ text "<a> "; print (et ()); text " <b>" ] ]
  | "concat-operand" -> [ print (M.EBin (M.BConcat, lit_str "c", et ())) ]
  | "defined-operand" -> [ M.NIf ([ (M.ETest (et (), bs "defined", [], false), [ text "D" ]) ], Some [ text "U" ]) ]
  | "item-index" -> [ print (M.EItem (var "m", et ())) ]
  | "attr-base" -> need_custom (); reach b t.tkind t.tname;
    [ print (M.EAttr ((if is_filter then filt (var "m") t.tname [] else call t.tname [ var "m" ]), bs "v")) ]
  | "module-call-arg" ->
    let lib = fresh b "lb" and m = fresh b "lm" and alias = fresh b "al" in
    reach b "function" m;
    add_tpl b lib [ M.NMacro (bs m, [ (bs "a", None) ], [ text "{"; print (var "a"); text "}" ]) ];
    [ M.NImport (lit_str lib, bs alias); print (M.EModCall (var alias, bs m, [ et () ])) ]
  | "nested-filter-arg-chain" -> need_filter (); helper_f "default"; helper_f "lower"; reach b t.tkind t.tname;
    [ print (filt (var "undefinedvar") "default" [ filt (filt (var "x") t.tname []) "lower" [] ]) ]
  | "if-body" -> [ M.NIf ([ (M.ELit (M.LBool true), [ print (et ()) ]) ], None) ]
  | "not-operand" -> [ print (M.EUn (M.UNot, et ())) ]
  | _ -> raise Skip

(* positions that are not evaluated *)
let unreached_positions = [ "untaken-cond"; "untaken-else"; "elseif-after-true"; "for-else-nonempty"; "default-with-arg"; "and-short";
                            "or-short"; "macro-never-called"; "overridden-block"; "include-ignore-missing-after"; "empty-loop-body" ]
let unreached_position (b : build) (p : string) (t : target) : M.node list =
  let et ?(seq = false) () = e_target b ~reached:false t ~seq in
  match p with
  | "untaken-cond" -> [ print (M.ECond (M.ELit (M.LBool false), et (), lit_int 1)) ]
  | "untaken-else" -> [ M.NIf ([ (M.ELit (M.LBool true), [ text "A" ]) ], Some [ print (et ()) ]) ]
  | "elseif-after-true" -> [ M.NIf ([ (M.ELit (M.LBool true), [ text "A" ]); (et (), [ text "B" ]) ], None) ]
  | "for-else-nonempty" -> [ M.NFor (None, bs "i", var "xs", [ print (var "i") ], Some [ print (et ()) ]) ]
  | "default-with-arg" ->
    let m = fresh b "pd" in
    reach b "function" m;
    [ M.NMacro (bs m, [ (bs "a", Some (et ())) ], [ text "["; print (var "a"); text "]" ]); print (call m [ lit_int 5 ]) ]
  | "and-short" -> [ print (M.EBin (M.BAnd, M.ELit (M.LBool false), et ())) ]
  | "or-short" -> [ print (M.EBin (M.BOr, M.ELit (M.LBool true), et ())) ]
  | "macro-never-called" -> [ M.NMacro (bs (fresh b "nm"), [], [ print (et ()) ]); text "k" ]
  | "overridden-block" ->
    let child = fresh b "oc" and base = fresh b "ob" and k = fresh b "bk" in
    add_tpl b base [ text "<"; M.NBlock (bs k, [ print (et ()) ]); text ">" ];
    add_tpl b child [ M.NExtends (lit_str base); M.NBlock (bs k, [ text "C" ]) ];
    [ include_ (lit_str child) ]
  | "include-ignore-missing-after" -> [ M.NIf ([ (M.ELit (M.LBool false), [ print (et ()) ]) ], None); text "z" ]
  | "empty-loop-body" -> [ M.NFor (None, bs "i", M.EArr [], [ print (et ()) ], None); text "e" ]
  | _ -> raise Skip

(* ---------------------------------------------------------------- nesting below the sandbox boundary *)
let steps = [ "include"; "include-only"; "include-with"; "include-sandboxed"; "extends"; "import"; "from"; "macro"; "parent";
              "import-top"; "from-top" ]
let pass_vars = Some (hash [ ("x", var "x"); ("n", var "n"); ("xs", var "xs"); ("m", var "m") ])

(* the nodes, for the current template, that lead through the remaining steps to the payload *)
let rec wrap (b : build) (st : string list) (payload : unit -> M.node list) : M.node list =
  match st with
  | [] -> payload ()
  | s :: rest ->
    (match s with
     | "include" -> let t = fresh b "ti" in add_tpl b t (wrap b rest payload); [ text "("; include_ (lit_str t); text ")" ]
     | "include-only" ->
       let t = fresh b "to" in add_tpl b t (wrap b rest payload); [ include_ ~withs:pass_vars ~only:true (lit_str t) ]
     | "include-with" ->
       let t = fresh b "tw" in add_tpl b t (wrap b rest payload);
       [ include_ ~withs:(Some (hash [ ("w", lit_int 1) ])) (lit_str t) ]
     | "include-sandboxed" ->
       let t = fresh b "ts" in add_tpl b t (wrap b rest payload); [ include_ ~sandboxed:true (lit_str t) ]
     | "extends" ->
       let t = fresh b "te" and base = fresh b "tb" and k = fresh b "bk" in
       add_tpl b base [ text "<"; M.NBlock (bs k, [ text "base" ]); text ">" ];
       add_tpl b t [ M.NExtends (lit_str base); M.NBlock (bs k, wrap b rest payload) ];
       [ include_ (lit_str t) ]
     | "import" ->
       let lib = fresh b "tl" and m = fresh b "mi" and alias = fresh b "al" in
       reach b "function" m;
       add_tpl b lib [ M.NMacro (bs m, [], wrap b rest payload) ];
       [ M.NImport (lit_str lib, bs alias); print (M.EModCall (var alias, bs m, [])) ]
     | "from" ->
       let lib = fresh b "tf" and m = fresh b "mf" in
       reach b "function" m;
       add_tpl b lib [ M.NMacro (bs m, [], wrap b rest payload) ];
       [ M.NFrom (lit_str lib, [ (bs m, bs m) ]); print (call m []) ]
     | "import-top" ->
       (* the top level of an imported template is rendered (into nothing) when it is imported *)
       let lib = fresh b "tq" and m = fresh b "mq" and alias = fresh b "al" in
       add_tpl b lib (wrap b rest payload @ [ M.NMacro (bs m, [], [ text "q" ]) ]);
       [ M.NImport (lit_str lib, bs alias); text "i" ]
     | "from-top" ->
       let lib = fresh b "tr" and m = fresh b "mr" in
       add_tpl b lib (wrap b rest payload @ [ M.NMacro (bs m, [], [ text "r" ]) ]);
       [ M.NFrom (lit_str lib, [ (bs m, bs m) ]); text "f" ]
     | "macro" ->
       let m = fresh b "mm" in
       reach b "function" m;
       [ M.NMacro (bs m, [], wrap b rest payload); print (call m []) ]
     | "parent" ->
       let child = fresh b "tc" and base = fresh b "tp" and k = fresh b "bk" in
       reach b "function" "parent";
       add_tpl b base [ text "<"; M.NBlock (bs k, wrap b rest payload); text ">" ];
       add_tpl b child [ M.NExtends (lit_str base); M.NBlock (bs k, [ text "c"; print (call "parent" []) ]) ];
       [ include_ (lit_str child) ]
     | _ -> raise Skip)

let ctx0 : (string * M.value) list =
  [ "x", G.vstr "v"; "n", G.vint 3; "xs", G.vlist [ G.vint 1; G.vint 2 ]; "m", G.vmap [ ("v", G.vstr "mv"); ("k", G.vint 9) ] ]

let uniq l = List.sort_uniq compare l
let names_of kind l = uniq (List.filter_map (fun (k, n) -> if k = kind then Some n else None) l)

let policy_of (pname : string) (b : build) (t : target) : string list * string list =
  let used_f = names_of "filter" b.used and used_fn = names_of "function" b.used in
  let all_f = uniq (builtin_filters @ [ "spy"; "spya" ] @ used_f) and all_fn = uniq (builtin_functions @ [ "spyfn"; "spyfna" ] @ used_fn) in
  let drop k l = if t.tkind = k then List.filter (fun n -> n <> t.tname) l else l in
  match pname with
  | "none" -> ([], [])
  | "spies" -> ([ "spy"; "spya" ], [ "spyfn"; "spyfna" ])
  | "allbut" -> (drop "filter" all_f, drop "function" all_fn)
  | _ -> (all_f, all_fn)
let policies = [ "none"; "spies"; "allbut"; "all" ]

let allowed (pf, pfn) (k, n) = if k = "filter" then List.mem n pf else List.mem n pfn

let emitted = ref 0 and skipped = ref 0

(* how main reaches the sandboxed include *)
let boundaries = [ "plain"; "only-with"; "through-plain-include" ]

let emit_built oc ~stream ~(b : build) ~(t : target) ~(pname : string) ~(boundary : string) ~(pos : string) ~(nest : string list)
    ~(sb0 : M.node list) ~(extra_main_before : M.node list) ~(extra_main_after : M.node list) ~(extra : (string * json) list) =
  add_tpl b "sb0" sb0;
  add_tpl b "leaf" [ text "L" ];
  add_tpl b "leafq" [ text "Q"; print (var "q") ];
  let inc = match boundary with
    | "only-with" -> [ include_ ~withs:pass_vars ~only:true ~sandboxed:true (lit_str "sb0") ]
    | "through-plain-include" -> add_tpl b "outer1" [ text "{"; include_ ~sandboxed:true (lit_str "sb0"); text "}" ]; [ include_ (lit_str "outer1") ]
    | _ -> [ include_ ~sandboxed:true (lit_str "sb0") ] in
  add_tpl b "main" ([ text "[" ] @ extra_main_before @ inc @ extra_main_after @ [ text "]" ]);
  let pol = policy_of pname b t in
  let env = { G.tpls = b.tpls; G.custom = customs; G.policy = Some pol } in
  let reached = uniq b.reached in
  let forbidden_reached = List.filter (fun kn -> not (allowed pol kn)) reached in
  let must_fail = forbidden_reached <> [] in
  let inside_only (k, n) = List.exists (fun c -> c.G.ckind = k && c.G.cname = n) customs && n <> "spyo" && n <> "spyfno" in
  let forbidden_inside = List.filter (fun k -> inside_only k && not (allowed pol k)) (uniq b.used) in
  let extra = [ "pos", JS pos; "nest", JL (List.map (fun s -> JS s) nest); "depth", JI (List.length nest); "pol", JS pname;
                "boundary", JS boundary; "target", JS (t.tkind ^ ":" ^ t.tname);
                "target_allowed", JB (allowed pol (t.tkind, t.tname));
                "must_fail", JB must_fail;
                "forbidden_reached", JL (List.map (fun (k, n) -> JS (k ^ ":" ^ n)) forbidden_reached);
                "forbidden_inside", JL (List.map (fun (k, n) -> JS (k ^ ":" ^ n)) forbidden_inside) ] @ extra in
  if G.emit_case oc ~stream ~extra env "main" ctx0 then incr emitted else incr skipped

let new_build () = { tpls = []; reached = []; used = []; n = 0 }

let one_pos oc ~stream ~reachedp (pos : string) (nest : string list) (pname : string) (t : target) (boundary : string) =
  let b = new_build () in
  match (try Some (wrap b nest (fun () -> [ text "<" ] @ (if reachedp then position b pos t else unreached_position b pos t) @ [ text ">" ]))
         with Skip -> None) with
  | None -> ()
  | Some sb0 ->
    emit_built oc ~stream ~b ~t ~pname ~boundary ~pos ~nest ~sb0 ~extra_main_before:[] ~extra_main_after:[]
      ~extra:[ "reachedp", JB reachedp ]

let rec nestings (len : int) : string list list =
  if len = 0 then [ [] ] else List.concat_map (fun s -> List.map (fun r -> s :: r) (nestings (len - 1))) steps

(* ---------------------------------------------------------------- the includer keeps its permissions *)
let outside_stream oc =
  List.iter (fun pname ->
    List.iter (fun inner ->
      let b = new_build () in
      (* inside: only what every policy but none allows; for none: nothing that needs a name *)
      let sb0 = match inner, pname with
        | _, "none" -> [ text "in:"; print (var "x"); M.NIf ([ (var "n", [ text "y" ]) ], None) ]
        | "spy", _ -> mention b "filter" "spya"; mention b "function" "spyfna";
          [ text "in:"; print (filt (var "x") "spya" []); print (call "spyfna" [ var "n" ]) ]
        | _, _ -> [ text "in:"; print (var "x") ] in
      let before = [ print (filt (filt (var "x") "spyo" []) "upper" []); print (call "spyfno" [ var "n" ]);
                     M.NFor (None, bs "i", filt (var "xs") "spyo" [], [ print (var "i") ], None);
                     M.NApply (bs "spyo", [], [ text "ap" ]); M.NSet (bs "q", call "max" [ var "n"; lit_int 9 ]);
                     M.NMacro (bs "om", [ (bs "a", Some (filt (var "x") "spyo" [])) ], [ print (var "a") ]); print (call "om" []) ] in
      let after = [ include_ ~withs:(Some (hash [ ("q", filt (var "x") "spyo" []) ])) ~sandboxed:true (lit_str "leafq");
                    include_ ~sandboxed:true (filt (lit_str "leaf") "spyo" []);
                    print (filt (var "q") "spyo" []); M.NSpaceless [ text "<i> "; print (call "spyfno" [ lit_int 1 ]); text " <j>" ];
                    M.NIf ([ (M.ETest (M.EAttr (call "spyfno" [ var "m" ], bs "v"), bs "defined", [], false), [ text "D" ]) ], Some [ text "U" ]) ] in
      emit_built oc ~stream:"c06-outside" ~b ~t:t_spy ~pname ~boundary:"plain" ~pos:("outside-" ^ inner) ~nest:[] ~sb0
        ~extra_main_before:before ~extra_main_after:after ~extra:[ "outside", JB true ])
      [ "plain"; "spy" ])
    [ "none"; "spies"; "all" ]

(* ---------------------------------------------------------------- the two places that used to swallow the violation *)
let swallow_stream oc =
  let one name sb0_of pname t =
    let b = new_build () in
    let sb0 = sb0_of b t in
    emit_built oc ~stream:"c06-swallow" ~b ~t ~pname ~boundary:"plain" ~pos:name ~nest:[] ~sb0
      ~extra_main_before:[] ~extra_main_after:[] ~extra:[] in
  (* a spaceless tag with nothing else inside that needs a name; the policy does not allow the spaceless filter *)
  List.iter (fun pname ->
    one "spaceless-tag" (fun b _ -> reach b "filter" "spaceless"; [ M.NSpaceless [ text "<a> <b>" ] ]) pname
      { tkind = "filter"; tname = "spaceless"; custom = false }) [ "none"; "spies"; "allbut" ];
  (* forbidden.a is defined *)
  List.iter (fun t -> List.iter (fun pname ->
    one "defined-attr" (fun b t ->
      reach b t.tkind t.tname;
      let base = if t.tkind = "filter" then filt (var "m") t.tname [] else call t.tname [ var "m" ] in
      [ M.NIf ([ (M.ETest (M.EAttr (base, bs "v"), bs "defined", [], false), [ text "D" ]) ], Some [ text "U" ]) ]) pname t)
    [ "none"; "allbut" ]) [ t_spy; t_spyfn ]

(* ---------------------------------------------------------------- generated template sets *)
let rand_stream r oc n =
  let made = ref 0 and tries = ref 0 in
  while !made < n && !tries < 30 * n do
    incr tries;
    let (env, main) = G.gen_template_set r ~depth:(1 + rint r 3) in
    (* always with a policy: the generated sets use sandboxed includes freely then *)
    let env = match env.G.policy with
      | Some _ -> env
      | None -> { env with G.policy = Some (match rint r 3 with
          | 0 -> ([], [])
          | 1 -> ([ "upper"; "lower"; "length"; "e"; "escape"; "spy"; "join"; "default"; "reverse"; "trim" ], [ "range"; "spyfn"; "max"; "parent" ])
          | _ -> ([ "spy2"; "raw"; "sort"; "keys"; "first"; "last"; "spaceless" ], [ "length"; "min"; "lib1_m0"; "lib1_m1"; "loc0" ])) } in
    let has_sandbox = List.exists (fun (_, ns) -> Str_compat.contains (try G.pp_nodes ns with G.Unprintable _ -> "") " sandboxed %}") env.G.tpls in
    if has_sandbox || rint r 6 = 0 then
      if G.emit_case oc ~stream:"c06-rand" ~extra:[ "pol", JS "rand"; "depth", JI 1 ] env main (G.gen_ctx r) then incr made
  done

(* a filter and a function that share their name: the policy answers per kind. The allowed one is used first, the
   forbidden one afterwards, in one sandboxed template and in two sandboxed includes one after the other; also deep
   chains of plain includes below the sandboxed one (the flag has no depth at which it wears off) *)
let samename_stream oc =
  let customs2 = customs @ [ { G.ckind = "filter"; G.cname = "spyb"; G.cb = M.CbId }; { G.ckind = "function"; G.cname = "spyb"; G.cb = M.CbId } ] in
  let fcall = print (call "spyb" [ var "n" ]) and ffilt = print (filt (var "x") "spyb" []) in
  List.iter (fun (allowed_kind, first, second) ->
    let forb = if allowed_kind = "function" then "filter" else "function" in
    let pol = if allowed_kind = "function" then ([ "spya"; "upper" ], [ "spyb"; "spyfna" ]) else ([ "spyb"; "spya"; "upper" ], [ "spyfna" ]) in
    List.iter (fun (shape, tpls) ->
      let env = { G.tpls = tpls; G.custom = customs2; G.policy = Some pol } in
      let extra = [ "pos", JS ("samename-" ^ shape); "nest", JL []; "depth", JI 0; "pol", JS ("only-" ^ allowed_kind); "boundary", JS "plain";
                    "target", JS (forb ^ ":spyb"); "target_allowed", JB false; "must_fail", JB true;
                    "forbidden_reached", JL [ JS (forb ^ ":spyb") ]; "forbidden_inside", JL [ JS (forb ^ ":spyb") ] ] in
      if G.emit_case oc ~stream:"c06-samename" ~extra env "main" ctx0 then incr emitted else incr skipped)
      [ "one-template", [ ("sb0", [ text "<"; first; text "|"; second; text ">" ]); ("main", [ text "["; include_ ~sandboxed:true (lit_str "sb0"); text "]" ]) ];
        "two-includes", [ ("sbA", [ text "<"; first; text ">" ]); ("sbB", [ text "<"; second; text ">" ]);
                          ("main", [ text "["; include_ ~sandboxed:true (lit_str "sbA"); include_ ~sandboxed:true (lit_str "sbB"); text "]" ]) ];
        "loop", [ ("sb0", [ M.NFor (None, bs "i", M.EArr [ lit_int 1; lit_int 2; lit_int 3 ], [ first ], None); second ]);
                  ("main", [ include_ ~sandboxed:true (lit_str "sb0") ]) ] ])
    [ ("function", fcall, ffilt); ("filter", ffilt, fcall) ];
  (* a chain of plain includes below a sandboxed include, the forbidden spy at the bottom *)
  List.iter (fun depth ->
    let name k = Printf.sprintf "d%d" k in
    let tpls = List.init depth (fun k -> (name k, [ text "("; include_ (lit_str (name (k + 1))); text ")" ]))
               @ [ (name depth, [ print (filt (var "x") "spy" []) ]); ("main", [ text "["; include_ ~sandboxed:true (lit_str (name 0)); text "]" ]) ] in
    let env = { G.tpls = tpls; G.custom = customs; G.policy = Some ([ "spya"; "upper" ], [ "spyfna" ]) } in
    let extra = [ "pos", JS "deep-include-chain"; "nest", JL []; "depth", JI depth; "pol", JS "allbut"; "boundary", JS "plain";
                  "target", JS "filter:spy"; "target_allowed", JB false; "must_fail", JB true;
                  "forbidden_reached", JL [ JS "filter:spy" ]; "forbidden_inside", JL [ JS "filter:spy" ] ] in
    if G.emit_case oc ~stream:"c06-deep" ~extra env "main" ctx0 then incr emitted else incr skipped)
    [ 1; 5; 14; 15; 16; 17; 18; 25; 40 ]

(* other routes from a sandboxed template to further templates: the function form of include (whatever the engine makes
   of it: a stub that refuses, or an implementation), a template that only extends a layout and defines no block of
   its own or only other blocks, reached directly and through include only. Only one fact is stated: the forbidden
   spy at the end of the route is never invoked. *)
let routes_stream oc =
  let spy = print (filt (var "x") "spy" []) and spyf = print (call "spyfn" [ var "n" ]) in
  let sbx name = [ text "["; include_ ~sandboxed:true (lit_str name); text "]" ] in
  let pol = Some ([ "spya"; "upper"; "spyfn" ], [ "spyfna"; "include"; "parent"; "block"; "source" ]) in
  let extra shape = [ "pos", JS ("route-" ^ shape); "nest", JL []; "depth", JI 1; "pol", JS "allbut"; "boundary", JS "plain";
                      "target", JS "filter:spy"; "target_allowed", JB false; "must_fail", JB false;
                      "forbidden_reached", JL []; "forbidden_inside", JL [ JS "filter:spy"; JS "function:spyfn" ] ] in
  let inner = ("inner", [ text "<"; spy; spyf; text ">" ]) in
  let layout = ("layout", [ text "L("; spy; M.NBlock (bs "b", [ spyf ]); text ")" ]) in
  List.iter (fun (shape, tpls) ->
    let env = { G.tpls = tpls; G.custom = customs; G.policy = pol } in
    if G.emit_case oc ~stream:"c06-routes" ~extra:(extra shape) env "main" ctx0 then incr emitted else incr skipped)
    ([ "include-function", [ inner; ("sb0", [ print (call "include" [ lit_str "inner" ]) ]); ("main", sbx "sb0") ];
       "include-function-vars", [ inner; ("sb0", [ print (call "include" [ lit_str "inner"; hash [ ("x", lit_str "q") ] ]) ]); ("main", sbx "sb0") ];
       "include-function-without-context", [ inner; ("sb0", [ print (call "include" [ lit_str "inner"; hash [ ("x", lit_str "q"); ("n", lit_int 1) ]; M.ELit (M.LBool false) ]) ]); ("main", sbx "sb0") ];
       "include-function-all-arguments", [ inner; ("sb0", [ print (call "include" [ lit_str "inner"; hash []; M.ELit (M.LBool false); M.ELit (M.LBool true); M.ELit (M.LBool false) ]) ]); ("main", sbx "sb0") ];
       "include-function-in-set", [ inner; ("sb0", [ M.NSet (bs "z", call "include" [ lit_str "inner"; hash []; M.ELit (M.LBool false) ]); print (var "z") ]); ("main", sbx "sb0") ];
       "extends-without-blocks", [ layout; ("sb0", [ M.NExtends (lit_str "layout") ]); ("main", sbx "sb0") ];
       "extends-with-another-block", [ layout; ("sb0", [ M.NExtends (lit_str "layout"); M.NBlock (bs "other", [ text "o" ]) ]); ("main", sbx "sb0") ];
       "extends-without-blocks-through-only", [ layout; ("e", [ M.NExtends (lit_str "layout") ]); ("sb0", [ include_ ~withs:pass_vars ~only:true (lit_str "e") ]); ("main", sbx "sb0") ];
       "extends-chain-without-blocks", [ layout; ("mid", [ M.NExtends (lit_str "layout") ]); ("sb0", [ M.NExtends (lit_str "mid") ]); ("main", sbx "sb0") ];
       "extends-dynamic-without-blocks", [ layout; ("sb0", [ M.NExtends (M.EBin (M.BConcat, lit_str "lay", lit_str "out")) ]); ("main", sbx "sb0") ];
       (* the name of a forbidden function written where a filter stands, under a policy that knows the name as a filter *)
       "function-name-as-filter", [ ("sb0", [ print (filt (var "n") "spyfn" []) ]); ("main", sbx "sb0") ];
       "function-name-as-filter-in-for", [ ("sb0", [ M.NFor (None, bs "i", filt (var "xs") "spyfn" [], [ text "x" ], None) ]); ("main", sbx "sb0") ];
       "function-name-as-filter-in-apply", [ ("sb0", [ M.NApply (bs "spyfn", [], [ text "x" ]) ]); ("main", sbx "sb0") ];
       "function-name-as-filter-in-chain", [ ("sb0", [ print (filt (filt (var "x") "upper" []) "spyfn" []) ]); ("main", sbx "sb0") ];
       "source-function", [ inner; ("sb0", [ print (call "source" [ lit_str "inner" ]) ]); ("main", sbx "sb0") ];
       "block-function", [ ("sb0", [ M.NBlock (bs "b", [ spy ]); print (call "block" [ lit_str "b" ]) ]); ("main", sbx "sb0") ] ])

let run ~seed ~tier oc =
  let r = mk_rng seed in
  let thorough = tier = "thorough" in
  samename_stream oc;
  routes_stream oc;
  let exhaustive_len = if thorough then 2 else 1 in
  (* every position x target x policy under every nesting up to exhaustive_len, all boundaries at nesting length 0 *)
  for len = 0 to exhaustive_len do
    List.iter (fun nest ->
      List.iter (fun pos ->
        List.iter (fun t ->
          List.iter (fun pname ->
            let bnds = if len = 0 then boundaries else [ List.nth boundaries (rint r (List.length boundaries)) ] in
            List.iter (fun bd -> one_pos oc ~stream:"c06-pos" ~reachedp:true pos nest pname t bd) bnds)
            (if len >= 2 then [ "allbut"; List.nth policies (rint r 4) ] else policies))
          (if len >= 2 then [ t_spy; t_spyfn; List.nth targets (rint r 4) ] else targets))
        positions)
      (nestings len)
  done;
  (* deeper nestings: random *)
  let deep = if thorough then 150000 else 2500 in
  for _ = 1 to deep do
    let len = exhaustive_len + 1 + rint r (3 - exhaustive_len) in
    let nest = List.init len (fun _ -> pickl r steps) in
    let pos = pickl r positions and t = pickl r targets in
    let pname = if rint r 3 = 0 then pickl r policies else "allbut" in
    one_pos oc ~stream:"c06-pos" ~reachedp:true pos nest pname t (pickl r boundaries)
  done;
  (* unreached positions *)
  List.iter (fun pos -> List.iter (fun t -> List.iter (fun pname -> List.iter (fun nest ->
      one_pos oc ~stream:"c06-unreach" ~reachedp:false pos nest pname t "plain")
      ([ [] ] @ (if thorough then nestings 1 else [ [ "include" ]; [ "macro" ]; [ "extends" ] ])))
      [ "none"; "allbut"; "all" ]) targets) unreached_positions;
  (* near misses of allowed names: the policy is a set of exact names *)
  List.iter (fun t -> List.iter (fun pos -> List.iter (fun nest -> List.iter (fun pname ->
      one_pos oc ~stream:"c06-names" ~reachedp:true pos nest pname t "plain")
      [ "spies"; "allbut"; "all" ]) [ []; [ "include" ]; [ "macro" ] ])
      [ "print"; "chain-first"; "for-seq"; "apply-tag"; "function-arg"; "macro-default" ]) near_misses;
  outside_stream oc;
  swallow_stream oc;
  rand_stream r oc (if thorough then 20000 else 600);
  prerr_endline (Printf.sprintf "c06: %d cases, %d without a spelling" !emitted !skipped)
