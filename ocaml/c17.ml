(* C17 case generation: failures during rendering surface as errors that wrap their cause.

   A case is a template set in which EVERY callback site has its own registered spy callback (filter sfN, function
   fnN, test stN: all behave like spy_id), so that the N-th invocation of a clean run identifies one site in one
   iteration. The Go runner (harness/c17.go) does the fault enumeration on the real engine: it counts the callback
   invocations N of a clean run and re-runs the case once per k <= N (cap 40) with the k-th invocation failing with a
   sentinel error, under Render and RenderTo, debug mode on and off, sentinel wrapped and bare, and checks the
   property's own oracle (error non-nil, errors.Is finds the sentinel, Render returns the empty string). It also
   un-registers every invoked callback in turn (unknown filter / function / test at every reached position), and
   serves the template set through a counting loader to fail the j-th load (I/O error, and not-found).

   What a case carries from the model (Model/Eval.v), for the correspondence:
     exp     outcome of the clean run, ctrace its custom-callback events in order ("kind:name")
     faults  for each k <= cap: the event, whether it is the first invocation of its callback, and - for a first
             invocation - the outcome of the model in the environment env_fail_at trace k 1 env of Spec/ErrSpec.v
             (extracted), which C17_faults_surface says is Err (ESentinel 1) with the trace cut after event k
     unreg   for each invoked callback: the outcome of the model in es_env_without kind name env (extracted),
             which C17_unresolved_names_fail says is Err EOther
   Streams:
     c17-gen           generated template sets (all node kinds, nesting <= 4, spies in every position)
     c17-shape         catalogue of shapes: element access under default, nested not-found under ignore missing, ...
     regress:defined-attr a callback inside the object expression of x.y is defined  (swallowed before aee56e1)
     regress:spaceless    the spaceless tag with a registered spaceless filter, and the sandbox refusing it
                          (swallowed before 36660ef)
     dead-sites        raw sources aimed at the two discard sites no tokenised template reaches (a text node with
                       {{ .. }} inside a macro body, a loop variable name containing a bar): the runner checks with a hook that the
                       parser never builds those node shapes, and that a callback which is invoked and fails gives an error
     missing:*         an unknown macro / template name at one reference site of a generated set, with a probe
                       callback evaluated immediately before the lookup (probe invoked => the render must fail) *)
open Util
module M = Model
module G = Evalgen

let bs = G.bs and sb = G.sb
let lit_int = G.lit_int and lit_str = G.lit_str and var = G.var

(* ---------------------------------------------------------------- fresh callbacks *)
type gs = { mutable next : int; mutable customs : G.custom list; mutable blockno : int }
let new_gs () = { next = 0; customs = []; blockno = 0 }
let fresh (g : gs) (kind : string) : string =
  let n = g.next in
  g.next <- n + 1;
  let name = (match kind with "filter" -> "sf" | "function" -> "fn" | _ -> "st") ^ string_of_int n in
  g.customs <- { G.ckind = kind; G.cname = name; G.cb = M.CbId } :: g.customs;
  name
let spy_filter g e = M.EFilter (e, bs (fresh g "filter"), [])
let spy_fn g e = M.ECall (bs (fresh g "function"), [ e ])
let spy_test g r e = M.ETest (e, bs (fresh g "test"), [], rint r 4 = 0)

(* ---------------------------------------------------------------- expressions *)
type ty = TN | TS | TB | TL | TM
type opts = {
  macros : (string * int) list;                    (* callable by name *)
  modules : (string * (string * int) list) list;   (* import aliases *)
  bound : (string * ty) list;                      (* loop / set / parameter variables with their kind *)
  spies : bool;
  in_name : bool;                                  (* inside a template-name expression *)
}
let opts0 = { macros = []; modules = []; bound = []; spies = true; in_name = false }

let strs = [| "a"; "bc"; "x y"; "<b>"; "h\xc3\xa9y"; "Q"; "" |]
let keys = [| "a"; "b"; "k"; "name" |]

let rec gexpr (g : gs) r (o : opts) ~depth (t : ty) : M.expr =
  let e = gbase g r o ~depth t in
  if not o.spies then e else
    match rint r 7 with
    | 0 -> spy_filter g e
    | 1 -> spy_fn g e
    | 2 when t = TS && not o.in_name -> M.EFilter (spy_filter g e, bs (pick r [| "upper"; "lower"; "trim" |]), [])
    | 3 when t = TS && not o.in_name -> spy_filter g (M.EFilter (spy_filter g e, bs (pick r [| "upper"; "capitalize"; "e" |]), []))
    | _ -> e
and gbase g r o ~depth t : M.expr =
  let sub t' = gexpr g r o ~depth:(depth - 1) t' in
  let leaf = depth <= 0 in
  let bound_of t = List.filter_map (fun (x, t') -> if t' = t then Some x else None) o.bound in
  let bvar t dflt = match bound_of t with [] -> dflt | l -> if rbool r then var (pickl r l) else dflt in
  match t with
  | TN ->
    (match if leaf then rint r 3 else rint r 10 with
     | 0 | 1 -> lit_int (rint r 12)
     | 2 -> bvar TN (var "n")
     | 3 | 4 -> M.EBin (pick r [| M.BAdd; M.BMul; M.BSub |], sub TN, sub TN)
     | 5 -> M.EFilter (sub (pick r [| TL; TS |]), bs "length", [])
     | 6 -> M.ECall (bs (pick r [| "max"; "min" |]), [ sub TN; sub TN ])
     | 7 -> M.ECond (sub TB, sub TN, sub TN)
     | 8 -> M.EFilter (any_access g r o ~depth, bs "default", [ sub TN ])
     | _ -> lit_int (rint r 5))
  | TS ->
    (match if leaf then rint r 3 else rint r 11 with
     | 0 | 1 -> lit_str (pick r strs)
     | 2 -> bvar TS (var "s")
     | 3 | 4 -> M.EBin (M.BConcat, sub TS, sub (pick r [| TS; TN |]))
     | 5 -> M.EFilter (sub TS, bs (pick r [| "upper"; "lower"; "trim"; "capitalize"; "e" |]), [])
     | 6 -> M.EFilter (sub TL, bs "join", [ lit_str (pick r [| ","; "-" |]) ])
     | 7 -> M.EFilter (sub TS, bs "default", [ sub TS ])
     | 8 -> M.ECond (sub TB, sub TS, sub TS)
     | 9 -> M.EFilter (any_access g r o ~depth, bs "default", [ sub TS ])
     | _ -> lit_str (pick r strs))
  | TB ->
    (match if leaf then rint r 3 else rint r 11 with
     | 0 -> M.ELit (M.LBool (rbool r))
     | 1 -> var "t"
     | 2 -> M.ETest (var (pick r [| "n"; "s"; "zz"; "xs" |]), bs "defined", [], rint r 4 = 0)
     | 3 | 4 -> M.EBin (pick r [| M.BLt; M.BGt; M.BLe; M.BEq; M.BNe |], sub TN, sub TN)
     | 5 -> M.EUn (M.UNot, sub TB)
     | 6 -> M.EBin (pick r [| M.BAnd; M.BOr |], sub TB, sub TB)
     | 7 | 8 when o.spies -> spy_test g r (sub (pick r [| TN; TS; TL |]))
     | 9 -> M.ETest (sub (pick r [| TS; TL |]), bs "empty", [], rint r 3 = 0)
     | _ -> M.EBin (M.BIn, sub TN, sub TL))
  | TL ->
    (match if leaf then rint r 3 else rint r 9 with
     | 0 -> bvar TL (var "xs")
     | 1 -> M.EArr (List.init (1 + rint r 3) (fun _ -> lit_int (rint r 9)))
     | 2 -> M.EArr [ lit_str (pick r strs); lit_str (pick r strs) ]
     | 3 | 4 -> M.EArr (List.init (1 + rint r 3) (fun _ -> sub (pick r [| TN; TS |])))
     | 5 -> M.ECall (bs "range", [ lit_int (rint r 3); lit_int (1 + rint r 3) ])
     | 6 -> M.EFilter (sub TL, bs (pick r [| "reverse"; "sort" |]), [])
     | 7 -> M.EFilter (sub TM, bs "keys", [])
     | _ -> M.EFilter (sub TL, bs "slice", [ lit_int (rint r 2) ]))
  | TM ->
    (match if leaf then rint r 2 else rint r 4 with
     | 0 -> var "m"
     | 1 -> M.EHash [ (lit_str (pick r keys), sub (pick r [| TN; TS |])) ]
     | 2 -> M.EHash (List.map (fun k -> (lit_str k, sub (pick r [| TN; TS |]))) [ "a"; "k" ])
     | _ -> M.EFilter (sub TM, bs "merge", [ sub TM ]))
(* an element access whose operand is a callback result: x.f().y, f(x)[i], (x|f).name *)
and any_access g r o ~depth : M.expr =
  let d = depth - 1 in
  match rint r 5 with
  | 0 -> M.EAttr (spy_fn g (gexpr g r o ~depth:d TM), bs (pick r keys))
  | 1 -> M.EItem (spy_fn g (gexpr g r o ~depth:d TL), lit_int (rint r 3))
  | 2 -> M.EItem (gexpr g r o ~depth:d TL, spy_fn g (lit_int (rint r 2)))
  | 3 -> M.EAttr (spy_filter g (gexpr g r o ~depth:d TM), bs (pick r keys))
  | _ -> M.EItem (spy_filter g (gexpr g r o ~depth:d TM), lit_str (pick r keys))

let any_ty r = pick r [| TN; TS; TS; TB; TL; TM |]
let printable_ty r = pick r [| TN; TS; TS; TB |]

let macro_call g r (o : opts) ~depth : M.expr option =
  let args n = List.init (max 0 (n + rint r 2 - (if rbool r then 1 else 0))) (fun _ -> gexpr g r o ~depth:(depth - 1) (printable_ty r)) in
  match o.macros, o.modules with
  | [], [] -> None
  | ms, mods ->
    if mods <> [] && (ms = [] || rbool r) then
      let (alias, mms) = pickl r mods in
      (match mms with [] -> None | _ -> let (m, ar) = pickl r mms in Some (M.EModCall (var alias, bs m, args ar)))
    else
      let (m, ar) = pickl r ms in
      Some (if rint r 4 = 0 then M.EModCall (var "_self", bs m, args ar) else M.ECall (bs m, args ar))

(* ---------------------------------------------------------------- nodes *)
type nst = { tplname : string; includable : string list; libs : (string * (string * int) list) list }

let gtext r = M.NText (bs (pick r [| "t"; " "; "<p>"; "a b"; ";"; "x"; "-" |]))

let name_expr g r (t : string) : M.expr =
  match rint r 6 with
  | 0 -> spy_fn g (lit_str t)
  | 1 -> M.EBin (M.BConcat, lit_str (String.sub t 0 1), spy_fn g (lit_str (String.sub t 1 (String.length t - 1))))
  | 2 -> spy_filter g (lit_str t)
  | _ -> lit_str t

let rec gnodes g r (st : nst) (o : opts) ~depth ~len : M.node list =
  let n = 1 + rint r len in
  let rec go o k acc = if k = 0 then List.rev acc else let (nd, o') = gnode g r st o ~depth in go o' (k - 1) (nd :: acc) in
  go o n []
and gnode g r (st : nst) (o : opts) ~depth : M.node * opts =
  let body ?(o = o) () = if depth <= 0 then [ gtext r ] else gnodes g r st o ~depth:(depth - 1) ~len:3 in
  let ex t = gexpr g r o ~depth:2 t in
  match (if depth <= 0 then rint r 8 else rint r 31) with
  | 0 -> (gtext r, o)
  | 1 | 2 | 3 | 4 -> (M.NPrint (ex (printable_ty r)), o)
  | 5 | 6 ->
    let t = pick r [| TN; TS; TL |] in
    let x = pick r [| "a1"; "b1"; "q" |] in
    (M.NSet (bs x, ex t), { o with bound = (x, t) :: List.remove_assoc x o.bound })
  | 7 -> (M.NPrint (M.EFilter (any_access g r o ~depth:2, bs "default", [ lit_str "dflt" ])), o)
  | 8 | 9 | 10 ->
    let nb = 1 + rint r 2 in
    (M.NIf (List.init nb (fun _ -> (ex TB, body ())), (if rbool r then Some (body ()) else None)), o)
  | 11 | 12 | 13 | 14 ->
    let v = pick r [| "v"; "i"; "x1" |] in
    let k = if rint r 3 = 0 then Some "ky" else None in
    let (seq, ety) = match rint r 7 with
      | 0 -> (var "xs", TN)
      | 1 -> (M.EFilter (var "xs", bs (fresh g "filter"), []), TN)                         (* the loop's own filter route *)
      | 2 -> (M.EFilter (M.EFilter (var "xs", bs (fresh g "filter"), []), bs "reverse", []), TN)
      | 3 -> (spy_fn g (var "xs"), TN)
      | 4 -> (M.ECall (bs "range", [ lit_int 0; spy_fn g (lit_int (1 + rint r 2)) ]), TN)
      | 5 -> (M.EArr (List.init (1 + rint r 2) (fun _ -> ex TS)), TS)
      | _ -> (M.EFilter (var "m", bs "keys", []), TS) in
    let o' = { o with bound = (v, ety) :: (match k with Some k -> [ (k, TN) ] | None -> []) @ o.bound } in
    (M.NFor (Option.map bs k, bs v, seq, body ~o:o' (), (if rint r 4 = 0 then Some (body ()) else None)), o)
  | 15 -> (M.NDo (gexpr g r o ~depth:1 TN), o)
  | 16 ->
    g.blockno <- g.blockno + 1;
    let name = Printf.sprintf "b%s%d" st.tplname g.blockno in    (* named before the body is generated: no nested block of the same name *)
    let b = body () in
    (M.NBlock (bs name, b), o)
  | 17 | 18 | 19 when st.includable <> [] ->
    let t = pickl r st.includable in
    let withs = if rint r 3 = 0 then Some (M.EHash [ (lit_str "w", gexpr g r o ~depth:1 (printable_ty r)) ]) else None in
    (M.NInclude (name_expr g r t, withs, rint r 4 = 0, rint r 5 = 0, false), o)
  | 20 when st.includable <> [] -> (M.NInclude (lit_str "nosuchtpl", None, true, false, false), o)   (* the documented tolerance *)
  | 21 when st.libs <> [] ->
    let (lib, ms) = pickl r st.libs in
    let alias = pick r [| "lib"; "mm"; "forms" |] in
    (M.NImport ((if rint r 3 = 0 then spy_fn g (lit_str lib) else lit_str lib), bs alias), { o with modules = (alias, ms) :: o.modules })
  | 22 when st.libs <> [] ->
    let (lib, ms) = pickl r st.libs in
    (match ms with
     | [] -> (gtext r, o)
     | _ ->
       let (m, ar) = pickl r ms in
       let alias = if rbool r then m else "al_" ^ m in
       (M.NFrom (lit_str lib, [ (bs m, bs alias) ]), { o with macros = (alias, ar) :: List.remove_assoc alias o.macros }))
  | 23 -> (M.NVerbatim (bs (pick r [| "raw text"; " v " |])), o)
  | 24 | 25 -> (M.NApply (bs (if rbool r then fresh g "filter" else pick r [| "upper"; "lower"; "trim" |]), [], body ()), o)
  | 26 -> (M.NSpaceless (body ()), o)
  | 27 | 28 | 29 ->
    (match macro_call g r o ~depth:2 with Some c -> (M.NPrint c, o) | None -> (M.NPrint (ex (printable_ty r)), o))
  | _ -> (M.NPrint (ex (any_ty r)), o)

(* a macro library: macros with spies in bodies and in parameter defaults *)
let glib g r (name : string) : (string * M.node list) * (string * int) list =
  let nm = 1 + rint r 2 in
  let st = { tplname = name; includable = []; libs = [] } in
  let rec go i acc sigs =
    if i = nm then (List.rev acc, List.rev sigs) else
      let mname = Printf.sprintf "%s_m%d" name i in
      let arity = rint r 3 in
      let params = List.init arity (fun j ->
          let p = [| "p"; "q2"; "r3" |].(j) in
          (bs p, (if rint r 2 = 0 then Some (gexpr g r { opts0 with macros = [] } ~depth:1 (printable_ty r)) else None))) in
      let o = { opts0 with macros = sigs; bound = List.map (fun (p, _) -> (sb p, TS)) params } in
      let body = gnodes g r st o ~depth:1 ~len:3 in
      go (i + 1) (M.NMacro (bs mname, params, body) :: acc) ((mname, arity) :: sigs) in
  let (nodes, sigs) = go 0 [] [] in
  ((name, nodes), sigs)

let gset g r ~depth : G.caseenv * string =
  let (lib1, sig1) = glib g r "lib1" in
  let libs = [ ("lib1", sig1) ] in
  let mk name includable = let st = { tplname = name; includable; libs } in fun d len -> gnodes g r st opts0 ~depth:d ~len in
  let part1 = ("part1", (mk "part1" []) (depth - 1) 3) in
  let part2 = ("part2", (mk "part2" [ "part1" ]) (depth - 1) 3) in
  let bnames = [ "head"; "main"; "foot" ] in
  let g_base = mk "base" [ "part1" ] in
  let parent_call = M.NPrint (M.ECall (bs "parent", [])) in
  let base_nodes = List.concat_map (fun bn -> [ M.NText (bs ("<" ^ bn ^ ">")); M.NBlock (bs bn, g_base 1 2) ]) bnames @ g_base 1 2 in
  let override gen bn =
    let body = gen 1 2 in
    let body = match rint r 4 with 0 -> parent_call :: body | 1 -> body @ [ parent_call ] | _ -> body in
    M.NBlock (bs bn, body) in
  let g_mid = mk "mid" [ "part1" ] in
  let mid_nodes = M.NExtends (lit_str "base") :: List.concat_map (fun bn -> if rbool r then [ override g_mid bn ] else []) bnames in
  let g_main = mk "main" [ "part1"; "part2" ] in
  let main_nodes =
    if rint r 3 = 0 then
      M.NExtends (match rint r 6 with
          | 0 -> spy_fn g (lit_str "base")
          | 1 | 2 -> lit_str "mid"
          | 3 -> M.ECond (spy_fn g (var "t"), lit_str "mid", lit_str "base")
          | _ -> lit_str "base")
      :: List.concat_map (fun bn -> if rbool r then [ override g_main bn ] else []) bnames
    else
      let nloc = rint r 3 in
      let locals = List.init nloc (fun i ->
          let arity = rint r 3 in
          let params = List.init arity (fun j -> (bs [| "p"; "q2"; "r3" |].(j), (if rint r 2 = 0 then Some (spy_fn g (lit_int (rint r 9))) else None))) in
          let st = { tplname = "mainm"; includable = []; libs = [] } in
          let body = gnodes g r st { opts0 with bound = List.map (fun (p, _) -> (sb p, TN)) params } ~depth:1 ~len:3 in
          (M.NMacro (bs (Printf.sprintf "loc%d" i), params, body), (Printf.sprintf "loc%d" i, arity))) in
      let st = { tplname = "main"; includable = [ "part1"; "part2" ]; libs } in
      List.map fst locals @ gnodes g r st { opts0 with macros = List.map snd locals } ~depth ~len:5 in
  ({ G.tpls = [ lib1; part1; part2; ("base", base_nodes); ("mid", mid_nodes); ("main", main_nodes) ];
     G.custom = List.rev g.customs; G.policy = None }, "main")

(* ---------------------------------------------------------------- contexts *)
let gctx r : (string * M.value) list =
  [ "n", G.vint (pick r [| 0; 1; 2; 5 |]);
    "s", G.vstr (pick r strs);
    "xs", (match rint r 3 with
        | 0 -> G.vlist [ G.vint 3; G.vint 1; G.vint 2 ]
        | 1 -> M.VList (M.LInts, [ G.vint 4; G.vint 5 ])
        | _ -> G.vlist [ G.vint 7 ]);
    "m", G.vmap [ ("a", G.vint 1); ("k", G.vstr "v"); ("name", G.vstr "nm") ];
    "t", M.VBool (rbool r) ]

(* ---------------------------------------------------------------- the model's predictions *)
let fuel = 400
let cap = 40

let is_custom (e : G.caseenv) (ev : M.tr_event) : (string * string) option =
  let find k n = if List.exists (fun c -> c.G.ckind = k && c.G.cname = sb n) e.G.custom then Some (k, sb n) else None in
  match ev with
  | M.TrFilter n -> find "filter" n
  | M.TrFunction n -> find "function" n
  | M.TrTest n -> find "test" n
  | M.TrLoad _ -> None

let es_kind = function "filter" -> M.EsFilter | "function" -> M.EsFunction | _ -> M.EsTest
let run_env (menv : M.ev_env) main ctx =
  try M.render_template (nat_of_int fuel) menv (bs main) (List.map (fun (k, v) -> (bs k, v)) ctx)
  with Stack_overflow -> (M.Unmodelled, [])

(* template names every reference to which is an include ... ignore missing (string literals of the name expression) *)
let ign_only (tpls : (string * M.node list) list) (main : string) : string list * string list =
  let hard = Hashtbl.create 8 and soft = Hashtbl.create 8 in
  let rec lits (e : M.expr) : string list =
    match e with
    | M.ELit (M.LStr s) -> [ sb s ]
    | M.ELit _ | M.EVar _ -> []
    | M.EAttr (o, _) -> lits o
    | M.EItem (o, i) -> lits o @ lits i
    | M.EUn (_, a) -> lits a
    | M.EBin (_, a, b) -> lits a @ lits b @ (match a, b with M.ELit (M.LStr x), M.ELit (M.LStr y) -> [ sb x ^ sb y ] | _ -> [])
    | M.ECond (c, a, b) -> lits c @ lits a @ lits b
    | M.EArr es -> List.concat_map lits es
    | M.EHash kvs -> List.concat_map (fun (k, v) -> lits k @ lits v) kvs
    | M.EFilter (o, _, args) -> lits o @ List.concat_map lits args
    | M.ECall (_, args) -> List.concat_map lits args
    | M.EModCall (m, _, args) -> lits m @ List.concat_map lits args
    | M.ETest (a, _, args, _) -> lits a @ List.concat_map lits args in
  (* a computed name p ~ f(art1): every concatenation of its literals in order is a candidate *)
  let names e = let l = lits e in l @ [ String.concat "" l ] in
  let rec nd (n : M.node) =
    match n with
    | M.NInclude (e, _, ign, _, _) -> List.iter (fun s -> Hashtbl.replace (if ign then soft else hard) s ()) (names e)
    | M.NExtends e | M.NImport (e, _) | M.NFrom (e, _) -> List.iter (fun s -> Hashtbl.replace hard s ()) (names e)
    | M.NIf (brs, els) -> List.iter (fun (_, b) -> List.iter nd b) brs; Option.iter (List.iter nd) els
    | M.NFor (_, _, _, b, els) -> List.iter nd b; Option.iter (List.iter nd) els
    | M.NBlock (_, b) | M.NMacro (_, _, b) | M.NApply (_, _, b) | M.NSpaceless b -> List.iter nd b
    | _ -> () in
  List.iter (fun (_, ns) -> List.iter nd ns) tpls;
  Hashtbl.replace hard main ();
  (List.filter_map (fun (n, _) -> if Hashtbl.mem soft n && not (Hashtbl.mem hard n) then Some n else None) tpls,
   List.filter_map (fun (n, _) -> if Hashtbl.mem soft n && Hashtbl.mem hard n then Some n else None) tpls)

let rec take n = function [] -> [] | x :: r -> if n <= 0 then [] else x :: take (n - 1) r

let emitted = ref 0
let emit_c17 oc ~(stream : string) ?(extra = []) (e : G.caseenv) (main : string) (ctx : (string * M.value) list) : bool =
  match (try Some (G.case_input_fields e main ctx) with G.Unprintable _ -> None) with
  | None -> false
  | Some fields ->
    let menv = G.model_env e in
    let (r0, tr) = run_env menv main ctx in
    (* custom-callback events with their index in the model's trace *)
    let cev = List.filter_map (fun x -> x) (List.mapi (fun i ev -> match is_custom e ev with Some kn -> Some (i, kn) | None -> None) tr) in
    let seen = Hashtbl.create 16 in
    let faults = List.mapi (fun j (i, (k, n)) ->
        let first = not (Hashtbl.mem seen (k, n)) in
        Hashtbl.replace seen (k, n) ();
        let pred = if first then
            [ "pred", G.exp_json (fst (run_env (M.env_fail_at tr (nat_of_int i) (nat_of_int 1) menv) main ctx)) ] else [] in
        Ob ([ "k", JI (j + 1); "ev", JS (k ^ ":" ^ n); "first", JB first ] @ pred)) (take cap cev) in
    let cev = List.map snd cev in
    let distinct = List.rev (List.fold_left (fun acc x -> if List.mem x acc then acc else x :: acc) [] cev) in
    let distinct = List.filter (fun (_, n) -> n <> "spaceless") distinct in   (* a registered filter that shadows a core one: without it the name still resolves *)
    let unreg = List.map (fun (k, n) ->
        Ob [ "ev", JS (k ^ ":" ^ n); "pred", G.exp_json (fst (run_env (M.es_env_without (es_kind k) (bs n) menv) main ctx)) ]) (take cap distinct) in
    incr emitted;
    emit oc (Ob ([ "stream", JS stream ] @ fields
                 @ [ "exp", G.exp_json r0;
                     "ctrace", JL (List.map (fun (k, n) -> JS (k ^ ":" ^ n)) cev);
                     "loads", JL (List.filter_map (function M.TrLoad n -> Some (JS (sb n)) | _ -> None) tr);
                     "ign_only", JL (List.map (fun s -> JS s) (fst (ign_only e.G.tpls main)));
                     "ign_mixed", JL (List.map (fun s -> JS s) (snd (ign_only e.G.tpls main)));
                     "faults", JL faults; "unreg", JL unreg ] @ extra));
    true

(* ---------------------------------------------------------------- streams *)
let gen_stream r oc n =
  let made = ref 0 and tries = ref 0 in
  while !made < n && !tries < 20 * n do
    incr tries;
    let g = new_gs () in
    let (env, main) = gset g r ~depth:(1 + rint r 4) in
    if emit_c17 oc ~stream:"c17-gen" env main (gctx r) then incr made
  done

let text s = M.NText (bs s)
let print e = M.NPrint e
let call f args = M.ECall (bs f, args)
let filt e f args = M.EFilter (e, bs f, args)
let inc ?(ign = false) ?(only = false) ?(withs = None) e = M.NInclude (e, withs, ign, only, false)
let macro name params body = M.NMacro (bs name, List.map (fun (p, d) -> (bs p, d)) params, body)
let block name body = M.NBlock (bs name, body)
let forv v seq body = M.NFor (None, bs v, seq, body, None)
let ifn c a b = M.NIf ([ (c, a) ], Some b)
let cust k n = { G.ckind = k; G.cname = n; G.cb = M.CbId }
let ctx0 = [ "n", G.vint 2; "s", G.vstr "str"; "xs", G.vlist [ G.vint 3; G.vint 1 ]; "m", G.vmap [ ("a", G.vint 1); ("name", G.vstr "nm") ]; "t", M.VBool true;
             "id", G.vint 7 ]

(* shapes that a fault must get through; each is a plain c17 case: the runner enumerates the faults *)
let shapes : (string * (string * M.node list) list * G.custom list) list =
  let f0 = cust "function" "fetch" and f1 = cust "function" "fn1" and s0 = cust "filter" "sf0" and t0 = cust "test" "st0" in
  [ (* element access under default: the operand's failure is not an undefined element *)
    "attr-default", [ "main", [ text "a"; print (filt (M.EAttr (call "fetch" [ var "id" ], bs "name")) "default" [ lit_str "anonymous" ]); text "b" ] ], [ f0 ];
    "item-default", [ "main", [ text "a"; print (filt (M.EItem (call "fetch" [ var "xs" ], lit_int 0)) "default" [ lit_str "none" ]); text "b" ] ], [ f0 ];
    (* a callback inside the subscript of an item access that is tested with is defined / is not defined *)
    "item-index-is-defined", [ "main", [ text "a"; print (M.ECond (M.ETest (M.EItem (var "xs", call "fetch" [ lit_int 0 ]), bs "defined", [], false), lit_str "d", lit_str "u")); text "b" ] ], [ f0 ];
    "item-index-is-not-defined", [ "main", [ text "a"; ifn (M.ETest (M.EItem (var "m", filt (lit_str "name") "sf0" []), bs "defined", [], true)) [ text "T" ] [ text "F" ]; text "b" ] ], [ s0 ];
    "item-index-test-is-defined", [ "main", [ forv "i" (var "xs") [ print (M.ECond (M.ETest (M.EItem (var "xs", M.ECond (M.ETest (var "n", bs "st0", [], false), lit_int 0, lit_int 1)), bs "defined", [], false), lit_str "d", lit_str "u")) ] ] ], [ t0 ];
    "item-of-call-is-defined", [ "main", [ text "a"; print (M.ECond (M.ETest (M.EItem (call "fetch" [ var "xs" ], lit_int 0), bs "defined", [], false), lit_str "d", lit_str "u")); text "b" ] ], [ f0 ];
    "item-index-default", [ "main", [ print (filt (M.EItem (var "xs", call "fetch" [ lit_int 0 ])) "default" [ lit_str "none" ]) ] ], [ f0 ];
    "attr-default-chain", [ "main", [ print (filt (filt (M.EAttr (filt (var "m") "sf0" [], bs "name")) "default" [ lit_str "d" ]) "upper" []) ] ], [ s0 ];
    "attr-default-in-loop", [ "main", [ forv "i" (var "xs") [ print (filt (M.EAttr (call "fetch" [ var "m" ], bs "a")) "default" [ var "i" ]); text ";" ] ] ], [ f0 ];
    "attr-default-in-set-if", [ "main", [ M.NSet (bs "q", filt (M.EAttr (call "fetch" [ var "m" ], bs "zz")) "default" [ lit_str "d" ]); ifn (filt (M.EItem (call "fn1" [ var "m" ], lit_str "a")) "default" [ lit_int 0 ]) [ text "T" ] [ text "F" ] ] ], [ f0; f1 ];
    (* a failure inside a template included with ignore missing is not a missing template *)
    "ignore-missing-inner-fault", [ "p", [ text "P"; print (call "fn1" [ lit_int 1 ]); text "Q" ]; "main", [ text "a"; inc ~ign:true (lit_str "p"); text "b" ] ], [ f1 ];
    "ignore-missing-inner-include", [ "q", [ text "q"; print (filt (var "s") "sf0" []) ]; "p", [ text "P"; inc (lit_str "q"); text "Q" ]; "main", [ text "a"; inc ~ign:true (lit_str "p"); text "b" ] ], [ s0 ];
    "ignore-missing-inner-extends", [ "base", [ text "["; block "c" [ text "base" ]; text "]" ]; "p", [ M.NExtends (lit_str "base"); block "c" [ print (call "fn1" [ lit_str "o" ]) ] ];
                                      "main", [ text "a"; inc ~ign:true (lit_str "p"); text "b" ] ], [ f1 ];
    "ignore-missing-computed", [ "p", [ text "P" ]; "main", [ text "a"; inc ~ign:true (call "fn1" [ lit_str "p" ]); text "b" ] ], [ f1 ];
    (* every structure named by the property *)
    "loop-body-third-iteration", [ "main", [ forv "i" (call "range" [ lit_int 1; lit_int 4 ]) [ print (filt (var "i") "sf0" []); text "," ] ] ], [ s0 ];
    "loop-else", [ "main", [ M.NFor (None, bs "i", M.EArr [], [ text "x" ], Some [ print (call "fn1" [ lit_int 1 ]) ]) ] ], [ f1 ];
    "block-parent", [ "base", [ text "<"; block "c" [ print (call "fn1" [ lit_str "base" ]) ]; text ">" ]; "main", [ M.NExtends (lit_str "base"); block "c" [ text "child"; print (call "parent" []); print (filt (lit_str "x") "sf0" []) ] ] ], [ f1; s0 ];
    "block-parent-chain", [ "base", [ block "c" [ print (call "fn1" [ lit_str "base" ]) ] ]; "mid", [ M.NExtends (lit_str "base"); block "c" [ text "mid"; print (call "parent" []) ] ];
                            "main", [ M.NExtends (lit_str "mid"); block "c" [ text "leaf"; print (call "parent" []) ] ] ], [ f1 ];
    "inherited-parent-body", [ "base", [ text "head"; print (call "fn1" [ lit_int 1 ]); block "c" [ text "b" ]; print (filt (lit_str "tail") "sf0" []) ]; "main", [ M.NExtends (lit_str "base"); block "c" [ text "c" ] ] ], [ f1; s0 ];
    "macro-local", [ "main", [ macro "m" [ ("a", None) ] [ text "["; print (filt (var "a") "sf0" []); text "]" ]; text "x"; print (call "m" [ lit_int 1 ]); text "y" ] ], [ s0 ];
    (* a macro call where a text or a value is wanted (operand of ~ and of ==, hash value, argument of a filter): whether or not
       the body runs there, a callback of the body that runs and fails is a failure of the render *)
    "macro-as-concat-operand", [ "main", [ macro "m" [ ("a", None) ] [ text "["; print (filt (var "a") "sf0" []); text "]" ]; text "x"; print (M.EBin (M.BConcat, call "m" [ lit_int 1 ], lit_str "!")); text "y" ] ], [ s0 ];
    "macro-as-compared-operand", [ "lib", [ macro "m" [ ("a", None) ] [ print (call "fn1" [ var "a" ]) ] ];
                                   "main", [ M.NImport (lit_str "lib", bs "L"); forv "i" (var "xs") [ ifn (M.EBin (M.BEq, M.EModCall (var "L", bs "m", [ var "i" ]), lit_str "b")) [ text "T" ] [ text "F" ] ] ] ], [ f1 ];
    "macro-as-filter-operand", [ "main", [ macro "m" [] [ print (call "fn1" [ lit_int 2 ]) ]; text "x"; print (filt (call "m" []) "upper" []); print (filt (call "m" []) "length" []); text "y" ] ], [ f1 ];
    "macro-as-hash-value", [ "main", [ macro "m" [] [ print (filt (lit_str "v") "sf0" []) ]; M.NSet (bs "h", M.EHash [ (lit_str "k", call "m" []) ]); print (filt (filt (var "h") "keys" []) "join" []); print (M.EBin (M.BConcat, M.EAttr (var "h", bs "k"), lit_str "")) ] ], [ s0 ];
    (* several defaulted parameters, left to their defaults: a failing default is a failure whichever one it is and
       whatever the later ones do *)
    "macro-defaults-local", [ "main", [ macro "box" [ ("a", Some (call "fn1" [ lit_int 1 ])); ("b", Some (lit_str "B")); ("c", Some (call "fetch" [ lit_int 2 ])); ("d", Some (lit_str "D")) ]
                                          [ text "["; print (var "a"); text "|"; print (var "b"); text "|"; print (var "c"); text "|"; print (var "d"); text "]" ];
                                        text "x"; print (call "box" []); print (call "box" [ lit_str "p" ]); print (call "box" [ lit_str "p"; lit_str "q" ]); text "y" ] ], [ f1; f0 ];
    "macro-defaults-self-import", [ "lib", [ macro "box" [ ("a", Some (filt (lit_str "v") "sf0" [])); ("b", Some (var "a")); ("c", Some (lit_int 3)) ] [ print (var "a"); print (var "b"); print (var "c") ] ];
                                    "main", [ macro "loc" [ ("k", Some (call "fn1" [ lit_int 5 ])); ("l", Some (lit_str "L")) ] [ print (var "k"); print (var "l") ];
                                              M.NImport (lit_str "lib", bs "L"); M.NFrom (lit_str "lib", [ (bs "box", bs "bx") ]); text "x";
                                              print (M.EModCall (var "L", bs "box", [])); print (call "bx" []); print (M.EModCall (var "_self", bs "loc", []));
                                              forv "i" (var "xs") [ print (call "loc" []) ]; text "y" ] ], [ s0; f1 ];
    "macro-self", [ "main", [ macro "m" [ ("a", None) ] [ print (call "fn1" [ var "a" ]) ]; text "x"; print (M.EModCall (var "_self", bs "m", [ lit_int 1 ])) ] ], [ f1 ];
    "macro-import", [ "lib", [ macro "m" [ ("a", Some (call "fn1" [ lit_int 9 ])) ] [ print (filt (var "a") "sf0" []) ] ]; "main", [ M.NImport (lit_str "lib", bs "L"); text "x"; print (M.EModCall (var "L", bs "m", [])) ] ], [ f1; s0 ];
    "macro-from", [ "lib", [ macro "m" [ ("a", None) ] [ print (filt (var "a") "sf0" []) ] ]; "main", [ M.NFrom (lit_str "lib", [ (bs "m", bs "m") ]); text "x"; print (call "m" [ lit_int 1 ]) ] ], [ s0 ];
    "macro-from-alias", [ "lib", [ macro "m" [ ("a", None) ] [ print (M.ETest (var "a", bs "st0", [], false)) ] ]; "main", [ M.NFrom (lit_str "lib", [ (bs "m", bs "al") ]); text "x"; print (call "al" [ lit_int 1 ]) ] ], [ t0 ];
    "macro-nested-call", [ "main", [ macro "inner" [ ("x", None) ] [ print (call "fn1" [ var "x" ]) ]; macro "outer" [ ("y", None) ] [ text "("; print (call "inner" [ var "y" ]); text ")" ]; print (call "outer" [ lit_int 1 ]) ] ], [ f1 ];
    "macro-in-loop-in-include", [ "p", [ macro "m" [ ("a", None) ] [ print (filt (var "a") "sf0" []) ]; forv "i" (var "xs") [ print (call "m" [ var "i" ]) ] ]; "main", [ text "a"; inc (lit_str "p"); text "b" ] ], [ s0 ];
    "import-body-fails", [ "lib", [ print (call "fn1" [ lit_int 1 ]); macro "m" [] [ text "m" ] ]; "main", [ text "a"; M.NImport (lit_str "lib", bs "L"); text "b" ] ], [ f1 ];
    "from-body-fails", [ "lib", [ M.NSet (bs "z", filt (lit_int 1) "sf0" []); macro "m" [] [ text "m" ] ]; "main", [ text "a"; M.NFrom (lit_str "lib", [ (bs "m", bs "m") ]); text "b" ] ], [ s0 ];
    "include-with-value", [ "p", [ print (var "w") ]; "main", [ text "a"; inc ~withs:(Some (M.EHash [ (lit_str "w", call "fn1" [ lit_int 1 ]) ])) (lit_str "p"); text "b" ] ], [ f1 ];
    "include-only-inner", [ "p", [ print (filt (lit_str "x") "sf0" []) ]; "main", [ text "a"; inc ~only:true (lit_str "p"); text "b" ] ], [ s0 ];
    "apply-filter-fails", [ "main", [ text "a"; M.NApply (bs "sf0", [], [ text "body" ]); text "b" ] ], [ s0 ];
    (* a body that renders to nothing: the filter is applied all the same, and its failure is the render's *)
    "apply-filter-fails-empty-body", [ "main", [ text "a"; M.NApply (bs "sf0", [], []); text "b" ] ], [ s0 ];
    "apply-filter-fails-false-if", [ "main", [ text "a"; M.NApply (bs "sf0", [], [ ifn (var "nope") [ text "x" ] [] ]); text "b" ] ], [ s0 ];
    "apply-filter-fails-empty-loop", [ "main", [ text "a"; M.NApply (bs "sf0", [], [ forv "i" (M.EArr []) [ text "x" ] ]); text "b" ] ], [ s0 ];
    "apply-filter-fails-empty-print", [ "main", [ text "a"; M.NApply (bs "sf0", [], [ print (var "nope") ]); text "b" ] ], [ s0 ];
    "apply-filter-fails-in-include-loop", [ "p", [ M.NApply (bs "sf0", [], []) ]; "main", [ text "a"; forv "i" (var "xs") [ inc (lit_str "p") ]; text "b" ] ], [ s0 ];
    "apply-filter-fails-in-block", [ "base", [ text "<"; block "k" [ M.NApply (bs "sf0", [], []) ]; text ">" ]; "main", [ M.NExtends (lit_str "base") ] ], [ s0 ];
    "apply-body-fails", [ "main", [ text "a"; M.NApply (bs "upper", [], [ text "x"; print (call "fn1" [ lit_int 1 ]) ]); text "b" ] ], [ f1 ];
    "spaceless-body-fails", [ "main", [ text "a"; M.NSpaceless [ text "<a> <b>"; print (call "fn1" [ lit_int 1 ]) ]; text "b" ] ], [ f1 ];
    "test-in-elseif", [ "main", [ M.NIf ([ (M.ELit (M.LBool false), [ text "1" ]); (M.ETest (var "n", bs "st0", [], false), [ text "2" ]) ], Some [ text "3" ]) ] ], [ t0 ];
    "test-argument", [ "main", [ print (M.ECond (M.ETest (var "n", bs "divisible_by", [ call "fn1" [ lit_int 1 ] ], false), lit_str "y", lit_str "n")) ] ], [ f1 ];
    "filter-argument", [ "main", [ print (filt (var "xs") "join" [ call "fn1" [ lit_str "-" ] ]) ] ], [ f1 ];
    "default-argument", [ "main", [ print (filt (var "zz") "default" [ call "fn1" [ lit_str "d" ] ]) ] ], [ f1 ];
    "hash-array-elements", [ "main", [ print (filt (M.EArr [ lit_int 1; call "fn1" [ lit_int 2 ] ]) "join" [ lit_str "," ]); print (M.EAttr (M.EHash [ (lit_str "a", filt (lit_int 1) "sf0" []) ], bs "a")) ] ], [ f1; s0 ];
    "short-circuit-right", [ "main", [ print (M.ECond (M.EBin (M.BAnd, var "t", M.ETest (var "n", bs "st0", [], false)), lit_str "y", lit_str "n")) ] ], [ t0 ];
    "do-tag", [ "main", [ text "a"; M.NDo (call "fn1" [ lit_int 1 ]); text "b" ] ], [ f1 ];
    "extends-name", [ "base", [ text "B" ]; "main", [ M.NExtends (call "fn1" [ lit_str "base" ]) ] ], [ f1 ];
    "for-filter-route-chain", [ "main", [ forv "i" (filt (filt (var "xs") "sf0" []) "reverse" []) [ print (var "i") ] ] ], [ s0 ];
    "for-filter-route-argument", [ "main", [ forv "i" (filt (var "xs") "slice" [ call "fn1" [ lit_int 0 ] ]) [ print (var "i") ] ] ], [ f1 ];
  ]

let shape_stream oc =
  List.iter (fun (name, tpls, custom) ->
    let env = { G.tpls = tpls; G.custom = custom; G.policy = None } in
    if not (emit_c17 oc ~stream:"c17-shape" ~extra:[ "scenario", JS name ] env "main" ctx0) then
      prerr_endline ("c17: shape " ^ name ^ " has no spelling")) shapes

(* ---- the two sites that swallowed an error on the pinned tree (repaired: aee56e1, 36660ef): regression streams *)
let site_streams r oc =
  let f1 = cust "function" "fn1" and s0 = cust "filter" "sf0" in
  let defd o = M.ETest (M.EAttr (o, bs "y"), bs "defined", [], false) in
  let ndefd o = M.ETest (M.EAttr (o, bs "y"), bs "defined", [], true) in
  let objs = [ "call", call "fn1" [ var "m" ]; "method", M.EModCall (var "m", bs "fn1", []); "filter", filt (var "m") "sf0" [];
               "nested", M.EAttr (call "fn1" [ var "m" ], bs "a"); "item", M.EItem (call "fn1" [ var "xs" ], lit_int 0) ] in
  let positions (c : M.expr) : (string * (string * M.node list) list) list =
    [ "if", [ "main", [ text "A"; ifn c [ text "T" ] [ text "F" ]; text "B" ] ];
      "print", [ "main", [ text "A"; print (M.ECond (c, lit_str "T", lit_str "F")); text "B" ] ];
      "set", [ "main", [ M.NSet (bs "q", c); text "A"; print (var "q") ] ];
      "loop", [ "main", [ forv "i" (var "xs") [ ifn c [ text "T" ] [ text "F" ] ] ] ];
      "macro", [ "main", [ macro "mm" [] [ ifn c [ text "T" ] [ text "F" ] ]; text "A"; print (call "mm" []) ] ];
      "include", [ "p", [ ifn c [ text "T" ] [ text "F" ] ]; "main", [ text "A"; inc (lit_str "p"); text "B" ] ];
      "block", [ "base", [ block "c" [ text "base" ] ]; "main", [ M.NExtends (lit_str "base"); block "c" [ ifn c [ text "T" ] [ text "F" ] ] ] ] ] in
  List.iter (fun (on, o) ->
    List.iter (fun (neg, mk) ->
      List.iter (fun (pn, tpls) ->
        let env = { G.tpls = tpls; G.custom = [ f1; s0 ]; G.policy = None } in
        ignore (emit_c17 oc ~stream:"regress:defined-attr" ~extra:[ "scenario", JS (on ^ "/" ^ neg ^ "/" ^ pn) ] env "main" ctx0))
        (positions (mk o))) [ "is", defd; "isnot", ndefd ]) objs;
  (* spaceless: a registered filter named spaceless (the spy) takes the place of the core one *)
  let sp = cust "filter" "spaceless" in
  let sbody = [ text "<a> <b>"; print (var "n") ] in
  let spos : (string * (string * M.node list) list) list =
    [ "top", [ "main", [ text "A"; M.NSpaceless sbody; text "B" ] ];
      "loop", [ "main", [ forv "i" (var "xs") [ M.NSpaceless sbody ] ] ];
      "macro", [ "main", [ macro "mm" [] [ M.NSpaceless sbody ]; text "A"; print (call "mm" []) ] ];
      "include", [ "p", [ M.NSpaceless sbody ]; "main", [ text "A"; inc (lit_str "p"); text "B" ] ];
      "block", [ "base", [ block "c" [ text "base" ] ]; "main", [ M.NExtends (lit_str "base"); block "c" [ M.NSpaceless sbody ] ] ];
      "nested", [ "main", [ M.NSpaceless [ text "<x> "; M.NSpaceless sbody ] ] ];
      "apply-inside", [ "main", [ M.NApply (bs "upper", [], [ M.NSpaceless sbody ]) ] ] ] in
  List.iter (fun (pn, tpls) ->
    let env = { G.tpls = tpls; G.custom = [ sp ]; G.policy = None } in
    ignore (emit_c17 oc ~stream:"regress:spaceless" ~extra:[ "scenario", JS pn ] env "main" ctx0)) spos;
  (* the same site swallows the sandbox's refusal of the filter *)
  let pol = Some ([ "upper" ], [ "range" ]) in
  let env = { G.tpls = [ "p", [ M.NSpaceless [ text "<a> <b>" ] ]; "main", [ text "A"; M.NInclude (lit_str "p", None, false, false, true); text "B" ] ];
              G.custom = []; G.policy = pol } in
  ignore (emit_c17 oc ~stream:"regress:spaceless" ~extra:[ "scenario", JS "sandbox-refusal"; "expect_class", JS "security" ] env "main" ctx0);
  ignore r

(* ---- unknown macro / template names: one reference site of a generated set renamed, a probe evaluated just before *)
type site =
  | SCall of int        (* n-th macro call expression (by name or through a module / _self) *)
  | SFrom of int        (* n-th from tag: the imported macro name *)
  | SInclude of int | SExtends of int | SImport of int | SFromTpl of int

(* rewrite the idx-th site of the given kind; returns the new set and whether a site was hit *)
let rewrite_set (tpls : (string * M.node list) list) (macro_names : string list) (site : site) (probe_fn : string) (probe_do : M.node)
  : (string * M.node list) list * bool =
  let cnt = ref 0 and hit = ref false in
  let at kind_matches = if kind_matches then (let i = !cnt in incr cnt; i) else -1 in
  let pr e = M.ECall (bs probe_fn, [ e ]) in
  let is_macro f = List.mem (sb f) macro_names in
  let rec ex (e : M.expr) : M.expr =
    match e with
    | M.ELit _ | M.EVar _ -> e
    | M.EAttr (o, a) -> M.EAttr (ex o, a)
    | M.EItem (o, i) -> let o' = ex o in M.EItem (o', ex i)
    | M.EUn (op, a) -> M.EUn (op, ex a)
    | M.EBin (op, a, b) -> let a' = ex a in M.EBin (op, a', ex b)
    | M.ECond (c, a, b) -> let c' = ex c in let a' = ex a in M.ECond (c', a', ex b)
    | M.EArr es -> M.EArr (List.map ex es)
    | M.EHash kvs -> M.EHash (List.map (fun (k, v) -> let k' = ex k in (k', ex v)) kvs)
    | M.EFilter (o, f, args) -> let o' = ex o in M.EFilter (o', f, List.map ex args)
    | M.ETest (a, t, args, neg) -> let a' = ex a in M.ETest (a', t, List.map ex args, neg)
    | M.ECall (f, args) ->
      let args' = List.map ex args in
      if is_macro f then
        (match site with
         | SCall n when at true = n -> hit := true; M.ECall (bs "nosuchmacro", [ pr (lit_int 0) ])
         | _ -> M.ECall (f, args'))
      else M.ECall (f, args')
    | M.EModCall (m, f, args) ->
      let m' = ex m in
      let args' = List.map ex args in
      (match site with
       | SCall n when at true = n -> hit := true; M.EModCall (m', bs "nosuchmacro", [ pr (lit_int 0) ])
       | _ -> M.EModCall (m', f, args')) in
  let rec nd (n : M.node) : M.node list =
    match n with
    | M.NText _ | M.NVerbatim _ -> [ n ]
    | M.NPrint e -> [ M.NPrint (ex e) ]
    | M.NIf (brs, els) -> [ M.NIf (List.map (fun (c, b) -> let c' = ex c in (c', nds b)) brs, Option.map nds els) ]
    | M.NFor (k, v, s, b, els) -> let s' = ex s in [ M.NFor (k, v, s', nds b, Option.map nds els) ]
    | M.NSet (x, e) -> [ M.NSet (x, ex e) ]
    | M.NDo e -> [ M.NDo (ex e) ]
    | M.NBlock (name, b) -> [ M.NBlock (name, nds b) ]
    | M.NExtends e ->
      (match site with
       | SExtends k when at true = k -> hit := true; [ M.NExtends (pr (lit_str "nosuchtpl")) ]
       | _ -> [ M.NExtends (ex e) ])
    | M.NInclude (e, w, ign, only, sbx) ->
      (match site with
       | SInclude k when at true = k -> hit := true; [ M.NInclude (pr (lit_str "nosuchtpl"), w, false, only, sbx) ]
       | _ -> [ M.NInclude (ex e, Option.map ex w, ign, only, sbx) ])
    | M.NMacro (name, ps, b) -> [ M.NMacro (name, List.map (fun (p, d) -> (p, Option.map ex d)) ps, nds b) ]
    | M.NImport (e, a) ->
      (match site with
       | SImport k when at true = k -> hit := true; [ M.NImport (pr (lit_str "nosuchtpl"), a) ]
       | _ -> [ M.NImport (ex e, a) ])
    | M.NFrom (e, names) ->
      (match site with
       | SFrom k when at true = k -> hit := true; [ probe_do; M.NFrom (e, [ (bs "nosuchmacro", bs "nosuchmacro") ]) ]
       | SFromTpl k when at true = k -> hit := true; [ probe_do; M.NFrom (lit_str "nosuchtpl", names) ]
       | _ -> [ M.NFrom (e, names) ])
    | M.NApply (f, args, b) -> [ M.NApply (f, List.map ex args, nds b) ]
    | M.NSpaceless b -> [ M.NSpaceless (nds b) ]
  and nds ns = List.concat_map nd ns in
  let tpls' = List.map (fun (n, ns) -> (n, nds ns)) tpls in
  (tpls', !hit)

let missing_stream r oc n =
  let made = ref 0 and tries = ref 0 in
  while !made < n && !tries < 30 * n do
    incr tries;
    let g = new_gs () in
    let (env, main) = gset g r ~depth:(1 + rint r 3) in
    let ctx = gctx r in
    let macro_names =
      List.concat_map (fun (_, ns) -> List.filter_map (function M.NMacro (nm, _, _) -> Some (sb nm) | _ -> None) ns) env.G.tpls
      @ List.map (fun m -> "al_" ^ m) [ "lib1_m0"; "lib1_m1"; "lib1_m2" ] in
    let probe = "probe" in
    let probe_do = M.NDo (M.ECall (bs probe, [ lit_int 0 ])) in
    let sites = [ ("macro", fun k -> SCall k); ("macro-from", fun k -> SFrom k); ("include", fun k -> SInclude k);
                  ("extends", fun k -> SExtends k); ("import", fun k -> SImport k); ("from-template", fun k -> SFromTpl k) ] in
    List.iter (fun (label, mk) ->
      let k = ref 0 and go = ref true in
      while !go && !k < 6 do
        let (tpls', hit) = rewrite_set env.G.tpls macro_names (mk !k) probe probe_do in
        if not hit then go := false
        else begin
          let env' = { env with G.tpls = tpls'; G.custom = env.G.custom @ [ cust "function" probe ] } in
          let cls = (match label with "macro" | "macro-from" -> "other" | _ -> "not-found") in
          if emit_c17 oc ~stream:("missing:" ^ label) ~extra:[ "probe", JS ("function:" ^ probe); "expect_class", JS cls ] env' main ctx then incr made
        end;
        incr k
      done) sites
  done

(* ---- raw sources for the two discard sites that no tokenised template reaches *)
let emit_raw oc ~(stream : string) ~(scenario : string) (tpls : (string * string) list) =
  emit oc (Ob [ "stream", JS stream; "scenario", JS scenario;
                "tpls", JL (List.map (fun (n, src) -> JL [ JS (hex n); JS (hex src) ]) tpls);
                "main", JS "main"; "kinds", JS ""; "ctx", JS (G.value_str (G.vmap ctx0));
                "custom", JL [ JL [ JS "filter"; JS "bad"; JS "id" ]; JL [ JS "filter"; JS "sort"; JS "id" ] ];
                "policy", JS "none"; "exp", Ob [ "skip", JS "raw" ]; "raw", JB true;
                "ctrace", JL []; "loads", JL []; "ign_only", JL []; "ign_mixed", JL []; "faults", JL []; "unreg", JL [] ])

let dead_stream r oc n =
  let pad = String.make 5000 '.' in
  let fixed = [
    "macro-escaped-opener", "{% macro m(x) %}[\\{{ x|bad }}]{% endmacro %}{{ m(5) }}";
    "macro-escaped-trim-opener", "{% macro m(x) %}[\\{{- x|bad -}}]{% endmacro %}{{ m(5) }}";
    "macro-escaped-opener-args", "{% macro m(x) %}\\{{ x|bad:1,2 }}{% endmacro %}{{ m(5) }}";
    "macro-two-escaped", "{% macro m(x) %}\\{{ x|bad }} and \\{{ x }}{% endmacro %}{{ m(5) }}";
    "macro-verbatim", "{% macro m(x) %}{% verbatim %}{{ x|bad }}{% endverbatim %}{% endmacro %}{{ m(5) }}";
    "macro-string", "{% macro m(x) %}{{ '{{ x|bad }\\}' }}{% endmacro %}{{ m(5) }}";
    "macro-comment", "{% macro m(x) %}{# {{ x|bad }} #}a{% endmacro %}{{ m(5) }}";
    "macro-escaped-block", "{% macro m(x) %}\\{% x|bad %}{{ '}' }}{% endmacro %}{{ m(5) }}";
    "for-filter", "{% for i in xs|bad %}{{ i }}{% endfor %}";
    "for-filter-parens", "{% for i in (xs|bad) %}{{ i }}{% endfor %}";
    "for-filter-spaces", "{% for i in xs | bad %}{{ i }}{% endfor %}";
    "for-filter-chain", "{% for i in xs|bad|reverse %}{{ i }}{% endfor %}";
    "for-filter-args", "{% for i in xs|bad(1) %}{{ i }}{% endfor %}";
    "for-key-filter", "{% for k, i in xs|bad %}{{ i }}{% endfor %}";
    "for-sort", "{% for i in xs|sort %}{{ i }}{% endfor %}";
    "for-filter-trim", "{%- for i in xs|bad -%}{{ i }}{%- endfor -%}" ] in
  List.iter (fun (name, src) ->
    emit_raw oc ~stream:"dead-sites" ~scenario:name [ ("main", src) ];
    emit_raw oc ~stream:"dead-sites" ~scenario:(name ^ "/large") [ ("main", src ^ pad) ];
    emit_raw oc ~stream:"dead-sites" ~scenario:(name ^ "/large-before") [ ("main", pad ^ src) ]) fixed;
  (* random fragments inside a macro body and inside a for tag *)
  let frag = [| "\\"; "{{"; "}}"; "{{-"; "-}}"; "|bad"; "|"; "x"; " "; "{%"; "%}"; "{#"; "#}"; "'"; "-"; "xs"; "bad"; "\n"; "a" |] in
  for i = 1 to n do
    let body = String.concat "" (List.init (1 + rint r 8) (fun _ -> pick r frag)) in
    let src = if rbool r then "{% macro m(x) %}" ^ body ^ "{% endmacro %}{{ m(5) }}"
      else "{% for i in xs" ^ body ^ " %}{{ i }}{% endfor %}" in
    let src = if rint r 5 = 0 then src ^ pad else src in
    emit_raw oc ~stream:"dead-sites" ~scenario:("random" ^ string_of_int i) [ ("main", src) ]
  done

let run ~seed ~tier oc =
  let r = mk_rng seed in
  let thorough = tier = "thorough" in
  shape_stream oc;
  site_streams r oc;
  dead_stream r oc (if thorough then 20000 else 1500);
  gen_stream r oc (if thorough then 6000 else 300);
  missing_stream r oc (if thorough then 4000 else 250)
