(* C05 case generation.
   tokens   : token lists (valid templates over every tag kind from a token-level grammar, every token-level
              mutation kind, exhaustive short tag bodies for every handler, lists without the final EOF) with the
              prediction of the extracted block parser model (Model.bp_parse with Model.bp_skip_std, whose calls
              are traced so that the runner can tell where the abstraction of parseExpression is exact)
   source   : a catalogue of valid templates, their byte-level mutations inside tags, truncations at every
              offset, random byte strings, pathological nestings (recipes expanded by the runner)
   render   : every registered filter, function and test and every operator over the standard context of
              odd Go value shapes (names mirrored in harness/c05.go c05Ctx) with 0-3 arguments
   compiled : valid serialisations (extracted Model.serialize_compiled), truncated at every offset, with
              doctored length prefixes, random bytes *)
open Util
open Model

(* ------------------------------------------------------------------ tokens *)
let kcode k = int_of_n (tkind_code k)
let mk k v line = { t_kind = k; t_val = bytes_of_string v; t_line = nat_of_int line }
let bs = mk KBlockStart "" 1 and be = mk KBlockEnd "" 1 and vs = mk KVarStart "" 1 and ve = mk KVarEnd "" 1
let bst = mk KBlockStartTrim "" 1 and bet = mk KBlockEndTrim "" 1 and vst = mk KVarStartTrim "" 1 and vet = mk KVarEndTrim "" 1
let cs = mk KCommentStart "" 1 and ce = mk KCommentEnd "" 1
let eof = mk KEof "" 1
let nm v = mk KName v 1 and st v = mk KString v 1 and nu v = mk KNumber v 1 and op v = mk KOperator v 1 and pu v = mk KPunct v 1
let tx v = mk KText v 1

let tok_json (t : token) = JL [ JI (kcode t.t_kind); JS (hexb t.t_val); JI (int_of_nat t.t_line) ]

let rec shape_list (l : bp_tree list) = String.concat " " (List.map shape l)
and shape = function
  | BTText -> "T" | BTPrint -> "P" | BTSet -> "S" | BTDo -> "D" | BTExtends -> "X" | BTInclude -> "I"
  | BTImport -> "M" | BTFrom -> "F" | BTVerbatim -> "V"
  | BTIf (bodies, els) ->
      "(if" ^ String.concat "" (List.map (fun b -> " [" ^ shape_list b ^ "]") bodies)
      ^ (match els with Some (_ :: _ as e) -> " else[" ^ shape_list e ^ "]" | _ -> "") ^ ")"
  | BTFor (body, els) ->
      "(for [" ^ shape_list body ^ "]" ^ (match els with Some (_ :: _ as e) -> " else[" ^ shape_list e ^ "]" | _ -> "") ^ ")"
  | BTBlock b -> "(block [" ^ shape_list b ^ "])"
  | BTMacro b -> "(macro [" ^ shape_list b ^ "])"
  | BTApply b -> "(apply [" ^ shape_list b ^ "])"
  | BTSpaceless b -> "(spaceless [" ^ shape_list b ^ "])"

(* source spelling of a token list; None when the list has no faithful spelling *)
let print_tokens (l : token list) : string option =
  let b = Buffer.create 64 in
  let ok = ref true in
  let in_tag = ref false and first = ref true and in_comment = ref false in
  let word s = if not !first then Buffer.add_char b ' '; first := false; Buffer.add_string b s in
  let plain s = s <> "" && String.for_all (fun c -> c <> '\'' && c <> '"' && c <> '\\' && c <> '{' && c <> '}' && c <> '%' && c <> '#') s in
  let rec go = function
    | [] -> ok := false
    | [ t ] -> if t.t_kind <> KEof || !in_tag then ok := false
    | t :: r ->
        let v = string_of_bytes t.t_val in
        (match t.t_kind with
         | KText -> if !in_comment then Buffer.add_string b v
                    else if !in_tag || not (plain v) then ok := false else Buffer.add_string b v
         | KVarStart -> Buffer.add_string b "{{ "; in_tag := true; first := true
         | KVarStartTrim -> Buffer.add_string b "{{- "; in_tag := true; first := true
         | KBlockStart -> Buffer.add_string b "{% "; in_tag := true; first := true
         | KBlockStartTrim -> Buffer.add_string b "{%- "; in_tag := true; first := true
         | KVarEnd -> Buffer.add_string b " }}"; in_tag := false
         | KVarEndTrim -> Buffer.add_string b " -}}"; in_tag := false
         | KBlockEnd -> Buffer.add_string b " %}"; in_tag := false
         | KBlockEndTrim -> Buffer.add_string b " -%}"; in_tag := false
         | KName -> if !in_tag && plain v then word v else ok := false
         | KNumber -> if !in_tag && plain v then word v else ok := false
         | KOperator | KPunct -> if !in_tag && v <> "" then word v else ok := false
         | KString -> if !in_tag && (v = "" || plain v) then word ("'" ^ v ^ "'") else ok := false
         | KCommentStart -> if !in_tag || !in_comment then ok := false else (Buffer.add_string b "{#"; in_comment := true)
         | KCommentEnd -> if !in_comment then (Buffer.add_string b "#}"; in_comment := false) else ok := false
         | KEof -> ok := false);
        go r in
  go l;
  if not !ok then None else Some (Buffer.contents b)

let emit_tokens oc tag (l : token list) =
  let trace = ref [] in
  let skip toks i =
    let r = bp_skip_std toks i in
    trace := (int_of_nat i, (match r with Some j -> int_of_nat j | None -> -1)) :: !trace;
    r in
  let res = bp_parse skip l in
  let verdict, idx, sh =
    match res with
    | POk (j, ns) -> "ok", int_of_nat j, shape_list ns
    | PErr -> "err", 0, ""
    | PPanic PTokIndex -> "panic-index", 0, ""
    | PPanic PStrSlice -> "panic-str", 0, ""
    | PFuel -> "fuel", 0, "" in
  let eofb = bp_ends_in_eofb l in
  let src = if eofb then print_tokens l else None in
  emit oc (Ob ([ "stream", JS "tokens"; "tag", JS tag; "toks", JL (List.map tok_json l); "eof", JB eofb;
                 "verdict", JS verdict; "idx", JI idx; "shape", JS sh;
                 "skips", JL (List.rev_map (fun (i, j) -> JL [ JI i; JI j ]) !trace) ]
               @ (match src with Some s -> [ "src", JS (hex s) ] | None -> [])))

(* ---- expression fragments *)
let good_exprs : token list array = [|
  [ nm "a" ]; [ nu "1" ]; [ st "x" ]; [ nm "a"; pu "."; nm "b" ]; [ nm "items"; pu "["; nu "0"; pu "]" ];
  [ nm "a"; pu "|"; nm "upper" ]; [ nm "a"; pu "|"; nm "default"; pu "("; st "x"; pu ")" ];
  [ nm "range"; pu "("; nu "1"; pu ","; nu "3"; pu ")" ]; [ pu "("; nm "x"; op "+"; nm "y"; pu ")"; op "*"; nu "2" ];
  [ nm "a"; pu "?"; nm "b"; pu ":"; nm "c" ]; [ pu "["; nu "1"; pu ","; nu "2"; pu "]" ]; [ pu "["; pu "]" ];
  [ pu "{"; st "k"; pu ":"; nm "a"; pu "}" ]; [ nm "not"; nm "a" ]; [ op "-"; nu "1"; op "+"; nm "x" ];
  [ nm "a"; nm "is"; nm "defined" ]; [ nm "a"; nm "is"; nm "not"; nm "empty" ]; [ nm "x"; nm "in"; pu "["; nu "1"; pu "]" ];
  [ nm "x"; nm "not"; nm "in"; nm "items" ]; [ nm "a"; nm "starts"; nm "with"; st "A" ]; [ nm "a"; op "~"; nm "b" ];
  [ nm "a"; nm "and"; nm "b"; nm "or"; nm "c" ]; [ nm "x"; op "=="; nm "y" ]; [ nm "x"; nm "is"; nm "divisible"; pu "("; nu "2"; pu ")" ];
  [ nm "m"; pu "."; nm "f"; pu "("; nu "1"; pu ")" ]; [ nm "true" ]; [ nm "null" ]; [ nm "a"; nm "not"; nm "defined" ];
  [ nm "x"; op "<="; nu "2"; nm "and"; nm "y"; op "!="; nu "3" ] |]
let bad_exprs : token list array = [|
  []; [ op "+" ]; [ pu "("; nm "a" ]; [ nm "a"; pu "." ]; [ nm "a"; pu "|" ]; [ pu "["; nu "1" ]; [ nm "a"; pu "?"; nm "b" ];
  [ nm "a"; nm "b" ]; [ pu ")" ]; [ op "=" ]; [ nm "a"; op "="; nu "1" ]; [ pu "{"; st "k"; pu ":" ]; [ nm "a"; op "+" ];
  [ nm "f"; pu "("; nu "1"; pu "," ]; [ nm "a"; nm "is" ]; [ nu "1"; nu "2" ]; [ pu "," ]; [ pu ":" ]; [ st "s"; st "t" ];
  [ nm "a"; pu "["; pu "]" ]; [ op "!"; nm "a" ]; [ nm "a"; nm "starts"; st "x" ] |]
let gexpr r = if rint r 12 = 0 then pick r bad_exprs else pick r good_exprs

(* ---- valid templates at token level *)
let tag r name body = [ (if rint r 6 = 0 then bst else bs); nm name ] @ body @ [ (if rint r 6 = 0 then bet else be) ]
let ident r = pick r [| "a"; "b"; "x"; "item"; "k"; "v"; "mac"; "blk" |]

let rec gen_nodes r depth : token list =
  let n = 1 + rint r 3 in
  List.concat (List.init n (fun _ -> gen_node r depth))
and gen_node r depth : token list =
  let body () = if depth <= 0 then [ tx "t" ] else gen_nodes r (depth - 1) in
  match rint r 18 with
  | 0 | 1 -> [ tx (pick r [| "text"; " "; "<p>"; "a b" |]) ]
  | 2 | 3 -> [ (if rint r 5 = 0 then vst else vs) ] @ gexpr r @ [ (if rint r 5 = 0 then vet else ve) ]
  | 4 | 5 ->
      let elifs = List.concat (List.init (rint r 3) (fun _ -> tag r "elseif" (gexpr r) @ body ())) in
      let els = if rbool r then tag r "else" [] @ body () else [] in
      tag r "if" (gexpr r) @ body () @ elifs @ els @ tag r "endif" []
  | 6 | 7 ->
      let vars = if rint r 3 = 0 then [ nm "k"; pu ","; nm "v" ] else [ nm (ident r) ] in
      let els = if rint r 3 = 0 then tag r "else" [] @ body () else [] in
      tag r "for" (vars @ [ nm "in" ] @ gexpr r) @ body () @ els @ tag r "endfor" []
  | 8 ->
      let extra = if rint r 4 = 0 then [ op (pick r [| "+"; "~"; "*" |]) ] @ gexpr r else [] in
      tag r "set" ([ nm (ident r); op "=" ] @ gexpr r @ extra)
  | 9 ->
      let name = ident r in
      tag r "block" [ nm name ] @ body () @ tag r "endblock" (match rint r 3 with 0 -> [ nm name ] | 1 -> [] | _ -> if rint r 4 = 0 then [ nm "other" ] else [])
  | 10 -> tag r "extends" (if rbool r then [ st "base" ] else gexpr r)
  | 11 ->
      let opts = List.concat (List.init (rint r 3) (fun _ ->
        match rint r 6 with
        | 0 -> [ nm "with"; pu "{"; st "p"; pu ":"; nu "1"; pu ","; nm "q"; pu ":" ] @ gexpr r @ [ pu "}" ]
        | 1 -> [ nm "with"; nm "p"; op "="; nu "1"; pu ","; nm "q"; op "=" ] @ gexpr r
        | 2 -> [ nm "ignore"; nm "missing" ]
        | 3 -> [ nm "only" ]
        | 4 -> [ nm "sandboxed" ]
        | _ -> [ nm "with"; pu "{"; pu "}" ])) in
      tag r "include" ((if rbool r then [ st "inc" ] else gexpr r) @ opts)
  | 12 -> tag r "import" ((if rbool r then [ st "macros" ] else gexpr r) @ [ nm "as"; nm (ident r) ])
  | 13 ->
      let names = List.concat (List.init (1 + rint r 3) (fun i ->
        (if i > 0 then [ pu "," ] else []) @ [ nm (pick r [| "m"; "n" |]) ] @ (if rbool r then [ nm "as"; nm (ident r) ] else []))) in
      tag r "from" ([ st "macros"; nm "import" ] @ names)
  | 14 ->
      let params = List.concat (List.init (rint r 4) (fun i ->
        (if i > 0 then [ pu "," ] else []) @ [ nm (ident r) ] @ (if rbool r then [ op "=" ] @ gexpr r else []))) in
      tag r "macro" ([ nm (ident r); pu "(" ] @ params @ [ pu ")" ]) @ body () @ tag r "endmacro" []
  | 15 ->
      (match rint r 3 with
       | 0 -> tag r "do" ([ nm (ident r); op "=" ] @ gexpr r)
       | 1 -> tag r "do" ([ nu "5"; op "=" ] @ gexpr r)
       | _ -> tag r "do" (gexpr r))
  | 16 ->
      if rbool r then tag r "apply" [ nm "upper" ] @ body () @ tag r "endapply" []
      else tag r "spaceless" [] @ body () @ tag r "endspaceless" []
  | _ ->
      if rbool r then tag r "verbatim" [] @ [ tx "{{ raw }}" ] @ (if rbool r then [ vs; nm "a"; ve; bs; nm "if"; nm "x"; be; cs; tx "c"; ce ] else []) @ tag r "endverbatim" []
      else [ cs; tx " note " ; ce ]

let value_pool = [| "in"; "as"; "with"; "import"; "endif"; "else"; "elseif"; "endfor"; "endblock"; "endmacro"; "endverbatim";
                    "only"; "ignore"; "missing"; "="; ","; "("; ")"; "{"; "}"; ":"; "a as b"; "\" as x"; "m(a=')"; "m(a=1)"; "t import u";
                    "if"; "for"; "set"; "macro"; "from"; "include"; "do"; "verbatim"; "spaceless"; "apply"; "block"; ""; "12"; "-3" |]
let all_kinds = Array.of_list bp_all_kinds
let rand_token r = mk (pick r all_kinds) (pick r value_pool) (1 + rint r 2)

let mutate r (l : token list) : token list =
  let a = Array.of_list l in
  let n = Array.length a in
  if n = 0 then l else
  let k = rint r n in
  let lst = Array.to_list in
  match rint r 9 with
  | 0 -> lst (Array.append (Array.sub a 0 k) (Array.sub a (k + 1) (n - k - 1)))
  | 1 -> lst (Array.concat [ Array.sub a 0 k; [| a.(k) |]; Array.sub a k (n - k) ])
  | 2 -> a.(k) <- { (a.(k)) with t_kind = pick r all_kinds }; lst a
  | 3 -> a.(k) <- { (a.(k)) with t_val = bytes_of_string (pick r value_pool) }; lst a
  | 4 -> if k + 1 < n then (let t = a.(k) in a.(k) <- a.(k + 1); a.(k + 1) <- t); lst a
  | 5 -> lst (Array.sub a 0 k)
  | 6 -> lst (Array.concat [ Array.sub a 0 k; [| rand_token r |]; Array.sub a k (n - k) ])
  | 7 -> lst (Array.concat [ Array.sub a 0 k; [| eof |]; Array.sub a k (n - k) ])
  | _ -> a.(k) <- { (a.(k)) with t_line = nat_of_int (1 + rint r 3) }; lst a

let strip_eof l = List.filter (fun t -> t.t_kind <> KEof) l

(* exhaustive short bodies after an opener and a tag name *)
let handler_names = [| "if"; "for"; "block"; "extends"; "include"; "set"; "do"; "macro"; "import"; "from"; "spaceless"; "verbatim"; "apply";
                       "endif"; "endfor"; "endmacro"; "endblock"; "endspaceless"; "endapply"; "else"; "elseif"; "endverbatim"; "nosuch" |]
let small_alphabet h = [| bs; be; nm "x"; nm (match h with
    | "for" -> "in" | "import" -> "as" | "from" -> "import" | "include" -> "with" | "if" -> "endif" | "block" -> "endblock"
    | "macro" -> "endmacro" | "spaceless" -> "endspaceless" | "verbatim" -> "endverbatim" | "apply" -> "endapply" | _ -> "else");
    st "s"; nu "1"; op "="; pu ","; pu "("; pu ")"; tx " "; vs; ve; eof; cs; ce |]

let rec strip_last_eofs l =
  match List.rev l with
  | t :: rest when t.t_kind = KEof -> strip_last_eofs (List.rev rest)
  | _ -> l
(* most mutated lists keep the invariant (last token EOF); one in seven drops it *)
let strip_eof_tail r l =
  let l = strip_last_eofs l in
  if rint r 7 = 0 then l else l @ [ eof ]

let gen_tokens r ~tier oc =
  let thorough = tier = "thorough" in
  (* the witnesses of the Coq statements C05_eof_needed and C05_string_slice_latent, confirmed on the real parser *)
  emit_tokens oc "witness" [ bs; nm "spaceless"; be; bs; nm "endspaceless" ];
  emit_tokens oc "witness" [ bs; nm "import"; nm "\" as x"; be; eof ];
  emit_tokens oc "witness" [ bs; nm "macro"; nm "m(a=')"; be; eof ];
  emit_tokens oc "witness" [ bs; nm "macro"; nm "m(a=1, b = \")"; be; tx "t"; bs; nm "endmacro"; be; eof ];
  emit_tokens oc "witness" [ bs; nm "import"; nm "\"p\" as x"; be; eof ];
  emit_tokens oc "witness" [ bs; nm "from"; nm "p import a, b as c"; be; eof ];
  emit_tokens oc "witness" [ bs; nm "do"; nm "a"; mk KEof "ERROR_MISSING_VALUE" 1; be; eof ];
  emit_tokens oc "witness" [ bs; nm "do"; nm "a"; op "="; mk KEof "ERROR_MISSING_VALUE" 1; be; eof ];
  (* valid templates and their mutations *)
  let nvalid = if thorough then 6000 else 500 in
  for _ = 1 to nvalid do
    let l = gen_nodes r 2 @ [ eof ] in
    if List.length l <= 220 then begin
      emit_tokens oc "valid" l;
      for _ = 1 to 3 do
        let m = mutate r l in
        let m = if rint r 3 = 0 then mutate r m else m in
        let m = strip_eof_tail r m in
        emit_tokens oc "mutated" m
      done
    end
  done;
  (* exhaustive short tag bodies, with and without the final EOF *)
  let maxlen = if thorough then 3 else 2 in
  Array.iter (fun h ->
    let alpha = small_alphabet h in
    let rec go k acc =
      let l = [ bs; nm h ] @ List.rev acc in
      emit_tokens oc "short" (l @ [ eof ]);
      if thorough || acc = [] || Hashtbl.hash (h, List.length acc, List.map (fun t -> t.t_val) acc) mod 3 = 0 then emit_tokens oc "short-noeof" l;
      if k > 0 then Array.iter (fun t -> go (k - 1) (t :: acc)) alpha in
    go maxlen []) handler_names;
  (* bodies closed by every end tag, cut at every point, without EOF: where the error messages index *)
  let closers = [| "endif"; "endfor"; "endblock"; "endmacro"; "endspaceless"; "endapply"; "endverbatim"; "else"; "elseif" |] in
  Array.iter (fun (h, pre) ->
    Array.iter (fun c ->
      let full = [ bs; nm h ] @ pre @ [ be; tx "t"; bs; nm c; nm "x"; be; tx "u"; bs; nm c; be ] in
      let n = List.length full in
      for k = 2 to n do
        let cut = List.filteri (fun i _ -> i < k) full in
        emit_tokens oc "cut-noeof" cut;
        emit_tokens oc "cut" (cut @ [ eof ])
      done) closers)
    [| "if", [ nm "a" ]; "for", [ nm "i"; nm "in"; nm "items" ]; "block", [ nm "x" ]; "macro", [ nm "m"; pu "("; pu ")" ];
       "spaceless", []; "apply", [ nm "upper" ]; "verbatim", []; "macro", [ nm "m(a)" ]; "include", [ st "inc"; nm "with"; pu "{" ];
       "from", [ st "macros"; nm "import"; nm "m" ]; "from", [ nm "macros import m" ]; "import", [ nm "x as y" ] |]

(* ------------------------------------------------------------------ sources *)
let catalogue = [|
  "plain text"; "{{ a }}"; "{{- a -}} x"; "{# comment #}y"; "{{ a|upper }}"; "{{ a|default('x')|length }}"; "{{ items[0] }}{{ m.a }}";
  "{{ x + y * 2 }}"; "{{ (x + y) * 2 }}"; "{{ x > 1 ? 'big' : 'small' }}"; "{{ [1, 2, 3]|join(',') }}"; "{{ {'k': a, 'l': [1]}|length }}";
  "{{ a ~ b ~ 'lit' }}"; "{{ not t and x in items }}"; "{{ a is defined }}{{ zz is not defined }}"; "{{ a starts with 'A' }}{{ a ends with '1' }}";
  "{{ 'x' matches '/x/' }}"; "{{ range(1, 3)|join }}"; "{{ max(1, 2) }}{{ min([3, 1]) }}"; "{{ \"dq \\\" esc\" }}{{ 'sq \\' esc' }}";
  "{% if x %}one{% endif %}"; "{% if x > 1 %}a{% elseif x == 1 %}b{% else %}c{% endif %}"; "{%- if x -%} t {%- endif -%}";
  "{% for i in items %}{{ i }},{% endfor %}"; "{% for k, v in m %}{{ k }}={{ v }};{% endfor %}"; "{% for i in empty %}x{% else %}none{% endfor %}";
  "{% for i in items %}{{ loop.index }}/{{ loop.length }}{% if loop.last %}.{% endif %}{% endfor %}";
  "{% for i in items %}{% for j in items %}{{ i * j }} {% endfor %}{% endfor %}"; "{% for c in s %}{{ c }}{% endfor %}";
  "{% set v = 5 %}{{ v }}"; "{% set v = x + 10 %}{{ v }}"; "{% set w = a ~ '!' %}{{ w }}";
  "{% block body %}in block{% endblock %}"; "{% block body %}x{% endblock body %}"; "{% extends 'base' %}{% block body %}child{% endblock %}";
  "{% extends 'base' %}{% block body %}{{ parent() }}+{% endblock %}"; "{% include 'inc' %}"; "{% include 'inc' with {'a': 'Z'} %}";
  "{% include 'inc' with {'a': 1} only %}"; "{% include 'nosuch' ignore missing %}"; "{% include 'inc' with a = 1 %}"; "{% include 'inc' sandboxed %}";
  "{% import 'macros' as mm %}{{ mm.m(1) }}"; "{% from 'macros' import m, n as nn %}{{ m(1, 3) }}{{ nn() }}";
  "{% macro hi(name, greeting = 'hello') %}{{ greeting }} {{ name }}{% endmacro %}{{ hi('w') }}"; "{% macro z() %}z{% endmacro %}{{ _self.z() }}";
  "{% do x + 1 %}"; "{% do v = 3 %}{{ v }}"; "{% apply upper %}shout {{ a }}{% endapply %}"; "{% spaceless %}<a> <b> </b> </a>{% endspaceless %}";
  "{% verbatim %}{{ raw }} {% if %} {# c #}{% endverbatim %}"; "a{% if t %}{# c #}{{ a }}{% endif %}b";
  "{% if t %}{% for i in items %}{% set q = i %}{{ q }}{% endfor %}{% endif %}"; "{{ st.X }}{{ st.Name }}{{ pst.Hello }}{{ st.P.A }}";
  "{{ ss|join('-') }}{{ is|sort|join }}{{ arr|length }}{{ mis[1] }}"; "{{ m['a'] }}{{ m.b[1] }}{{ nest.a.b|length }}";
  "{{ a|escape }}{{ b|e('html') }}{{ b|raw }}"; "{{ f|round }}{{ i / 2 }}{{ i % 2 }}{{ 2 ^ 3 }}"; "{{ 'now'|date('Y') is defined }}";
  "\\{{ escaped }} {{ a }}"; "{{ a }}\n{% if x %}\n line\n{% endif %}\nend"; "{{ items|first }}{{ items|last }}{{ items|reverse|join }}";
  "{{ s|length }}{{ s|upper }}{{ s|capitalize }}{{ bad|length }}"; "{% for i in 1..3 %}{{ i }}{% endfor %}"; "{{ a ?: 'd' }}{{ zz ?? 'd' }}" |]

let tag_spans (s : string) : (int * int) list =
  (* positions inside tags, openers and closers included *)
  let n = String.length s in
  let spans = ref [] and i = ref 0 in
  while !i + 1 < n do
    if s.[!i] = '{' && (s.[!i + 1] = '{' || s.[!i + 1] = '%' || s.[!i + 1] = '#') then begin
      let close = match s.[!i + 1] with '{' -> "}}" | '%' -> "%}" | _ -> "#}" in
      let j = ref (!i + 2) in
      while !j + 1 < n && not (s.[!j] = close.[0] && s.[!j + 1] = close.[1]) do incr j done;
      let e = min (n - 1) (!j + 1) in
      spans := (!i, e) :: !spans; i := e + 1
    end else incr i
  done;
  List.rev !spans

let emit_source oc ?(extra = []) tag src =
  emit oc (Ob ([ "stream", JS "source"; "tag", JS tag; "src", JS (hex src) ] @ extra))

let gen_sources r ~tier oc =
  let thorough = tier = "thorough" in
  Array.iter (fun s -> emit_source oc "catalogue" s) catalogue;
  let subst = [| '{'; '}'; '%'; '#'; '-'; ' '; '\''; '"'; '('; ')'; '['; ']'; '|'; '.'; ','; ':'; '='; 'x'; '\\'; '\xff'; '\x00'; '\n' |] in
  Array.iter (fun s ->
    let n = String.length s in
    (* truncation at every offset *)
    for k = 0 to n - 1 do
      if thorough || k mod 3 = 0 || (k < n && (s.[k] = '}' || s.[k] = '%')) then emit_source oc "truncated" (String.sub s 0 k)
    done;
    (* every single-byte deletion inside a tag; substitutions and insertions: all in the thorough tier, a sample otherwise *)
    List.iter (fun (a, e) ->
      for k = a to e do
        emit_source oc "deleted" (String.sub s 0 k ^ String.sub s (k + 1) (n - k - 1));
        let nsub = if thorough then Array.length subst else 1 in
        for q = 0 to nsub - 1 do
          let c = if thorough then subst.(q) else pick r subst in
          if thorough || rint r 2 = 0 then emit_source oc "substituted" (String.sub s 0 k ^ String.make 1 c ^ String.sub s (k + 1) (n - k - 1));
          if thorough || rint r 3 = 0 then emit_source oc "inserted" (String.sub s 0 k ^ String.make 1 c ^ String.sub s k (n - k))
        done
      done) (tag_spans s)) catalogue;
  (* hand-written malformed forms *)
  List.iter (fun s -> emit_source oc "malformed" s)
    [ "{%"; "{{"; "{#"; "{% %}"; "{{ }}"; "{%%}"; "{{}}"; "{% if %}"; "{% if x %}"; "{% endif %}"; "{% else %}"; "{% elseif x %}"; "{% endverbatim %}";
      "{% for %}"; "{% for x %}"; "{% for x in %}"; "{% for in y %}"; "{% for x, in y %}"; "{% for , x in y %}"; "{% for x y in z %}{% endfor %}";
      "{% for x in y %}"; "{% for x in y %}{% else %}"; "{% for x in y %}{% endif %}"; "{% set %}"; "{% set x %}"; "{% set x = %}"; "{% set = 1 %}";
      "{% set x = 1 = 2 %}"; "{% set x %}body{% endset %}"; "{% macro %}"; "{% macro m %}"; "{% macro m( %}"; "{% macro m(a, %}{% endmacro %}";
      "{% macro m(a = ) %}{% endmacro %}"; "{% macro m(1) %}{% endmacro %}"; "{% macro m(a b) %}{% endmacro %}"; "{% macro m() %}"; "{% macro m() %}{% endmacro";
      "{% macro m(a=') %}{% endmacro %}"; "{% macro m(a=\") %}x{% endmacro %}"; "{% block %}"; "{% block a %}"; "{% block a %}{% endblock b %}";
      "{% block a %}{% block a %}{% endblock %}{% endblock %}"; "{% block a %}{% if 1 %}{% block a %}x{% endblock %}{% endif %}{% endblock %}";
      "{% extends %}"; "{% extends \" %}"; "{% extends ' %}"; "{% include %}"; "{% include \" %}"; "{% include 'inc' with %}"; "{% include 'inc' with { %}";
      "{% include 'inc' with {a %}"; "{% include 'inc' with {a: %}"; "{% include 'inc' with {'a': 1 %}"; "{% include 'inc' with {a = 1} %}";
      "{% include 'inc' ignore %}"; "{% include 'inc' bogus %}"; "{% include 'inc' with a %}"; "{% include 'inc' with a = %}"; "{% include x with y %}";
      "{% import %}"; "{% import 'macros' %}"; "{% import 'macros' as %}"; "{% import \" as x %}"; "{% import 'macros' as a as b %}"; "{% import as as as %}";
      "{% from %}"; "{% from 'macros' %}"; "{% from 'macros' import %}"; "{% from \" import x %}"; "{% from 'macros' import m as %}"; "{% from 'macros' import , %}";
      "{% from 'macros' import m as n as o %}"; "{% from x import y %}"; "{% do %}"; "{% do = %}"; "{% do a = %}"; "{% do 5 = 1 %}"; "{% do a b = 1 %}";
      "{% do a b c = 1 %}"; "{% apply %}"; "{% apply upper %}"; "{% apply nosuch %}x{% endapply %}"; "{% spaceless %}"; "{% spaceless x %}{% endspaceless %}";
      "{% verbatim %}"; "{% verbatim %}{{ a"; "{% verbatim %}{% endverbatim"; "{% verbatim x %}{% endverbatim %}"; "{% nosuch %}"; "{% if x %}{% nosuch %}{% endif %}";
      "{{ 'unterminated }}"; "{{ \"unterminated }}"; "{{ 'a\\' }}"; "{{ a. }}"; "{{ a[ }}"; "{{ a| }}"; "{{ a( }}"; "{{ a ? }}"; "{{ a ? b }}"; "{{ a ? b : }}";
      "{{ [ }}"; "{{ { }}"; "{{ ( }}"; "{{ ) }}"; "{{ ] }}"; "{{ } }}"; "{{ 1.foo }}"; "{{ a.b( }}"; "{{ a.b(1, }}"; "{{ , }}"; "{{ : }}"; "{{ a b }}"; "{{ + }}";
      "{{ a + }}"; "{{ not }}"; "{{ a is }}"; "{{ a is not }}"; "{{ a in }}"; "{{ a|f( }}"; "{{ {'a' 1} }}"; "{{ {'a': } }}"; "{{ [1 2] }}"; "{{ a[1 }}"; "{{ a[] }}";
      "{{ a.. }}"; "{{ ..a }}"; "{{ 1..  }}"; "{{ a ?? }}"; "{{ a ?: }}"; "{{ - }}"; "{{ -- 1 }}"; "{{ 9999999999999999999999 }}"; "{{ 1.2.3 }}"; "{{ 1e5 }}";
      "{{ a\x00b }}"; "{{ \xff }}"; "{% \xff %}"; "{% if \xff %}{% endif %}"; "{{ a }}{{"; "{{ a }}{%"; "text {{ a }} {% if x %}"; "}}"; "%}"; "#}"; "-}}"; "{{-"; "{%-";
      "{{- -}}"; "{%- -%}"; "{% for \xfb\xfb\xfb\xfb\xfb\xfb in y %}"; "{% for \xc8\xba\xc8\xba\xc8\xba\xc8\xba\xc8\xba\xc8\xba in y %}{% endfor %}";
      "{% include \"\xc8\xba\xc8\xba\xc8\xba\xc8\xba\xc8\xba\xc8\xba\xc8\xba\xc8\xba\" with x %}"; "{% from \"\xc8\xba\xc8\xba\xc8\xba\xc8\xba\xc8\xba\xc8\xba\xc8\xba\xc8\xba\xc8\xba\xc8\xba\" import x %}";
      "{% import \"\xc8\xba\xc8\xba\xc8\xba\xc8\xba\xc8\xba\xc8\xba\" as x %}"; "{% from 'macros' import \xc8\xba\xc8\xba\xc8\xba\xc8\xba\xc8\xba\xc8\xba\xc8\xba\xc8\xba as x %}";
      "{% FOR x IN y %}{% ENDFOR %}"; "{% for x IN items %}{{ x }}{% endfor %}"; "{% include 'inc' WITH {'a': 1} %}" ];
  (* random byte strings with embedded delimiters and keywords *)
  let nrand = if thorough then 30000 else 1500 in
  let frag = [| "{{"; "{{-"; "{%"; "{%-"; "{#"; "}}"; "-}}"; "%}"; "-%}"; "#}"; " if "; " for "; " in "; " endif "; " endfor "; " set "; " = "; " macro "; "(";
                ")"; " endmacro "; " include "; " with "; "{"; "}"; " import "; " as "; " from "; " block "; " endblock "; " extends "; " verbatim ";
                " endverbatim "; " do "; " apply "; " endapply "; " spaceless "; " else "; " elseif "; "'"; "\""; "\\"; " a "; " x "; "1"; ","; ":"; "|"; "."; "[";
                "]"; "?"; "~"; "-"; " not "; " is "; " and "; "\n"; " "; "\xc8\xba"; "\xff" |] in
  for _ = 1 to nrand do
    let parts = 1 + rint r 14 in
    let b = Buffer.create 64 in
    for _ = 1 to parts do
      if rint r 9 = 0 then Buffer.add_char b (Char.chr (rint r 256)) else Buffer.add_string b (pick r frag)
    done;
    emit_source oc "random" (Buffer.contents b)
  done;
  (* pathological sizes: recipes expanded by the runner; the render of the deepest ones is skipped where noted *)
  let recipe ?(render = true) ?(timeout = 2) ?(maxstack = 0) name n =
    emit oc (Ob ([ "stream", JS "source"; "tag", JS ("deep:" ^ name); "recipe", JS name; "n", JI n; "timeout_s", JI timeout ]
                 @ (if render then [] else [ "norender", JS "1" ])
                 @ (if maxstack > 0 then [ "maxstack_mb", JI maxstack ] else []))) in
  let depths = if thorough then [ 1000; 10000; 100000 ] else [ 1000; 10000 ] in
  List.iter (fun n ->
    let t = if n >= 100000 then 30 else if n >= 10000 then 10 else 2 in
    List.iter (fun name -> recipe ~timeout:t name n)
      [ "parens"; "arrays"; "hashes"; "unary"; "nots"; "sum"; "concat"; "index"; "attr"; "filters"; "ternary"; "tags"; "text" ];
    List.iter (fun name -> recipe ~timeout:t name (min n 10000)) [ "ifs"; "fors"; "blocks"; "names" ]) depths;
  List.iter (fun name -> List.iter (fun n -> recipe ~timeout:(if n > 100000 then 30 else 10) name n) (if thorough then [ 1000; 10000; 100000 ] else [ 1000; 10000 ]))
    [ "ternary-else"; "ternary-tight"; "ternary-cond"; "ternary-short"; "coalesce" ];
  (* on a 64 MB stack: recursion that no depth limit bounds gives out at a million levels, where the source is 4-8 MB *)
  List.iter (fun name -> recipe ~timeout:60 ~maxstack:64 ~render:false name 1000000)
    [ "ternary"; "ternary-else"; "ternary-tight"; "ternary-cond"; "parens"; "arrays"; "unary"; "nots"; "index"; "filters" ];
  recipe ~timeout:10 "manyattrs" 1200; recipe ~timeout:10 "manyattrs" 2500;
  if thorough then begin
    (* where the Go stack (1 GB) gives out: sources of 1-4 MB *)
    List.iter (fun (name, n) -> recipe ~timeout:120 name n)
      [ "arrays", 1000000; "sum", 1500000; "unary", 1500000; "index", 1500000; "parens", 1500000; "names", 60000 ]
  end

(* ------------------------------------------------------------------ render: registries x shapes *)
let names_of (l : (byte list * byte list) list) = List.map (fun (k, _) -> string_of_bytes k) l
let shapes = [| "mis"; "msi"; "mss"; "ss"; "is"; "arr"; "fs"; "nest"; "st"; "pst"; "nilp"; "nili"; "tnil"; "ch"; "fn"; "big"; "minint"; "u64"; "nan";
                "inf"; "ninf"; "f"; "i"; "z"; "neg"; "s"; "e"; "bad"; "t"; "n"; "any"; "m"; "bytes"; "mf"; "mia"; "mai"; "pp"; "tm"; "ntm"; "dur"; "emb";
                "long"; "longany"; "lol"; "named"; "empty"; "emap"; "mix"; "pmix"; "nmss"; "nmsa"; "nmis"; "nmst"; "lnamed"; "larr"; "lstructs"; "lerrs"; "undefined_var" |]
let lits = [| "0"; "1"; "-1"; "2"; "3.5"; "'a'"; "''"; "null"; "true"; "[]"; "[1, 2]"; "{'a': 1}"; "{}"; "9223372036854775807"; "-9223372036854775807";
              "1000000000"; "'z-a'"; "'%s %d'"; "'Y-m-d'"; "','"; "[[1]]"; "'a\\'b'" |]
let arg r = if rint r 3 = 0 then pick r shapes else pick r lits
let args r n = String.concat ", " (List.init n (fun _ -> arg r))
let binops = [| "+"; "-"; "*"; "/"; "%"; "^"; "~"; "=="; "!="; "<"; ">"; "<="; ">="; "and"; "or"; "in"; "not in"; "matches"; "starts with"; "ends with"; "&&"; "||" |]

let emit_render oc tag tpl = emit oc (Ob [ "stream", JS "render"; "tag", JS tag; "tpl", JS (hex tpl) ])

let gen_render r ~tier oc =
  let thorough = tier = "thorough" in
  let filters = names_of reg_GetFilters and functions = names_of reg_GetFunctions and tests = names_of reg_GetTests in
  let per = if thorough then 8 else 1 in
  List.iter (fun f ->
    Array.iter (fun v ->
      emit_render oc ("filter:" ^ f) (Printf.sprintf "{{ %s|%s }}" v f);
      for _ = 1 to per do
        let n = 1 + rint r 3 in
        emit_render oc ("filter:" ^ f) (Printf.sprintf "{{ %s|%s(%s) }}" v f (args r n))
      done;
      if thorough || rint r 4 = 0 then emit_render oc ("filter-in-for:" ^ f) (Printf.sprintf "{%% for q in %s|%s %%}{{ q }}{%% endfor %%}" v f);
      if thorough || rint r 6 = 0 then emit_render oc ("apply:" ^ f) (Printf.sprintf "{%% apply %s %%}{{ %s }}{%% endapply %%}" f v)) shapes) filters;
  (* every filter with every pair of edge arguments (zero, the empty string, a negative, null, the empty list) on a
     string, a list and a number: the argument combinations a size, a limit or a separator can take *)
  let edge = [ "0"; "''"; "-1"; "1"; "null"; "[]"; "z"; "e"; "'0'"; "0.0" ] in
  List.iter (fun f ->
    List.iter (fun v ->
      List.iter (fun a ->
        emit_render oc ("filter-edge:" ^ f) (Printf.sprintf "{{ %s|%s(%s) }}" v f a);
        List.iter (fun b -> emit_render oc ("filter-edge:" ^ f) (Printf.sprintf "{{ %s|%s(%s, %s) }}" v f a b)) edge) edge)
      [ "s"; "ss"; "i"; "e" ]) filters;
  List.iter (fun f ->
    List.iter (fun a -> List.iter (fun b ->
      emit_render oc ("function-edge:" ^ f) (Printf.sprintf "{{ %s(%s, %s) }}" f a b);
      emit_render oc ("function-edge:" ^ f) (Printf.sprintf "{{ %s(s, %s, %s) }}" f a b)) edge) edge) functions;
  List.iter (fun f ->
    emit_render oc ("function:" ^ f) (Printf.sprintf "{{ %s() }}" f);
    Array.iter (fun v ->
      emit_render oc ("function:" ^ f) (Printf.sprintf "{{ %s(%s) }}" f v);
      for _ = 1 to per do
        emit_render oc ("function:" ^ f) (Printf.sprintf "{{ %s(%s, %s) }}" f v (args r (1 + rint r 2)))
      done) shapes;
    for _ = 1 to (if thorough then 60 else 12) do
      emit_render oc ("function:" ^ f) (Printf.sprintf "{{ %s(%s) }}" f (args r (1 + rint r 3)))
    done) functions;
  List.iter (fun t ->
    Array.iter (fun v ->
      emit_render oc ("test:" ^ t) (Printf.sprintf "{{ %s is %s }}" v t);
      emit_render oc ("test:" ^ t) (Printf.sprintf "{{ %s is not %s(%s) }}" v t (args r (1 + rint r 2)))) shapes) tests;
  (* operators over pairs of shapes *)
  Array.iter (fun o ->
    Array.iter (fun v ->
      let k = if thorough then Array.length shapes else 6 in
      for q = 0 to k - 1 do
        let w = if thorough then shapes.(q) else pick r shapes in
        emit_render oc ("binop:" ^ o) (Printf.sprintf "{{ %s %s %s }}" v o w)
      done;
      emit_render oc ("binop:" ^ o) (Printf.sprintf "{{ %s %s %s }}" v o (pick r lits));
      emit_render oc ("binop:" ^ o) (Printf.sprintf "{{ %s %s %s }}" (pick r lits) o v)) shapes) binops;
  (* access, unary, ternary, loops, set, include over every shape *)
  Array.iter (fun v ->
    List.iter (fun tpl -> emit_render oc "access" (Str_compat.replace_all tpl "$" v))
      [ "{{ $ }}"; "{{ $.a }}"; "{{ $.X }}"; "{{ $.Hello }}"; "{{ $.PtrM }}"; "{{ $.Args }}"; "{{ $.Args(1) }}"; "{{ $.Two }}"; "{{ $.nosuch.deeper }}"; "{{ $.P.A }}"; "{{ $.Q.A }}"; "{{ $.Name }}"; "{{ $.Title }}"; "{{ $.Zap }}"; "{{ $.Add }}"; "{{ $.Add(1) }}"; "{{ $.With(1, 2) }}"; "{{ $.Name() }}";
        "{{ $.hidden }}"; "{{ $.y }}"; "{{ $.T.a }}"; "{{ $.T['zz'] }}"; "{{ $.N[0] }}"; "{{ $.b }}"; "{{ $['b'] }}"; "{{ $[1] }}"; "{{ $[named] }}"; "{{ $[s] }}"; "{{ $[0] }}"; "{{ $[-1] }}"; "{{ $[99] }}"; "{{ $['a'] }}"; "{{ $[1.5] }}"; "{{ $[true] }}"; "{{ $[null] }}"; "{{ $[undefined_var] }}";
        "{{ $[nan] }}"; "{{ $[big] }}"; "{{ $[minint] }}"; "{{ $[[]] }}"; "{{ $[{}] }}"; "{{ $[ss] }}"; "{{ $[st] }}"; "{{ $[fn] }}"; "{{ $[ch] }}"; "{{ $[nilp] }}";
        "{{ -$ }}"; "{{ +$ }}"; "{{ not $ }}"; "{{ $ ? 1 : 2 }}"; "{{ $ ?: 'd' }}"; "{{ $ ?? 'd' }}"; "{% for q in $ %}{{ q }}{% endfor %}";
        "{% for k, q in $ %}{{ k }}{{ q }}{{ loop.index }}{% else %}e{% endfor %}"; "{% set w = $ %}{{ w }}"; "{% if $ %}y{% elseif not $ %}n{% endif %}";
        "{% include $ %}"; "{% include $ ignore missing %}"; "{% include 'inc' with $ %}"; "{% include 'inc' with {'a': $} only %}"; "{% extends $ %}";
        "{% import $ as q %}"; "{% from $ import m %}"; "{{ [$, $]|join }}"; "{{ {'k': $}|length }}"; "{{ {($): 1}|length }}"; "{% do $ %}";
        "{{ $|slice(1, 9223372036854775807) }}"; "{{ $|slice(-1) }}"; "{{ $|slice(0) }}"; "{{ $|batch(0) }}"; "{{ $|batch(-1, 'x') }}"; "{{ $|split('') }}";
        "{{ $|format($) }}"; "{{ $|date($) }}"; "{{ $|number_format($) }}"; "{{ $|round($) }}"; "{{ $|json_encode }}"; "{{ $|merge($) }}"; "{{ $|merge([1]) }}"; "{{ $|merge(['x']) }}"; "{{ $|merge(ss) }}"; "{{ $|merge(is) }}"; "{{ $|merge({'a': 1}) }}"; "{{ $|merge(msi) }}"; "{{ $|merge(mis) }}"; "{{ $|sort|reverse|first }}";
        "{{ $|keys|join }}"; "{{ $|column('a')|join }}"; "{{ $|replace({'a': $}) }}"; "{{ $|default($)|length }}"; "{{ $|join($) }}"; "{{ $ is same as($) }}";
        "{{ $ is divisible by($) }}"; "{{ $ is sameas([]) }}"; "{{ [] in $ }}"; "{{ {} in $ }}"; "{{ 1 in $ }}"; "{{ 'x' not in $ }}"; "{{ s in $ }}"; "{{ 't59' in $ }}"; "{{ 59 in $ }}"; "{{ $ in long }}"; "{{ $ in longany }}"; "{{ $ not in lol }}";
        "{{ range($, 3) }}"; "{{ range(0, 3, $) }}"; "{{ random($) }}"; "{{ random($, $) }}"; "{{ cycle($, 1) }}"; "{{ cycle([1, 2], $) }}"; "{{ max($) }}"; "{{ min($, $) }}";
        "{{ attribute($, 'a') }}"; "{{ attribute(st, $) }}"; "{{ constant($) }}"; "{{ date($) is defined }}"; "{{ dump($) }}"; "{{ block($) }}"; "{{ source($) is defined }}" ]) shapes;
  (* sanity: reads of fields and zero-argument methods that exist on the standard context; the expected output
     follows from the Go declarations in harness/c05.go alone. An error here is the engine failing on a
     supported shape (a panic inside reflect caught by the engine's own recover shows up this way) *)
  List.iter (fun (tpl, out) -> emit oc (Ob [ "stream", JS "render"; "tag", JS "sanity"; "tpl", JS (hex tpl); "out", JS (hex out) ]))
    [ "{{ mix.Name }}", "mixed v"; "{{ pmix.Name }}", "mixed p"; "{{ mix.Title }}", "title"; "{{ pmix.Title }}", "title";
      "{{ pmix.Zap }}", "zap"; "{{ mix.Zap }}", "zap"; "{{ st.Hello }}", "hello n"; "{{ pst.Hello }}", "hello n"; "{{ pst.PtrM }}", "ptr";
      "{{ st.X }}", "7"; "{{ pst.X }}", "7"; "{{ st.Name }}", "n"; "{{ pst.Name }}", "n"; "{{ pst.P.A }}", "1"; "{{ st.M.k }}", "1"; "{{ st.L[0] }}", "l";
      "{% for k in [pmix, mix] %}{{ k.Name }};{% endfor %}", "mixed p;mixed v;"; "{{ pmix.Name ~ '/' ~ pmix.Title }}", "mixed p/title";
      "{% set q = pmix %}{{ q.Name }}", "mixed p"; "{{ [pmix][0].Title }}", "title"; "{{ pmix.Name|upper }}", "MIXED P";
      "{% if pmix.Title %}y{% endif %}", "y"; "{{ mis[1] }}{{ msi.a }}{{ ss[0] }}{{ arr[2] }}", "a1a3";
      "{{ nmss.a }}{{ nmss['b'] }}{{ nmss.zz }}|{{ nmsa.a }}|{{ nmis[1] }}{{ nmis[9] }}|{{ nmst.T.a }}{{ nmst.N[0] }}", "xy|1|one|t7" ];
  (* template names of every shape, through every tag that takes one (they reach the file-system and chain loaders) *)
  List.iter (fun name ->
    List.iter (fun tpl -> emit_render oc "names" (Str_compat.replace_all tpl "$" name))
      [ "{% include '$' %}"; "{% include '$' ignore missing %}x"; "{% extends '$' %}"; "{% import '$' as q %}"; "{% from '$' import m %}"; "{% include ['$'] ignore missing %}";
        "{% set nm = '$' %}{% include nm ignore missing %}{% include nm ~ '.twig' ignore missing %}" ])
    [ "@widgets"; "@"; "@/"; "@a/b"; "@@"; "../x"; "../../etc/passwd"; "/etc/passwd"; ""; " "; "."; ".."; "a//b"; "a/./b"; "sub/real.twig"; "sub/../sub/real.twig"; "./real.twig";
      "real"; "real.twig.twig"; "C:\\x"; "a\\b"; "%00"; "a b"; "h\xc3\xa9"; String.make 300 'n'; "#"; "?x=1"; "a:b"; "~"; "-"; "*" ];
  (* libraries that load and parse and whose top level fails when they are rendered for the import *)
  List.iter (fun lib ->
    List.iter (fun tpl -> emit_render oc "failing-library" (Str_compat.replace_all tpl "$" lib))
      [ "{% import '$' as f %}{{ f.m() }}"; "{% from '$' import m %}{{ m() }}"; "{% from '$' import m as q %}x"; "{% import '$' as f %}"; "a{% if a %}{% import '$' as f %}{% endif %}b";
        "{% for i in [1, 2] %}{% import '$' as f %}{{ f.m() }}{% endfor %}"; "{% macro w() %}{% import '$' as f %}{{ f.m() }}{% endmacro %}{{ w() }}"; "{% include '$' %}"; "{% extends '$' %}";
        "{% block b %}{% from '$' import m %}{{ m() }}{% endblock %}"; "{% import '$' as f %}{% import 'macros' as g %}{{ g.n() }}" ])
    [ "c05libdiv"; "c05libinc"; "c05libfn"; "c05libfilter"; "c05libidx"; "c05libimp"; "c05libext" ];
  (* sandboxed includes under the default policy, the included partial reading attributes of every shape of value *)
  List.iter (fun tpl -> emit_render oc "sandboxed-attributes" tpl)
    [ "{% include 'c05sb' sandboxed %}"; "{% include 'c05sb' with {'st': null, 'm': null} sandboxed %}"; "{% include 'c05sb' with {'st': 1} only sandboxed %}"; "{% include 'c05sb' only sandboxed %}";
      "{% for i in [1, 2] %}{% include 'c05sb' sandboxed %}{% endfor %}"; "{% include 'inc' sandboxed %}"; "{% include 'c05mid' sandboxed %}"; "{% include 'c05nest' sandboxed %}";
      "{% include 'c05sb' ignore missing sandboxed %}"; "{% include 'c05libfn' sandboxed %}" ];
  List.iter (fun tpl -> emit_render oc "special" tpl)
    [ "{% macro m() %}{% block b %}x{% endblock %}{% endmacro %}{{ m() }}"; "{% macro m(a) %}<{% block b %}{{ a }}{% endblock %}>{% endmacro %}{{ _self.m(1) }}{{ m(2) }}";
      "{% macro m() %}{% if true %}{% for i in [1] %}{% block b %}x{% endblock %}{% endfor %}{% endif %}{% endmacro %}{% block b %}outer{% endblock %}{{ m() }}";
      "{% extends 'base' %}{% block body %}{% macro m() %}{% block other %}o{% endblock %}{% endmacro %}{{ m() }}{% endblock %}";
      "{% macro m() %}{{ parent() }}{% endmacro %}{{ m() }}"; "{% macro m() %}{% extends 'base' %}{% endmacro %}{{ m() }}"; "{% macro m() %}{% include 'inc' %}{% block body %}b{% endblock %}{% endmacro %}{{ m() }}";
      "{% macro m() %}{% macro n() %}{% block b %}x{% endblock %}{% endmacro %}{{ n() }}{% endmacro %}{{ m() }}"; "{% apply upper %}{% block b %}x{% endblock %}{% endapply %}{% spaceless %}{% block c %} y {% endblock %}{% endspaceless %}";
      "{% block a %}{% block b %}{% block a %}x{% endblock %}{% endblock %}{% endblock %}"; "{% block a %}{% block b %}{% block c %}{% block a %}x{% endblock %}{% endblock %}{% endblock %}{% endblock %}";
      "{% block a %}{% if true %}{% block b %}{% for i in [1] %}{% block a %}y{% endblock %}{% endfor %}{% endblock %}{% endif %}{% endblock %}";
      "{% extends 'base' %}{% block body %}{% block other %}{% block body %}x{% endblock %}{% endblock %}{% endblock %}";
      "{% block a %}{% block b %}{% endblock %}{% endblock %}{% block b %}{% block a %}{% endblock %}{% endblock %}"; "{% block a %}{% block a %}x{% endblock %}{% endblock %}";
      "{% include 'inc' with {'a': 1 / 0} %}"; "{% include 'inc' with {'a': nosuchfn()} %}"; "{% for i in [1, 2] %}{% include 'inc' with {'a': i % 0} %}{% endfor %}";
      "{% include 'inc' with {'a': undefined_var|nosuchfilter} only %}"; "{% include nosuchfn() with {'a': 1} %}"; "{% include 'nothere' with {'a': 1 / 0} ignore missing %}";
      "{% import 'macros' as mm %}{{ mm.m(1 / 0) }}"; "{% from 'macros' import m %}{{ m(nosuchfn()) }}"; "{% extends 'base' %}{% block body %}{{ 1 / 0 }}{% endblock %}";
      "{{ range(0, 9223372036854775807)|length }}"; "{{ range(1, 1000000000)|length }}"; "{{ range(9223372036854775807, 9223372036854775807)|length }}";
      "{{ range(0, 9223372036854775807, 5000000000000000000)|length }}"; "{{ range(1, 3, 0) }}"; "{{ range(3, 1, 1)|length }}"; "{{ range(1, 3, -1)|length }}";
      "{{ range(minint, 1)|length }}"; "{{ range(nan, 1)|length }}"; "{{ 1|number_format(9223372036854775807) }}"; "{{ 1|number_format(1000000000)|length }}";
      "{{ 'abc'|slice(1, 9223372036854775807) }}"; "{{ [1, 2, 3]|slice(1, 9223372036854775807)|length }}"; "{{ random(-2, 9223372036854775807) }}";
      "{{ 'a'|split('z-a') }}"; "{{ 'a'|split(bad) }}"; "{{ [] is same_as([]) }}"; "{{ {} is sameas({}) }}"; "{{ [] in [0,1,2,3,4,5,6,7,8,9,10,11,12,13,14,15,16,17,18,19,20,21,22,23,24,25,26,27,28,29,30,31,32,33,34,35,36,37,38,39,40,41,42,43,44,45,46,47,48,49,50,51,52,53,54,55] }}";
      "{{ 'x'|repeat(1000000000)|length }}"; "{{ 'abc'|pad(1000000000)|length }}"; "{{ ''|center(1000000000)|length }}"; "{{ 1 / 0 }}"; "{{ 1 % 0 }}"; "{{ 1.5 % 0 }}";
      "{{ 2 ^ 100000 }}"; "{{ big + big }}"; "{{ minint - 1 }}"; "{{ -minint }}"; "{{ minint|abs }}"; "{{ u64 + 1 }}"; "{{ 'a' matches '(' }}"; "{{ 'a' matches '/(/' }}";
      "{{ 'aaaaaaaaaaaaaaaaaaaaaaaaaaaaaaaa' matches '/(a*)*b/' }}"; "{{ parent() }}"; "{% block b %}{{ parent() }}{% endblock %}"; "{{ block('nosuch') }}";
      "{{ _self }}"; "{{ _self.nosuch() }}"; "{{ _context|length }}"; "{{ loop.index }}"; "{% for i in items %}{{ loop.parent.x }}{% endfor %}";
      "{% macro a(x) %}{{ x }}{% endmacro %}{{ a }}{{ a|length }}{{ a.b }}{{ a() }}{{ a(1, 2, 3) }}"; "{% import 'macros' as mm %}{{ mm }}{{ mm.nosuch() }}{{ mm.m }}";
      "{% from 'macros' import nosuch %}{{ nosuch() }}"; "{% include ['nosuch', 'inc'] %}"; "{% include [] %}"; "{% extends ['nosuch', 'base'] %}";
      "{% extends 'nosuch' %}"; "{% extends 'inc' %}{% block zz %}{{ parent() }}{% endblock %}"; "{% set s = 'xxxxxxxxxx' %}{% for i in range(1, 12) %}{% set s = s ~ s %}{% endfor %}{{ s|length }}";
      "{{ tm|date('Y-m-d') }}{{ ntm|date('Y') }}{{ dur }}{{ ntm }}"; "{{ 'x' ~ ntm }}"; "{{ emb.Hello }}{{ emb.X }}{{ emb.V }}"; "{% for k, v in mf %}{{ k }}{% endfor %}{{ mf|first }}";
      "{{ merge(mf, mf)|length }}"; "{{ mia[[]] }}{{ mia[{}] }}{{ mai[is] }}"; "{{ arr|reverse|join }}{{ arr|sort|join }}{{ arr|slice(0)|join }}"; "{{ msi|merge({'a': 'b'})|length }}" ]

(* values that contain themselves (mirrored in harness/c05.go c05CyclicCtx): thorough tier only *)
let gen_cyclic oc =
  let cyc = [| "cycm"; "cycs"; "cycn"; "cycp" |] in
  Array.iter (fun v ->
    List.iter (fun tpl -> emit oc (Ob [ "stream", JS "render"; "tag", JS "cyclic"; "tpl", JS (hex (Str_compat.replace_all tpl "$" v)) ]))
      [ "{{ $ }}"; "{{ dump($) }}"; "{{ $ == $ }}"; "{{ $ in [$] }}"; "{{ [$, $]|sort|length }}"; "{{ [$]|join(',') }}"; "{{ $|json_encode }}";
        "{{ $|length }}"; "{% for q in $ %}.{% endfor %}"; "{{ $.Next.Next.Name }}"; "{{ $.self.self.a }}"; "{{ $[1][1][0] }}"; "{{ $|keys|join }}";
        "{{ $|spaceless }}"; "{{ $|upper }}"; "{{ $|first }}"; "{{ 'x' ~ $ }}"; "{{ $|merge($)|length }}"; "{{ $ is same as($) }}"; "{{ $|reverse|length }}";
        "{{ $|default('d') }}"; "{{ $|slice(0, 1)|length }}"; "{{ $|escape }}"; "{{ $|format($) }}"; "{{ $|sort|length }}"; "{{ $|column('a')|length }}";
        "{{ max($, $) }}"; "{{ $ is iterable }}"; "{{ $ is empty }}"; "{% set w = $ %}{{ w }}"; "{% include 'inc' with $ %}"; "{{ $ ?: 'd' }}"; "{{ $|batch(1)|length }}" ]) cyc

(* ------------------------------------------------------------------ compiled data *)
let le32 (n : int) = String.init 4 (fun i -> Char.chr ((n lsr (8 * i)) land 255))
let gen_compiled r ~tier oc =
  let thorough = tier = "thorough" in
  let emitc tag data = emit oc (Ob [ "stream", JS "compiled"; "tag", JS tag; "data", JS (hex data); "timeout_s", JI 5 ]) in
  let z0 = Z0 in
  let recs = [ "t1", "hello {{ a }}", ""; "", "", ""; "n\xff", "{% if x %}y{% endif %}", "\x01\x02garbage"; "long", String.make 300 'x' ^ "{{ a }}", String.make 40 '\x00' ] in
  List.iter (fun (name, src, ast) ->
    let ser = string_of_bytes (serialize_compiled { c_name = bytes_of_string name; c_source = bytes_of_string src; c_last_modified = z0; c_compile_time = z0; c_ast = bytes_of_string ast }) in
    emitc "valid" ser;
    let n = String.length ser in
    for k = 0 to n - 1 do
      if thorough || n < 80 || k mod 5 = 0 then emitc "truncated" (String.sub ser 0 k)
    done;
    (* every length prefix replaced: name at 1, source after the name, ast after the timestamps *)
    let offs = [ 1; 1 + 4 + String.length name; 1 + 4 + String.length name + 4 + String.length src + 16 ] in
    List.iter (fun off ->
      List.iter (fun v ->
        if off + 4 <= n then emitc "prefix" (String.sub ser 0 off ^ v ^ String.sub ser (off + 4) (n - off - 4)))
        [ le32 0; "\x00\x00\x00\x80"; "\xff\xff\xff\xff"; le32 (n + 1); le32 (n - off); le32 1; "\xff\xff\xff\x7f"; "\x00\x00\x00\x01" ]) offs;
    (* single-byte mutations *)
    for _ = 1 to (if thorough then 400 else 40) do
      let k = rint r n in
      emitc "mutated" (String.sub ser 0 k ^ String.make 1 (Char.chr (rint r 256)) ^ String.sub ser (k + 1) (n - k - 1))
    done) recs;
  List.iter (fun d -> emitc "prefix" d) [ "\x01\xff\xff\xff\xff"; "\x01\x00\x00\x00\x80"; "\x01\x00\x00\x00\x00\xff\xff\xff\xff"; "\x01"; ""; "\x02"; "\x00"; "\xff" ];
  for _ = 1 to (if thorough then 4000 else 300) do
    let n = rint r 60 in
    let s = String.init n (fun i -> if i = 0 && rbool r then '\x01' else if rint r 4 = 0 then '\x00' else Char.chr (rint r 256)) in
    emitc "random" s
  done

let run ~seed ~tier oc =
  let r = mk_rng seed in
  gen_tokens r ~tier oc;
  gen_sources r ~tier oc;
  gen_render r ~tier oc;
  if tier = "thorough" then gen_cyclic oc;
  gen_compiled r ~tier oc
