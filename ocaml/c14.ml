(* C14 cases: base templates as flat piece lists, a boundary at which padding is inserted, the kind
   and length of the padding. The Go side builds the sources (marker version and padded version);
   for total lengths up to a bound the model's token shape of the padded source is included. *)
open Util
open Model
open Lexgen

let bases : string list array = [|
  [ "Hello "; "{{ a }}"; "!" ];
  [ "{% if a %}"; "yes"; "{% else %}"; "no"; "{% endif %}"; " tail" ];
  [ "<ul>"; "{% for i in items %}"; "<li>"; "{{ i }}"; "</li>"; "{% endfor %}"; "</ul>" ];
  [ "{% set z = a ~ b %}"; "["; "{{ z|upper }}"; "]"; "{# note #}"; "." ];
  [ "{% macro m(x) %}"; "("; "{{ x }}"; ")"; "{% endmacro %}"; "call "; "{{ m(a) }}"; " end" ];
  [ "A"; "{{- a -}}"; "B"; "{%- if c -%}"; "C"; "{%- else -%}"; "D"; "{%- endif -%}"; "E" ];
  [ "{% block b %}"; "in"; "{{ d }}"; "{% endblock %}"; "out" ];
  [ "x { y } z"; "{{ a }}"; "{ % #"; "{# c #}"; "}} %}" ];
  [ "{% for i in items %}"; "{% if i == 1 %}"; "one"; "{% else %}"; "{{ i }}"; "{% endif %}"; ","; "{% endfor %}" ];
  [ "{% verbatim %}"; "{{ raw }}"; "{% endverbatim %}"; " after" ];
  [ "p "; "{{ a -}}"; " q "; "{{- b }}"; " r" ];
|]

let pad_text n = if n <= 0 then "" else if n = 1 then "P" else "P" ^ String.make (n - 2) 'x' ^ "Q"
let pad_comment n = if n < 4 then "{##}" else "{#" ^ String.make (n - 4) 'c' ^ "#}"

let shape_json (t : otok) : json =
  match t with
  | OText s -> JL [ JS "T"; JI (List.length s) ]
  | OEsc k -> JL [ JS "T"; JI (List.length (pattern k)) ]
  | OTag (k, c, tr) -> JL [ JS "G"; JS (kind_name k); JB (match k with OComment -> false | _ -> tr) ]

let run ~seed ~tier oc =
  let r = mk_rng seed in
  let thorough = tier = "thorough" in
  let targets = [ 0; 1; 2; 31; 32; 33; 999; 1000; 1001; 1023; 1024; 1025; 4094; 4095; 4096; 4097; 4098; 4099; 5000; 8191; 8192; 8193;
                  20479; 20480; 20481; 65535; 65536; 65537; 102399; 102400; 102401; 300000 ] @ (if thorough then [ 1000000 ] else []) in
  let model_bound = 12000 in
  let count = ref 0 in
  Array.iteri (fun bi pieces ->
    let base_len = List.fold_left (fun a p -> a + String.length p) 0 pieces in
    let np = List.length pieces in
    List.iter (fun target ->
      (* total length of the padded source = target (when reachable), at a few insertion points *)
      let points = if thorough then List.init (np + 1) (fun i -> i) else [ 0; rint r (np + 1); np ] in
      List.iter (fun at ->
        List.iter (fun kind ->
          let pad_len = if target <= 2 then target else max 0 (target - base_len) in
          (* inside a verbatim body a comment is literal text, not a comment: no comment padding there *)
          let inside_verbatim = bi = 9 && (at = 1 || at = 2) in
          if (kind = "text" || pad_len >= 4) && not (kind = "comment" && inside_verbatim) then begin
            incr count;
            let pad = if kind = "text" then pad_text pad_len else pad_comment pad_len in
            let src = String.concat "" (List.mapi (fun i p -> (if i = at then pad else "") ^ p) pieces) ^ (if at = np then pad else "") in
            let shape =
              if String.length src <= model_bound then
                (match lex_small (b src) with
                 | LexOk ts -> [ "shape", JL (List.map shape_json (ws_control false ts)) ]
                 | _ -> [ "shape_err", JB true ])
              else [] in
            emit oc (Ob ([ "stream", JS ("base" ^ string_of_int bi); "pieces", JL (List.map (fun p -> JS (hex p)) pieces); "at", JI at;
                           "pad_kind", JS kind; "pad_len", JI pad_len; "total", JI (String.length src) ] @ shape))
          end) [ "text"; "comment" ]) points) targets) bases;
  (* every string over the scanner alphabet up to length 5 (6 thorough): the two real tokenizers must
     read it alike; runs of # and % before a closer are in here *)
  let maxlen = if thorough then 6 else 5 in
  let rec all k prefix = if k = 0 then begin
      let fields, _ = lex_json (b prefix) in
      emit oc (Ob ([ "stream", JS "alphabet"; "src", JS (hex prefix) ] @ fields)) end
    else Array.iter (fun a -> all (k - 1) (prefix ^ a)) C04.alphabet in
  for k = 0 to maxlen do all k "" done;
  for _ = 1 to (if thorough then 20000 else 3000) do
    let parts = 2 + rint r 8 in
    let buf = Buffer.create 64 in
    for _ = 1 to parts do
      Buffer.add_string buf (pick r [| "{#"; "#}"; "#"; "##"; "###"; "{%"; "%}"; "%"; "%%"; "{{"; "}}"; "}"; "}}}"; "-"; "--"; " a "; "if a"; "{"; "{{{"; "{%-"; "-%}"; "-}}"; "{{-"; "x" |])
    done;
    let src = Buffer.contents buf in
    let fields, _ = lex_json (b src) in
    emit oc (Ob ([ "stream", JS "delimiter-runs"; "src", JS (hex src) ] @ fields))
  done;
  (* many-token templates: a base repeated so that token and node counts cross the pool size classes *)
  List.iter (fun reps ->
    let pieces = [ "{% for i in items %}"; "<li>"; "{{ i }}"; "</li>"; "{% endfor %}" ] in
    emit oc (Ob [ "stream", JS "repeat"; "pieces", JL (List.map (fun p -> JS (hex p)) pieces); "at", JI 2; "pad_kind", JS "text"; "pad_len", JI 7;
                  "reps", JI reps; "total", JI (reps * 40) ])) [ 1; 6; 7; 8; 199; 200; 201; 250; 333; 334 ]
