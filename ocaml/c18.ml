(* C18 case generation: caller heaps (nested typed and untyped maps, slices that are windows with spare capacity over shared
   backing arrays, Go arrays, structs, pointers), templates exercising every filter of the fragment and every writing node on
   them, and filter probes -- each with the prediction of the extracted heap model (Model/Heap.v):
     render   {kind, heap, root, tpls, main, poke, exp: {out, heap?} | {err} | {skip}}   output bytes / error class; for
              templates using the writing callback verif_poke also the content of every object of the caller afterwards
     probe    {kind, heap, v, filter, args, exp: {desc} | {err} | {skip}}   the aliasing description of the result of one filter
              called through the Go API
   Heap objects: {arr: [tag, [v..]]} | {map: [tag, [[k, v]..]]} | {cell: v}; values: null | {b} | {i} | {s: hex} |
   {sl: [tag, loc, off, len, cap]} | {m: [tag, loc]} | {st: [ty, [v..]]} | {ar: [tag, [v..]]} | {p: loc}. *)
open Model
open Util

let b = bytes_of_string
let z_of_int i = if i = 0 then Z0 else if i > 0 then Zpos (pos_of_int i) else Zneg (pos_of_int (-i))
let int_of_z = function Z0 -> 0 | Zpos p -> int_of_pos p | Zneg p -> - (int_of_pos p)
let nat = nat_of_int

(* ------------------------------------------------------------------ heaps *)
type hb = { mutable objs : (string * hpobj) list; mutable n : int }
let hb_new () = { objs = []; n = 0 }
let hb_add hb tag o = hb.objs <- (tag, o) :: hb.objs; hb.n <- hb.n + 1; hb.n - 1
let hb_objs hb = List.rev hb.objs

let ltag_s = function LAny -> "a" | LStrings -> "s" | LInts -> "i" | LArray -> "r"
let mtag_s = function MAny -> "a" | MStrStr -> "ss" | MIntStr -> "is" | MStrInt -> "si"

let rec jv (v : hpval) : json = match v with
  | HvNull -> JS "null"
  | HvBool x -> Ob [ "b", JB x ]
  | HvInt z -> Ob [ "i", JI (int_of_z z) ]
  | HvStr s -> Ob [ "s", JS (hexb s) ]
  | HvSlice (t, HlOld l, off, len, cap) -> Ob [ "sl", JL [ JS (ltag_s t); JI (int_of_nat l); JI (int_of_nat off); JI (int_of_nat len); JI (int_of_nat cap) ] ]
  | HvMap (t, HlOld l) -> Ob [ "m", JL [ JS (mtag_s t); JI (int_of_nat l) ] ]
  | HvStruct (ty, fs) -> Ob [ "st", JL [ JI (int_of_nat ty); JL (List.map (fun (_, x) -> jv x) fs) ] ]
  | HvArr (t, xs) -> Ob [ "ar", JL [ JS (ltag_s t); JL (List.map jv xs) ] ]
  | HvPtr (HlOld l) -> Ob [ "p", JI (int_of_nat l) ]
  | _ -> failwith "c18: value refers to the fresh region"

let jo (tag, o) : json = match o with
  | HoArr xs -> Ob [ "arr", JL [ JS tag; JL (List.map jv xs) ] ]
  | HoMap kvs -> Ob [ "map", JL [ JS tag; JL (List.map (fun (k, v) -> JL [ jv k; jv v ]) kvs) ] ]
  | HoCell v -> Ob [ "cell", jv v ]

(* ------------------------------------------------------------------ random contexts *)
type ek = Digits | Strs | Mixed
type k = KL of ek | KM of bool | KS | KX

let strs_pool = [| "a"; "b"; "c"; "d"; "k"; "x"; "y"; "q"; "mm"; "ab"; "zz"; "b,c" |]
let key_pool = [| "k"; "j"; "a"; "b"; "z" |]

let shuffle r (a : 'a array) = let a = Array.copy a in
  for i = Array.length a - 1 downto 1 do let j = rint r (i + 1) in let t = a.(i) in a.(i) <- a.(j); a.(j) <- t done; a

let digits r n = Array.to_list (Array.sub (shuffle r [| 0; 1; 2; 3; 4; 5; 6; 7; 8; 9 |]) 0 n) |> List.map (fun i -> HvInt (z_of_int i))
let strs r n = List.init n (fun _ -> HvStr (b (pick r strs_pool)))
let scalar r = match rint r 6 with
  | 0 -> HvNull | 1 -> HvBool (rbool r) | 2 | 3 -> HvInt (z_of_int (rint r 10)) | _ -> HvStr (b (pick r strs_pool))

(* a slice value over a new backing array: lead slots before the window, spare capacity after it; the slots outside the
   window hold nil (as make leaves them) or stale values *)
let new_slice r hb (t : ltag) (elems : hpval list) : hpval =
  let len = List.length elems in
  let lead = if rint r 4 = 0 then 1 + rint r 2 else 0 in
  let spare = match rint r 5 with 0 -> 0 | 1 -> 1 | 2 -> 2 | 3 -> 3 | _ -> 1 + rint r 4 in
  let filler () = match t with
    | LStrings -> HvStr (b (if rbool r then "" else "st"))
    | LInts -> HvInt (z_of_int (if rbool r then 0 else 77))
    | _ -> if rint r 3 = 0 then HvStr (b "stale") else HvNull in
  let xs = List.init lead (fun _ -> filler ()) @ elems @ List.init spare (fun _ -> filler ()) in
  let id = hb_add hb (ltag_s t) (HoArr xs) in
  let cap = if spare > 0 && rint r 6 = 0 then len + rint r (spare + 1) else len + spare in
  HvSlice (t, HlOld (nat id), nat lead, nat len, nat cap)

let new_map r hb (t : mtag) (kvs : (hpval * hpval) list) : hpval =
  let id = hb_add hb (mtag_s t) (HoMap kvs) in HvMap (t, HlOld (nat id))

let distinct_keys r n = Array.to_list (Array.sub (shuffle r key_pool) 0 (min n (Array.length key_pool)))

type cx = { hb : hb; mutable vars : (string * hpval * k) list; mutable lists : (expr * ek) list; mutable maps : expr list }

let v_ x = EVar (b x)
let attr e a = EAttr (e, b a)
let lint i = ELit (LInt (z_of_int i))
let lstr s = ELit (LStr (b s))
let filt e f args = EFilter (e, b f, args)
let call f args = ECall (b f, args)
let join e = filt e "join" [ lstr "," ]

let gen_context r : cx =
  let hb = hb_new () in
  let cx = { hb; vars = []; lists = []; maps = [] } in
  let add name v k = cx.vars <- (name, v, k) :: cx.vars in
  let maybe p f = if rint r 100 < p then f () in
  let mixed_list n =
    List.init n (fun _ -> match rint r 10 with
      | 0 -> new_slice r hb LAny (digits r (rint r 3))
      | 1 -> new_map r hb MAny (List.map (fun kk -> (HvStr (b kk), scalar r)) (distinct_keys r (rint r 3)))
      | _ -> scalar r) in
  (* generic lists *)
  let xs = new_slice r hb LAny (mixed_list (rint r 5)) in
  maybe 90 (fun () -> add "xs" xs (KL Mixed); cx.lists <- (v_ "xs", Mixed) :: cx.lists);
  (* ys: a second window over the array of xs (overlapping), or a list of its own *)
  maybe 70 (fun () ->
    let ys = match xs with
      | HvSlice (t, l, off, len, cap) when rbool r && int_of_nat cap > 0 ->
          let cap = int_of_nat cap and len = int_of_nat len and off = int_of_nat off in
          let o2 = rint r (min cap (len + 1)) in
          let l2 = rint r (cap - o2 + 1) in
          let l2 = min l2 4 in
          HvSlice (t, l, nat (off + o2), nat l2, nat (cap - o2))
      | _ -> new_slice r hb LAny (mixed_list (rint r 4)) in
    add "ys" ys (KL Mixed); cx.lists <- (v_ "ys", Mixed) :: cx.lists);
  maybe 85 (fun () -> add "ds" (new_slice r hb LAny (digits r (rint r 6))) (KL Digits); cx.lists <- (v_ "ds", Digits) :: cx.lists);
  maybe 70 (fun () -> add "ws" (new_slice r hb LAny (strs r (rint r 5))) (KL Strs); cx.lists <- (v_ "ws", Strs) :: cx.lists);
  maybe 70 (fun () -> add "ss" (new_slice r hb LStrings (strs r (rint r 5))) (KL Strs); cx.lists <- (v_ "ss", Strs) :: cx.lists);
  maybe 70 (fun () -> add "is" (new_slice r hb LInts (digits r (rint r 5))) (KL Digits); cx.lists <- (v_ "is", Digits) :: cx.lists);
  (* empty lists, with and without capacity *)
  maybe 40 (fun () ->
    let id = hb_add hb "a" (HoArr [ HvNull; HvNull; HvNull ]) in
    add "e" (HvSlice (LAny, HlOld (nat id), O, O, nat 3)) (KL Digits); cx.lists <- (v_ "e", Digits) :: cx.lists);
  maybe 25 (fun () ->
    let id = hb_add hb "a" (HoArr []) in
    add "e0" (HvSlice (LAny, HlOld (nat id), O, O, O)) (KL Digits); cx.lists <- (v_ "e0", Digits) :: cx.lists);
  (* maps *)
  let map_any () =
    let keys = distinct_keys r (rint r 4) in
    let kvs = List.map (fun kk ->
      let v = match rint r 8 with
        | 0 -> let l = new_slice r hb LAny (digits r (1 + rint r 3)) in l
        | 1 -> new_map r hb MAny [ (HvStr (b "q"), scalar r) ]
        | 2 -> new_slice r hb LStrings (strs r (1 + rint r 2))
        | _ -> scalar r in
      (HvStr (b kk), v)) keys in
    (new_map r hb MAny kvs, kvs) in
  let note_nested name kvs =
    List.iter (fun (kk, v) -> match kk, v with
      | HvStr kb, HvSlice (LAny, _, _, _, _) -> cx.lists <- (attr (v_ name) (string_of_bytes kb), Digits) :: cx.lists
      | HvStr kb, HvSlice (LStrings, _, _, _, _) -> cx.lists <- (attr (v_ name) (string_of_bytes kb), Strs) :: cx.lists
      | HvStr kb, HvMap (MAny, _) -> cx.maps <- attr (v_ name) (string_of_bytes kb) :: cx.maps
      | _ -> ()) kvs in
  maybe 85 (fun () -> let (m, kvs) = map_any () in add "m" m (KM true); cx.maps <- v_ "m" :: cx.maps; note_nested "m" kvs);
  maybe 50 (fun () -> let (m, kvs) = map_any () in add "m2" m (KM true); cx.maps <- v_ "m2" :: cx.maps; note_nested "m2" kvs);
  maybe 40 (fun () -> add "sm" (new_map r hb MStrStr (List.map (fun kk -> (HvStr (b kk), HvStr (b (pick r strs_pool)))) (distinct_keys r (rint r 4)))) (KM false));
  maybe 40 (fun () -> add "im" (new_map r hb MIntStr (List.map (fun d -> (d, HvStr (b (pick r strs_pool)))) (digits r (rint r 4)))) (KM false));
  maybe 30 (fun () -> add "si" (new_map r hb MStrInt (List.map (fun kk -> (HvStr (b kk), HvInt (z_of_int (rint r 10)))) (distinct_keys r (rint r 4)))) (KM false));
  (* structs and pointers *)
  let item () =
    let tags = new_slice r hb LAny (strs r (rint r 4)) in
    let (meta, _) = map_any () in
    HvStruct (nat 1, [ (b "Name", HvStr (b (pick r strs_pool))); (b "N", HvInt (z_of_int (rint r 10))); (b "Tags", tags); (b "Meta", meta) ]) in
  maybe 50 (fun () -> add "it" (item ()) KX;
    cx.lists <- (attr (v_ "it") "Tags", Strs) :: cx.lists; cx.maps <- attr (v_ "it") "Meta" :: cx.maps);
  maybe 50 (fun () ->
    let id = hb_add hb "" (HoCell (item ())) in add "pi" (HvPtr (HlOld (nat id))) KX;
    cx.lists <- (attr (v_ "pi") "Tags", Strs) :: cx.lists; cx.maps <- attr (v_ "pi") "Meta" :: cx.maps);
  maybe 35 (fun () ->
    let inner = hb_add hb "" (HoCell (item ())) in
    let bx = HvStruct (nat 2, [ (b "Label", HvStr (b "lbl")); (b "Items", new_slice r hb LStrings (strs r (rint r 4)));
                                (b "Nums", new_slice r hb LInts (digits r (rint r 4))); (b "Inner", HvPtr (HlOld (nat inner)));
                                (b "Any", (if rbool r then new_slice r hb LAny (digits r (rint r 4)) else scalar r)) ]) in
    add "bx" bx KX;
    cx.lists <- (attr (v_ "bx") "Items", Strs) :: (attr (v_ "bx") "Nums", Digits) :: cx.lists);
  maybe 25 (fun () ->
    let id = hb_add hb "" (HoCell (new_slice r hb LAny (digits r (rint r 4)))) in add "pl" (HvPtr (HlOld (nat id))) KX);
  maybe 25 (fun () ->
    let (m, _) = map_any () in let id = hb_add hb "" (HoCell m) in add "pm" (HvPtr (HlOld (nat id))) KX);
  (* Go arrays *)
  maybe 35 (fun () -> add "ar" (HvArr (LInts, digits r 3)) (KL Digits));
  maybe 25 (fun () -> add "as" (HvArr (LStrings, strs r 2)) (KL Strs));
  maybe 25 (fun () -> add "aa" (HvArr (LAny, [ scalar r; scalar r ])) (KL Mixed));
  (* scalars *)
  maybe 80 (fun () -> add "a" (HvInt (z_of_int (1 + rint r 9))) KS);
  maybe 70 (fun () -> add "s" (HvStr (b (pick r [| "b,a,c"; "x"; "q,k"; "" |]))) KS);
  maybe 40 (fun () -> add "t" (HvBool (rbool r)) KS);
  maybe 30 (fun () -> add "nul" HvNull KS);
  cx

let finish_context (cx : cx) : hpobj list * (string * hpobj) list * int =
  let root_kvs = List.rev_map (fun (n, v, _) -> (HvStr (b n), v)) cx.vars in
  let root = hb_add cx.hb "a" (HoMap root_kvs) in
  let tagged = hb_objs cx.hb in
  (List.map snd tagged, tagged, root)

(* ------------------------------------------------------------------ printing templates *)
let esc_str s = s   (* the generator never puts quotes or backslashes into string literals *)

let binop_s = function
  | BConcat -> "~" | BAdd -> "+" | BSub -> "-" | BEq -> "==" | BLt -> "<" | BGt -> ">" | BAnd -> "and" | BOr -> "or" | _ -> "??"

let rec pe (e : expr) : string = match e with
  | ELit LNull -> "null"
  | ELit (LBool true) -> "true" | ELit (LBool false) -> "false"
  | ELit (LInt z) -> string_of_int (int_of_z z)
  | ELit (LStr s) -> "'" ^ esc_str (string_of_bytes s) ^ "'"
  | EVar x -> string_of_bytes x
  | EAttr (o, a) -> patom o ^ "." ^ string_of_bytes a
  | EItem (o, i) -> patom o ^ "[" ^ pe i ^ "]"
  | EUn (UNot, a) -> "not " ^ (match a with EFilter _ -> "(" ^ pe a ^ ")" | _ -> patom a)
  | EUn (UNeg, a) -> "-" ^ patom a
  | EUn (UPos, a) -> "+" ^ patom a
  | EBin (o, x, y) -> patom x ^ " " ^ binop_s o ^ " " ^ patom y
  | ECond (c, t, f) -> patom c ^ " ? " ^ patom t ^ " : " ^ patom f
  | EArr es -> "[" ^ String.concat ", " (List.map pe es) ^ "]"
  | EHash kvs -> "{" ^ String.concat ", " (List.map (fun (k, v) -> pe k ^ ": " ^ pe v) kvs) ^ "}"
  | EFilter (o, f, []) -> patom o ^ "|" ^ string_of_bytes f
  | EFilter (o, f, args) -> patom o ^ "|" ^ string_of_bytes f ^ "(" ^ String.concat ", " (List.map pe args) ^ ")"
  | ECall (f, args) -> string_of_bytes f ^ "(" ^ String.concat ", " (List.map pe args) ^ ")"
  | EModCall (m, f, args) -> patom m ^ "." ^ string_of_bytes f ^ "(" ^ String.concat ", " (List.map pe args) ^ ")"
  | ETest (o, t, _, neg) -> patom o ^ (if neg then " is not " else " is ") ^ string_of_bytes t
and patom e = match e with
  | EBin _ | ECond _ | EUn _ | ETest _ -> "(" ^ pe e ^ ")"
  | _ -> pe e

let rec pn (n : node) : string = match n with
  | NText s -> string_of_bytes s
  | NVerbatim s -> "{% verbatim %}" ^ string_of_bytes s ^ "{% endverbatim %}"
  | NPrint e -> "{{ " ^ pe e ^ " }}"
  | NIf (branches, els) ->
      String.concat "" (List.mapi (fun i (c, body) -> (if i = 0 then "{% if " else "{% elseif ") ^ pe c ^ " %}" ^ pns body) branches)
      ^ (match els with Some body -> "{% else %}" ^ pns body | None -> "") ^ "{% endif %}"
  | NFor (kv, v, seq, body, els) ->
      "{% for " ^ (match kv with Some kk -> string_of_bytes kk ^ ", " | None -> "") ^ string_of_bytes v ^ " in " ^ pe seq ^ " %}" ^ pns body
      ^ (match els with Some body -> "{% else %}" ^ pns body | None -> "") ^ "{% endfor %}"
  | NSet (x, e) -> "{% set " ^ string_of_bytes x ^ " = " ^ pe e ^ " %}"
  | NDo e -> "{% do " ^ pe e ^ " %}"
  | NInclude (e, withs, ignore_missing, only, _) ->
      "{% include " ^ pe e ^ (if ignore_missing then " ignore missing" else "")
      ^ (match withs with Some w -> " with " ^ pe w | None -> "") ^ (if only then " only" else "") ^ " %}"
  | NMacro (name, params, body) ->
      "{% macro " ^ string_of_bytes name ^ "(" ^ String.concat ", " (List.map (fun (p, d) ->
          string_of_bytes p ^ (match d with Some e -> " = " ^ pe e | None -> "")) params) ^ ") %}" ^ pns body ^ "{% endmacro %}"
  | NApply (f, [], body) -> "{% apply " ^ string_of_bytes f ^ " %}" ^ pns body ^ "{% endapply %}"
  | NApply (f, args, body) -> "{% apply " ^ string_of_bytes f ^ "(" ^ String.concat ", " (List.map pe args) ^ ") %}" ^ pns body ^ "{% endapply %}"
  | _ -> "{# unsupported #}"
and pns ns = String.concat "" (List.map pn ns)

(* ------------------------------------------------------------------ random templates *)
type env = { vars : (string * k) list; lists : (expr * ek) list; maps : expr list; macros : (string * int) list; in_loop : bool; poke : bool; no_inc : bool }

let join_ek a b = if a = b then a else Mixed

let small_lit r = if rbool r then lint (rint r 10) else lstr (pick r strs_pool)

let rec gen_list r (env : env) depth : expr * ek =
  let base () =
    if env.lists <> [] && rint r 10 < 9 then pickl r env.lists
    else match rint r 4 with
      | 0 -> (EArr (List.init (rint r 4) (fun _ -> lint (rint r 10))), Mixed)
      | 1 -> (call "range" [ lint (rint r 3); lint (2 + rint r 5) ], Digits)
      | 2 -> (filt (lstr "b,a,c") "split" [ lstr "," ], Strs)
      | _ -> (EArr [], Digits) in
  if depth <= 0 then base ()
  else
    let (l, ek) = gen_list r env (depth - 1) in
    match rint r 16 with
    | 0 | 1 -> if ek <> Mixed then (filt l "sort" [], ek) else (filt l "reverse" [], ek)
    | 2 | 3 -> (filt l "reverse" [], ek)
    | 4 | 5 -> (filt l "slice" [ lint (rrange r (-3) 4); lint (rrange r (-2) 4) ], ek)
    | 6 -> (filt l "slice" [ lint (rrange r (-2) 3) ], ek)
    | 7 -> let (l2, ek2) = gen_list r env 0 in (filt l "merge" [ l2 ], join_ek ek ek2)
    | 8 -> (filt l "merge" [ EArr [ small_lit r ] ], Mixed)
    | 9 -> let (l2, ek2) = gen_list r env 0 in (filt l "default" [ l2 ], join_ek ek ek2)
    | 10 -> (filt l "raw" [], ek)
    | 11 -> let (l2, ek2) = gen_list r env 0 in (call "merge" [ l; l2 ], join_ek ek ek2)
    | 12 -> if env.maps <> [] then (filt (pickl r env.maps) "keys" [], Strs) else (l, ek)
    | 13 | 14 ->
        (* a chain: a filter that hands its input through, then one that must build its own result *)
        let pt = match rint r 4 with
          | 0 -> filt l "default" [ EArr [] ] | 1 -> filt l "raw" [] | 2 -> filt l "slice" [ lint 0 ] | _ -> filt (filt l "raw" []) "default" [ EArr [ lint 1 ] ] in
        (match rint r 5 with
         | 0 -> (filt pt "merge" [ EArr [ small_lit r ] ], Mixed)
         | 1 -> if ek <> Mixed then (filt pt "sort" [], ek) else (filt pt "reverse" [], ek)
         | 2 -> (filt pt "reverse" [], ek)
         | 3 -> (filt pt "slice" [ lint (rint r 2); lint (1 + rint r 3) ], ek)
         | _ -> (filt (filt pt "merge" [ EArr [ small_lit r ] ]) "merge" [ EArr [ small_lit r ] ], Mixed))
    | _ -> base ()

let gen_map r (env : env) depth : expr =
  let base () = if env.maps <> [] && rint r 10 < 8 then pickl r env.maps
    else EHash [ (lstr (pick r key_pool), small_lit r) ] in
  (* hashes reached through a filter that hands its input, or an element of it, through *)
  let passed () =
    let m = base () in
    match rint r 5 with
    | 0 -> filt m "default" [ EHash [] ]
    | 1 -> filt m "raw" []
    | 2 -> filt (filt m "raw" []) "default" [ EHash [ (lstr "d", lint 1) ] ]
    | 3 -> filt (EArr [ m; m ]) (pick r [| "first"; "last" |]) []
    | _ -> (match List.filter (fun (_, ek) -> ek = Mixed) env.lists with
            | [] -> filt m "raw" []
            | ls -> filt (fst (pickl r ls)) (pick r [| "first"; "last" |]) []) in
  if depth <= 0 then base ()
  else match rint r 8 with
    | 5 | 6 -> filt (passed ()) "merge" [ EHash [ (lstr (pick r [| "color"; "k"; "j"; "sel" |]), small_lit r) ] ]
    | 7 -> filt (filt (passed ()) "merge" [ EHash [ (lstr "c1", small_lit r) ] ]) "merge" [ base () ]
    | 0 -> filt (base ()) "merge" [ EHash [ (lstr (pick r key_pool), small_lit r); (lstr "w", small_lit r) ] ]
    | 1 -> filt (base ()) "merge" [ base () ]
    | 2 -> call "merge" [ base (); base () ]
    | 3 -> filt (base ()) "default" [ base () ]
    | _ -> base ()

let any_value r (env : env) : expr =
  match rint r 6 with
  | 0 | 1 | 2 -> fst (gen_list r env (rint r 3))
  | 3 | 4 -> gen_map r env (rint r 2)
  | _ -> (match env.vars with [] -> lint 1 | vs -> v_ (fst (pickl r vs)))

let gen_scalar r (env : env) : expr =
  match rint r 12 with
  | 0 -> small_lit r
  | 1 | 2 | 3 -> join (fst (gen_list r env (rint r 3)))
  | 4 -> filt (fst (gen_list r env (rint r 2))) "length" []
  | 5 -> join (filt (gen_map r env (rint r 2)) "keys" [])
  | 6 -> (match env.vars with [] -> lint 1 | vs -> let (n, kk) = pickl r vs in (match kk with KS -> v_ n | KL _ -> join (v_ n) | _ -> call "verif_alias" [ v_ n ]))
  | 7 -> call "verif_alias" [ any_value r env ]
  | 8 -> if env.in_loop then attr (v_ "loop") (pick r [| "index"; "index0"; "revindex"; "first"; "last"; "length" |]) else call "verif_alias" [ any_value r env ]
  | 9 -> EBin (BConcat, small_lit r, join (fst (gen_list r env 1)))
  | 10 -> call "verif_alias" [ filt (fst (gen_list r env 1)) (pick r [| "first"; "last" |]) [] ]
  | _ -> (if rint r 4 = 0 then fst (gen_list r env 1) else filt (join (fst (gen_list r env 1))) "upper" [])

let set_names = [| "xs"; "ys"; "ds"; "m"; "t1"; "t2"; "t3"; "a"; "s"; "it"; "ws" |]

let rec gen_nodes r (env : env) depth n : node list * env =
  if n <= 0 then ([], env)
  else
    let (xs, env1) = gen_node_list r env depth in
    let (rest, env2) = gen_nodes r env1 depth (n - 1) in
    (xs @ rest, env2)

(* the hand-written parser of include ... with {..} accepts no comma inside a value: values with arguments are stored by a set first *)
and gen_node_list r (env : env) depth : node list * env =
  let (x, env1) = gen_node r env depth in
  match x with
  | NInclude (e, Some (EHash kvs), im, only, sb) ->
      let simple v = (match v with
        | EVar _ | EAttr (EVar _, _) | ELit _ -> true
        | EFilter ((EVar _ | EAttr (EVar _, _)), _, []) -> true
        | _ -> false) in
      let sets = ref [] in
      let kvs' = List.mapi (fun i (kk, v) ->
        if simple v then (kk, v)
        else begin let tmp = Printf.sprintf "w%d" i in sets := NSet (b tmp, v) :: !sets; (kk, v_ tmp) end) kvs in
      (List.rev !sets @ [ NInclude (e, Some (EHash kvs'), im, only, sb) ], env1)
  | _ -> ([ x ], env1)

and gen_node r (env : env) depth : node * env =
  let bind env name kk e =
    let vars = (name, kk) :: List.remove_assoc name env.vars in
    let drop l = List.filter (fun (x, _) -> x <> v_ name) l in
    let lists = match kk with KL ek -> (v_ name, ek) :: drop env.lists | _ -> drop env.lists in
    let maps = List.filter (fun x -> x <> v_ name) env.maps in
    let maps = match kk with KM true -> v_ name :: maps | _ -> maps in
    ignore e; { env with vars; lists; maps } in
  let choice = rint r (if depth <= 0 then 9 else 16) in
  match choice with
  | 0 -> (NText (b (pick r [| "|"; " "; ";"; "-"; "/" |])), env)
  | 1 | 2 | 3 -> (NPrint (gen_scalar r env), env)
  | 4 | 5 ->
      let name = pick r set_names in
      let (l, ek) = gen_list r env (rint r 3) in (NSet (b name, l), bind env name (KL ek) l)
  | 6 -> let name = pick r set_names in let m = gen_map r env (rint r 2) in (NSet (b name, m), bind env name (KM true) m)
  | 7 -> let name = pick r set_names in (NSet (b name, gen_scalar r env), bind env name KS (lint 0))
  | 8 ->
      if env.poke then (NPrint (call "verif_poke" [ any_value r env ]), env)
      else (NDo (fst (gen_list r env 2)), env)
  | 9 | 10 ->
      (* for *)
      let over_map = env.maps <> [] && rint r 4 = 0 in
      let seq = if over_map then gen_map r env 1 else fst (gen_list r env (rint r 3)) in
      let vname = pick r [| "x"; "y"; "xs"; "a"; "m" |] in
      let kname = if rint r 3 = 0 then Some (pick r [| "i"; "kk"; "s" |]) else None in
      let benv = bind { env with in_loop = true } vname KX (lint 0) in
      let benv = match kname with Some kk -> bind benv kk KS (lint 0) | None -> benv in
      let (body, benv') = gen_nodes r benv (depth - 1) (1 + rint r 3) in
      let body = if rint r 3 = 0 then body else NPrint (call "verif_alias" [ v_ vname ]) :: body in
      let els = if rint r 4 = 0 then Some [ NText (b "EMPTY") ] else None in
      (NFor (Option.map b kname, b vname, seq, body, els), { benv' with in_loop = env.in_loop })
  | 11 ->
      let c = match rint r 4 with
        | 0 -> fst (gen_list r env 1)
        | 1 -> EBin (BGt, filt (fst (gen_list r env 1)) "length" [], lint (rint r 3))
        | 2 -> gen_map r env 0
        | _ -> EUn (UNot, fst (gen_list r env 1)) in
      let (tb, _) = gen_nodes r env (depth - 1) (1 + rint r 2) in
      let els = if rbool r then Some (fst (gen_nodes r env (depth - 1) (1 + rint r 2))) else None in
      (NIf ([ (c, tb) ], els), env)
  | 12 | 13 when not env.no_inc ->
      let inc = pick r [| "inc1"; "inc2"; "inc3" |] in
      let withs = if rint r 3 = 0 then None
        else begin
          let names = Array.to_list (Array.sub (shuffle r [| "xs"; "m"; "a"; "ys"; "w1" |]) 0 (1 + rint r 2)) in
          Some (EHash (List.map (fun nm -> (lstr nm, any_value r env)) names)) end in
      (NInclude (lstr inc, withs, false, rint r 4 = 0, false), env)
  | 12 | 13 -> (NPrint (gen_scalar r env), env)
  | 14 ->
      (match env.macros with
       | [] -> (NPrint (gen_scalar r env), env)
       | ms -> let (name, arity) = pickl r ms in
               let nargs = max 0 (arity - rint r 2) in
               (NPrint (call name (List.init nargs (fun _ -> any_value r env))), env))
  | _ ->
      let (body, _) = gen_nodes r env (depth - 1) (1 + rint r 2) in
      (NApply (b "upper", [], body), env)

(* the macros every main template starts with: they print and reassign their parameters *)
let gen_macros r (env : env) : node list * (string * int) list =
  let mk name params =
    let penv = List.fold_left (fun e (p, kk) -> { e with vars = (p, kk) :: e.vars;
                                                         lists = (match kk with KL ek -> (v_ p, ek) :: e.lists | _ -> e.lists);
                                                         maps = (match kk with KM true -> v_ p :: e.maps | _ -> e.maps) })
                 { env with macros = [] } params in
    let p0 = fst (List.hd params) in
    let body = [ NPrint (call "verif_alias" [ v_ p0 ]);
                 NSet (b p0, (match snd (List.hd params) with
                              | KM _ -> filt (v_ p0) "merge" [ EHash [ (lstr "mk", lint 1) ] ]
                              | _ -> filt (v_ p0) "merge" [ EArr [ lint 5 ] ])) ]
               @ fst (gen_nodes r penv 1 (1 + rint r 2)) in
    NMacro (b name, List.map (fun (p, _) -> (b p, if rint r 3 = 0 then Some (EArr [ lint 1; lint 2 ]) else None)) params, body) in
  let m1 = mk "mac1" [ ("p", KL Mixed); ("q", KX) ] in
  let m2 = mk "mac2" [ ("xs", KM true) ] in
  ([ m1; m2 ], [ ("mac1", 2); ("mac2", 1) ])

(* ------------------------------------------------------------------ emission *)
let errclass_s = function ENotFound -> "not-found" | ESecurity -> "security" | EParse -> "parse" | ESentinel _ -> "sentinel" | EOther -> "other"

let heap_desc (h : hpobj list) : json =
  match hp_describe_old { hs_old = h; hs_new = [] } with
  | Some l -> JL (List.map (fun d -> JS (hexb d)) l)
  | None -> JS "undescribable"

let emit_render oc ~stream ~(tagged : (string * hpobj) list) ~(heap : hpobj list) ~root ~(tpls : (string * node list) list) ~poke =
  let mt = List.map (fun (n, ns) -> (b n, ns)) tpls in
  let res = (if poke then render_heap_poke else render_heap) (nat 80) mt (b "main") (nat root) heap in
  let exp = match res with
    | Ok (out, h') -> Ob ([ "out", JS (hexb out) ] @ (if poke then [ "heap", heap_desc h' ] else []))
    | Err c -> Ob [ "err", JS (errclass_s c) ]
    | OutOfFuel -> Ob [ "skip", JS "fuel" ]
    | Unmodelled -> Ob [ "skip", JS "unmodelled" ] in
  emit oc (Ob [ "kind", JS "render"; "stream", JS stream; "heap", JL (List.map jo tagged); "root", JI root;
                "tpls", JL (List.map (fun (n, ns) -> JL [ JS n; JS (hex (pns ns)) ]) tpls); "main", JS "main";
                "poke", JB poke; "exp", exp ])

let emit_probe oc ~stream ~(tagged : (string * hpobj) list) ~(heap : hpobj list) ~(v : hpval) ~(filter : string) ~(args : hpval list) =
  let exp = match hp_probe_filter (b filter) v args heap with
    | Ok (res, st) -> (match hp_describe hp_fmt_fuel st res with
                       | Some d -> Ob [ "desc", JS (hexb d) ]
                       | None -> Ob [ "skip", JS "undescribable" ])
    | Err c -> Ob [ "err", JS (errclass_s c) ]
    | OutOfFuel -> Ob [ "skip", JS "fuel" ]
    | Unmodelled -> Ob [ "skip", JS "unmodelled" ] in
  emit oc (Ob [ "kind", JS "probe"; "stream", JS stream; "heap", JL (List.map jo tagged); "v", jv v; "filter", JS filter;
                "args", JL (List.map jv args); "exp", exp ])

(* ------------------------------------------------------------------ the fixed catalogue *)
(* a context with every kind of value; the names are used by the catalogue below *)
let fixed_context () =
  let hb = hb_new () in
  let arr tag xs = hb_add hb tag (HoArr xs) in
  let i n = HvInt (z_of_int n) and s x = HvStr (b x) in
  let a0 = arr "a" [ i 3; i 1; i 2; HvNull; HvNull; HvNull ] in                      (* xs = a0[0:3] cap 6 ; ys = a0[1:3] cap 5 *)
  let xs = HvSlice (LAny, HlOld (nat a0), nat 0, nat 3, nat 6) in
  let ys = HvSlice (LAny, HlOld (nat a0), nat 1, nat 2, nat 5) in
  let a1 = arr "a" [ s "stale"; s "b"; s "a"; s "c"; s "stale2" ] in                   (* ws = a1[1:4] cap 4 *)
  let ws = HvSlice (LAny, HlOld (nat a1), nat 1, nat 3, nat 4) in
  let a2 = arr "s" [ s "y"; s "x"; s "z"; s "" ] in
  let ss = HvSlice (LStrings, HlOld (nat a2), nat 0, nat 3, nat 4) in
  let a3 = arr "i" [ i 9; i 4; i 7; i 0; i 0 ] in
  let is_ = HvSlice (LInts, HlOld (nat a3), nat 0, nat 3, nat 5) in
  let a4 = arr "a" [ HvNull; HvNull ] in
  let e = HvSlice (LAny, HlOld (nat a4), nat 0, nat 0, nat 2) in
  let a5 = arr "a" [ i 1; i 2 ] in
  let inner_list = HvSlice (LAny, HlOld (nat a5), nat 0, nat 2, nat 2) in
  let im_ = hb_add hb "a" (HoMap [ (s "q", i 7) ]) in
  let inner_map = HvMap (MAny, HlOld (nat im_)) in
  let m_ = hb_add hb "a" (HoMap [ (s "k", i 1); (s "j", inner_list); (s "b", inner_map) ]) in
  let m = HvMap (MAny, HlOld (nat m_)) in
  let a6 = arr "a" [ inner_list; inner_map; i 5; HvNull ] in                           (* ns: a list of nested collections *)
  let ns = HvSlice (LAny, HlOld (nat a6), nat 0, nat 3, nat 4) in
  let sm_ = hb_add hb "ss" (HoMap [ (s "b", s "y"); (s "a", s "x") ]) in
  let imm = hb_add hb "is" (HoMap [ (i 2, s "two"); (i 1, s "one") ]) in
  let a7 = arr "a" [ s "t1"; s "t2"; HvNull ] in
  let tags = HvSlice (LAny, HlOld (nat a7), nat 0, nat 2, nat 3) in
  let meta_ = hb_add hb "a" (HoMap [ (s "q", i 1) ]) in
  let item = HvStruct (nat 1, [ (b "Name", s "nm"); (b "N", i 4); (b "Tags", tags); (b "Meta", HvMap (MAny, HlOld (nat meta_))) ]) in
  let pi_ = hb_add hb "" (HoCell item) in
  let pl_ = hb_add hb "" (HoCell xs) in
  let pm_ = hb_add hb "" (HoCell m) in
  let row1 = hb_add hb "a" (HoMap [ (s "id", i 1); (s "tags", inner_list) ]) in
  let row2 = hb_add hb "a" (HoMap [ (s "id", i 2) ]) in
  let a8 = arr "a" [ HvMap (MAny, HlOld (nat row1)); HvMap (MAny, HlOld (nat row2)); HvNull ] in
  let rows = HvSlice (LAny, HlOld (nat a8), nat 0, nat 2, nat 3) in
  let opts_ = hb_add hb "a" (HoMap [ (s "size", i 3); (s "nested", inner_map) ]) in
  let opts = HvMap (MAny, HlOld (nat opts_)) in
  let vars = [ ("rows", rows); ("options", opts); ("xs", xs); ("ys", ys); ("ws", ws); ("ss", ss); ("is", is_); ("e", e); ("m", m); ("ns", ns);
               ("sm", HvMap (MStrStr, HlOld (nat sm_))); ("im", HvMap (MIntStr, HlOld (nat imm)));
               ("it", item); ("pi", HvPtr (HlOld (nat pi_))); ("pl", HvPtr (HlOld (nat pl_))); ("pm", HvPtr (HlOld (nat pm_)));
               ("ar", HvArr (LInts, [ i 3; i 1; i 2 ])); ("aa", HvArr (LAny, [ s "u"; inner_list ]));
               ("a", i 1); ("s", s "b,a,c"); ("nul", HvNull) ] in
  let root = hb_add hb "a" (HoMap (List.map (fun (n, v) -> (s n, v)) vars)) in
  let tagged = hb_objs hb in
  (tagged, List.map snd tagged, root, vars)

let catalogue_templates : (string * node list) list =
  let p e = NPrint e and t s = NText (b s) in
  let al e = NPrint (call "verif_alias" [ e ]) in
  let set x e = NSet (b x, e) in
  let lists = [ "xs"; "ys"; "ws"; "ss"; "is"; "e"; "ar"; "aa"; "ns" ] in
  let per_list f = List.concat_map (fun l -> [ t (l ^ ":"); f (v_ l); t ";" ]) lists in
  [ "every-filter-alias", per_list (fun l -> al (filt l "sort" [])) @ per_list (fun l -> al (filt l "reverse" []))
      @ per_list (fun l -> al (filt l "slice" [ lint 1; lint 1 ])) @ per_list (fun l -> al (filt l "slice" [ lint 0 ]))
      @ per_list (fun l -> al (filt l "merge" [ EArr [ lint 7 ] ])) @ per_list (fun l -> al (filt l "first" []))
      @ per_list (fun l -> al (filt l "last" [])) @ per_list (fun l -> al (filt l "default" [ EArr [ lint 1 ] ]))
      @ per_list (fun l -> al (filt l "raw" [])) @ per_list (fun l -> p (filt l "length" []))
      @ [ al (filt (v_ "m") "keys" []); al (filt (v_ "sm") "keys" []); al (filt (v_ "im") "keys" []); al (filt (v_ "pm") "keys" []);
          al (filt (v_ "m") "merge" [ EHash [ (lstr "z", lint 1) ] ]); al (filt (v_ "m") "first" []); al (filt (v_ "s") "split" [ lstr "," ]);
          al (filt (v_ "a") "merge" [ v_ "xs" ]); al (filt (v_ "pi") "merge" [ v_ "xs" ]); al (call "merge" [ v_ "xs"; v_ "ss" ]);
          al (call "merge" [ v_ "m"; EHash [ (lstr "z", lint 1) ] ]); al (call "range" [ lint 1; lint 3 ]); al (call "cycle" [ v_ "ns"; lint 1 ]);
          al (attr (v_ "m") "j"); al (EItem (v_ "ns", lint 0)); al (attr (v_ "it") "Tags"); al (attr (v_ "pi") "Meta"); al (v_ "pl");
          al (filt (v_ "nul") "default" [ v_ "xs" ]); al (filt (v_ "e") "default" [ v_ "m" ]) ];
    "filters-twice", [ set "r1" (filt (v_ "xs") "sort" []); set "r2" (filt (v_ "xs") "reverse" []); set "r3" (filt (v_ "xs") "slice" [ lint 0; lint 2 ]);
                       p (join (filt (v_ "xs") "sort" [])); p (join (filt (filt (v_ "xs") "reverse" []) "sort" [])); t "|";
                       p (join (v_ "r1")); t "|"; p (join (v_ "r2")); t "|"; p (join (v_ "r3")); t "|";
                       set "r4" (filt (v_ "r3") "merge" [ EArr [ lint 8; lint 9 ] ]); p (join (v_ "r4")); t "|"; p (join (v_ "r3")); t "|"; p (join (v_ "xs"));
                       t "|"; al (v_ "r3"); al (v_ "r4"); al (filt (v_ "r3") "sort" []); al (filt (filt (v_ "r3") "slice" [ lint 1 ]) "slice" [ lint 0; lint 3 ]) ];
    "set-then-filter-original", [ set "s1" (filt (v_ "ws") "slice" [ lint 0; lint 2 ]); p (join (filt (v_ "ws") "sort" [])); p (join (v_ "s1"));
                                  set "ws" (filt (v_ "ws") "reverse" []); p (join (v_ "ws")); p (join (v_ "s1")); al (v_ "ws") ];
    "loops", [ NFor (None, b "x", v_ "xs", [ p (attr (v_ "loop") "index"); p (v_ "x"); set "a" (v_ "x");
                                             NFor (Some (b "kk"), b "xs", attr (v_ "m") "j", [ p (attr (v_ "loop") "index"); p (v_ "kk"); p (v_ "xs") ], None);
                                             p (attr (v_ "loop") "index") ], None);
               p (v_ "a"); al (v_ "xs"); al (v_ "x");
               NFor (Some (b "kk"), b "vv", v_ "m", [ p (v_ "kk"); t "="; al (v_ "vv"); set "m" (v_ "vv") ], None); al (v_ "m");
               NFor (None, b "x", filt (v_ "ss") "sort" [], [ p (v_ "x"); p (attr (v_ "loop") "last") ], None);
               NFor (None, b "x", v_ "is", [ p (v_ "x") ], None); NFor (None, b "x", v_ "ar", [ p (v_ "x") ], None);
               NFor (None, b "x", v_ "e", [ p (v_ "x") ], Some [ t "none" ]); NFor (None, b "c", v_ "s", [ p (v_ "c"); t "." ], None);
               NFor (None, b "x", v_ "im", [ p (v_ "x") ], None);
               set "lp" (lint 0); NFor (None, b "x", v_ "ys", [ set "lp" (v_ "loop") ], None); p (attr (v_ "lp") "index") ];
    "include-with", [ NInclude (lstr "inc1", Some (EHash [ (lstr "xs", filt (v_ "xs") "reverse" []); (lstr "m", v_ "m") ]), false, false, false); t "|"; p (join (v_ "xs"));
                      NInclude (lstr "inc1", None, false, false, false); t "|";
                      NInclude (lstr "inc1", Some (EHash [ (lstr "xs", v_ "ys") ]), false, true, false); t "|"; p (v_ "a"); al (v_ "m");
                      NInclude (lstr "missing", None, true, false, false);
                      (* a different map and a different list passed under the names of context variables *)
                      set "w0" (EHash [ (lstr "nk", lint 1) ]); set "w1" (filt (v_ "ws") "slice" [ lint 0; lint 1 ]);
                      NInclude (lstr "inc1", Some (EHash [ (lstr "m", v_ "w0"); (lstr "xs", v_ "w1") ]), false, false, false); al (v_ "m"); al (v_ "xs"); al (v_ "ws") ];
    "macros", [ NMacro (b "mm", [ (b "z", None); (b "o", Some (EArr [ lint 4 ])) ],
                        [ al (v_ "z"); set "z" (filt (v_ "z") "merge" [ v_ "o" ]); p (join (v_ "z")); set "xs" (lint 0); p (v_ "xs"); p (join (v_ "ys")) ]);
                p (call "mm" [ v_ "xs" ]); t "|"; p (call "mm" [ v_ "ws"; v_ "ss" ]); t "|"; p (call "mm" []); t "|"; p (join (v_ "xs")) ];
    "apply-do", [ NApply (b "upper", [], [ p (join (v_ "ws")); set "ws" (lint 1) ]); p (v_ "ws"); NDo (filt (v_ "xs") "sort" []); p (join (v_ "xs")) ];
    "pass-through-chains",
      (let maps = [ v_ "options"; attr (v_ "options") "nested"; v_ "m"; attr (v_ "m") "b"; attr (v_ "it") "Meta"; attr (v_ "pi") "Meta";
                    filt (v_ "rows") "first" []; filt (v_ "rows") "last" []; EItem (v_ "ns", lint 1); EItem (v_ "rows", lint 0) ] in
       let pass_m = [ (fun e -> filt e "default" [ EHash [] ]); (fun e -> filt e "raw" []); (fun e -> filt (filt e "raw" []) "default" [ EHash [ (lstr "d", lint 1) ] ]);
                      (fun e -> filt (EArr [ e ]) "first" []); (fun e -> filt (EArr [ e; e ]) "last" []) ] in
       let lists = [ v_ "xs"; v_ "ws"; v_ "rows"; attr (v_ "m") "j"; attr (v_ "it") "Tags"; attr (v_ "pi") "Tags"; v_ "ys" ] in
       let pass_l = [ (fun e -> filt e "default" [ EArr [] ]); (fun e -> filt e "raw" []); (fun e -> filt e "slice" [ lint 0 ]); (fun e -> filt (EArr [ e ]) "first" []) ] in
       let build_l = [ (fun e -> filt e "merge" [ EArr [ lint 9 ] ]); (fun e -> filt e "reverse" []); (fun e -> filt e "slice" [ lint 0; lint 2 ]);
                       (fun e -> filt (filt e "merge" [ EArr [ lint 8 ] ]) "merge" [ EArr [ lint 7 ] ]) ] in
       List.concat_map (fun mexp -> List.concat_map (fun pf ->
           [ p (join (filt (filt (pf mexp) "merge" [ EHash [ (lstr "color", lstr "red") ] ]) "keys" [])); t ";";
             set "r" (filt (pf mexp) "merge" [ EHash [ (lstr "selected", ELit (LBool true)) ] ]); al (v_ "r"); t ";";
             set "r2" (filt (filt (pf mexp) "merge" [ EHash [ (lstr "c1", lint 1) ] ]) "merge" [ v_ "options" ]); p (join (filt (v_ "r2") "keys" [])); t ";";
             al mexp; t "|" ]) pass_m) maps
       @ List.concat_map (fun lexp -> List.concat_map (fun pf -> List.concat_map (fun bf ->
           [ al (bf (pf lexp)); set "r" (bf (pf lexp)); p (filt (v_ "r") "length" []); t ";" ]) build_l @ [ al lexp; t "|" ]) pass_l) lists
       @ [ p (join (filt (filt (filt (v_ "ws") "raw" []) "default" [ EArr [] ]) "sort" [])); p (join (filt (filt (filt (v_ "m") "raw" []) "default" [ EHash [] ]) "keys" [])) ]);
    "print-raw", [ p (v_ "xs"); p (v_ "m"); p (v_ "ss"); p (v_ "im"); p (v_ "it"); p (v_ "pi"); p (v_ "ar"); p (v_ "ns"); p (v_ "nul"); p (v_ "e") ] ]

let inc_templates r (env : env) : (string * node list) list =
  [ "inc1", [ NText (b "["); NPrint (join (v_ "xs")); NPrint (call "verif_alias" [ v_ "m" ]); NSet (b "xs", filt (v_ "xs") "merge" [ EArr [ lint 0 ] ]);
              NSet (b "a", lint 9); NPrint (join (v_ "xs")); NText (b "]") ];
    "inc2", fst (gen_nodes r { env with macros = []; no_inc = true } 1 (2 + rint r 3));
    "inc3", [ NFor (None, b "x", v_ "ys", [ NPrint (call "verif_alias" [ v_ "x" ]); NSet (b "ys", v_ "x") ], None); NPrint (call "verif_alias" [ v_ "ys" ]) ] ]

let filters_for_probe = [| "sort"; "reverse"; "slice"; "merge"; "keys"; "default"; "raw"; "first"; "last"; "join"; "split"; "length"; "upper" |]

let run ~seed ~tier oc =
  let r = mk_rng seed in
  let thorough = tier = "thorough" in
  (* ---- fixed catalogue: renders *)
  let (tagged, heap, root, vars) = fixed_context () in
  let env0 = { vars = List.map (fun (n, _) -> (n, KX)) vars; lists = [ (v_ "xs", Mixed); (v_ "ws", Strs); (v_ "ss", Strs); (v_ "is", Digits) ];
               maps = [ v_ "m" ]; macros = []; in_loop = false; poke = false; no_inc = false } in
  let incs = inc_templates r env0 in
  List.iter (fun (name, ns) ->
    emit_render oc ~stream:("fixed:" ^ name) ~tagged ~heap ~root ~tpls:(("main", ns) :: incs) ~poke:false) catalogue_templates;
  (* the writing callback on the result of every filter: where does the write land *)
  List.iter (fun l ->
    List.iter (fun (f, args) ->
      let ns = [ NSet (b "r", filt (v_ l) f args); NPrint (call "verif_poke" [ v_ "r" ]); NPrint (call "verif_alias" [ v_ "r" ]); NPrint (call "verif_alias" [ v_ l ]) ] in
      emit_render oc ~stream:("fixed:poke:" ^ f) ~tagged ~heap ~root ~tpls:[ ("main", ns) ] ~poke:true)
      [ ("sort", []); ("reverse", []); ("slice", [ lint 0; lint 2 ]); ("slice", [ lint 1 ]); ("slice", [ lint 1; lint 0 ]); ("merge", [ EArr [ lint 7 ] ]);
        ("default", [ EArr [] ]); ("raw", []); ("first", []); ("last", []) ])
    [ "xs"; "ys"; "ws"; "ss"; "e"; "ns"; "m" ];
  (* ---- fixed catalogue: probes through the Go API, every filter on every value of the context *)
  List.iter (fun (_, v) ->
    Array.iter (fun f ->
      let argss = match f with
        | "slice" -> [ [ HvInt (z_of_int 0); HvInt (z_of_int 2) ]; [ HvInt (z_of_int 1) ]; [ HvInt (z_of_int (-2)); HvInt (z_of_int 1) ]; [ HvInt (z_of_int 5) ]; [ HvInt (z_of_int 1); HvInt (z_of_int 0) ] ]
        | "merge" -> [ [ List.assoc "ys" vars ]; [ List.assoc "m" vars ]; [] ]
        | "default" -> [ [ List.assoc "xs" vars ]; [] ]
        | "join" | "split" -> [ [ HvStr (b ",") ] ]
        | _ -> [ [] ] in
      List.iter (fun args -> emit_probe oc ~stream:"fixed:probe" ~tagged ~heap ~v ~filter:f ~args) argss) filters_for_probe) vars;
  (* ---- random contexts and templates *)
  let n_render = if thorough then 12000 else 700 in
  for i = 1 to n_render do
    let cx = gen_context r in
    let (heap, tagged, root) = finish_context cx in
    let poke = i mod 8 = 0 in
    let env = { vars = List.map (fun (n, _, kk) -> (n, kk)) cx.vars; lists = cx.lists; maps = cx.maps; macros = []; in_loop = false; poke; no_inc = false } in
    let (macros, sigs) = if rint r 3 = 0 then gen_macros r env else ([], []) in
    let env = { env with macros = sigs } in
    let (body, _) = gen_nodes r env (1 + rint r 2) (2 + rint r (if thorough && rint r 10 = 0 then 7 else 5)) in
    let incs = inc_templates r { env with poke = false } in
    emit_render oc ~stream:(if poke then "random:poke" else "random") ~tagged ~heap ~root ~tpls:(("main", macros @ body) :: incs) ~poke
  done;
  (* ---- random probes *)
  let n_probe = if thorough then 20000 else 1500 in
  for _ = 1 to n_probe do
    let cx = gen_context r in
    let (heap, tagged, _) = finish_context cx in
    let vals = List.map (fun (_, v, _) -> v) cx.vars in
    if vals <> [] then begin
      let v = pickl r vals in
      let f = pick r filters_for_probe in
      let args = match f with
        | "slice" -> if rint r 3 = 0 then [ HvInt (z_of_int (rrange r (-4) 5)) ] else [ HvInt (z_of_int (rrange r (-4) 5)); HvInt (z_of_int (rrange r (-3) 5)) ]
        | "merge" | "default" -> List.init (rint r 3) (fun _ -> pickl r vals)
        | "join" | "split" -> [ HvStr (b ",") ]
        | _ -> [] in
      emit_probe oc ~stream:"random:probe" ~tagged ~heap ~v ~filter:f ~args
    end
  done
